(* C16 SPEC (definitions only) for column-level delta soundness: the SQL type of a model column through the chain of
   references (`is_typing`), the schema relation that does not constrain the sequence default of a column that is
   not ~autoinc (`tab_ok'`, `cat_holds`), and the scope of the theorem (`edits_in_scope` = none of the known-finding
   kinds (1)-(3); `drops_unreferenced` = kind (4)). *)
From Coq Require Import String List NArith PArith Bool Permutation.
Import ListNotations.
Require Import Verif.Db.Depth Verif.Db.DepthProps Verif.Gen.DbTables Verif.Db.Script Verif.Db.SqlInterp
  Verif.Db.CatalogProps.

(* ~autoinc counts only on a column that is not a reference (writeCreateSQLForAColumn / writeModifySQLForAColumn look at
   isAutoIncrement in the non-reference branch only) *)
Definition eauto (c:col) : bool := match cref c with None => cauto c | Some _ => false end.

(* what the SQL type of column (table, column) is in a model: mapped primitive, bigint for ~autoinc, the type of the
   referenced column for a reference.  A solution exists for every model whose references resolve and are acyclic
   (`mty` computes it); it is a parameter of the theorems, like the depth function. *)
Definition plain_ty (c:col) : sqlty := if cauto c then TBigint else col_pg_type c.
Definition is_typing (m:model) (ty:name * name -> sqlty) : Prop :=
  forall tb c, In tb m -> In c (tcols tb) ->
    ty (tname tb, cname c) = match cref c with Some r => ty r | None => plain_ty c end.

Fixpoint mty (m:model) (fuel:nat) (k:name * name) : sqlty :=
  match fuel with
  | O => TEmpty
  | S f =>
      match find_table m (fst k) with
      | None => TEmpty
      | Some tb =>
          match find_col tb (snd k) with
          | None => TEmpty
          | Some c => match cref c with Some r => mty m f r | None => plain_ty c end
          end
      end
  end.

(* ---- the schema relation: as tab_ok, but the DEFAULT of a column that is not ~autoinc is free (a column that loses
   ~autoinc keeps its default; the oracle of the harness does not demand defaults either) ---- *)
Definition col_ok' (cat:catalog) (c:col) (cc:ccol) : Prop :=
  valid_stored (ccty cc) = true /\
  match cref c with
  | Some (rt, rc) => cat_col_ty cat rt rc = Some (ccty cc)
  | None => if cauto c then ccty cc = TBigint /\ ccdef cc = true else ccty cc = col_pg_type c
  end.

Definition tab_ok' (cat:catalog) (tb:table) : Prop :=
  exists ct, cat_find cat (tname tb) = Some ct /\
    Permutation (map ccname (ctcols ct)) (map cname (tcols tb)) /\
    (forall c, In c (tcols tb) -> exists cc, cat_col cat (tname tb) (cname c) = Some cc /\ col_ok' cat c cc) /\
    (forall k, In k (pk_list ct) <-> In k (map cname (filter cpk (tcols tb)))) /\
    Permutation (ctfks ct) (named_refs tb).

(* no PRIMARY KEY() with an empty column list; every sequence belongs to a column that is there *)
Definition pk_wf (cat:catalog) : Prop := forall ct, In ct (tabs cat) -> ctpk ct <> Some [].
Definition seq_cols (cat:catalog) : Prop := forall k, In k (seqs cat) -> cat_has_col cat (fst k) (snd k) = true.

Definition cat_holds (m:model) (cat:catalog) : Prop :=
  NoDup (cat_names cat) /\ pk_wf cat /\ seq_cols cat /\ forall tb, In tb m -> tab_ok' cat tb.

(* ---- scope: the edit kinds for which the delta script of the current source is NOT sound are excluded ---- *)
(* (1) a retained column gains ~autoinc, (2) a retained ~autoinc column changes its primitive,
   (3) a retained reference keeps its target while the target's SQL type changes *)
Definition col_in_scope (tyo tyn:name * name -> sqlty) (oc nc:col) : bool :=
  (if eauto nc then eauto oc && sqlty_eqb (col_pg_type nc) (col_pg_type oc) else true) &&
  match cref nc, cref oc with
  | Some r, Some r' => if key_eqb r' r then sqlty_eqb (tyo r) (tyn r) else true
  | _, _ => true
  end.
Definition tab_in_scope (tyo tyn:name * name -> sqlty) (ot nt:table) : bool :=
  forallb (fun nc => match find_col ot (cname nc) with Some oc => col_in_scope tyo tyn oc nc | None => true end) (tcols nt).
Definition edits_in_scope (tyo tyn:name * name -> sqlty) (old new:model) : bool :=
  forallb (fun nt => match find_table old (tname nt) with Some ot => tab_in_scope tyo tyn ot nt | None => true end) new.

(* (4) a column is dropped from a retained table while a foreign key of the database still points at it *)
Definition all_fks (cat:catalog) : list (name * (name * name)) := flat_map ctfks (tabs cat).
Definition dropped_col (old new:model) (t c:name) : Prop :=
  exists ot nt, find_table old t = Some ot /\ find_table new t = Some nt /\
    In c (map cname (tcols ot)) /\ find_col nt c = None.
Definition drops_unreferenced (old new:model) (cat0:catalog) : Prop :=
  forall t c, dropped_col old new t c -> forall f, In f (all_fks cat0) -> snd f <> (t, c).

(* the same on the model (the database holds exactly the old version): no column of the old version refers to it *)
Definition no_ref_dropped (old new:model) : bool :=
  forallb (fun ot =>
    match find_table new (tname ot) with
    | None => true
    | Some nt =>
        forallb (fun oc =>
          match find_col nt (cname oc) with
          | Some _ => true
          | None => negb (existsb (fun tb => existsb (key_eqb (tname ot, cname oc)) (refs tb)) old)
          end) (tcols ot)
    end) old.
