(* C16 proofs: delta_sound for column-level edits, part 2: the run of generateDatabaseScriptModify over all tables
   of the new version, and the theorems delta_sound_columns_partial / create_then_delta_columns_partial /
   delta_chain_columns_partial. *)
From Coq Require Import String List NArith PArith Bool Lia Permutation Arith Sorted.
Import ListNotations.
Require Import Verif.Db.Depth Verif.Db.DepthProps Verif.Gen.DbTables Verif.Db.Script Verif.Db.SqlInterp
  Verif.Db.Tables Verif.Db.ScriptProps Verif.Db.CatalogProps Verif.Db.CreateProps Verif.Db.DeltaProps Verif.Db.ColsSpec
  Verif.Db.ColsProps.

(* ================================================================ cat_holds <-> typed entries *)
Lemma cat_col_ct cat t ct c : cat_find cat t = Some ct -> cat_col cat t c = ct_col ct c.
Proof. intros H. unfold cat_col, ct_col. rewrite H. reflexivity. Qed.

Lemma in_refs tb c r : In c (tcols tb) -> cref c = Some r -> In r (refs tb).
Proof. intros Hc Hr. unfold refs, refs_cols. apply in_flat_map. exists c. rewrite Hr. cbn. auto. Qed.

Section Typed.
Variable m : model.
Variable d : name -> N.
Variable ty : name * name -> sqlty.
Variable cat : catalog.
Hypothesis Hwf : wf m.
Hypothesis Hd : is_depth m d.
Hypothesis Hty : is_typing m ty.

Lemma holds_types : (forall tb, In tb m -> tab_ok' cat tb) ->
  forall n tb c, In tb m -> (d (tname tb) < n)%N -> In c (tcols tb) -> cat_col_ty cat (tname tb) (cname c) = Some (ty (tname tb, cname c)).
Proof.
  intros Hok n. induction n as [|n IH] using N.peano_ind; intros tb c Htb Hlt Hc; [lia|].
  destruct (Hok tb Htb) as [ct [Hf [_ [Hcols _]]]]. destruct (Hcols c Hc) as [cc [Hcc [_ Hk]]].
  unfold cat_col_ty. rewrite Hcc. cbn [option_map]. f_equal. rewrite (Hty tb c Htb Hc).
  destruct (cref c) as [[rt rc]|] eqn:Hr.
  - assert (Hin : In (rt, rc) (refs tb)) by (apply (in_refs tb c); assumption).
    destruct Hwf as [Hnd Hres]. destruct (Hres tb _ Htb Hin) as [tb' [Hf' [c' [Hc' Hn']]]]. cbn [fst snd] in *.
    destruct (ref_smaller m d Hwf Hd (tname tb) tb (rt, rc) (find_table_in m tb Hnd Htb) Hin) as [_ Hsm]. cbn [fst] in Hsm.
    destruct (find_table_some _ _ _ Hf') as [Htb' Htn'].
    assert (H := IH tb' c' Htb' ltac:(rewrite Htn'; lia) Hc'). rewrite Htn', Hn' in H. rewrite H in Hk. congruence.
  - unfold plain_ty. destruct (cauto c); [apply Hk|exact Hk].
Qed.

Lemma holds_ent : pk_wf cat -> (forall tb, In tb m -> tab_ok' cat tb) ->
  forall tb, In tb m -> exists ct, cat_find cat (tname tb) = Some ct /\ ent_ok ty ct tb.
Proof.
  intros Hpk Hok tb Htb. destruct (Hok tb Htb) as [ct [Hf [Hp [Hcols [Hk Hfk]]]]]. exists ct. split; [exact Hf|].
  destruct (cat_find_some _ _ _ Hf) as [Hin Hn]. split; [exact Hn|]. split; [exact Hp|]. split; [|split; [exact Hk|split; [exact Hfk|apply Hpk, Hin]]].
  intros c Hc. destruct (Hcols c Hc) as [cc [Hcc [Hv Hc']]]. exists cc. rewrite <- (cat_col_ct cat (tname tb) ct (cname c) Hf).
  split; [exact Hcc|]. split; [|split; [exact Hv|]].
  - pose proof (holds_types Hok (N.succ (d (tname tb))) tb c Htb ltac:(lia) Hc) as H. unfold cat_col_ty in H. rewrite Hcc in H. cbn in H. congruence.
  - unfold eauto. destruct (cref c); [discriminate|]. intros Ha. rewrite Ha in Hc'. apply Hc'.
Qed.

Lemma ent_holds : (forall tb, In tb m -> exists ct, cat_find cat (tname tb) = Some ct /\ ent_ok ty ct tb) ->
  forall tb, In tb m -> tab_ok' cat tb.
Proof.
  intros Hent tb Htb. destruct (Hent tb Htb) as [ct [Hf [Hn [Hp [Hcols [Hk [Hfk _]]]]]]]. exists ct. split; [exact Hf|]. split; [exact Hp|].
  split; [|split; assumption]. intros c Hc. destruct (Hcols c Hc) as [cc [Hcc [Ht [Hv Ha]]]]. exists cc.
  rewrite (cat_col_ct cat (tname tb) ct (cname c) Hf). split; [exact Hcc|]. split; [exact Hv|].
  rewrite (Hty tb c Htb Hc) in Ht. destruct (cref c) as [[rt rc]|] eqn:Hr.
  - assert (Hin : In (rt, rc) (refs tb)) by (apply (in_refs tb c); assumption).
    destruct Hwf as [Hnd Hres]. destruct (Hres tb _ Htb Hin) as [tb' [Hf' [c' [Hc' Hn']]]]. cbn [fst snd] in *.
    destruct (find_table_some _ _ _ Hf') as [Htb' Htn'].
    destruct (Hent tb' Htb') as [ct' [Hfc' [_ [_ [Hcols' _]]]]]. destruct (Hcols' c' Hc') as [cc' [Hcc' [Ht' _]]].
    rewrite Htn' in Hfc'. unfold cat_col_ty. rewrite (cat_col_ct cat rt ct' rc Hfc'). rewrite Hn' in Hcc'. rewrite Hcc'. cbn [option_map].
    rewrite Ht', Htn', Hn'. congruence.
  - unfold plain_ty in Ht. unfold eauto in Ha. rewrite Hr in Ha. destruct (cauto c); [split; [exact Ht|apply Ha; reflexivity]|exact Ht].
Qed.
End Typed.

(* ================================================================ CREATE TABLE keeps the catalog good *)
Lemma exec1_create_inv c t cols pk fks c' : exec1 c (CreateTable t cols pk fks) = XOk c' ->
  c' = grow c (CT t (map (fun d => CC (fst d) (fst (stored (snd d))) (snd (stored (snd d)))) cols)
                    (match pk with [] => None | _ => Some pk end) fks)
              (map (fun d => (t, fst d)) (filter (fun d => snd (stored (snd d))) cols)).
Proof.
  cbn [exec1]. repeat match goal with |- (if ?b then _ else _) = _ -> _ => destruct b; [discriminate|] end.
  intros [= <-]. reflexivity.
Qed.

Lemma grow_inj c ct sq ct' sq' : grow c ct sq = grow c ct' sq' -> ct = ct' /\ sq = sq'.
Proof.
  unfold grow. intros [= H1 H2]. apply app_inv_head in H1, H2. injection H1 as <-. auto.
Qed.

Lemma grow_has_col cat ct sq t c : cat_has_col cat t c = true -> cat_has_col (grow cat ct sq) t c = true.
Proof.
  unfold cat_has_col. destruct (cat_find cat t) as [x|] eqn:E; [|discriminate]. rewrite (grow_find_old _ ct sq _ _ E). auto.
Qed.

Lemma create_good cat s ct sq : is_create s = true -> exec1 cat s = XOk (grow cat ct sq) -> ~ In (ctname ct) (cat_names cat) ->
  pk_wf cat -> seq_cols cat -> pk_wf (grow cat ct sq) /\ seq_cols (grow cat ct sq) /\ stmt_table s = ctname ct.
Proof.
  intros Hs Hex Hfresh Hpk Hsq. destruct s as [t cols pk fks| | | | | | | | | | |]; try discriminate.
  apply exec1_create_inv in Hex. apply grow_inj in Hex. destruct Hex as [-> ->]. cbn [ctname] in Hfresh. split; [|split; [|reflexivity]].
  - intros x Hx. unfold grow in Hx. cbn [tabs] in Hx. apply in_app_or in Hx. destruct Hx as [Hx|[<-|[]]]; [apply Hpk, Hx|].
    cbn [ctpk]. destruct pk; discriminate.
  - intros k Hk. unfold grow in Hk. cbn [seqs] in Hk. apply in_app_or in Hk. destruct Hk as [Hk|Hk].
    + apply grow_has_col, Hsq, Hk.
    + apply in_map_iff in Hk. destruct Hk as [dd [<- Hd]]. apply filter_In in Hd. destruct Hd as [Hd _]. cbn [fst snd].
      unfold cat_has_col. rewrite (grow_find_new cat (CT t _ _ fks) _ Hfresh). apply has_col_names. cbn [ctcols]. rewrite map_map. cbn [ccname].
      apply in_map_iff. exists dd. auto.
Qed.

Lemma seq_cols_wfseq cat : seq_cols cat -> cat_wfseq cat.
Proof.
  intros H k Hk. specialize (H k Hk). unfold cat_has_col in H. destruct (cat_find cat (fst k)) as [ct|] eqn:E; [|discriminate].
  apply (cat_find_in_names _ _ _ E).
Qed.

(* ================================================================ the run of generateDatabaseScriptModify *)
Section ColsRun.
Variables old new : model.
Variable cat0 : catalog.
Variables tyo tyn : name * name -> sqlty.
Variable dold : name -> N.
Hypothesis Hwfo : wf old.
Hypothesis Hwfn : wf new.
Hypothesis Hco : wf_cols old.
Hypothesis Hcn : wf_cols new.
Hypothesis Hdo : is_depth old dold.
Hypothesis Htyo : is_typing old tyo.
Hypothesis Htyn : is_typing new tyn.
Hypothesis Hscope : edits_in_scope tyo tyn old new = true.
Hypothesis Hholds : cat_holds old cat0.
Hypothesis Hdrops : drops_unreferenced old new cat0.
Hypothesis Hfresh : forall nt, In nt new -> find_table old (tname nt) = None -> ~ In (tname nt) (cat_names cat0).

Definition new_ref (f:name * (name * name)) : Prop := exists tb c, In tb new /\ In c (tcols tb) /\ cref c = Some (snd f).

Record ginv (seen:list name) (acc:vtypes * list ddl) (cat:catalog) : Prop := {
  g_exec : exec cat0 (snd acc) = XOk cat;
  g_names : forall x, In x (cat_names cat) <-> In x (cat_names cat0) \/ (In x seen /\ find_table old x = None);
  g_nd : NoDup (cat_names cat);
  g_pk : pk_wf cat;
  g_seq : seq_cols cat;
  g_old : forall x, ~ In x seen -> cat_find cat x = cat_find cat0 x;
  g_new : forall x tb, In x seen -> find_table new x = Some tb ->
            (exists ct, cat_find cat x = Some ct /\ ent_ok tyn ct tb) /\
            (forall c, In c (tcols tb) -> vt_get (fst acc) (x, cname c) = tyn (x, cname c));
  g_fks : forall f, In f (all_fks cat) -> In f (all_fks cat0) \/ new_ref f
}.

Lemma old_entry ot : In ot old -> exists e0, cat_find cat0 (tname ot) = Some e0 /\ ent_ok tyo e0 ot.
Proof.
  destruct Hholds as [_ [Hpk [_ Hok]]]. apply (holds_ent old dold tyo cat0 Hwfo Hdo Htyo Hpk Hok).
Qed.

(* the columns a table of the new version refers to are in place *)
Lemma new_ready seen acc cat nt : ginv seen acc cat -> In nt new -> refs_in new (tname nt) seen -> ~ In (tname nt) seen ->
  forall nc rt rc, In nc (tcols nt) -> cref nc = Some (rt, rc) ->
    rt <> tname nt /\ cat_has_col cat rt rc = true /\ vt_get (fst acc) (rt, rc) = tyn (rt, rc) /\ valid_stored (tyn (rt, rc)) = true /\
    (exists cc, cat_col cat rt rc = Some cc /\ ccty cc = tyn (rt, rc)).
Proof.
  intros G Hnt Hrefs Hunseen nc rt rc Hnc Hr.
  assert (Hin : In (rt, rc) (refs nt)) by (apply (in_refs nt nc); assumption).
  pose proof (Hrefs nt (rt, rc) (find_table_in new nt (proj1 Hwfn) Hnt) Hin) as Hseen. cbn [fst] in Hseen.
  split; [intros ->; contradiction|].
  destruct Hwfn as [_ Hres]. destruct (Hres nt _ Hnt Hin) as [tb' [Hf' [c' [Hc' Hn']]]]. cbn [fst snd] in *.
  destruct (g_new _ _ _ G rt tb' Hseen Hf') as [[ct' [Hfc [_ [_ [Hcols _]]]]] Hvt].
  destruct (find_table_some _ _ _ Hf') as [_ Htn'].
  destruct (Hcols c' Hc') as [cc [Hcc [Hty [Hv _]]]]. rewrite Htn', Hn' in *.
  split; [|split; [|split]].
  - unfold cat_has_col. rewrite Hfc. apply has_col_names, ct_col_names. eauto.
  - rewrite <- Hn'. apply Hvt, Hc'.
  - rewrite <- Hty. exact Hv.
  - exists cc. split; [rewrite (cat_col_ct cat rt ct' rc Hfc); exact Hcc|exact Hty].
Qed.

Lemma cols_delta_run ns : forall seen acc cat, ginv seen acc cat -> NoDup ns ->
  (forall t, In t ns -> ~ In t seen /\ In t (map tname new)) -> ordered_from new seen ns ->
  exists cat', ginv (rev ns ++ seen) (fold_left (delta_table_step cfg_cur ByLineName old new) ns acc) cat'.
Proof.
  induction ns as [|t ns IH]; intros seen acc cat G Hnd Hns Hord; cbn [fold_left rev app]; [eauto|].
  apply NoDup_cons_iff in Hnd. destruct Hnd as [Hnotin Hnd']. destruct Hord as [Hrefs Hord].
  destruct (Hns t (or_introl eq_refl)) as [Hunseen Hname].
  destruct (find_table new t) as [nt|] eqn:Hft; [|exfalso; exact (find_table_none _ _ Hft Hname)].
  destruct (find_table_some _ _ _ Hft) as [Hnt Htn].
  assert (Hunseen' : ~ In (tname nt) seen) by (rewrite Htn; exact Hunseen).
  assert (Hrefs' : refs_in new (tname nt) seen) by (rewrite Htn; exact Hrefs).
  pose proof (new_ready seen acc cat nt G Hnt Hrefs' Hunseen') as Hready.
  assert (Hrest : forall x, In x ns -> ~ In x (t :: seen) /\ In x (map tname new)).
  { intros x Hx. destruct (Hns x (or_intror Hx)) as [H1 H2]. split; [|exact H2]. intros [<-|H]; contradiction. }
  assert (Hnewref : forall f, In f (named_refs nt) -> new_ref f).
  { intros [y r] Hf. apply named_refs_in in Hf. destruct Hf as [c [H1 [_ H3]]]. exists nt, c. auto. }
  destruct (find_table old t) as [ot|] eqn:Hfo.
  - (* retained: writeModifySQLForATable *)
    destruct (find_table_some _ _ _ Hfo) as [Hot Hto].
    destruct (old_entry ot Hot) as [e0 [He0 Hent0]]. rewrite Hto in He0.
    assert (Henv : cat_find cat t = Some e0) by (rewrite (g_old _ _ _ G t Hunseen); exact He0).
    assert (Hsc : tab_in_scope tyo tyn ot nt = true).
    { unfold edits_in_scope in Hscope. rewrite forallb_forall in Hscope. specialize (Hscope nt Hnt). rewrite Htn, Hfo in Hscope. exact Hscope. }
    destruct (modify_table_ok tyo tyn cat t ot nt e0 (fst acc) Hto Htn (Hco ot Hot) (Hcn nt Hnt) Henv Hent0) as [ct2 [sq2 [Hex [Hent2 [Hseq2 [Hvt1 Hvt2]]]]]].
    + intros oc Hoc. rewrite <- Hto. apply (Htyo ot oc Hot Hoc).
    + intros nc Hnc. rewrite <- Htn. apply (Htyn nt nc Hnt Hnc).
    + exact Hsc.
    + intros nc rt rc Hnc Hr. destruct (Hready nc rt rc Hnc Hr) as [H1 [H2 [H3 [H4 _]]]]. rewrite Htn in H1. auto.
    + intros oc Hoc Hnone f Hf He. apply (g_fks _ _ _ G) in Hf. destruct Hf as [Hf|[tb [c [H1 [H2 H3]]]]].
      * apply (fun H => Hdrops t (cname oc) H f Hf He). exists ot, nt. split; [exact Hfo|]. split; [exact Hft|]. split; [apply in_map, Hoc|exact Hnone].
      * rewrite He in H3. assert (Hin : In (t, cname oc) (refs tb)) by (apply (in_refs tb c); assumption).
        destruct Hwfn as [_ Hres]. destruct (Hres tb _ H1 Hin) as [tb' [Hf' [c' [Hc' Hn']]]]. cbn [fst snd] in *.
        rewrite Hft in Hf'. injection Hf' as <-. apply (find_col_none _ _ Hnone). rewrite <- Hn'. apply in_map, Hc'.
    + exact (g_seq _ _ _ G).
    + exact (g_nd _ _ _ G).
    + assert (Hn2 : ctname ct2 = t) by (destruct Hent2 as [H _]; rewrite H; exact Htn).
      assert (Hstep : delta_table_step cfg_cur ByLineName old new acc t =
                      (snd (modify_table cfg_cur nt ot (fst acc)), snd acc ++ fst (modify_table cfg_cur nt ot (fst acc)))).
      { unfold delta_table_step. rewrite Hft, Hfo. destruct (modify_table cfg_cur nt ot (fst acc)). reflexivity. }
      rewrite Hstep.
      assert (G' : ginv (t :: seen) (snd (modify_table cfg_cur nt ot (fst acc)), snd acc ++ fst (modify_table cfg_cur nt ot (fst acc))) (cat_put cat ct2 sq2)).
      { constructor; cbn [fst snd].
        - rewrite exec_app, (g_exec _ _ _ G). exact Hex.
        - intros x. rewrite cat_put_names, (g_names _ _ _ G x). cbn [In]. split; [tauto|].
          intros [H|[[<-|H1] H2]]; [auto| |auto]. rewrite Hfo in H2. discriminate.
        - rewrite cat_put_names. exact (g_nd _ _ _ G).
        - intros x Hx. apply cat_put_tabs_in in Hx. destruct Hx as [->|Hx]; [apply Hent2|apply (g_pk _ _ _ G), Hx].
        - exact Hseq2.
        - intros x Hx. rewrite cat_put_find_other by (rewrite Hn2; intros ->; apply Hx; left; reflexivity).
          apply (g_old _ _ _ G). intros H. apply Hx. right. exact H.
        - intros x xb [<-|Hx] Hfx.
          + rewrite Hft in Hfx. injection Hfx as <-. split.
            * exists ct2. split; [|exact Hent2]. rewrite <- Hn2. apply (cat_put_find_same cat ct2 sq2 e0). rewrite Hn2. exact Henv.
            * intros c Hc. apply Hvt1, Hc.
          + assert (Hne : x <> t) by (intros ->; contradiction).
            destruct (g_new _ _ _ G x xb Hx Hfx) as [[ct [Hfc Hec]] Hv]. split.
            * exists ct. split; [|exact Hec]. rewrite cat_put_find_other by (rewrite Hn2; exact Hne). exact Hfc.
            * intros c Hc. rewrite Hvt2 by exact Hne. apply Hv, Hc.
        - intros f Hf. apply cat_put_fks in Hf. destruct Hf as [Hf|Hf]; [apply (g_fks _ _ _ G), Hf|right].
          apply Hnewref. destruct Hent2 as [_ [_ [_ [_ [Hp _]]]]]. eapply Permutation_in; [exact Hp|exact Hf]. }
      destruct (IH (t :: seen) _ _ G' Hnd' Hrest Hord) as [cat' Hc']. exists cat'. rewrite <- app_assoc. exact Hc'.
  - (* added: CREATE TABLE *)
    assert (Hfresh' : ~ In (tname nt) (cat_names cat)).
    { rewrite Htn. intros H. apply (g_names _ _ _ G) in H. destruct H as [H|[H _]]; [|contradiction].
      apply (Hfresh nt Hnt); [rewrite Htn; exact Hfo|rewrite Htn; exact H]. }
    assert (Hrr : refs_ready cat (fst acc) nt).
    { intros c rt rc Hc Hr. destruct (Hready c rt rc Hc Hr) as [H1 [_ [H3 [H4 [cc [H5 H6]]]]]]. split; [exact H1|].
      exists cc. rewrite H6. auto. }
    destruct (create_step_ok cat (fst acc) nt (Hcn nt Hnt) Hfresh' (g_nd _ _ _ G) (seq_cols_wfseq _ (g_seq _ _ _ G)) Hrr)
      as [ct [sq [Hex [Hctn [Htab [Hlink [_ [Hnd'' Hvt]]]]]]]].
    pose proof (create_table_name ByLineName nt (fst acc)) as [_ Hisc].
    assert (Hfr2 : ~ In (ctname ct) (cat_names cat)) by (rewrite Hctn; exact Hfresh').
    destruct (create_good cat _ ct sq Hisc Hex Hfr2 (g_pk _ _ _ G) (g_seq _ _ _ G)) as [Hpk' [Hseq' _]].
    assert (Hfnew : cat_find (grow cat ct sq) t = Some ct) by (rewrite <- Htn, <- Hctn; apply grow_find_new, Hfr2).
    assert (Hent : ent_ok tyn ct nt).
    { destruct Htab as [ct' [Hf' [Hp [Hcols [Hk Hfk]]]]]. rewrite Htn, Hfnew in Hf'. injection Hf' as <-.
      split; [exact Hctn|]. split; [exact Hp|]. split; [|split; [exact Hk|split; [exact Hfk|]]].
      - intros c Hc. destruct (Hcols c Hc) as [cc [Hcc [Hv Hok]]]. exists cc. rewrite Htn in Hcc. rewrite (cat_col_ct _ t ct _ Hfnew) in Hcc.
        split; [exact Hcc|]. split; [|split; [exact Hv|]].
        + rewrite (Htyn nt c Hnt Hc). destruct (cref c) as [[rt rc]|] eqn:Hr.
          * destruct Hok as [_ Hok]. destruct (Hready c rt rc Hc Hr) as [_ [_ [_ [_ [cc' [H5 H6]]]]]].
            unfold cat_col_ty in Hok. rewrite (grow_col_old _ ct sq _ _ _ H5) in Hok. cbn in Hok. congruence.
          * unfold plain_ty. destruct (cauto c); apply Hok.
        + unfold eauto. destruct (cref c); [discriminate|]. intros Ha. rewrite Ha in Hok. apply Hok.
      - apply Hpk'. unfold grow. cbn [tabs]. apply in_or_app. right. left. reflexivity. }
    assert (Hstep : delta_table_step cfg_cur ByLineName old new acc t =
                    (snd (create_table ByLineName nt (fst acc)), snd acc ++ [fst (create_table ByLineName nt (fst acc))])).
    { unfold delta_table_step. rewrite Hft, Hfo. destruct (create_table ByLineName nt (fst acc)). reflexivity. }
    rewrite Hstep.
    assert (G' : ginv (t :: seen) (snd (create_table ByLineName nt (fst acc)), snd acc ++ [fst (create_table ByLineName nt (fst acc))]) (grow cat ct sq)).
    { constructor; cbn [fst snd].
      - rewrite exec_app, (g_exec _ _ _ G). cbn [exec]. rewrite Hex. reflexivity.
      - intros x. unfold cat_names, grow. cbn [tabs]. rewrite map_app, in_app_iff. cbn [map In]. rewrite Hctn, Htn.
        fold (cat_names cat). rewrite (g_names _ _ _ G x). split.
        + intros [[H|[H1 H2]]|[<-|[]]]; auto.
        + intros [H|[[<-|H1] H2]]; auto.
      - exact Hnd''.
      - exact Hpk'.
      - exact Hseq'.
      - intros x Hx. assert (Hne : x <> t) by (intros ->; apply Hx; left; reflexivity).
        rewrite <- (g_old _ _ _ G x) by (intros H; apply Hx; right; exact H).
        unfold cat_find, grow. cbn [tabs]. rewrite find_snoc, Hctn, Htn. destruct (find _ (tabs cat)); [reflexivity|].
        destruct (Pos.eqb_spec t x); [congruence|reflexivity].
      - intros x xb [<-|Hx] Hfx.
        + rewrite Hft in Hfx. injection Hfx as <-. split; [exists ct; auto|].
          intros c Hc. destruct (Hlink c Hc) as [cc [H1 [H2 _]]]. rewrite Htn in H1, H2. rewrite H2.
          destruct Hent as [_ [_ [Hcols _]]]. destruct (Hcols c Hc) as [cc' [H3 [H4 _]]]. rewrite Htn in H4.
          rewrite (cat_col_ct _ t ct _ Hfnew) in H1. congruence.
        + assert (Hne : x <> t) by (intros ->; contradiction).
          destruct (g_new _ _ _ G x xb Hx Hfx) as [[cx [Hfc Hec]] Hv]. split.
          * exists cx. split; [apply grow_find_old, Hfc|exact Hec].
          * intros c Hc. rewrite Hvt; [apply Hv, Hc|]. cbn [fst]. rewrite Htn. exact Hne.
      - intros f Hf. unfold all_fks, grow in Hf. cbn [tabs] in Hf. rewrite flat_map_app in Hf. apply in_app_or in Hf. cbn [flat_map] in Hf.
        rewrite app_nil_r in Hf. destruct Hf as [Hf|Hf]; [apply (g_fks _ _ _ G), Hf|right].
        apply Hnewref. destruct Hent as [_ [_ [_ [_ [Hp _]]]]]. eapply Permutation_in; [exact Hp|exact Hf]. }
    destruct (IH (t :: seen) _ _ G' Hnd' Hrest Hord) as [cat' Hc']. exists cat'. rewrite <- app_assoc. exact Hc'.
Qed.
End ColsRun.

(* PARTIAL of delta_sound, column-level edits included.  Scope: `edits_in_scope` (no retained column gains ~autoinc,
   no retained ~autoinc column changes its primitive, no retained reference keeps its target while the target's SQL
   type changes) and `drops_unreferenced` (no column is dropped while a foreign key of the database points at it) -
   the four known findings.  cat0 is ANY catalog that holds the old version's schema (`cat_holds`: DEFAULTs of columns
   that are not ~autoinc are free) and none of the tables the new version adds.  The conclusion is again `cat_holds`,
   so the theorem composes along a history. *)
Theorem delta_sound_columns_partial sk old new dold dn tyo tyn ord fuel cat0 :
  wf old -> wf new -> wf_cols old -> wf_cols new -> is_depth old dold -> is_depth new dn ->
  is_typing old tyo -> is_typing new tyn -> perm_oracle ord ->
  (length old < fuel)%nat -> (length new < fuel)%nat ->
  edits_in_scope tyo tyn old new = true -> cat_holds old cat0 -> drops_unreferenced old new cat0 ->
  (forall nt, In nt new -> find_table old (tname nt) = None -> ~ In (tname nt) (cat_names cat0)) ->
  exists l cat1, delta sk cfg_cur ByLineName fuel ord old new = Ok l /\ exec cat0 l = XOk cat1 /\
    cat_holds new cat1 /\ (forall x, In x (cat_names cat1) <-> In x (cat_names cat0) \/ In x (map tname new)).
Proof.
  intros Hwfo Hwfn Hco Hcn Hdo Hd Htyo Htyn Hord Hfo Hfuel Hscope Hholds Hdrops Hfresh.
  destruct (depth_is_longest_path sk old dold ord fuel Hwfo Hdo Hord Hfo) as [sto [Hsto _]].
  destruct (depth_is_longest_path sk new dn ord fuel Hwfn Hd Hord Hfuel) as [st [Hst [_ [Hlv [Hkeys Hnd]]]]].
  unfold delta. rewrite Hsto, Hst. eexists. rewrite delta_from_flat.
  set (L := levels_sorted (bydepth st)). set (f := fun lv : N * list name => sort_names (snd lv)). set (ns := concat (map f L)).
  assert (HLperm : Permutation L (bydepth st)) by (unfold L, levels_sorted; apply sort_by_perm).
  assert (Hf : forall lv, Permutation (f lv) (snd lv)) by (intros lv; unfold f, sort_names; apply sort_by_perm).
  assert (HLk : NoDup (map fst L)) by (eapply Permutation_NoDup; [symmetry; apply Permutation_map, HLperm|exact Hkeys]).
  assert (HL1 : forall lv t, In lv L -> In t (snd lv) -> In t (map tname new) /\ dn t = fst lv).
  { intros [k l] t Hin Ht. apply (Permutation_in _ HLperm) in Hin. apply (Hlv t k). exists l. auto. }
  assert (HL2 : forall t, In t (map tname new) -> exists lv, In lv L /\ fst lv = dn t /\ In t (snd lv)).
  { intros t Ht. destruct (proj2 (Hlv t (dn t)) (conj Ht eq_refl)) as [l [Hkl Htl]]. exists (dn t, l).
    split; [eapply Permutation_in; [symmetry; exact HLperm|exact Hkl]|auto]. }
  assert (Hns_perm : Permutation ns (concat (map snd (bydepth st)))).
  { unfold ns. transitivity (concat (map snd L)); [apply concat_pointwise; intros lv _; apply Hf|].
    apply perm_concat, Permutation_map, HLperm. }
  assert (Hns_nd : NoDup ns) by (eapply Permutation_NoDup; [symmetry; exact Hns_perm|exact Hnd]).
  assert (Hns_in : forall t, In t ns <-> In t (map tname new)).
  { intros t. split.
    - intros H. apply (Permutation_in _ Hns_perm) in H. apply in_concat in H. destruct H as [l [Hl Ht]].
      apply in_map_iff in Hl. destruct Hl as [[k l'] [<- Hkl]]. apply (Hlv t k). eauto.
    - intros H. destruct (HL2 t H) as [lv [Hlv' [_ Hin]]]. unfold ns. apply in_concat. exists (f lv).
      split; [apply in_map, Hlv'|eapply Permutation_in; [symmetry; apply Hf|exact Hin]]. }
  assert (Hord' : ordered_from new [] ns).
  { apply (levels_ordered new dn Hwfn Hd f Hf L HLk HL1 HL2 L []); [apply incl_refl|apply levels_sorted_sorted|].
    intros t Ht Hno. destruct (HL2 t Ht) as [lv [Hin [Hk _]]]. exfalso. exact (Hno lv Hin Hk). }
  assert (G0 : ginv old new cat0 tyn [] ([], []) cat0).
  { destruct Hholds as [H1 [H2 [H3 _]]]. constructor; cbn [fst snd exec]; auto.
    - intros x. cbn [In]. tauto.
    - intros x tb []. }
  destruct (cols_delta_run old new cat0 tyo tyn dold Hwfo Hwfn Hco Hcn Hdo Htyo Htyn Hscope Hholds Hdrops Hfresh ns [] ([], []) cat0 G0 Hns_nd) as [cat G].
  - intros t Ht. split; [intros []|apply Hns_in, Ht].
  - exact Hord'.
  - exists cat. split; [reflexivity|]. split; [exact (g_exec _ _ _ _ _ _ _ G)|]. rewrite app_nil_r in G. split.
    + split; [exact (g_nd _ _ _ _ _ _ _ G)|]. split; [exact (g_pk _ _ _ _ _ _ _ G)|]. split; [exact (g_seq _ _ _ _ _ _ _ G)|].
      apply (ent_holds new tyn cat Hwfn Htyn). intros tb Htb.
      apply (g_new _ _ _ _ _ _ _ G (tname tb) tb); [apply -> in_rev; apply Hns_in, in_map, Htb|apply find_table_in; [apply Hwfn|exact Htb]].
    + intros x. rewrite (g_names _ _ _ _ _ _ _ G x). split.
      * intros [H|[H _]]; [auto|]. right. apply Hns_in. apply in_rev. exact H.
      * intros [H|H]; [auto|]. destruct (find_table old x) as [ot|] eqn:Hfo'.
        -- left. destruct (find_table_some _ _ _ Hfo') as [Hot <-]. destruct Hholds as [_ [_ [_ Hok]]]. destruct (Hok ot Hot) as [ct [Hfc _]].
           apply (cat_find_in_names _ _ _ Hfc).
        -- right. split; [apply -> in_rev; apply Hns_in, H|reflexivity].
Qed.

(* ================================================================ from the creation script of the old version *)
Lemma cat_find_none_names cat t : cat_find cat t = None -> ~ In t (cat_names cat).
Proof.
  unfold cat_find, cat_names. intros H Hin. apply in_map_iff in Hin. destruct Hin as [ct [He Hct]].
  pose proof (find_none _ _ H ct Hct) as Hn. cbn in Hn. rewrite He, Pos.eqb_refl in Hn. discriminate.
Qed.

Lemma exec_creates_good l : forall c c', forallb is_create l = true -> exec c l = XOk c' -> pk_wf c -> seq_cols c -> pk_wf c' /\ seq_cols c'.
Proof.
  induction l as [|s l IH]; intros c c' Hl Hex Hpk Hsq; cbn [exec forallb] in *; [injection Hex as <-; auto|].
  apply andb_true_iff in Hl. destruct Hl as [Hs Hl]. destruct (exec1 c s) as [c1|] eqn:E; [|discriminate].
  destruct s as [t cols pk fks| | | | | | | | | | |]; try discriminate.
  assert (Hnone : cat_find c t = None).
  { cbn [exec1] in E. destruct (cat_find c t); [discriminate|reflexivity]. }
  pose proof (exec1_create_inv _ _ _ _ _ _ E) as Hc1. rewrite Hc1 in E.
  destruct (create_good c (CreateTable t cols pk fks) _ _ eq_refl E (cat_find_none_names _ _ Hnone) Hpk Hsq) as [H1 [H2 _]]. rewrite <- Hc1 in H1, H2.
  apply (IH c1 c' Hl Hex H1 H2).
Qed.

Lemma col_ok_weaken cat c cc : col_ok cat c cc -> col_ok' cat c cc.
Proof.
  unfold col_ok, col_ok'. intros [Hv H]. split; [exact Hv|]. destruct (cref c) as [[rt rc]|]; [apply H|]. destruct (cauto c); [exact H|apply H].
Qed.
Lemma tab_ok_weaken cat tb : tab_ok cat tb -> tab_ok' cat tb.
Proof.
  intros [ct [H1 [H2 [H3 [H4 H5]]]]]. exists ct. split; [exact H1|]. split; [exact H2|]. split; [|split; assumption].
  intros c Hc. destruct (H3 c Hc) as [cc [Ha Hb]]. exists cc. split; [exact Ha|apply col_ok_weaken, Hb].
Qed.

Lemma cat_find_unique cat ct : NoDup (cat_names cat) -> In ct (tabs cat) -> cat_find cat (ctname ct) = Some ct.
Proof.
  unfold cat_names, cat_find. induction (tabs cat) as [|x l IH]; cbn [map find In]; intros Hnd Hin; [contradiction|].
  apply NoDup_cons_iff in Hnd. destruct Hnd as [Hn Hnd]. destruct (Pos.eqb_spec (ctname x) (ctname ct)) as [He|Hne].
  - destruct Hin as [->|Hin]; [reflexivity|]. exfalso. apply Hn. rewrite He. apply in_map, Hin.
  - destruct Hin as [->|Hin]; [congruence|]. apply IH; assumption.
Qed.

(* when the database holds no table outside the old version, "no foreign key points at a dropped column" is a
   property of the two models *)
Lemma holds_drops old new cat0 : wf old -> cat_holds old cat0 -> (forall x, In x (cat_names cat0) -> In x (map tname old)) ->
  no_ref_dropped old new = true -> drops_unreferenced old new cat0.
Proof.
  intros Hwf [Hnd [_ [_ Hok]]] Hsub Hno t c [ot [nt [Hfo [Hfn [Hc Hnone]]]]] f Hf He.
  unfold all_fks in Hf. apply in_flat_map in Hf. destruct Hf as [ct [Hct Hf]].
  assert (Hin : In (ctname ct) (map tname old)) by (apply Hsub, in_map, Hct). apply in_map_iff in Hin. destruct Hin as [tb [Hn Htb]].
  destruct (Hok tb Htb) as [ct' [Hf' [_ [_ [_ Hp]]]]]. rewrite Hn, (cat_find_unique cat0 ct Hnd Hct) in Hf'. injection Hf' as <-.
  apply (Permutation_in _ Hp) in Hf. destruct f as [y r]. cbn [snd] in He. subst r. apply named_refs_in in Hf.
  destruct Hf as [cx [Hcx [_ Hr]]].
  unfold no_ref_dropped in Hno. rewrite forallb_forall in Hno. destruct (find_table_some _ _ _ Hfo) as [Hot Hto].
  specialize (Hno ot Hot). rewrite Hto, Hfn in Hno. rewrite forallb_forall in Hno.
  apply in_map_iff in Hc. destruct Hc as [oc [Hoc1 Hoc2]]. specialize (Hno oc Hoc2). rewrite Hoc1, Hnone in Hno.
  apply negb_true_iff in Hno. assert (Hex : existsb (fun tb0 => existsb (key_eqb (t, c)) (refs tb0)) old = true); [|congruence].
  apply existsb_exists. exists tb. split; [exact Htb|]. apply existsb_exists. exists (t, c). split; [apply (in_refs tb cx); assumption|apply key_eqb_refl].
Qed.

Corollary create_then_delta_columns_partial sk old new dold dn tyo tyn ord fuel :
  wf old -> wf new -> wf_cols old -> wf_cols new -> is_depth old dold -> is_depth new dn ->
  is_typing old tyo -> is_typing new tyn -> perm_oracle ord ->
  (length old < fuel)%nat -> (length new < fuel)%nat ->
  edits_in_scope tyo tyn old new = true -> no_ref_dropped old new = true ->
  exists lc ld cat1, create sk ByLineName ByLineName fuel ord old = Ok lc /\
    delta sk cfg_cur ByLineName fuel ord old new = Ok ld /\
    exec empty_cat (lc ++ ld) = XOk cat1 /\ cat_holds new cat1 /\
    (forall x, In x (cat_names cat1) <-> In x (map tname old) \/ In x (map tname new)).
Proof.
  intros Hwfo Hwfn Hco Hcn Hdo Hdn Htyo Htyn Hord Hfo Hfn Hscope Hno.
  destruct (create_complete_ordered sk old dold ord fuel Hwfo Hco Hdo Hord Hfo) as [lc [cat0 [Hc [He [Hm Hp]]]]].
  destruct (create_each_table_once sk old dold ByLineName ord fuel Hwfo Hdo Hord Hfo) as [lc' [Hc' [Hall _]]].
  rewrite Hc in Hc'. injection Hc' as <-.
  destruct (exec_creates_good lc empty_cat cat0 Hall He) as [Hpk Hsq]; [intros ct []|intros k []|].
  assert (Hholds : cat_holds old cat0).
  { destruct Hm as [Hnd [_ Hok]]. split; [exact Hnd|]. split; [exact Hpk|]. split; [exact Hsq|]. intros tb Htb. apply tab_ok_weaken, Hok, Htb. }
  assert (Hsub : forall x, In x (cat_names cat0) -> In x (map tname old)) by (intros x Hx; eapply Permutation_in; [exact Hp|exact Hx]).
  destruct (delta_sound_columns_partial sk old new dold dn tyo tyn ord fuel cat0 Hwfo Hwfn Hco Hcn Hdo Hdn Htyo Htyn Hord Hfo Hfn Hscope Hholds
              (holds_drops old new cat0 Hwfo Hholds Hsub Hno)) as [ld [cat1 [Hd [He1 [Hm1 Hn1]]]]].
  { intros nt Hnt Hnone Hin. apply Hsub in Hin. exact (find_table_not_none _ _ Hin Hnone). }
  exists lc, ld, cat1. split; [exact Hc|]. split; [exact Hd|]. split; [rewrite exec_app, He; exact He1|]. split; [exact Hm1|].
  intros x. rewrite (Hn1 x). split; (intros [H|H]; [left|right; exact H]).
  - eapply Permutation_in; [exact Hp|exact H].
  - eapply Permutation_in; [symmetry; exact Hp|exact H].
Qed.

(* chain v1 -> v2 -> v3 by composition; every table of v1 is kept in v2 (the delta script never drops a table: a
   table absent from v2 stays in the database with its constraints - the two known chain findings) *)
Corollary delta_chain_columns_partial sk v1 v2 v3 d1 d2 d3 ty1 ty2 ty3 ord fuel :
  wf v1 -> wf v2 -> wf v3 -> wf_cols v1 -> wf_cols v2 -> wf_cols v3 ->
  is_depth v1 d1 -> is_depth v2 d2 -> is_depth v3 d3 -> is_typing v1 ty1 -> is_typing v2 ty2 -> is_typing v3 ty3 -> perm_oracle ord ->
  (length v1 < fuel)%nat -> (length v2 < fuel)%nat -> (length v3 < fuel)%nat ->
  edits_in_scope ty1 ty2 v1 v2 = true -> no_ref_dropped v1 v2 = true ->
  edits_in_scope ty2 ty3 v2 v3 = true -> no_ref_dropped v2 v3 = true ->
  (forall tb, In tb v1 -> In (tname tb) (map tname v2)) ->
  exists lc l12 l23 cat3, create sk ByLineName ByLineName fuel ord v1 = Ok lc /\
    delta sk cfg_cur ByLineName fuel ord v1 v2 = Ok l12 /\ delta sk cfg_cur ByLineName fuel ord v2 v3 = Ok l23 /\
    exec empty_cat (lc ++ l12 ++ l23) = XOk cat3 /\ cat_holds v3 cat3.
Proof.
  intros W1 W2 W3 C1 C2 C3 D1 D2 D3 T1 T2 T3 Hord F1 F2 F3 S12 N12 S23 N23 Hkeep.
  destruct (create_then_delta_columns_partial sk v1 v2 d1 d2 ty1 ty2 ord fuel W1 W2 C1 C2 D1 D2 T1 T2 Hord F1 F2 S12 N12)
    as [lc [l12 [cat2 [Hc [Hd12 [He [Hm2 Hn2]]]]]]].
  assert (Hsub : forall x, In x (cat_names cat2) -> In x (map tname v2)).
  { intros x Hx. apply Hn2 in Hx. destruct Hx as [Hx|Hx]; [|exact Hx]. apply in_map_iff in Hx. destruct Hx as [tb [<- Htb]]. apply Hkeep, Htb. }
  destruct (delta_sound_columns_partial sk v2 v3 d2 d3 ty2 ty3 ord fuel cat2 W2 W3 C2 C3 D2 D3 T2 T3 Hord F2 F3 S23 Hm2
              (holds_drops v2 v3 cat2 W2 Hm2 Hsub N23)) as [l23 [cat3 [Hd23 [He3 [Hm3 _]]]]].
  { intros nt Hnt Hnone Hin. apply Hsub in Hin. exact (find_table_not_none _ _ Hin Hnone). }
  exists lc, l12, l23, cat3. split; [exact Hc|]. split; [exact Hd12|]. split; [exact Hd23|]. split; [|exact Hm3].
  rewrite app_assoc, exec_app, He. exact He3.
Qed.

(* ---- non-vacuity: P(id autoinc key, n string(30)), Q(k key), C(x key, p -> P.id, q, z -> Q.k).  New version: P.n
   becomes string(40) and P gains m; C.x leaves the key, C.p is retargeted to Q.k, C.q is dropped, C.z becomes a plain
   int, C gains the key column w -> P.n; table D(a -> C.w) is added ---- *)
Definition ce_old : model :=
  [T 1%positive 1%N [nv_col 10%positive 2%N PInt 0%N None true true; nv_col 11%positive 3%N PString 30%N None false false];
   T 2%positive 5%N [nv_col 20%positive 6%N PInt 0%N None true false];
   T 3%positive 8%N [nv_col 30%positive 9%N PInt 0%N None true false;
                     nv_col 31%positive 10%N PInt 0%N (Some (1%positive, 10%positive)) false false;
                     nv_col 32%positive 11%N PString 0%N None false false;
                     nv_col 33%positive 12%N PInt 0%N (Some (2%positive, 20%positive)) false false]].
Definition ce_new : model :=
  [T 1%positive 1%N [nv_col 10%positive 2%N PInt 0%N None true true; nv_col 11%positive 3%N PString 40%N None false false;
                     nv_col 12%positive 4%N PDate 0%N None false false];
   T 2%positive 5%N [nv_col 20%positive 6%N PInt 0%N None true false];
   T 3%positive 8%N [nv_col 34%positive 13%N PInt 0%N (Some (1%positive, 11%positive)) true false;
                     nv_col 30%positive 9%N PInt 0%N None false false;
                     nv_col 31%positive 10%N PInt 0%N (Some (2%positive, 20%positive)) false false;
                     nv_col 33%positive 12%N PInt 0%N None false false];
   T 4%positive 15%N [nv_col 40%positive 16%N PInt 0%N (Some (3%positive, 34%positive)) false false]].
Definition ce_dold (t:name) : N := match t with 3%positive => 1 | _ => 0 end%N.
Definition ce_dnew (t:name) : N := match t with 3%positive => 1 | 4%positive => 2 | _ => 0 end%N.

Ltac nv_typing := intros tb c Htb Hc; cbn in Htb; repeat (destruct Htb as [<-|Htb]; [cbn in Hc;
    repeat (destruct Hc as [<-|Hc]; [reflexivity|]); contradiction|]); contradiction.

Example ce_hypotheses :
  wf ce_old /\ wf ce_new /\ wf_cols ce_old /\ wf_cols ce_new /\ is_depth ce_old ce_dold /\ is_depth ce_new ce_dnew /\
  is_typing ce_old (mty ce_old 4) /\ is_typing ce_new (mty ce_new 4) /\
  edits_in_scope (mty ce_old 4) (mty ce_new 4) ce_old ce_new = true /\ no_ref_dropped ce_old ce_new = true.
Proof.
  split; [nv_wf|]. split; [nv_wf|]. split; [nv_cols|]. split; [nv_cols|]. split; [nv_depth|]. split; [nv_depth|].
  split; [nv_typing|]. split; [nv_typing|]. split; vm_compute; reflexivity.
Qed.

Example ce_delta_runs :
  delta depth_stop cfg_cur ByLineName 5 id_ord ce_old ce_new =
  Ok [AlterType 1%positive 11%positive (TVarchar 40); AddColumn 1%positive 12%positive TDate;
      DropFK 3%positive 31%positive; AlterType 3%positive 31%positive TInteger; AddFK 3%positive 31%positive 2%positive 20%positive;
      DropFK 3%positive 33%positive; AlterType 3%positive 33%positive TInteger;
      AddColumn 3%positive 34%positive (TVarchar 40); AddFK 3%positive 34%positive 1%positive 11%positive;
      DropPK 3%positive; DropColumn 3%positive 32%positive; AddPK 3%positive [34%positive];
      CreateTable 4%positive [(40%positive, TVarchar 40)] [] [(40%positive, (3%positive, 34%positive))]].
Proof. vm_compute. reflexivity. Qed.

(* ================================================================ creation script on EVERY model (goal 2, the part done) *)
(* no hypothesis on the reference graph: cycles, self references, dangling references - the generator returns *)
Theorem create_terminates_any m ord fuel : (length m < fuel)%nat ->
  exists l, create depth_stop ByLineName ByLineName fuel ord m = Ok l.
Proof.
  intros H. destruct (depth_terminates m ord fuel H) as [st [Hst _]]. unfold create. change depth_stop with StopNoProgress in *. rewrite Hst. eauto.
Qed.

(* TESTS (kernel-evaluated samples, not theorems): a self reference whose target column is written first is accepted
   and typed; the same with the columns the other way round, and a cycle of two tables, are rejected by `exec` (a
   column without a type / a foreign key to a table that is not there), not built wrongly *)
Definition self_early : model := [T 1%positive 1%N [pcol 10%positive 2%N PInt true false; rcol 11%positive 3%N 1%positive 10%positive false]].
Definition self_late : model := [T 1%positive 1%N [pcol 10%positive 3%N PInt true false; rcol 11%positive 2%N 1%positive 10%positive false]].
Definition cycle2 : model :=
  [T 1%positive 1%N [pcol 10%positive 2%N PInt true false; rcol 11%positive 3%N 2%positive 20%positive false];
   T 2%positive 5%N [pcol 20%positive 6%N PInt true false; rcol 21%positive 7%N 1%positive 10%positive false]].
Example create_cyclic_samples :
  run_create ByLineName ByLineName self_early =
    XOk (Cat [CT 1%positive [CC 10%positive TInteger false; CC 11%positive TInteger false] (Some [10%positive])
                 [(11%positive, (1%positive, 10%positive))]] []) /\
  run_create ByLineName ByLineName self_late = XErr /\ run_create ByLineName ByLineName cycle2 = XErr.
Proof. repeat split; vm_compute; reflexivity. Qed.
