(* C16 MODEL (definitions only): the TEXT that pkg/database assembles from the string writeCreateSQLForAColumn
   returns, and what its callers do to that string (postgres.go):
     writeCreateSQLForATable   tableData += s for every column; addConstraints (primary-key phrase, then "\n" + every
                               foreign-key constraint); strings.TrimSuffix - which suffixes is read from the source
                               (Gen: create_trim); the body is written followed by "\n);\n"
     writeModifySQLForATable   "attribute added": str = TrimSpace(s); str = str[:len(str)-1]; "ALTER TABLE t ADD COLUMN str;"
                               and, for the first foreign-key constraint, constraint[:len-1], TrimSpace, "ALTER TABLE t ADD c;"
   Text is a list of tokens: the pieces the Go code concatenates (two-blank indentation, name, blank, type text,
   comma, newline, the CONSTRAINT phrases).  A byte cut out of the middle of a multi-byte piece leaves KCut.  The
   harness lexes the emitted SQL into the same tokens (strictly: every byte accounted for) and Coq compares.
   `parse_*` is the grammar PostgreSQL applies to these pieces: items separated by single commas, no comma after
   the last one; blanks and newlines are free. *)
From Coq Require Import List NArith PArith Bool.
Import ListNotations.
Require Import Verif.Db.Depth Verif.Db.Script.

Inductive tok :=
  | KInd                       (* "  " *)
  | KSp | KNl | KComma         (* " "  "\n"  "," *)
  | KName (n:name)
  | KTy (ty:sqlty)             (* the type text; an empty type is no text at all, never KTy TEmpty *)
  | KPk (cols:list name)       (* CONSTRAINT <T>_PK PRIMARY KEY(c1,c2) *)
  | KFk (c rt rc:name)         (* CONSTRAINT <T>_<C>_FK FOREIGN KEY(c) REFERENCES rt (rc) *)
  | KCut.                      (* a multi-byte piece that lost its last byte *)

Definition ty_text (ty:sqlty) : list tok := match ty with TEmpty => [] | _ => [KTy ty] end.

(* writeCreateSQLForAColumn: s = fmt.Sprintf("  %s %s,\n", attrName, datatype) *)
Definition col_text (d:name * sqlty) : list tok := [KInd; KName (fst d); KSp] ++ ty_text (snd d) ++ [KComma; KNl].
(* "  CONSTRAINT "+fkName+" FOREIGN KEY("+attrName+") REFERENCES "+path0+" ("+path1+")," *)
Definition fk_text (f:name * (name * name)) : list tok := [KInd; KFk (fst f) (fst (snd f)) (snd (snd f)); KComma].

(* addConstraints: the key phrase unless the key string is empty, then "\n" + constraint for every foreign key *)
Definition add_constraints (s:list tok) (fks:list (name * (name * name))) (pks:list name) : list tok :=
  fold_left (fun acc f => acc ++ KNl :: fk_text f) fks
            (s ++ match pks with [] => [] | _ => [KInd; KPk pks; KComma] end).

(* strings.TrimSuffix(s, <one-byte piece>) *)
Definition strip_last (k:tok -> bool) (l:list tok) : list tok :=
  match rev l with x :: r => if k x then rev r else l | [] => l end.
Definition is_comma (t:tok) : bool := match t with KComma => true | _ => false end.
Definition is_nl (t:tok) : bool := match t with KNl => true | _ => false end.
Definition is_space (t:tok) : bool := match t with KInd | KSp | KNl => true | _ => false end.

Definition trim_body (tk:trim_kind) (l:list tok) : list tok :=
  match tk with
  | TrimComma => strip_last is_comma l
  | TrimNlComma => strip_last is_comma (strip_last is_nl l)
  | TrimUnknown => KCut :: l
  end.

(* the text between "CREATE TABLE t(\n" and "\n);\n" *)
Definition body_text (tk:trim_kind) (defs:list (name * sqlty)) (pks:list name) (fks:list (name * (name * name))) : list tok :=
  trim_body tk (add_constraints (concat (map col_text defs)) fks pks).

(* strings.TrimSpace *)
Fixpoint drop_while (k:tok -> bool) (l:list tok) : list tok :=
  match l with [] => [] | x :: r => if k x then drop_while k r else l end.
Definition trim_space (l:list tok) : list tok := rev (drop_while is_space (rev (drop_while is_space l))).

(* s[:len(s)-1]: None = the Go run-time panic on an empty string *)
Definition drop_last_byte (l:list tok) : option (list tok) :=
  match rev l with
  | [] => None
  | x :: r =>
      Some (match x with
            | KSp | KNl | KComma => rev r
            | KInd => rev (KSp :: r)
            | _ => rev (KCut :: r)
            end)
  end.

(* writeModifySQLForATable, attribute added: what stands between "ADD COLUMN " and ";" *)
Definition addcol_text (pk:post_kind) (d:name * sqlty) : option (list tok) :=
  match pk with
  | PostTrimDropLast => drop_last_byte (trim_space (col_text d))
  | PostUnknown => Some [KCut]
  end.
(* ... and between "ADD " and ";" for its foreign key *)
Definition addfk_text (pk:post_kind) (f:name * (name * name)) : option (list tok) :=
  match pk with
  | PostTrimDropLast => option_map trim_space (drop_last_byte (fk_text f))
  | PostUnknown => Some [KCut]
  end.

(* the text of one statement (None: panic); statements whose text is one fmt.Sprintf of names have no pieces *)
Definition stmt_text (tk:trim_kind) (pk:post_kind) (s:ddl) : option (list tok) :=
  match s with
  | CreateTable _ defs pks fks => Some (body_text tk defs pks fks)
  | AddColumn _ c ty => addcol_text pk (c, ty)
  | AddFK _ c rt rc => addfk_text pk (c, (rt, rc))
  | _ => Some []
  end.

(* ---- the grammar ---- *)
Inductive item := ICol (c:name) (ty:sqlty) | IPk (l:list name) | IFk (c rt rc:name).

Definition unspace (l:list tok) : list tok := filter (fun t => negb (is_space t)) l.

(* expect = an item must come next (start, or after a comma); a comma where an item is expected, two items without
   a comma, a cut piece, an empty key: rejected.  A body without any item is `CREATE TABLE t ()`. *)
Fixpoint items (expect:bool) (l:list tok) (acc:list item) : option (list item) :=
  match l with
  | [] => if expect then match acc with [] => Some [] | _ => None end else Some acc
  | KComma :: r => if expect then None else items true r acc
  | KName c :: r =>
      if expect then
        match r with
        | KTy ty :: r' => items false r' (acc ++ [ICol c ty])
        | _ => items false r (acc ++ [ICol c TEmpty])
        end
      else None
  | KPk p :: r => if expect then match p with [] => None | _ => items false r (acc ++ [IPk p]) end else None
  | KFk c rt rc :: r => if expect then items false r (acc ++ [IFk c rt rc]) else None
  | _ => None
  end.

Definition item_cols (its:list item) : list (name * sqlty) :=
  flat_map (fun i => match i with ICol c ty => [(c, ty)] | _ => [] end) its.
Definition item_pks (its:list item) : list (list name) :=
  flat_map (fun i => match i with IPk p => [p] | _ => [] end) its.
Definition item_fks (its:list item) : list (name * (name * name)) :=
  flat_map (fun i => match i with IFk c rt rc => [(c, (rt, rc))] | _ => [] end) its.

Definition parse_body (t:name) (l:list tok) : option ddl :=
  match items true (unspace l) [] with
  | None => None
  | Some its =>
      match item_pks its with
      | [] => Some (CreateTable t (item_cols its) [] (item_fks its))
      | [p] => Some (CreateTable t (item_cols its) p (item_fks its))
      | _ => None
      end
  end.

Definition parse_addcol (t:name) (l:list tok) : option ddl :=
  match unspace l with
  | [KName c; KTy ty] => Some (AddColumn t c ty)
  | [KName c] => Some (AddColumn t c TEmpty)
  | _ => None
  end.

Definition parse_addfk (t:name) (l:list tok) : option ddl :=
  match unspace l with
  | [KFk c rt rc] => Some (AddFK t c rt rc)
  | _ => None
  end.

(* reading the text of statement s back (the table name stands outside the modelled text) *)
Definition parse_stmt (s:ddl) (l:list tok) : option ddl :=
  match s with
  | CreateTable t _ _ _ => parse_body t l
  | AddColumn t _ _ => parse_addcol t l
  | AddFK t _ _ _ => parse_addfk t l
  | _ => match l with [] => Some s | _ => None end
  end.

(* no type token carries the empty type (it is no text) *)
Definition ty_nonempty (ty:sqlty) : bool := match ty with TEmpty => false | _ => true end.

(* ---- ProcessModSysls over several application names (databasescriptview.go) ----
   one entry per name of --app-names: the application in the old and in the new module (None = absent).  A script
   is produced for every name present in the new module: the delta when the old module has it too, else the
   creation script; the shared strings.Builder is Reset before each, visitedAttributes is made afresh inside
   generateDatabaseScriptModify / GenerateDatabaseScriptCreate. *)
Definition app_entry := (option model * option model)%type.
Inductive app_script := ScrDelta (l:list ddl) | ScrCreate (l:list ddl).

Definition process_mod (sk:stop_kind) (cfg:dcfg) (tk ck:order_kind) (fuel:nat) (ord:nat -> list name -> list name)
    (apps:list app_entry) : outcome (list app_script) :=
  fold_left (fun acc e =>
    match acc with
    | OutOfFuel => OutOfFuel
    | Ok out =>
        match e with
        | (Some o, Some n) =>
            match delta sk cfg ck fuel ord o n with Ok l => Ok (out ++ [ScrDelta l]) | OutOfFuel => OutOfFuel end
        | (None, Some n) =>
            match create sk tk ck fuel ord n with Ok l => Ok (out ++ [ScrCreate l]) | OutOfFuel => OutOfFuel end
        | (_, None) => Ok out
        end
    end) apps (Ok []).
