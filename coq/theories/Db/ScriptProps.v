(* C16 proofs about the script model (Db/Script.v) and the interpreter (Db/SqlInterp.v). *)
From Coq Require Import String List NArith PArith Bool Lia Permutation.
Import ListNotations.
Require Import Verif.Db.Depth Verif.Db.DepthProps Verif.Gen.DbTables Verif.Db.Script Verif.Db.SqlInterp Verif.Db.Tables.

(* ================================================================ delta_identity *)
Lemma sqlty_eqb_refl t : sqlty_eqb t t = true.
Proof. destruct t; cbn; try reflexivity; apply N.eqb_refl. Qed.

Lemma key_eqb_refl k : key_eqb k k = true.
Proof. apply key_eqb_eq. reflexivity. Qed.

(* a retained column whose declaration did not change: no statement, key flags unchanged *)
Lemma modify_col_same cfg t c pks vt :
  exists pks' vt', modify_col cfg t c c pks vt = ([], pks', vt', false, cpk c).
Proof.
  unfold modify_col.
  destruct (cref c) as [[rt rc]|].
  - destruct (cfg_refref cfg); rewrite ?key_eqb_refl, ?Bool.eqb_reflx; cbn [negb]; eauto.
  - rewrite sqlty_eqb_refl, !Bool.eqb_reflx. cbn [negb app]. eauto.
Qed.

Lemma modify_table_same cfg tb vt : exists vt', modify_table cfg tb tb vt = ([], vt').
Proof.
  unfold modify_table.
  assert (H1 : forall l acc, fold_left (mt_drop_step tb tb) l acc = acc).
  { induction l as [|c l IH]; intros acc; cbn [fold_left]; [reflexivity|].
    rewrite <- (IH acc) at 2. f_equal. unfold mt_drop_step. destruct acc as [[ch ex] dr]. destruct (find_col tb c); reflexivity. }
  rewrite H1.
  assert (H2 : forall l pks vt0 ex, exists pks' vt' ex',
             fold_left (mt_col_step cfg tb tb) l ([], pks, vt0, false, ex) = ([], pks', vt', false, ex')).
  { induction l as [|c l IH]; intros pks vt0 ex; cbn [fold_left]; [eauto|].
    unfold mt_col_step at 2. destruct (find_col tb c) as [nc|]; [|apply IH].
    destruct (modify_col_same cfg (tname tb) nc pks vt0) as [pks' [vt' ->]]. cbn [app orb]. apply IH. }
  destruct (H2 (sort_names (map cname (tcols tb))) [] vt false) as [pks' [vt' [ex' ->]]].
  rewrite andb_false_r. cbn [app andb]. eauto.
Qed.

(* HEADLINE: the delta between identical versions contains no statement - for every model, every map order,
   every variant of the guards *)
Theorem delta_identity sk cfg ck fuel ord m l : delta sk cfg ck fuel ord m m = Ok l -> l = [].
Proof.
  unfold delta. destruct (depth_map sk fuel ord m) as [st|]; [|discriminate]. intros [= <-].
  unfold delta_from.
  assert (Hlv : forall names vt, exists vt', fold_left (delta_table_step cfg ck m m) names (vt, []) = (vt', [])).
  { induction names as [|t names IH]; intros vt; cbn [fold_left]; [eauto|].
    unfold delta_table_step at 2. destruct (find_table m t) as [tb|]; [|apply IH]. cbn [fst snd].
    destruct (modify_table_same cfg tb vt) as [vt' ->]. cbn [app]. apply IH. }
  assert (Hall : forall lvs vt, exists vt', fold_left (delta_level_step cfg ck m m) lvs (vt, []) = (vt', [])).
  { induction lvs as [|lv lvs IH]; intros vt; cbn [fold_left]; [eauto|].
    unfold delta_level_step at 2. destruct (Hlv (sort_names (snd lv)) vt) as [vt' ->]. apply IH. }
  destruct (Hall (levels_sorted (bydepth st)) []) as [vt' Hv]. etransitivity; [apply f_equal; exact Hv|reflexivity].
Qed.

Corollary delta_identity_changes_nothing sk cfg ck fuel ord m l c :
  delta sk cfg ck fuel ord m m = Ok l -> exec c l = XOk c.
Proof. intros H. rewrite (delta_identity _ _ _ _ _ _ _ H). reflexivity. Qed.

(* ================================================================ refutations (witnesses evaluated by the kernel) *)
Definition pcol (n:name) (ln:N) (p:prim) (pk auto:bool) : col := C n ln p 0%N None pk auto.
Definition rcol (n:name) (ln:N) (rt rc:name) (pk:bool) : col := C n ln PInt 0%N (Some (rt, rc)) pk false.
Definition run_create tk ck m := match create depth_stop tk ck (S (length m)) id_ord m with Ok l => exec empty_cat l | OutOfFuel => XErr end.
Definition run_delta cfg o n :=
  match create depth_stop table_order column_order (S (length o)) id_ord o, delta depth_stop cfg column_order (S (length o + length n)) id_ord o n with
  | Ok c, Ok dl => exec empty_cat (c ++ dl)
  | _, _ => XErr
  end.
Definition tab_of (x:xres) (t:name) : option ctab := match x with XOk c => cat_find c t | XErr => None end.

(* tables 1 (file A) and 2 (file B) start on the same line; 3 refers to both *)
Definition sl_model : model :=
  [T 1%positive 2%N [pcol 10%positive 3%N PInt true false];
   T 2%positive 2%N [pcol 10%positive 3%N PInt true false];
   T 3%positive 6%N [rcol 11%positive 7%N 1%positive 10%positive true; rcol 12%positive 8%N 2%positive 10%positive false]].

(* through the line -> name map one of the two tables is emitted twice and the other never: the script is rejected *)
Theorem create_same_line_refuted :
  wf sl_model /\ run_create ByLineMap ByLineName sl_model = XErr /\
  (exists c, run_create ByLineName ByLineName sl_model = XOk c /\ map ctname (tabs c) = [1; 2; 3]%positive).
Proof.
  split; [|split; [vm_compute; reflexivity|eexists; split; vm_compute; reflexivity]].
  split; [repeat constructor; cbn; intuition discriminate|].
  intros tb r Htb Hr. cbn in Htb. destruct Htb as [<-|[<-|[<-|[]]]]; cbn in Hr;
    repeat (destruct Hr as [<-|Hr]; [cbn; eexists; split; [reflexivity|]; eexists; split; [left; reflexivity|reflexivity]|]); contradiction.
Qed.

(* P(1), Q(2), C(3) with C.p -> P.id; new version: C.p -> Q.id *)
Definition rt_old : model :=
  [T 1%positive 1%N [pcol 10%positive 2%N PInt true false];
   T 2%positive 3%N [pcol 10%positive 4%N PString true false];
   T 3%positive 5%N [pcol 11%positive 6%N PInt true false; rcol 12%positive 7%N 1%positive 10%positive false]].
Definition rt_new : model :=
  [T 1%positive 1%N [pcol 10%positive 2%N PInt true false];
   T 2%positive 3%N [pcol 10%positive 4%N PString true false];
   T 3%positive 5%N [pcol 11%positive 6%N PInt true false; rcol 12%positive 7%N 2%positive 10%positive false]].
Definition cfg_fixed := DCfg RefRefRetarget PkNonEmpty AutoVtBigint.

(* without the retarget branch the delta is empty and the constraint keeps pointing at P; with it the catalog is
   the one the creation script of the new version builds *)
Theorem delta_retarget_refuted :
  (exists tb, tab_of (run_delta (DCfg RefRefSilent PkNonEmpty AutoVtBigint) rt_old rt_new) 3%positive = Some tb /\
              ctfks tb = [(12, (1, 10))]%positive) /\
  tab_of (run_delta cfg_fixed rt_old rt_new) 3%positive = tab_of (run_create ByLineName ByLineName rt_new) 3%positive.
Proof. split; [eexists; split; vm_compute; reflexivity|vm_compute; reflexivity]. Qed.

(* the only key column loses ~pk: PRIMARY KEY() is rejected unless the guard is there *)
Definition pk_old : model := [T 1%positive 1%N [pcol 10%positive 2%N PInt true false; pcol 11%positive 3%N PInt false false]].
Definition pk_new : model := [T 1%positive 1%N [pcol 10%positive 2%N PInt false false; pcol 11%positive 3%N PInt false false]].
Theorem delta_empty_key_refuted :
  run_delta (DCfg RefRefRetarget PkAlways AutoVtBigint) pk_old pk_new = XErr /\
  tab_of (run_delta cfg_fixed pk_old pk_new) 1%positive = tab_of (run_create ByLineName ByLineName pk_new) 1%positive.
Proof. split; vm_compute; reflexivity. Qed.

(* old: P(id int pk autoinc); new adds C(p -> P.id): without AutoVtBigint C.p is integer, the creation script says bigint *)
Definition av_old : model := [T 1%positive 1%N [pcol 10%positive 2%N PInt true true]].
Definition av_new : model := [T 1%positive 1%N [pcol 10%positive 2%N PInt true true];
                              T 2%positive 3%N [rcol 11%positive 4%N 1%positive 10%positive false]].
Theorem delta_ref_to_autoinc_refuted :
  tab_of (run_delta (DCfg RefRefRetarget PkNonEmpty AutoVtPlain) av_old av_new) 2%positive <>
    tab_of (run_create ByLineName ByLineName av_new) 2%positive /\
  tab_of (run_delta cfg_fixed av_old av_new) 2%positive = tab_of (run_create ByLineName ByLineName av_new) 2%positive.
Proof. split; [vm_compute; discriminate|vm_compute; reflexivity]. Qed.

(* ---- what is STILL false of the current source (known findings): delta_sound does not hold for these edit kinds *)
(* ~autoinc added to a retained column: integer + sequence default, the creation script says bigint *)
Definition ai_old : model := [T 1%positive 1%N [pcol 10%positive 2%N PInt true false]].
Definition ai_new : model := [T 1%positive 1%N [pcol 10%positive 2%N PInt true true]].
Theorem delta_sound_refuted_autoinc_added :
  tab_of (run_delta cfg_fixed ai_old ai_new) 1%positive <> tab_of (run_create ByLineName ByLineName ai_new) 1%positive.
Proof. vm_compute. discriminate. Qed.

(* the primitive of a retained ~autoinc column changes *)
Definition ar_new : model := [T 1%positive 1%N [pcol 10%positive 2%N PString true true]].
Theorem delta_sound_refuted_autoinc_retyped :
  tab_of (run_delta cfg_fixed ai_new ar_new) 1%positive <> tab_of (run_create ByLineName ByLineName ar_new) 1%positive.
Proof. vm_compute. discriminate. Qed.

(* C.p -> P.id unchanged, P.id retyped int -> string: C.p keeps integer *)
Definition tr_old : model :=
  [T 1%positive 1%N [pcol 10%positive 2%N PInt true false]; T 2%positive 3%N [rcol 11%positive 4%N 1%positive 10%positive false]].
Definition tr_new : model :=
  [T 1%positive 1%N [pcol 10%positive 2%N PString true false]; T 2%positive 3%N [rcol 11%positive 4%N 1%positive 10%positive false]].
Theorem delta_sound_refuted_target_retyped :
  tab_of (run_delta cfg_fixed tr_old tr_new) 2%positive <> tab_of (run_create ByLineName ByLineName tr_new) 2%positive.
Proof. vm_compute. discriminate. Qed.

(* P.c dropped while C.p (-> P.c in the old version) becomes a plain column: P is processed first (depth 0 in the
   new version) and its DROP COLUMN is rejected because C's constraint is still there *)
Definition dr_old : model :=
  [T 1%positive 1%N [pcol 10%positive 2%N PInt true false; pcol 13%positive 3%N PInt false false];
   T 2%positive 4%N [rcol 11%positive 5%N 1%positive 13%positive false]].
Definition dr_new : model :=
  [T 1%positive 1%N [pcol 10%positive 2%N PInt true false];
   T 2%positive 4%N [pcol 11%positive 5%N PInt false false]].
Theorem delta_sound_refuted_drop_referenced : run_delta cfg_fixed dr_old dr_new = XErr.
Proof. vm_compute. reflexivity. Qed.

(* ================================================================ creation script: each table exactly once *)
Definition stmt_table (s:ddl) : name :=
  match s with
  | CreateTable t _ _ _ | AddColumn t _ _ | DropColumn t _ | AlterType t _ _ | AddPK t _ | DropPK t
  | AddFK t _ _ _ | DropFK t _ | CreateSeq t _ | SetDefaultSeq t _ | OwnSeq t _ | SetValSeq t _ => t
  end.
Definition is_create (s:ddl) : bool := match s with CreateTable _ _ _ _ => true | _ => false end.
Definition known (m:model) (t:name) : bool := match find_table m t with Some _ => true | None => false end.

Lemma insert_by_perm {A} (le:A -> A -> bool) x l : Permutation (insert_by le x l) (x :: l).
Proof.
  induction l as [|y l IH]; cbn [insert_by]; [reflexivity|]. destruct (le x y); [reflexivity|].
  rewrite IH. apply perm_swap.
Qed.
Lemma sort_by_perm {A} (le:A -> A -> bool) l : Permutation (sort_by le l) l.
Proof.
  unfold sort_by. induction l as [|x l IH]; cbn [fold_right]; [reflexivity|]. rewrite insert_by_perm. constructor. exact IH.
Qed.
Lemma perm_concat {A} (l l':list (list A)) : Permutation l l' -> Permutation (concat l) (concat l').
Proof.
  induction 1; cbn [concat]; [reflexivity|apply Permutation_app_head; assumption| |etransitivity; eassumption].
  rewrite !app_assoc. apply Permutation_app_tail, Permutation_app_comm.
Qed.

Lemma create_table_name ck tb vt : stmt_table (fst (create_table ck tb vt)) = tname tb /\ is_create (fst (create_table ck tb vt)) = true.
Proof.
  unfold create_table. destruct (fold_left (create_col_step (tname tb)) (ordered_cols ck tb) ([], [], [], vt)) as [[[defs pks] fks] vt'].
  split; reflexivity.
Qed.

Lemma create_table_step_spec ck m acc t :
  map stmt_table (snd (create_table_step ck m acc t)) = map stmt_table (snd acc) ++ (if known m t then [t] else []) /\
  (forallb is_create (snd acc) = true -> forallb is_create (snd (create_table_step ck m acc t)) = true).
Proof.
  unfold create_table_step, known. destruct (find_table m t) as [tb|] eqn:Hf.
  - pose proof (create_table_name ck tb (fst acc)) as [Hn Hc]. destruct (create_table ck tb (fst acc)) as [dd vt'].
    cbn [fst snd] in *. destruct (find_table_some _ _ _ Hf) as [_ <-]. split.
    + rewrite map_app. cbn [map]. rewrite Hn. reflexivity.
    + intros Ha. rewrite forallb_app, Ha. cbn [forallb]. rewrite Hc. reflexivity.
  - rewrite app_nil_r. auto.
Qed.

Lemma create_tables_fold ck m names : forall acc,
  map stmt_table (snd (fold_left (create_table_step ck m) names acc)) = map stmt_table (snd acc) ++ filter (known m) names /\
  (forallb is_create (snd acc) = true -> forallb is_create (snd (fold_left (create_table_step ck m) names acc)) = true).
Proof.
  induction names as [|t names IH]; intros acc; cbn [fold_left filter].
  - rewrite app_nil_r. auto.
  - destruct (IH (create_table_step ck m acc t)) as [IH1 IH2].
    destruct (create_table_step_spec ck m acc t) as [S1 S2]. split.
    + rewrite IH1, S1, <- app_assoc. destruct (known m t); reflexivity.
    + intros Ha. apply IH2, S2, Ha.
Qed.

Lemma create_levels_fold tk ck m lvs : forall acc,
  map stmt_table (snd (fold_left (create_level_step tk ck m) lvs acc)) =
    map stmt_table (snd acc) ++ concat (map (fun lv => filter (known m) (level_names tk m lv)) lvs) /\
  (forallb is_create (snd acc) = true -> forallb is_create (snd (fold_left (create_level_step tk ck m) lvs acc)) = true).
Proof.
  induction lvs as [|lv lvs IH]; intros acc; cbn [fold_left map concat].
  - rewrite app_nil_r. auto.
  - destruct (IH (create_level_step tk ck m acc lv)) as [IH1 IH2].
    destruct (create_tables_fold ck m (level_names tk m lv) acc) as [H1 H2].
    change (fold_left (create_table_step ck m) (level_names tk m lv) acc) with (create_level_step tk ck m acc lv) in H1, H2. split.
    + rewrite IH1, H1, <- app_assoc. reflexivity.
    + intros Ha. apply IH2, H2, Ha.
Qed.

Lemma level_names_perm m lv : Permutation (level_names ByLineName m lv) (snd lv).
Proof.
  unfold level_names, order_names. rewrite sort_by_perm, map_map. cbn [fst]. rewrite map_id. reflexivity.
Qed.

Lemma concat_pointwise {A B} (f g:B -> list A) l :
  (forall x, In x l -> Permutation (f x) (g x)) -> Permutation (concat (map f l)) (concat (map g l)).
Proof.
  induction l as [|x l IH]; cbn [map concat]; intros H; [reflexivity|].
  apply Permutation_app; [apply H; left; reflexivity|apply IH; intros y Hy; apply H; right; exact Hy].
Qed.

Lemma filter_all {A} (f:A -> bool) l : (forall x, In x l -> f x = true) -> filter f l = l.
Proof.
  induction l as [|x l IH]; cbn [filter]; intros H; [reflexivity|]. rewrite (H x (or_introl eq_refl)). f_equal.
  apply IH. intros y Hy. apply H. right. exact Hy.
Qed.

(* PARTIAL (of create_complete_ordered): with tables ordered by (line, name) - what the current source does, see
   Tables.source_shape - the creation script consists of CREATE TABLE statements only and defines every table
   of the model exactly once, whatever the line numbers (equal ones included) and the map iteration orders. *)
Theorem create_each_table_once sk m d ck ord fuel :
  wf m -> is_depth m d -> perm_oracle ord -> (length m < fuel)%nat ->
  exists l, create sk ByLineName ck fuel ord m = Ok l /\
    forallb is_create l = true /\ Permutation (map stmt_table l) (map tname m).
Proof.
  intros Hwf Hd Hord Hfuel.
  destruct (depth_is_longest_path sk m d ord fuel Hwf Hd Hord Hfuel) as [st [Hst [_ [Hlv [_ Hnd]]]]].
  unfold create. rewrite Hst. eexists. split; [reflexivity|]. unfold create_from.
  destruct (create_levels_fold ByLineName ck m (levels_sorted (bydepth st)) ([], [])) as [H1 H2].
  split; [apply H2; reflexivity|]. rewrite H1. cbn [snd map app].
  assert (Hin : forall t, In t (concat (map snd (bydepth st))) <-> In t (map tname m)).
  { intros t. rewrite in_concat. split.
    - intros [l [Hl Ht]]. apply in_map_iff in Hl. destruct Hl as [[k l'] [<- Hkl]]. apply (Hlv t k). eauto.
    - intros Ht. destruct (proj2 (Hlv t (d t)) (conj Ht eq_refl)) as [l [Hkl Htl]]. exists l. split; [|exact Htl].
      apply in_map_iff. exists (d t, l). auto. }
  assert (Hperm : Permutation (concat (map snd (bydepth st))) (map tname m)).
  { apply NoDup_Permutation; [exact Hnd|apply (proj1 Hwf)|exact Hin]. }
  rewrite <- Hperm.
  transitivity (concat (map snd (levels_sorted (bydepth st)))).
  - apply concat_pointwise. intros lv Hlvin.
    assert (Hsub : forall t, In t (snd lv) -> known m t = true).
    { intros t Ht. unfold levels_sorted in Hlvin. apply (Permutation_in _ (sort_by_perm _ _)) in Hlvin.
      assert (Htm : In t (map tname m)).
      { apply Hin, in_concat. exists (snd lv). split; [apply in_map, Hlvin|exact Ht]. }
      unfold known. destruct (find_table m t) eqn:Hf; [reflexivity|]. exfalso. exact (find_table_none _ _ Hf Htm). }
    rewrite filter_all by (intros t Ht; apply Hsub, (Permutation_in _ (level_names_perm m lv)), Ht).
    apply level_names_perm.
  - apply perm_concat, Permutation_map. unfold levels_sorted. apply sort_by_perm.
Qed.
