(* C16 proofs: written_file_is_the_script - with the write call of the current source (Gen: write_mode) the file holds
   exactly the script of the last run, whatever was there before. *)
From Coq Require Import String List NArith Bool.
Import ListNotations.
Require Import Verif.Db.Depth Verif.Gen.DbTables Verif.Db.Files.

Lemma write_mode_is : write_mode = WriteTruncate. Proof. reflexivity. Qed.

Local Open Scope string_scope.
Lemma write_file_expected : write_file_shape =
  ["for _, e := range m { err := errors.Wrapf(afero.WriteFile(fs, e.filename, []byte(e.content), os.ModePerm), ""writing %q"", e.filename) if err != nil { logger.Errorf(""error received while writing the file %s. The error message is - %s"", e.filename, err.Error()) return err } }";
   "return nil"].
Proof. reflexivity. Qed.
Local Close Scope string_scope.

Theorem written_file_is_the_script old k n : write write_mode old k n = Some [(k, 0%N, n)].
Proof. rewrite write_mode_is. reflexivity. Qed.

(* any history of runs into one directory: every file read back is the script of the run that wrote it *)
Theorem every_written_file_is_its_script init steps :
  run_writes write_mode init steps = map (fun s => Some [(fst s, 0%N, snd s)]) steps.
Proof.
  revert init. induction steps as [|[k n] r IH]; intros init; cbn [run_writes map fst snd]; [reflexivity|].
  rewrite written_file_is_the_script, IH. reflexivity.
Qed.

(* REFUTED for a write that opens the file without truncating it (what a seeded regression did): a shorter script
   written over a longer one keeps the tail of the old one; with O_APPEND the old script stays in front *)
Theorem keep_tail_refuted :
  write WriteKeepTail (Some [(1%N, 0%N, 10%N)]) 2%N 4%N = Some [(2%N, 0%N, 4%N); (1%N, 4%N, 10%N)] /\
  write WriteAppend (Some [(1%N, 0%N, 10%N)]) 2%N 4%N = Some [(1%N, 0%N, 10%N); (2%N, 0%N, 4%N)].
Proof. split; reflexivity. Qed.

(* PARTIAL for the non-truncating write: right exactly when nothing longer was there *)
Theorem keep_tail_partial k n : write WriteKeepTail None k n = Some [(k, 0%N, n)].
Proof. reflexivity. Qed.
