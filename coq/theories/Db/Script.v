(* C16 MODEL (definitions only): pkg/database script generation as a producer of abstract DDL.
     create  = ScriptView.GenerateDatabaseScriptCreate (databasescriptview.go) + writeCreateSQLForATable /
               writeCreateSQLForAColumn / addConstraints (postgres.go)
     delta   = ScriptView.ProcessModSysls for one app present in both versions: findAddedDeletedRetainedTables,
               generateDatabaseScriptModify, writeModifySQLForATable, writeModifySQLForAColumn
   The SQL text is abstracted to the constructors of `ddl` (the harness parses the emitted text into them);
   identifiers are positives whose order is the Go string order; constraint names (upper(T)_PK,
   upper(T_C)_FK) are abstracted to (table) and (table, column).
   The emission order of tables / columns is parametrised by `order_kind`, instantiated with what the translator
   reads from the current source (Gen/DbTables.v). *)
From Coq Require Import String List NArith PArith Bool.
Import ListNotations.
Require Import Verif.Db.Depth Verif.Gen.DbTables.

Inductive sqlty :=
  | TVarchar (n:N)      (* "varchar (n)" *)
  | TInteger | TDate | TBigint | TBigserial
  | TEmpty              (* "" : the type looked up in visitedAttributes for a column that was never written *)
  | TOther (k:N).       (* any other text (never produced by the model; lets an observation mismatch) *)

Definition sqlty_eqb (a b:sqlty) : bool :=
  match a, b with
  | TVarchar x, TVarchar y => N.eqb x y
  | TInteger, TInteger | TDate, TDate | TBigint, TBigint | TBigserial, TBigserial | TEmpty, TEmpty => true
  | TOther x, TOther y => N.eqb x y
  | _, _ => false
  end.

Inductive ddl :=
  | CreateTable (t:name) (cols:list (name * sqlty)) (pk:list name) (fks:list (name * (name * name)))
  | AddColumn (t c:name) (ty:sqlty)
  | DropColumn (t c:name)
  | AlterType (t c:name) (ty:sqlty)
  | AddPK (t:name) (cols:list name)
  | DropPK (t:name)
  | AddFK (t c rt rc:name)
  | DropFK (t c:name)
  | CreateSeq (t c:name) | SetDefaultSeq (t c:name) | OwnSeq (t c:name) | SetValSeq (t c:name).

(* ---- getPostgresDataTypes, read through the regenerated table ---- *)
Local Open Scope string_scope.
Definition prim_str (p:prim) : string :=
  match p with PString => "string" | PInt => "int" | PDate => "date" | POther => "other" | PRef1 => "no_primitive" end.
Definition ty_of_lit (s:string) : sqlty :=
  if String.eqb s "integer" then TInteger else if String.eqb s "date" then TDate
  else if String.eqb s "bigint" then TBigint else if String.eqb s "bigserial" then TBigserial
  else if String.eqb s "varchar (50)" then TVarchar 50 else TOther 0.
Definition ty_of_res (r:pgres) (size:N) : sqlty :=
  match r with
  | Sized pre suf => if String.eqb pre "varchar (" && String.eqb suf ")" then TVarchar size else TOther 1
  | Lit s => ty_of_lit s
  | PgUnknown => TOther 2
  end.
Fixpoint assoc_str {A} (k:string) (l:list (string * A)) : option A :=
  match l with [] => None | (k', v) :: r => if String.eqb k k' then Some v else assoc_str k r end.
Definition pg_type (p:prim) (size:N) : sqlty :=
  match assoc_str (prim_str p) pg_types with
  | Some r => ty_of_res r size
  | None => ty_of_res pg_default size
  end.
Local Close Scope string_scope.

(* attributeSize: defaultTextSize unless a string with Length.Max > 0 *)
Definition attr_size (c:col) : N :=
  match cprim c with
  | PString => if N.ltb 0 (csize c) then csize c else default_text_size
  | _ => default_text_size
  end.
Definition col_pg_type (c:col) : sqlty := pg_type (cprim c) (attr_size c).
Definition bigint_ty : sqlty := ty_of_lit bigint_const.

(* visitedAttributes: "Table.attr" -> data type text; a missing key reads as "" *)
Definition vtypes := list ((name * name) * sqlty).
Definition vt_get (vt:vtypes) (k:name*name) : sqlty :=
  match find (fun x => key_eqb (fst x) k) vt with Some (_, ty) => ty | None => TEmpty end.
Definition vt_set (vt:vtypes) (k:name*name) (ty:sqlty) : vtypes := (k, ty) :: vt.

(* ---- ordering (name, line) pairs ---- *)
Definition nl_le (a b:name * N) : bool :=
  if N.eqb (snd a) (snd b) then Pos.leb (fst a) (fst b) else N.ltb (snd a) (snd b).
(* lineNumberMap[line] = name for every item in iteration order (the last writer wins), then one lookup per
   sorted line number *)
Definition last_on_line (items:list (name * N)) (ln:N) : option name :=
  match find (fun x => N.eqb (snd x) ln) (rev items) with Some (n, _) => Some n | None => None end.
Fixpoint somes {A} (l:list (option A)) : list A :=
  match l with [] => [] | Some a :: r => a :: somes r | None :: r => somes r end.

Definition order_names (k:order_kind) (items:list (name * N)) : list name :=
  match k with
  | ByLineName => map fst (sort_by nl_le items)
  | ByLineMap => somes (map (last_on_line items) (sort_by N.leb (map snd items)))
  | OrderUnknown => []
  end.

(* ---- writeCreateSQLForAColumn: column definition, optional FK, primary-key flag, visitedAttributes ---- *)
Definition create_col (t:name) (c:col) (vt:vtypes)
    : (name * sqlty) * option (name * (name * name)) * vtypes :=
  match cref c with
  | Some (rt, rc) =>
      let ty := vt_get vt (rt, rc) in
      ((cname c, ty), Some (cname c, (rt, rc)), vt_set vt (t, cname c) ty)
  | None =>
      if cauto c then ((cname c, TBigserial), None, vt_set vt (t, cname c) bigint_ty)
      else let ty := col_pg_type c in ((cname c, ty), None, vt_set vt (t, cname c) ty)
  end.

Definition lookup_cols (tb:table) (names:list name) : list col := somes (map (find_col tb) names).

(* writeCreateSQLForATable *)
Definition create_col_step (t:name) (acc:list (name*sqlty) * list name * list (name*(name*name)) * vtypes) (c:col)
    : list (name*sqlty) * list name * list (name*(name*name)) * vtypes :=
  let '(defs, pks, fks, vt) := acc in
  let '(d, fk, vt1) := create_col t c vt in
  (defs ++ [d], (if cpk c then pks ++ [cname c] else pks),
   (match fk with Some f => fks ++ [f] | None => fks end), vt1).

Definition ordered_cols (ck:order_kind) (tb:table) : list col :=
  lookup_cols tb (order_names ck (map (fun c => (cname c, cline c)) (tcols tb))).

Definition create_table (ck:order_kind) (tb:table) (vt:vtypes) : ddl * vtypes :=
  let '(defs, pks, fks, vt') := fold_left (create_col_step (tname tb)) (ordered_cols ck tb) ([], [], [], vt) in
  (CreateTable (tname tb) defs pks fks, vt').

Definition levels_sorted (bd:list (N * list name)) : list (N * list name) :=
  sort_by (fun a b => N.leb (fst a) (fst b)) bd.

Definition table_line (m:model) (t:name) : N := match find_table m t with Some tb => tline tb | None => 0%N end.

(* GenerateDatabaseScriptCreate *)
Definition create_table_step (ck:order_kind) (m:model) (acc:vtypes * list ddl) (t:name) : vtypes * list ddl :=
  match find_table m t with
  | Some tb => let '(d, vt') := create_table ck tb (fst acc) in (vt', snd acc ++ [d])
  | None => acc
  end.
Definition level_names (tk:order_kind) (m:model) (lv:N * list name) : list name :=
  order_names tk (map (fun t => (t, table_line m t)) (snd lv)).
Definition create_level_step (tk ck:order_kind) (m:model) (acc:vtypes * list ddl) (lv:N * list name) : vtypes * list ddl :=
  fold_left (create_table_step ck m) (level_names tk m lv) acc.
Definition create_from (tk ck:order_kind) (m:model) (st:dstate) : list ddl :=
  snd (fold_left (create_level_step tk ck m) (levels_sorted (bydepth st)) ([], [])).

Definition create (sk:stop_kind) (tk ck:order_kind) (fuel:nat) (ord:nat -> list name -> list name) (m:model) : outcome (list ddl) :=
  match depth_map sk fuel ord m with
  | Ok st => Ok (create_from tk ck m st)
  | OutOfFuel => OutOfFuel
  end.

(* ---- the delta script ---- *)

(* writeModifySQLForAColumn: statements, primaryKeys', visitedAttributes', (primaryKeyChanged, isPrimaryKeyOld) *)
Definition modify_col (cfg:dcfg) (t:name) (oc nc:col) (pks:list name) (vt:vtypes)
    : list ddl * list name * vtypes * bool * bool :=
  let c := cname nc in
  let pks' := if cpk nc then pks ++ [c] else pks in
  let changed := negb (Bool.eqb (cpk oc) (cpk nc)) in
  let '(out, dt) :=
    match cref nc with
    | Some (rt, rc) =>
        let dt := vt_get vt (rt, rc) in
        match cref oc with
        | None => ([AlterType t c dt; AddFK t c rt rc], dt)
        | Some (ot, oc') =>
            match cfg_refref cfg with
            | RefRefRetarget =>
                if negb (key_eqb (ot, oc') (rt, rc)) then ([DropFK t c; AlterType t c dt; AddFK t c rt rc], dt)
                else ([], dt)
            | _ => ([], dt)                      (* both references: nothing is emitted, whatever the targets *)
            end
        end
    | None =>
        let dt := col_pg_type nc in
        let '(out0, dtOld) :=
          match cref oc with
          | Some _ => ([DropFK t c], TEmpty)
          | None => ([], col_pg_type oc)
          end in
        let '(out1, dt1) :=
          if negb (sqlty_eqb dt dtOld) then (out0 ++ [AlterType t c dt], dt)
          else if negb (Bool.eqb (cauto nc) (cauto oc)) then
            if cauto nc
            then (out0 ++ [CreateSeq t c; AlterType t c dt; SetDefaultSeq t c; OwnSeq t c; SetValSeq t c], bigint_ty)
            else (out0 ++ [AlterType t c dt], dt)
          else (out0, dt) in
        (out1, match cfg_autovt cfg with AutoVtBigint => if cauto nc then bigint_ty else dt1 | _ => dt1 end)
    end in
  (out, pks', vt_set vt (t, c) dt, changed, cpk oc).

(* writeModifySQLForATable *)
Definition mt_drop_step (nt ot:table) (acc:bool * bool * list ddl) (c:name) : bool * bool * list ddl :=
  let '(ch, ex, dr) := acc in
  match find_col nt c, find_col ot c with
  | None, Some oc => ((ch || cpk oc)%bool, (ex || cpk oc)%bool, dr ++ [DropColumn (tname nt) c])
  | _, _ => acc
  end.

Definition mt_col_step (cfg:dcfg) (nt ot:table) (acc:list ddl * list name * vtypes * bool * bool) (c:name)
    : list ddl * list name * vtypes * bool * bool :=
  let t := tname nt in
  let '(out, pks, vt, ch, ex) := acc in
  match find_col nt c with
  | None => acc
  | Some nc =>
      match find_col ot c with
      | None =>
          let '(d, fk, vt1) := create_col t nc vt in
          let pks1 := if cpk nc then pks ++ [c] else pks in
          let fkst := match fk with Some (_, (rt, rc)) => [AddFK t c rt rc] | None => [] end in
          (out ++ [AddColumn t c (snd d)] ++ fkst, pks1, vt1, (ch || cpk nc)%bool, ex)
      | Some oc =>
          let '(o, pks1, vt1, chc, wasold) := modify_col cfg t oc nc pks vt in
          (out ++ o, pks1, vt1, (ch || chc)%bool, (ex || wasold)%bool)
      end
  end.

Definition pk_add_allowed (cfg:dcfg) (pks:list name) : bool :=
  match cfg_pkadd cfg with PkNonEmpty => match pks with [] => false | _ => true end | _ => true end.

Definition modify_table (cfg:dcfg) (nt ot:table) (vt:vtypes) : list ddl * vtypes :=
  let t := tname nt in
  let oldnames := sort_names (map cname (tcols ot)) in
  let newnames := sort_names (map cname (tcols nt)) in
  let '(changed0, existed0, drops) := fold_left (mt_drop_step nt ot) oldnames (false, false, []) in
  let '(out, pks, vt', changed, existed) := fold_left (mt_col_step cfg nt ot) newnames ([], [], vt, changed0, existed0) in
  (out ++ (if (existed && changed)%bool then [DropPK t] else []) ++ drops
       ++ (if (changed && pk_add_allowed cfg pks)%bool then [AddPK t pks] else []), vt').

(* findAddedDeletedRetainedTables + generateDatabaseScriptModify: new depth levels ascending, names sorted *)
Definition delta_table_step (cfg:dcfg) (ck:order_kind) (old new:model) (acc:vtypes * list ddl) (t:name) : vtypes * list ddl :=
  match find_table new t with
  | None => acc
  | Some nt =>
      match find_table old t with
      | Some ot => let '(o, vt') := modify_table cfg nt ot (fst acc) in (vt', snd acc ++ o)
      | None => let '(d, vt') := create_table ck nt (fst acc) in (vt', snd acc ++ [d])
      end
  end.
Definition delta_level_step (cfg:dcfg) (ck:order_kind) (old new:model) (acc:vtypes * list ddl) (lv:N * list name) : vtypes * list ddl :=
  fold_left (delta_table_step cfg ck old new) (sort_names (snd lv)) acc.
Definition delta_from (cfg:dcfg) (ck:order_kind) (old new:model) (stn:dstate) : list ddl :=
  snd (fold_left (delta_level_step cfg ck old new) (levels_sorted (bydepth stn)) ([], [])).

(* ProcessModSysls (app present in both versions): both depth maps are computed first *)
Definition delta (sk:stop_kind) (cfg:dcfg) (ck:order_kind) (fuel:nat) (ord:nat -> list name -> list name) (old new:model) : outcome (list ddl) :=
  match depth_map sk fuel ord old with
  | OutOfFuel => OutOfFuel
  | Ok _ =>
      match depth_map sk fuel ord new with
      | OutOfFuel => OutOfFuel
      | Ok stn => Ok (delta_from cfg ck old new stn)
      end
  end.
