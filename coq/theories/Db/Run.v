(* Correspondence glue for C16.  One case = old model, optional new model (None: creation script of `old`,
   Some new: delta script old -> new), the statements parsed from the SQL the real code emitted, and the catalog
   the harness's Go interpreter reached by running them (creation script: from the empty catalog; delta: after
   the real creation script of `old`, which the case carries as well). *)
From Coq Require Import List NArith PArith Bool.
Import ListNotations.
Require Import Verif.Db.Depth Verif.Db.DepthProps Verif.Db.Script Verif.Db.SqlInterp Verif.Db.CatalogProps Verif.Db.ColsSpec Verif.Db.Text Verif.Db.Files Verif.Gen.DbTables
  Verif.Base.Harness.

Definition pair_eqb (a b:name*name) : bool := key_eqb a b.
Definition coldef_eqb (a b:name*sqlty) : bool := Pos.eqb (fst a) (fst b) && sqlty_eqb (snd a) (snd b).
Definition fk_eqb (a b:name*(name*name)) : bool := Pos.eqb (fst a) (fst b) && key_eqb (snd a) (snd b).

Definition ddl_eqb (a b:ddl) : bool :=
  match a, b with
  | CreateTable t c p f, CreateTable t' c' p' f' =>
      Pos.eqb t t' && list_eqb coldef_eqb c c' && list_eqb Pos.eqb p p' && list_eqb fk_eqb f f'
  | AddColumn t c ty, AddColumn t' c' ty' => Pos.eqb t t' && Pos.eqb c c' && sqlty_eqb ty ty'
  | DropColumn t c, DropColumn t' c' => Pos.eqb t t' && Pos.eqb c c'
  | AlterType t c ty, AlterType t' c' ty' => Pos.eqb t t' && Pos.eqb c c' && sqlty_eqb ty ty'
  | AddPK t l, AddPK t' l' => Pos.eqb t t' && list_eqb Pos.eqb l l'
  | DropPK t, DropPK t' => Pos.eqb t t'
  | AddFK t c x y, AddFK t' c' x' y' => Pos.eqb t t' && Pos.eqb c c' && Pos.eqb x x' && Pos.eqb y y'
  | DropFK t c, DropFK t' c' => Pos.eqb t t' && Pos.eqb c c'
  | CreateSeq t c, CreateSeq t' c' => Pos.eqb t t' && Pos.eqb c c'
  | SetDefaultSeq t c, SetDefaultSeq t' c' => Pos.eqb t t' && Pos.eqb c c'
  | OwnSeq t c, OwnSeq t' c' => Pos.eqb t t' && Pos.eqb c c'
  | SetValSeq t c, SetValSeq t' c' => Pos.eqb t t' && Pos.eqb c c'
  | _, _ => false
  end.

Definition ccol_eqb (a b:ccol) : bool := Pos.eqb (ccname a) (ccname b) && sqlty_eqb (ccty a) (ccty b) && Bool.eqb (ccdef a) (ccdef b).
Definition ctab_eqb (a b:ctab) : bool :=
  Pos.eqb (ctname a) (ctname b) && list_eqb ccol_eqb (ctcols a) (ctcols b) &&
  option_eqb (list_eqb Pos.eqb) (ctpk a) (ctpk b) && list_eqb fk_eqb (ctfks a) (ctfks b).
Definition cat_eqb (a b:catalog) : bool := list_eqb ctab_eqb (tabs a) (tabs b) && list_eqb pair_eqb (seqs a) (seqs b).
Definition xres_eqb (a:xres) (b:option catalog) : bool :=
  match a, b with XOk c, Some c' => cat_eqb c c' | XErr, None => true | _, _ => false end.

(* the fuel every run of the model gets: tables + 1 rounds are enough on acyclic graphs (Depth theorem) *)
Definition fuel_of (m:model) : nat := S (length m).

Definition tok_eqb (a b:tok) : bool :=
  match a, b with
  | KInd, KInd | KSp, KSp | KNl, KNl | KComma, KComma | KCut, KCut => true
  | KName x, KName y => Pos.eqb x y
  | KTy x, KTy y => sqlty_eqb x y
  | KPk x, KPk y => list_eqb Pos.eqb x y
  | KFk c t r, KFk c' t' r' => Pos.eqb c c' && Pos.eqb t t' && Pos.eqb r r'
  | _, _ => false
  end.

Record c16_case := Case {
  k_old  : model;
  k_new  : option model;
  k_create : list ddl;               (* real creation script of k_old *)
  k_script : option (list ddl);      (* real delta script, when k_new is given *)
  k_cat  : option catalog;           (* Go interpreter: empty catalog, k_create, then k_script; None = rejected *)
  k_texts : list (list tok);         (* per statement of k_create ++ k_script: the emitted text, lexed (CREATE TABLE body,
                                        ADD COLUMN definition, ADD <constraint>; [] for the other statements) *)
  k_sound : bool                     (* the Go oracle's verdict on this pair: creation script of k_old accepted, delta script
                                        accepted after it, every table of k_new exactly as k_new declares it (true when there
                                        is no k_new) *)
}.

(* the scope of C16_delta_sound_columns_partial, computed: SQL types through the reference chains of both versions *)
Definition pair_in_scope (o n:model) : bool :=
  let f := S (length o + length n) in
  edits_in_scope (mty o f) (mty n f) o n && no_ref_dropped o n.

Definition c16_ok (c:c16_case) : bool :=
  (* 1. the model produces the statements the real code produced *)
  match create depth_stop table_order column_order (fuel_of (k_old c)) id_ord (k_old c) with
  | Ok l => list_eqb ddl_eqb l (k_create c)
  | OutOfFuel => false
  end &&
  match k_new c, k_script c with
  | None, None => true
  | Some n, Some s =>
      match delta depth_stop delta_cfg column_order (Nat.max (fuel_of (k_old c)) (fuel_of n)) id_ord (k_old c) n with
      | Ok l => list_eqb ddl_eqb l s
      | OutOfFuel => false
      end
  | _, _ => false
  end &&
  (* 2. the Coq interpreter and the Go interpreter agree on what the real statements do *)
  xres_eqb (exec empty_cat (k_create c ++ match k_script c with Some s => s | None => [] end)) (k_cat c) &&
  (* 3. the emitted text is, piece by piece, what the text model assembles for these statements (and no panic) *)
  list_eqb (option_eqb (list_eqb tok_eqb))
    (map (stmt_text create_trim addcol_post) (k_create c ++ match k_script c with Some s => s | None => [] end))
    (map Some (k_texts c)) &&
  (* 4. the scope of the proved delta soundness against the model-independent oracle: on a pair that the theorem covers
        (none of the four known-finding kinds) the oracle must have found nothing *)
  match k_new c with
  | Some n => if pair_in_scope (k_old c) n then k_sound c else true
  | None => true
  end.

(* ---- several applications in one run of ProcessModSysls ---- *)
Record c16_apps_case := ACase {
  a_apps : list (option model * option model);   (* per name of --app-names: the application in the old / new module *)
  a_out  : list (list ddl)                       (* the scripts returned, in order (one per name the new module has) *)
}.
Definition script_stmts (a:app_script) : list ddl := match a with ScrDelta l | ScrCreate l => l end.
Definition apps_fuel (apps:list (option model * option model)) : nat :=
  fold_left (fun acc e => Nat.max acc (Nat.max (match fst e with Some m => fuel_of m | None => 0 end)
                                              (match snd e with Some m => fuel_of m | None => 0 end))) apps 1%nat.
Definition c16_apps_ok (c:c16_apps_case) : bool :=
  match process_mod depth_stop delta_cfg table_order column_order (apps_fuel (a_apps c)) id_ord (a_apps c) with
  | Ok l => list_eqb (list_eqb ddl_eqb) (map script_stmts l) (a_out c)
  | OutOfFuel => false
  end.

(* ---- script files written into one output directory, run after run ---- *)
Record c16_files_case := FCase {
  f_init  : option content;          (* what <output-dir>/<app>.sql held before the first run (None: no such file) *)
  f_steps : list (N * N);            (* per run: (id of the script the run produces, its length in bytes) *)
  f_seen  : list (option content)    (* the file as read back from the directory after each run, in pieces: the whole script
                                        of the run is [(id, 0, length)]; bytes the harness cannot attribute carry id 0 *)
}.
Definition seg_eqb (a b:seg) : bool :=
  let '(k, x, y) := a in let '(k', x', y') := b in N.eqb k k' && N.eqb x x' && N.eqb y y'.
Definition c16_files_ok (c:c16_files_case) : bool :=
  list_eqb (option_eqb (list_eqb seg_eqb)) (run_writes write_mode (f_init c) (f_steps c)) (f_seen c).
