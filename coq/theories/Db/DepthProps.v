(* C16 proofs: the reference-depth fix-point (Db/Depth.v).
   On every model whose references resolve and whose reference graph is acyclic - stated as: a function d
   satisfying the longest-path equation  d t = max { d t' + 1 | t refers to t' }  exists - the fix-point ends
   within (number of tables) rounds whatever the map iteration orders are, and computes exactly d. *)
From Coq Require Import String List NArith PArith Bool Lia Permutation Arith.
Import ListNotations.
Require Import Verif.Db.Depth.

Definition levels_of (st:dstate) : list (N * list name) := sort_by (fun a b => N.leb (fst a) (fst b)) (bydepth st).

Definition refs_cols (cols:list col) : list (name * name) :=
  flat_map (fun c => match cref c with Some r => [r] | None => [] end) cols.
Definition refs (tb:table) : list (name * name) := refs_cols (tcols tb).
Definition maxl (l:list N) : N := fold_right N.max 0%N l.

(* every reference names an existing column of an existing table; table names are distinct *)
Definition wf (m:model) : Prop :=
  NoDup (map tname m) /\
  forall tb r, In tb m -> In r (refs tb) ->
    exists tb', find_table m (fst r) = Some tb' /\ exists c', In c' (tcols tb') /\ cname c' = snd r.

(* d is the longest-path depth; its existence makes the graph acyclic (d strictly decreases along references) *)
Definition is_depth (m:model) (d:name -> N) : Prop :=
  forall tb, In tb m -> d (tname tb) = maxl (map (fun r => (d (fst r) + 1)%N) (refs tb)).

Definition perm_oracle (ord:nat -> list name -> list name) : Prop := forall r l, Permutation (ord r l) l.

(* ---- small facts ---- *)
Lemma key_eqb_eq a b : key_eqb a b = true <-> a = b.
Proof.
  destruct a as [a1 a2], b as [b1 b2]. unfold key_eqb. cbn [fst snd].
  rewrite andb_true_iff, !Pos.eqb_eq. split; [intros [-> ->]; reflexivity|intros [= -> ->]; auto].
Qed.

Lemma vis_mem_in v k : vis_mem v k = true <-> In k v.
Proof.
  unfold vis_mem. rewrite existsb_exists. split.
  - intros [x [Hin He]]. apply key_eqb_eq in He. subst. exact Hin.
  - intros Hin. exists k. split; [exact Hin|apply key_eqb_eq; reflexivity].
Qed.

Lemma find_table_some m t tb : find_table m t = Some tb -> In tb m /\ tname tb = t.
Proof.
  unfold find_table. intros H. apply find_some in H. destruct H as [Hin He]. apply Pos.eqb_eq in He. auto.
Qed.

Lemma find_table_in m tb : NoDup (map tname m) -> In tb m -> find_table m (tname tb) = Some tb.
Proof.
  unfold find_table. induction m as [|x m IH]; cbn [map find In]; intros Hnd Hin; [contradiction|].
  inversion Hnd as [|? ? Hnotin Hnd']; subst.
  destruct (Pos.eqb_spec (tname x) (tname tb)) as [He|Hne].
  - destruct Hin as [->|Hin]; [reflexivity|]. exfalso. apply Hnotin. rewrite He. apply in_map, Hin.
  - destruct Hin as [->|Hin]; [congruence|]. apply IH; assumption.
Qed.

Lemma find_table_none m t : find_table m t = None -> ~ In t (map tname m).
Proof.
  unfold find_table. intros H Hin. apply in_map_iff in Hin. destruct Hin as [tb [He Hin]].
  pose proof (find_none _ _ H tb Hin) as Hf. cbn in Hf. rewrite He, Pos.eqb_refl in Hf. discriminate.
Qed.

Lemma depth_get_in c t dd : NoDup (map fst c) -> In (t, dd) c -> depth_get c t = dd.
Proof.
  unfold depth_get. induction c as [|[x dx] c IH]; cbn [map find In fst]; intros Hnd Hin; [contradiction|].
  inversion Hnd as [|? ? Hnotin Hnd']; subst.
  destruct (Pos.eqb_spec x t) as [He|Hne].
  - destruct Hin as [Heq|Hin]; [congruence|]. exfalso. apply Hnotin. subst. change t with (fst (t, dd)). apply in_map, Hin.
  - destruct Hin as [Heq|Hin]; [congruence|]. apply IH; assumption.
Qed.

Lemma remove_name_in t l x : In x (remove_name t l) <-> In x l /\ x <> t.
Proof.
  unfold remove_name. rewrite filter_In, negb_true_iff, Pos.eqb_neq. tauto.
Qed.

Lemma remove_name_nodup t l : NoDup l -> NoDup (remove_name t l).
Proof. intros H. unfold remove_name. apply NoDup_filter, H. Qed.

Lemma filter_len_le {A} (f:A -> bool) l : (length (filter f l) <= length l)%nat.
Proof. induction l as [|x l IH]; cbn [filter length]; [lia|]. destruct (f x); cbn [length]; lia. Qed.

Lemma remove_name_length t l : In t l -> (length (remove_name t l) < length l)%nat.
Proof.
  unfold remove_name. induction l as [|x l IH]; [contradiction|]. intros Hin. simpl.
  pose proof (filter_len_le (fun x => negb (Pos.eqb x t)) l) as Hle.
  destruct (Pos.eqb_spec x t) as [->|Hne]; simpl; [lia|].
  destruct Hin as [->|Hin]; [congruence|]. specialize (IH Hin). lia.
Qed.

Lemma remove_name_length_le t l : (length (remove_name t l) <= length l)%nat.
Proof. apply filter_len_le. Qed.

(* ---- findTableDepth ---- *)
Definition visf (vis:list (name*name)) (c:col) : bool :=
  match cref c with Some r => vis_mem vis r | None => true end.

Lemma find_depth_fold t vis comp cols : forall ok0 d0 tmp0 ok dd tmp,
  fold_left (find_depth_step t vis comp) cols (ok0, d0, tmp0) = (ok, dd, tmp) ->
  ok = (ok0 && forallb (visf vis) cols)%bool /\
  (forallb (visf vis) cols = true ->
     dd = N.max d0 (maxl (map (fun r => (depth_get comp (fst r) + 1)%N) (refs_cols cols))) /\
     forall k, In k tmp <-> In k tmp0 \/ exists c, In c cols /\ k = (t, cname c)).
Proof.
  induction cols as [|c cols IH]; intros ok0 d0 tmp0 ok dd tmp H; cbn [fold_left forallb refs_cols flat_map map maxl fold_right] in *.
  - injection H as <- <- <-. rewrite andb_true_r. split; [reflexivity|]. intros _. split; [rewrite N.max_0_r; reflexivity|].
    intros k. split; [auto|]. intros [Hk|[c [[] _]]]. exact Hk.
  - unfold find_depth_step at 2 in H. unfold visf at 1 3. destruct (cref c) as [[rt rc]|] eqn:Hr.
    + destruct (vis_mem vis (rt, rc)) eqn:Hv.
      * apply IH in H. destruct H as [Hok Hrest]. cbn [andb]. split; [exact Hok|].
        intros Hall. destruct (Hrest Hall) as [Hd Htmp]. split.
        -- rewrite Hd. unfold maxl, refs_cols. cbn [app map fst fold_right flat_map]. rewrite N.max_assoc. reflexivity.
        -- intros k. rewrite Htmp. cbn [In]. split.
           ++ intros [[Hk|Hk]|[c' [Hin Hk]]]; [right; exists c; auto|auto|right; exists c'; auto].
           ++ intros [Hk|[c' [[->|Hin] Hk]]]; [auto|auto|right; exists c'; auto].
      * apply IH in H. destruct H as [Hok _]. cbn [andb]. rewrite andb_false_r. split; [rewrite Hok; reflexivity|discriminate].
    + apply IH in H. destruct H as [Hok Hrest]. cbn [andb]. split; [exact Hok|].
      intros Hall. destruct (Hrest Hall) as [Hd Htmp]. split.
      -- rewrite Hd. unfold maxl, refs_cols. cbn [app map fst fold_right flat_map]. reflexivity.
      -- intros k. rewrite Htmp. cbn [In]. split.
         ++ intros [[Hk|Hk]|[c' [Hin Hk]]]; [right; exists c; auto|auto|right; exists c'; auto].
         ++ intros [Hk|[c' [[->|Hin] Hk]]]; [auto|auto|right; exists c'; auto].
Qed.

Lemma visf_all vis cols : forallb (visf vis) cols = true <-> forall r, In r (refs_cols cols) -> In r vis.
Proof.
  rewrite forallb_forall. unfold refs_cols. split.
  - intros H r Hin. apply in_flat_map in Hin. destruct Hin as [c [Hc Hr]]. specialize (H c Hc). unfold visf in H.
    destruct (cref c) as [r'|]; [|contradiction]. destruct Hr as [<-|[]]. apply vis_mem_in, H.
  - intros H c Hc. unfold visf. destruct (cref c) as [r|] eqn:Hr; [|reflexivity]. apply vis_mem_in, H.
    apply in_flat_map. exists c. rewrite Hr. cbn. auto.
Qed.

(* ---- the invariant of processTableDepth ---- *)
Record inv (m:model) (d:name -> N) (st:dstate) : Prop := {
  i_nd_inc  : NoDup (incomplete st);
  i_nd_comp : NoDup (map fst (complete st));
  i_part    : forall t, In t (map tname m) <-> In t (incomplete st) \/ In t (map fst (complete st));
  i_disj    : forall t, In t (incomplete st) -> ~ In t (map fst (complete st));
  i_depth   : forall t dd, In (t, dd) (complete st) -> dd = d t;
  i_vis     : forall t c, In (t, c) (visited st) <->
                In t (map fst (complete st)) /\ exists tb col, find_table m t = Some tb /\ In col (tcols tb) /\ cname col = c;
  i_bd_keys : NoDup (map fst (bydepth st));
  i_bd_in   : forall k l t, In (k, l) (bydepth st) -> In t l -> In (t, k) (complete st);
  i_bd_all  : forall t k, In (t, k) (complete st) -> exists l, In (k, l) (bydepth st) /\ In t l;
  i_bd_nd   : NoDup (concat (map snd (bydepth st)))
}.

Lemma bd_add_keys bd dd t : map fst (bd_add bd dd t) = if existsb (N.eqb dd) (map fst bd) then map fst bd else map fst bd ++ [dd].
Proof.
  induction bd as [|[k l] bd IH]; cbn [bd_add map fst existsb app]; [reflexivity|].
  rewrite (N.eqb_sym dd k). destruct (N.eqb k dd); cbn [orb map fst]; [reflexivity|].
  rewrite IH. destruct (existsb (N.eqb dd) (map fst bd)); reflexivity.
Qed.

Lemma bd_add_in bd dd t k l : NoDup (map fst bd) ->
  (In (k, l) (bd_add bd dd t) <->
   (k <> dd /\ In (k, l) bd) \/ (k = dd /\ ((exists l0, In (dd, l0) bd /\ l = l0 ++ [t]) \/ (~ In dd (map fst bd) /\ l = [t])))).
Proof.
  induction bd as [|[k0 l0] bd IH]; cbn [bd_add map fst In]; intros Hnd.
  - split.
    + intros [[= <- <-]|[]]. right. split; [reflexivity|]. right. split; [tauto|reflexivity].
    + intros [[_ []]|[-> [[l1 [[] _]]|[_ ->]]]]. left. reflexivity.
  - inversion Hnd as [|? ? Hnotin Hnd']; subst. specialize (IH Hnd').
    destruct (N.eqb_spec k0 dd) as [->|Hne]; cbn [In].
    + split.
      * intros [[= <- <-]|Hin].
        -- right. split; [reflexivity|]. left. exists l0. auto.
        -- left. split; [|auto]. intros ->. apply Hnotin. change dd with (fst (dd, l)). apply in_map, Hin.
      * intros [[Hk [[= -> ->]|Hin]]|[-> [[l1 [[[= ->]|Hin] ->]]|[Hno _]]]]; [congruence|auto|auto| |tauto].
        exfalso. apply Hnotin. change dd with (fst (dd, l1)). apply in_map, Hin.
    + rewrite IH. split.
      * intros [[= <- <-]|[[Hk Hin]|[-> [[l1 [Hin ->]]|[Hno ->]]]]].
        -- left. auto.
        -- left. auto.
        -- right. split; [reflexivity|]. left. exists l1. auto.
        -- right. split; [reflexivity|]. right. split; [|reflexivity]. intros [He|Hin]; [congruence|auto].
      * intros [[Hk [[= -> ->]|Hin]]|[-> [[l1 [[[= -> ->]|Hin] ->]]|[Hno ->]]]].
        -- left. reflexivity.
        -- right. left. auto.
        -- congruence.
        -- right. right. split; [reflexivity|]. left. exists l1. auto.
        -- right. right. split; [reflexivity|]. right. split; [tauto|reflexivity].
Qed.

Lemma bd_add_concat bd dd t : Permutation (concat (map snd (bd_add bd dd t))) (t :: concat (map snd bd)).
Proof.
  induction bd as [|[k l] bd IH]; cbn [bd_add map snd concat app]; [reflexivity|].
  destruct (N.eqb k dd); cbn [map snd concat].
  - rewrite <- app_assoc. cbn [app]. symmetry. apply Permutation_middle.
  - rewrite IH. symmetry. apply Permutation_middle.
Qed.

Lemma nodup_snoc {A} (l:list A) x : NoDup l -> ~ In x l -> NoDup (l ++ [x]).
Proof.
  intros Hnd Hx. eapply Permutation_NoDup; [apply Permutation_cons_append|]. constructor; assumption.
Qed.

Lemma maxl_ge l x : In x l -> (x <= maxl l)%N.
Proof.
  induction l as [|y l IH]; cbn [In maxl fold_right]; [contradiction|]. fold (maxl l).
  intros [->|Hin]; [lia|]. specialize (IH Hin). lia.
Qed.

Section Fix.
Variable m : model.
Variable d : name -> N.
Hypothesis Hwf : wf m.
Hypothesis Hd : is_depth m d.

(* what one loop iteration does to the state, when the table completes *)
Lemma step_cases st t :
  step m st t = st \/
  exists dd tmp, step m st t = DS (remove_name t (incomplete st)) ((t, dd) :: complete st) (tmp ++ visited st) (bd_add (bydepth st) dd t).
Proof.
  unfold step. destruct (find_table m t) as [tb|].
  - destruct (find_depth tb (visited st) (complete st)) as [[ok dd] tmp]. destruct ok; [right; eauto|left; reflexivity].
  - right. exists 0%N, []. reflexivity.
Qed.

Lemma step_incl st t : incl (incomplete (step m st t)) (incomplete st).
Proof.
  destruct (step_cases st t) as [->|[dd [tmp ->]]]; [apply incl_refl|]. cbn [incomplete].
  intros x Hx. apply remove_name_in in Hx. tauto.
Qed.

Lemma step_keeps st t x : x <> t -> In x (incomplete st) -> In x (incomplete (step m st t)).
Proof.
  intros Hne Hin. destruct (step_cases st t) as [->|[dd [tmp ->]]]; [exact Hin|]. cbn [incomplete].
  apply remove_name_in. auto.
Qed.

Lemma step_vis_mono st t k : In k (visited st) -> In k (visited (step m st t)).
Proof.
  intros Hin. destruct (step_cases st t) as [->|[dd [tmp ->]]]; [exact Hin|]. cbn [visited]. apply in_or_app. auto.
Qed.

Lemma step_completes st t tb :
  find_table m t = Some tb -> (forall r, In r (refs tb) -> In r (visited st)) -> ~ In t (incomplete (step m st t)).
Proof.
  intros Hf Hall. unfold step. rewrite Hf.
  destruct (find_depth tb (visited st) (complete st)) as [[ok dd] tmp] eqn:Hfd.
  unfold find_depth in Hfd. apply find_depth_fold in Hfd. destruct Hfd as [Hok _].
  assert (Hv : forallb (visf (visited st)) (tcols tb) = true) by (apply visf_all; exact Hall).
  rewrite Hv in Hok. cbn in Hok. subst ok. cbn [incomplete]. intros Hin. apply remove_name_in in Hin. tauto.
Qed.

Lemma step_inv st t : inv m d st -> In t (incomplete st) -> inv m d (step m st t).
Proof.
  intros I Hin. destruct Hwf as [Hnd Hrefs].
  assert (Hname : In t (map tname m)) by (apply (i_part _ _ _ I); auto).
  unfold step. destruct (find_table m t) as [tb|] eqn:Hf; [|exfalso; exact (find_table_none _ _ Hf Hname)].
  destruct (find_table_some _ _ _ Hf) as [Htb Htn].
  destruct (find_depth tb (visited st) (complete st)) as [[ok dd] tmp] eqn:Hfd.
  destruct ok; [|exact I].
  unfold find_depth in Hfd. apply find_depth_fold in Hfd. destruct Hfd as [Hok Hrest].
  cbn [andb] in Hok. symmetry in Hok. destruct (Hrest Hok) as [Hdd Htmp]. clear Hrest.
  rewrite N.max_0_l in Hdd. rewrite Htn in Htmp.
  assert (Hvis : forall r, In r (refs tb) -> In r (visited st)) by (apply visf_all; exact Hok).
  assert (Hddt : dd = d t).
  { rewrite Hdd, <- Htn, (Hd tb Htb). f_equal. apply map_ext_in. intros r Hr. f_equal.
    destruct r as [rt rc]. apply Hvis in Hr. apply (i_vis _ _ _ I) in Hr. destruct Hr as [Hc _]. cbn [fst].
    apply in_map_iff in Hc. destruct Hc as [[x dx] [Hx Hc]]. cbn [fst] in Hx. subst x.
    rewrite (depth_get_in _ _ _ (i_nd_comp _ _ _ I) Hc). exact (i_depth _ _ _ I _ _ Hc). }
  assert (Hnotc : ~ In t (map fst (complete st))) by (apply (i_disj _ _ _ I); exact Hin).
  constructor; cbn [incomplete complete visited bydepth map fst].
  - apply remove_name_nodup, (i_nd_inc _ _ _ I).
  - constructor; [exact Hnotc|apply (i_nd_comp _ _ _ I)].
  - intros x. rewrite (i_part _ _ _ I x), remove_name_in. cbn [In]. destruct (Pos.eq_dec x t) as [->|Hne]; [tauto|].
    split; [intros [H|H]; auto|intros [[H _]|[H|H]]; [auto|congruence|auto]].
  - intros x Hx. apply remove_name_in in Hx. destruct Hx as [Hx Hne]. cbn [In]. intros [He|Hc]; [congruence|].
    exact (i_disj _ _ _ I x Hx Hc).
  - intros x dx [[= <- <-]|Hc]; [exact Hddt|exact (i_depth _ _ _ I _ _ Hc)].
  - intros x c. rewrite in_app_iff, Htmp, (i_vis _ _ _ I x c). cbn [In]. split.
    + intros [[[]|[col [Hcol [= -> ->]]]]|[Hc Hex]].
      * split; [auto|]. exists tb, col. auto.
      * split; [auto|exact Hex].
    + intros [[<-|Hc] [tb' [col [Hf' [Hcol Hcn]]]]].
      * left. right. rewrite Hf in Hf'. injection Hf' as <-. exists col. rewrite Hcn. auto.
      * right. split; [exact Hc|]. exists tb', col. auto.
  - rewrite bd_add_keys. destruct (existsb (N.eqb dd) (map fst (bydepth st))) eqn:He; [apply (i_bd_keys _ _ _ I)|].
    apply nodup_snoc; [apply (i_bd_keys _ _ _ I)|].
    intros Hk. assert (existsb (N.eqb dd) (map fst (bydepth st)) = true); [|congruence].
    apply existsb_exists. exists dd. split; [exact Hk|apply N.eqb_refl].
  - intros k l x Hkl Hx. apply (bd_add_in _ _ _ _ _ (i_bd_keys _ _ _ I)) in Hkl. cbn [In].
    destruct Hkl as [[Hne Hold]|[-> [[l0 [Hold ->]]|[_ ->]]]].
    + right. exact (i_bd_in _ _ _ I _ _ _ Hold Hx).
    + apply in_app_iff in Hx. destruct Hx as [Hx|[<-|[]]]; [right; exact (i_bd_in _ _ _ I _ _ _ Hold Hx)|left; reflexivity].
    + destruct Hx as [<-|[]]. left. reflexivity.
  - intros x k Hc. cbn [In] in Hc.
    assert (Hdec : In dd (map fst (bydepth st)) \/ ~ In dd (map fst (bydepth st))).
    { destruct (in_dec N.eq_dec dd (map fst (bydepth st))); auto. }
    destruct Hc as [[= <- <-]|Hc].
    + destruct Hdec as [Hk|Hk].
      * apply in_map_iff in Hk. destruct Hk as [[k0 l0] [Hk0 Hin0]]. cbn [fst] in Hk0. subst k0.
        exists (l0 ++ [t]). split; [|apply in_or_app; right; left; reflexivity].
        apply (bd_add_in _ _ _ _ _ (i_bd_keys _ _ _ I)). right. split; [reflexivity|]. left. exists l0. auto.
      * exists [t]. split; [|left; reflexivity]. apply (bd_add_in _ _ _ _ _ (i_bd_keys _ _ _ I)). right. split; [reflexivity|]. right. auto.
    + destruct (i_bd_all _ _ _ I _ _ Hc) as [l [Hl Hx]]. destruct (N.eq_dec k dd) as [->|Hne].
      * exists (l ++ [t]). split; [|apply in_or_app; auto].
        apply (bd_add_in _ _ _ _ _ (i_bd_keys _ _ _ I)). right. split; [reflexivity|]. left. exists l. auto.
      * exists l. split; [|exact Hx]. apply (bd_add_in _ _ _ _ _ (i_bd_keys _ _ _ I)). left. auto.
  - eapply Permutation_NoDup; [symmetry; apply bd_add_concat|]. constructor; [|apply (i_bd_nd _ _ _ I)].
    intros Hc. apply in_concat in Hc. destruct Hc as [l [Hl Hx]]. apply in_map_iff in Hl. destruct Hl as [[k l'] [Hk Hkl]].
    cbn [snd] in Hk. subst l'. apply Hnotc. pose proof (i_bd_in _ _ _ I _ _ _ Hkl Hx) as Hc.
    change t with (fst (t, k)). apply in_map, Hc.
Qed.

(* one pass over a duplicate-free list of incomplete tables *)
Lemma round_inv l : forall st, inv m d st -> NoDup l -> (forall t, In t l -> In t (incomplete st)) ->
  inv m d (fold_left (step m) l st) /\ incl (incomplete (fold_left (step m) l st)) (incomplete st) /\
  (forall k, In k (visited st) -> In k (visited (fold_left (step m) l st))).
Proof.
  induction l as [|t l IH]; intros st I Hnd Hsub; cbn [fold_left].
  - split; [exact I|]. split; [apply incl_refl|auto].
  - inversion Hnd as [|? ? Hnotin Hnd']; subst.
    assert (I1 : inv m d (step m st t)) by (apply step_inv; [exact I|apply Hsub; left; reflexivity]).
    destruct (IH (step m st t) I1 Hnd') as [I2 [Hincl Hmono]].
    + intros x Hx. apply step_keeps; [intros ->; contradiction|apply Hsub; right; exact Hx].
    + split; [exact I2|]. split.
      * intros x Hx. apply step_incl with (t:=t), Hincl, Hx.
      * intros k Hk. apply Hmono, step_vis_mono, Hk.
Qed.

Lemma round_completes l : forall st t tb, inv m d st -> NoDup l -> (forall x, In x l -> In x (incomplete st)) ->
  In t l -> find_table m t = Some tb -> (forall r, In r (refs tb) -> In r (visited st)) ->
  ~ In t (incomplete (fold_left (step m) l st)).
Proof.
  induction l as [|x l IH]; intros st t tb I Hnd Hsub Hin Hf Hall; [contradiction|]. cbn [fold_left].
  inversion Hnd as [|? ? Hnotin Hnd']; subst.
  assert (I1 : inv m d (step m st x)) by (apply step_inv; [exact I|apply Hsub; left; reflexivity]).
  assert (Hsub1 : forall y, In y l -> In y (incomplete (step m st x))).
  { intros y Hy. apply step_keeps; [intros ->; contradiction|apply Hsub; right; exact Hy]. }
  destruct Hin as [->|Hin].
  - intros Hc. destruct (round_inv l _ I1 Hnd' Hsub1) as [_ [Hincl _]]. apply Hincl in Hc.
    exact (step_completes st t tb Hf Hall Hc).
  - apply (IH _ t tb I1 Hnd' Hsub1 Hin Hf). intros r Hr. apply step_vis_mono, Hall, Hr.
Qed.

Lemma min_depth l : l <> [] -> exists t, In t l /\ forall x, In x l -> (d t <= d x)%N.
Proof.
  induction l as [|a l IH]; [congruence|]. intros _. destruct l as [|b l].
  - exists a. split; [left; reflexivity|]. intros x [<-|[]]. lia.
  - destruct IH as [t [Hin Hmin]]; [discriminate|]. destruct (N.le_gt_cases (d a) (d t)) as [Hle|Hgt].
    + exists a. split; [left; reflexivity|]. intros x [<-|Hx]; [lia|]. specialize (Hmin x Hx). lia.
    + exists t. split; [right; exact Hin|]. intros x [<-|Hx]; [lia|auto].
Qed.

Lemma process_ok sk ord : perm_oracle ord -> forall fuel rnd st, inv m d st -> (length (incomplete st) < fuel)%nat ->
  exists st', process sk fuel ord rnd m st = Ok st' /\ inv m d st' /\ incomplete st' = [].
Proof.
  intros Hord. induction fuel as [|f IH]; intros rnd st I Hlen; [lia|]. cbn [process].
  set (l := ord rnd (incomplete st)).
  assert (Hperm : Permutation l (incomplete st)) by apply Hord.
  assert (Hnd : NoDup l) by (eapply Permutation_NoDup; [symmetry; exact Hperm|apply (i_nd_inc _ _ _ I)]).
  assert (Hsub : forall t, In t l -> In t (incomplete st)) by (intros t Ht; eapply Permutation_in; eauto).
  destruct (round_inv l st I Hnd Hsub) as [I1 [Hincl _]].
  destruct (incomplete (fold_left (step m) l st)) as [|y ys] eqn:Hinc; [eauto|].
  assert (Hlt : (length (incomplete (fold_left (step m) l st)) < length (incomplete st))%nat); [|
    assert (Hgo : exists st', process sk f ord (S rnd) m (fold_left (step m) l st) = Ok st' /\ inv m d st' /\ incomplete st' = [])
      by (apply IH; [exact I1|lia]);
    destruct sk; try exact Hgo; rewrite <- Hinc; apply Nat.ltb_lt in Hlt; rewrite Hlt; exact Hgo].
  assert (Hne : incomplete st <> []).
  { intros He. rewrite He in Hperm. apply Permutation_sym, Permutation_nil in Hperm. subst l. rewrite Hperm in Hinc. cbn in Hinc. congruence. }
  destruct (min_depth _ Hne) as [t [Hin Hmin]].
  assert (Hname : In t (map tname m)) by (apply (i_part _ _ _ I); auto).
  destruct (find_table m t) as [tb|] eqn:Hf; [|exfalso; exact (find_table_none _ _ Hf Hname)].
  destruct (find_table_some _ _ _ Hf) as [Htb Htn]. destruct Hwf as [Hndm Hrefs].
  assert (Hall : forall r, In r (refs tb) -> In r (visited st)).
  { intros [rt rc] Hr. destruct (Hrefs tb _ Htb Hr) as [tb' [Hf' [c' [Hc' Hcn]]]]. cbn [fst snd] in *.
    apply (i_vis _ _ _ I). split; [|exists tb', c'; auto].
    destruct (find_table_some _ _ _ Hf') as [Htb' Htn'].
    assert (Hrn : In rt (map tname m)) by (rewrite <- Htn'; apply in_map, Htb').
    apply (i_part _ _ _ I) in Hrn. destruct Hrn as [Hinc'|Hc]; [|exact Hc]. exfalso.
    specialize (Hmin rt Hinc'). pose proof (Hd tb Htb) as He. rewrite Htn in He.
    assert (Hge : (d rt + 1 <= d t)%N).
    { rewrite He. apply maxl_ge. apply in_map_iff. exists (rt, rc). split; [reflexivity|exact Hr]. }
    lia. }
  assert (Hgone : ~ In t (incomplete (fold_left (step m) l st))).
  { apply (round_completes l st t tb I Hnd Hsub); [eapply Permutation_in; [symmetry; exact Hperm|exact Hin]|exact Hf|exact Hall]. }
  assert (Hincl' : incl (incomplete (fold_left (step m) l st)) (remove_name t (incomplete st))).
  { intros x Hx. apply remove_name_in. split; [apply Hincl; rewrite <- Hinc; exact Hx|intros ->; contradiction]. }
  pose proof (NoDup_incl_length (i_nd_inc _ _ _ I1) Hincl') as Hle.
  pose proof (remove_name_length t _ Hin). lia.
Qed.

Lemma init_inv : inv m d (init_state m).
Proof.
  destruct Hwf as [Hnd _]. unfold init_state. constructor; cbn [incomplete complete visited bydepth map concat].
  - exact Hnd.
  - constructor.
  - intros t. cbn [In]. tauto.
  - intros t _ [].
  - intros t dd [].
  - intros t c. cbn [In]. split; [intros []|intros [[] _]].
  - constructor.
  - intros k l t [].
  - intros t k [].
  - constructor.
Qed.
End Fix.

(* HEADLINE: on acyclic reference graphs the fix-point ends (fuel: one round per table, plus the closing test),
   its result does not depend on the map iteration orders and is the longest-path depth; the depth levels
   partition the tables. *)
Theorem depth_is_longest_path sk m d ord fuel :
  wf m -> is_depth m d -> perm_oracle ord -> (length m < fuel)%nat ->
  exists st, depth_map sk fuel ord m = Ok st /\
    (forall tb, In tb m -> depth_get (complete st) (tname tb) = d (tname tb)) /\
    (forall t k, (exists l, In (k, l) (bydepth st) /\ In t l) <-> (In t (map tname m) /\ d t = k)) /\
    NoDup (map fst (bydepth st)) /\ NoDup (concat (map snd (bydepth st))).
Proof.
  intros Hwf Hd Hord Hfuel. unfold depth_map.
  destruct (process_ok m d Hwf Hd sk ord Hord fuel 0%nat (init_state m) (init_inv m d Hwf)) as [st [Hp [I He]]].
  { unfold init_state. cbn [incomplete]. rewrite map_length. exact Hfuel. }
  exists st. split; [exact Hp|].
  assert (Hall : forall t, In t (map tname m) <-> In t (map fst (complete st))).
  { intros t. rewrite (i_part _ _ _ I t), He. cbn [In]. tauto. }
  split; [|split; [|split; [apply (i_bd_keys _ _ _ I)|apply (i_bd_nd _ _ _ I)]]].
  - intros tb Htb. assert (Hin : In (tname tb) (map fst (complete st))) by (apply Hall, in_map, Htb).
    apply in_map_iff in Hin. destruct Hin as [[x dx] [Hx Hc]]. cbn [fst] in Hx. subst x.
    rewrite (depth_get_in _ _ _ (i_nd_comp _ _ _ I) Hc). exact (i_depth _ _ _ I _ _ Hc).
  - intros t k. split.
    + intros [l [Hkl Ht]]. pose proof (i_bd_in _ _ _ I _ _ _ Hkl Ht) as Hc. split.
      * apply Hall. change t with (fst (t, k)). apply in_map, Hc.
      * symmetry. exact (i_depth _ _ _ I _ _ Hc).
    + intros [Ht <-]. apply Hall in Ht. apply in_map_iff in Ht. destruct Ht as [[x dx] [Hx Hc]]. cbn [fst] in Hx. subst x.
      rewrite <- (i_depth _ _ _ I _ _ Hc). exact (i_bd_all _ _ _ I _ _ Hc).
Qed.

(* the result is the same for any two iteration-order oracles *)
Corollary depth_order_independent sk m d ord1 ord2 fuel :
  wf m -> is_depth m d -> perm_oracle ord1 -> perm_oracle ord2 -> (length m < fuel)%nat ->
  exists st1 st2, depth_map sk fuel ord1 m = Ok st1 /\ depth_map sk fuel ord2 m = Ok st2 /\
    forall tb, In tb m -> depth_get (complete st1) (tname tb) = depth_get (complete st2) (tname tb).
Proof.
  intros Hwf Hd H1 H2 Hf.
  destruct (depth_is_longest_path sk m d ord1 fuel Hwf Hd H1 Hf) as [st1 [E1 [D1 _]]].
  destruct (depth_is_longest_path sk m d ord2 fuel Hwf Hd H2 Hf) as [st2 [E2 [D2 _]]].
  exists st1, st2. split; [exact E1|]. split; [exact E2|]. intros tb Htb. rewrite D1, D2; auto.
Qed.

(* ---- non-vacuity and the cyclic case ---- *)
Definition ex_col (n:name) (r:option (name*name)) : col := C n 0%N PInt 0%N r false false.
(* 1 <- 2 <- 3, and 3 also refers to 1: depths 0, 1, 2 *)
Definition ex_model : model :=
  [T 3%positive 1%N [ex_col 10%positive (Some (2%positive, 10%positive)); ex_col 11%positive (Some (1%positive, 10%positive))];
   T 1%positive 2%N [ex_col 10%positive None];
   T 2%positive 3%N [ex_col 10%positive (Some (1%positive, 10%positive))]].
Definition ex_depth (t:name) : N := match t with 1%positive => 0 | 2%positive => 1 | 3%positive => 2 | _ => 0 end%N.

Example ex_model_wf : wf ex_model.
Proof.
  split; [repeat constructor; cbn; intuition discriminate|].
  intros tb r Htb Hr. cbn in Htb. destruct Htb as [<-|[<-|[<-|[]]]]; cbn in Hr;
    repeat (destruct Hr as [<-|Hr]; [cbn; eexists; split; [reflexivity|]; eexists; split; [left; reflexivity|reflexivity]|]); contradiction.
Qed.
Example ex_model_depth : is_depth ex_model ex_depth.
Proof. intros tb Htb. cbn in Htb. destruct Htb as [<-|[<-|[<-|[]]]]; reflexivity. Qed.
Example ex_model_runs : exists st, depth_map StopNoProgress 4 rev_ord ex_model = Ok st /\ bydepth st = [(0%N, [1%positive]); (1%N, [2%positive]); (2%N, [3%positive])].
Proof. eexists. split; vm_compute; reflexivity. Qed.

(* ---- cyclic / dangling references ---- *)
(* a self reference (or any cycle) never completes a table.  With the recursion the repository had (StopNever)
   the fix-point never ends: *)
Definition cyc_model : model := [T 1%positive 1%N [ex_col 10%positive (Some (1%positive, 10%positive))]].
Theorem depth_cycle_refuted : forall fuel ord, perm_oracle ord -> depth_map StopNever fuel ord cyc_model = OutOfFuel.
Proof.
  intros fuel ord Hord. unfold depth_map. generalize 0%nat.
  induction fuel as [|f IH]; intros rnd; [reflexivity|]. cbn [process init_state cyc_model map tname incomplete].
  assert (Hl : ord rnd [1%positive] = [1%positive]) by (apply Permutation_length_1_inv, Permutation_sym, Hord).
  rewrite Hl. cbn. apply (IH (S rnd)).
Qed.

(* With the stop rule of the current source (StopNoProgress) the fix-point ends on EVERY model - no hypothesis on
   the references at all - within one pass per table plus one, and leaves no table unplaced. *)
Lemma step_len m st t : (length (incomplete (step m st t)) <= length (incomplete st))%nat.
Proof.
  destruct (step_cases m st t) as [->|[dd [tmp ->]]]; [lia|]. cbn [incomplete]. apply remove_name_length_le.
Qed.
Lemma round_len m l : forall st, (length (incomplete (fold_left (step m) l st)) <= length (incomplete st))%nat.
Proof.
  induction l as [|t l IH]; intros st; cbn [fold_left]; [lia|]. specialize (IH (step m st t)).
  pose proof (step_len m st t). lia.
Qed.

Lemma place_fold_incomplete ld l : forall st x,
  In x (incomplete (fold_left (place_one ld) l st)) <-> In x (incomplete st) /\ ~ In x l.
Proof.
  induction l as [|t l IH]; intros st x; cbn [fold_left]; [tauto|].
  rewrite IH. unfold place_one at 1. cbn [incomplete In]. rewrite remove_name_in. split.
  - intros [[H1 H2] H3]. split; [exact H1|]. intros [He|Hl]; [congruence|contradiction].
  - intros [H1 H2]. split; [split; [exact H1|]|]; intros H; apply H2; [left; congruence|right; exact H].
Qed.

Lemma insert_by_in {A} (le:A -> A -> bool) x l y : In y (insert_by le x l) <-> y = x \/ In y l.
Proof.
  induction l as [|z l IH]; cbn [insert_by In]; [intuition|]. destruct (le x z); cbn [In]; [intuition|].
  rewrite IH. intuition.
Qed.
Lemma sort_by_in {A} (le:A -> A -> bool) l y : In y (sort_by le l) <-> In y l.
Proof.
  unfold sort_by. induction l as [|x l IH]; cbn [fold_right In]; [tauto|]. rewrite insert_by_in, IH. intuition.
Qed.

Lemma place_unordered_empty st : incomplete (place_unordered st) = [].
Proof.
  unfold place_unordered. destruct (incomplete (fold_left _ _ st)) as [|x r] eqn:He; [reflexivity|]. exfalso.
  assert (Hx : In x (incomplete (fold_left (place_one (last_depth (bydepth st))) (sort_names (incomplete st)) st)))
    by (rewrite He; left; reflexivity).
  apply place_fold_incomplete in Hx. destruct Hx as [H1 H2]. apply H2. unfold sort_names. apply sort_by_in, H1.
Qed.

Theorem depth_terminates : forall m ord fuel, (length m < fuel)%nat ->
  exists st, depth_map StopNoProgress fuel ord m = Ok st /\ incomplete st = [].
Proof.
  intros m ord fuel Hf. unfold depth_map.
  assert (H : forall fuel rnd st, (length (incomplete st) < fuel)%nat ->
            exists st', process StopNoProgress fuel ord rnd m st = Ok st' /\ incomplete st' = []).
  { clear. induction fuel as [|f IH]; intros rnd st Hlen; [lia|]. cbn [process].
    set (st1 := fold_left (step m) (ord rnd (incomplete st)) st).
    pose proof (round_len m (ord rnd (incomplete st)) st) as Hle. fold st1 in Hle.
    destruct (incomplete st1) as [|y ys] eqn:Hinc; [eauto|]. rewrite <- Hinc.
    destruct (Nat.ltb_spec (length (incomplete st1)) (length (incomplete st))) as [Hlt|Hge].
    - apply IH. lia.
    - eexists. split; [reflexivity|apply place_unordered_empty]. }
  apply H. unfold init_state. cbn [incomplete]. rewrite map_length. exact Hf.
Qed.

(* where the unorderable tables go: after every orderable one, at depth (largest depth) + 1, sorted by name.
   Tables 5 and 4 refer to each other, 6 to a column that does not exist; 1 <- 2 are orderable. (Example) *)
Definition mixed_model : model :=
  [T 5%positive 1%N [ex_col 10%positive (Some (4%positive, 10%positive))];
   T 2%positive 2%N [ex_col 10%positive (Some (1%positive, 10%positive))];
   T 6%positive 3%N [ex_col 10%positive (Some (1%positive, 99%positive))];
   T 4%positive 4%N [ex_col 10%positive (Some (5%positive, 10%positive))];
   T 1%positive 5%N [ex_col 10%positive None]].
Example depth_unorderable_placed : forall ord, ord = id_ord \/ ord = rev_ord ->
  exists st, depth_map StopNoProgress 6 ord mixed_model = Ok st /\
    levels_of st = [(0%N, [1%positive]); (1%N, [2%positive]); (2%N, [4%positive; 5%positive; 6%positive])].
Proof. intros ord [->| ->]; eexists; split; vm_compute; reflexivity. Qed.
