(* C16 MODEL (definitions only): a reference interpreter for the DDL subset pkg/database emits.
   exec runs the statements against a catalog; a statement PostgreSQL would reject (relation / column /
   constraint missing or already there, empty type, empty key, dropping a column another table's foreign key
   points at) is Err.  The harness carries the same interpreter in Go (its model-independent oracle); both are
   compared on every generated case. *)
From Coq Require Import List NArith PArith Bool.
Import ListNotations.
Require Import Verif.Db.Depth Verif.Db.Script.

Record ccol := CC { ccname : name; ccty : sqlty; ccdef : bool (* DEFAULT nextval(sequence) *) }.
Record ctab := CT {
  ctname : name;
  ctcols : list ccol;
  ctpk   : option (list name);
  ctfks  : list (name * (name * name))   (* constraint of column c -> (table, column) *)
}.
Record catalog := Cat { tabs : list ctab; seqs : list (name * name) }.
Definition empty_cat : catalog := Cat [] [].

Inductive xres := XOk (c:catalog) | XErr.

Definition cat_find (c:catalog) (t:name) : option ctab := find (fun x => Pos.eqb (ctname x) t) (tabs c).
Definition ct_has_col (tb:ctab) (c:name) : bool := existsb (fun x => Pos.eqb (ccname x) c) (ctcols tb).
Definition cat_has_col (c:catalog) (t col:name) : bool :=
  match cat_find c t with Some tb => ct_has_col tb col | None => false end.
Definition seq_mem (c:catalog) (k:name*name) : bool := existsb (key_eqb k) (seqs c).
Definition fk_mem (tb:ctab) (c:name) : bool := existsb (fun x => Pos.eqb (fst x) c) (ctfks tb).
Definition mem_name (x:name) (l:list name) : bool := existsb (Pos.eqb x) l.
Fixpoint nodup_names (l:list name) : bool :=
  match l with [] => true | x :: r => negb (mem_name x r) && nodup_names r end.

Definition cat_set (c:catalog) (tb:ctab) : catalog :=
  Cat (map (fun x => if Pos.eqb (ctname x) (ctname tb) then tb else x) (tabs c)) (seqs c).

(* the stored type of a column definition: bigserial is bigint with a sequence default *)
Definition stored (ty:sqlty) : sqlty * bool := match ty with TBigserial => (TBigint, true) | _ => (ty, false) end.
Definition valid_ty (ty:sqlty) : bool := match ty with TEmpty | TOther _ => false | _ => true end.

(* is (t, col) the target of a foreign key *)
Definition referenced_elsewhere (c:catalog) (t col:name) : bool :=
  existsb (fun tb => existsb (fun f => Pos.eqb (fst (snd f)) t && Pos.eqb (snd (snd f)) col) (ctfks tb)) (tabs c).

Definition exec1 (c:catalog) (s:ddl) : xres :=
  match s with
  | CreateTable t cols pk fks =>
      let names := map fst cols in
      let serials := map (fun d => (t, fst d)) (filter (fun d => snd (stored (snd d))) cols) in
      if match cat_find c t with Some _ => true | None => false end then XErr
      else if negb (nodup_names names) then XErr
      else if negb (forallb (fun d => valid_ty (snd d)) cols) then XErr
      else if negb (forallb (fun k => mem_name k names) pk) then XErr
      else if negb (forallb (fun f => mem_name (fst f) names &&
                                     ((Pos.eqb (fst (snd f)) t && mem_name (snd (snd f)) names) || cat_has_col c (fst (snd f)) (snd (snd f)))) fks) then XErr
      else if negb (nodup_names (map fst fks)) then XErr
      else if existsb (seq_mem c) serials then XErr
      else XOk (Cat (tabs c ++ [CT t (map (fun d => CC (fst d) (fst (stored (snd d))) (snd (stored (snd d)))) cols)
                                       (match pk with [] => None | _ => Some pk end) fks])
                    (seqs c ++ serials))
  | AddColumn t col ty =>
      match cat_find c t with
      | None => XErr
      | Some tb =>
          if ct_has_col tb col || negb (valid_ty ty) then XErr
          else if snd (stored ty) && seq_mem c (t, col) then XErr
          else let c' := cat_set c (CT t (ctcols tb ++ [CC col (fst (stored ty)) (snd (stored ty))]) (ctpk tb) (ctfks tb)) in
               XOk (Cat (tabs c') (if snd (stored ty) then seqs c ++ [(t, col)] else seqs c))
      end
  | DropColumn t col =>
      match cat_find c t with
      | None => XErr
      | Some tb =>
          if negb (ct_has_col tb col) || referenced_elsewhere c t col then XErr
          else let c' := cat_set c (CT t (filter (fun x => negb (Pos.eqb (ccname x) col)) (ctcols tb))
                                         (match ctpk tb with
                                          | Some pk => if mem_name col pk then None else Some pk
                                          | None => None end)
                                         (filter (fun f => negb (Pos.eqb (fst f) col)) (ctfks tb))) in
               XOk (Cat (tabs c') (filter (fun k => negb (key_eqb (t, col) k)) (seqs c)))
      end
  | AlterType t col ty =>
      match cat_find c t with
      | None => XErr
      | Some tb =>
          if negb (ct_has_col tb col) || negb (valid_ty ty) || snd (stored ty) then XErr
          else XOk (cat_set c (CT t (map (fun x => if Pos.eqb (ccname x) col then CC col ty (ccdef x) else x) (ctcols tb))
                                    (ctpk tb) (ctfks tb)))
      end
  | AddPK t cols =>
      match cat_find c t with
      | None => XErr
      | Some tb =>
          match ctpk tb, cols with
          | Some _, _ => XErr
          | None, [] => XErr
          | None, _ => if forallb (ct_has_col tb) cols && nodup_names cols
                       then XOk (cat_set c (CT t (ctcols tb) (Some cols) (ctfks tb))) else XErr
          end
      end
  | DropPK t =>
      match cat_find c t with
      | None => XErr
      | Some tb => match ctpk tb with
                   | None => XErr
                   | Some _ => XOk (cat_set c (CT t (ctcols tb) None (ctfks tb)))
                   end
      end
  | AddFK t col rt rc =>
      match cat_find c t with
      | None => XErr
      | Some tb =>
          if negb (ct_has_col tb col) || fk_mem tb col || negb (cat_has_col c rt rc) then XErr
          else XOk (cat_set c (CT t (ctcols tb) (ctpk tb) (ctfks tb ++ [(col, (rt, rc))])))
      end
  | DropFK t col =>
      match cat_find c t with
      | None => XErr
      | Some tb =>
          if negb (fk_mem tb col) then XErr
          else XOk (cat_set c (CT t (ctcols tb) (ctpk tb) (filter (fun f => negb (Pos.eqb (fst f) col)) (ctfks tb))))
      end
  | CreateSeq t col => if seq_mem c (t, col) then XErr else XOk (Cat (tabs c) (seqs c ++ [(t, col)]))
  | SetDefaultSeq t col =>
      match cat_find c t with
      | None => XErr
      | Some tb =>
          if negb (ct_has_col tb col) || negb (seq_mem c (t, col)) then XErr
          else XOk (cat_set c (CT t (map (fun x => if Pos.eqb (ccname x) col then CC col (ccty x) true else x) (ctcols tb))
                                    (ctpk tb) (ctfks tb)))
      end
  | OwnSeq t col | SetValSeq t col =>
      if cat_has_col c t col && seq_mem c (t, col) then XOk c else XErr
  end.

Fixpoint exec (c:catalog) (l:list ddl) : xres :=
  match l with
  | [] => XOk c
  | s :: r => match exec1 c s with XOk c' => exec c' r | XErr => XErr end
  end.
