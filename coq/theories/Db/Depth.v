(* C16 MODEL (definitions only): the relational model as pkg/database reads it, and the reference-depth
   fix-point of pkg/database/db_utils.go (CreateTableDepthMap / processTableDepth / findTableDepth).

   Names are positive identifiers; the harness numbers the strings so that Pos order = Go string order
   (sort.Strings is used by the delta path).  A Go map iteration is an explicit oracle `ord round keys`,
   of which the theorems assume only that it returns a permutation of the keys. *)
From Coq Require Import String List NArith PArith Bool.
Import ListNotations.

Notation name := positive (only parsing).

Inductive outcome (A:Type) := Ok (a:A) | OutOfFuel.
Arguments Ok {A} a. Arguments OutOfFuel {A}.

(* what getPostgresDataTypes can tell apart: strings.ToLower(Primitive.String()) is "string", "int", "date" or
   anything else (float, decimal, bool, ..., "no_primitive" for sets/sequences) *)
Inductive prim := PString | PInt | PDate | POther
  | PRef1.   (* the column's type is a type reference that is NOT <table>.<column> (path of fewer than two elements:
                `price <: Money` for an alias / !type / enum / union of the application, a type of another application,
                an undefined name).  Primitive.String() of such a type is NO_PRIMITIVE: in the source the model
                transliterates (Gen: ref_guard = GuardForeignKey) it takes the primitive branch everywhere, like POther;
                the constructor keeps the kind visible in the cases and in the refutation of the former treatment. *)

Record col := C {
  cname : name;
  cline : N;                      (* SourceContext.Start.Line of the attribute *)
  cprim : prim;
  csize : N;                      (* Constraint[0].Length.Max, 0 when absent *)
  cref  : option (name * name);   (* TypeRef.Ref.Path[0], Path[1] *)
  cpk   : bool;                   (* ~pk *)
  cauto : bool                    (* ~autoinc *)
}.

Record table := T { tname : name; tline : N; tcols : list col }.

(* app.Types restricted to !table entries; a Go map: table names are distinct (hypothesis of the theorems) *)
Definition model := list table.

Definition find_table (m:model) (t:name) : option table := find (fun x => Pos.eqb (tname x) t) m.
Definition find_col (tb:table) (c:name) : option col := find (fun x => Pos.eqb (cname x) c) (tcols tb).

Definition key_eqb (a b:name*name) : bool := Pos.eqb (fst a) (fst b) && Pos.eqb (snd a) (snd b).
Definition vis_mem (v:list (name*name)) (k:name*name) : bool := existsb (key_eqb k) v.

(* completeTableDepthMap[t]; a missing key reads as 0 in Go *)
Definition depth_get (c:list (name*N)) (t:name) : N :=
  match find (fun x => Pos.eqb (fst x) t) c with Some (_, d) => d | None => 0%N end.

Record dstate := DS {
  incomplete : list name;            (* incompleteTableDepthMap (keys) *)
  complete   : list (name * N);      (* completeTableDepthMap *)
  visited    : list (name * name);   (* visitedTableAttrs (keys "Table.attr"; the stored type string is never read) *)
  bydepth    : list (N * list name)  (* completedTableDepthMap: depth -> names in completion order *)
}.

(* findTableDepth: (allAttrProcessed, tableDepth, tempVisitedAttrs) *)
Definition find_depth_step (t:name) (vis:list (name*name)) (comp:list (name*N))
    (acc:bool * N * list (name*name)) (c:col) : bool * N * list (name*name) :=
  match acc with (ok, d, tmp) =>
    match cref c with
    | Some (rt, rc) =>
        if vis_mem vis (rt, rc)
        then (ok, N.max d (depth_get comp rt + 1), (t, cname c) :: tmp)
        else (false, d, tmp)
    | None => (ok, d, (t, cname c) :: tmp)
    end
  end.

Definition find_depth (tb:table) (vis:list (name*name)) (comp:list (name*N)) : bool * N * list (name*name) :=
  fold_left (find_depth_step (tname tb) vis comp) (tcols tb) (true, 0%N, []).

Fixpoint bd_add (bd:list (N * list name)) (d:N) (t:name) : list (N * list name) :=
  match bd with
  | [] => [(d, [t])]
  | (k, l) :: r => if N.eqb k d then (k, l ++ [t]) :: r else (k, l) :: bd_add r d t
  end.

Definition remove_name (t:name) (l:list name) : list name := filter (fun x => negb (Pos.eqb x t)) l.

(* body of the `for tableName := range incompleteTableDepthMap` loop *)
Definition step (m:model) (st:dstate) (t:name) : dstate :=
  match find_table m t with
  | None => (* tableMap[t] == nil: GetRelation() is nil, complete at depth 0 *)
      DS (remove_name t (incomplete st)) ((t, 0%N) :: complete st) (visited st) (bd_add (bydepth st) 0%N t)
  | Some tb =>
      match find_depth tb (visited st) (complete st) with
      | (true, d, tmp) =>
          DS (remove_name t (incomplete st)) ((t, d) :: complete st) (tmp ++ visited st) (bd_add (bydepth st) d t)
      | (false, _, _) => st
      end
  end.

(* ---- vocabulary of the regenerated table Gen/DbTables.v (1): what processTableDepth does after a pass that left
   tables incomplete ---- *)
Inductive stop_kind :=
  | StopNever        (* always another pass: never ends on a cyclic / dangling reference *)
  | StopNoProgress   (* a pass that completed no table ends the recursion; placeUnorderedTables puts the remaining
                        tables, sorted by name, at depth (largest depth used) + 1 *)
  | StopUnknown.

Fixpoint insert_by {A} (le:A -> A -> bool) (x:A) (l:list A) : list A :=
  match l with [] => [x] | y :: r => if le x y then x :: l else y :: insert_by le x r end.
Definition sort_by {A} (le:A -> A -> bool) (l:list A) : list A := fold_right (insert_by le) [] l.
Definition sort_names (l:list name) : list name := sort_by Pos.leb l.

(* placeUnorderedTables: lastDepth = 0, raised to depth+1 by every key depth >= lastDepth (= max key + 1) *)
Definition last_depth (bd:list (N * list name)) : N :=
  fold_left (fun acc kl => if N.leb acc (fst kl) then (fst kl + 1)%N else acc) bd 0%N.
Definition place_one (ld:N) (st:dstate) (t:name) : dstate :=
  DS (remove_name t (incomplete st)) ((t, ld) :: complete st) (visited st) (bd_add (bydepth st) ld t).
Definition place_unordered (st:dstate) : dstate :=
  fold_left (place_one (last_depth (bydepth st))) (sort_names (incomplete st)) st.

(* processTableDepth: one pass over the incomplete tables (in map order), then recursion while any is left.
   `progressed` (set when a table completes in the pass) is read off the state: a pass only ever removes names
   from the incomplete map, so it progressed iff that map got smaller. *)
Fixpoint process (sk:stop_kind) (fuel:nat) (ord:nat -> list name -> list name) (rnd:nat) (m:model) (st:dstate) : outcome dstate :=
  match fuel with
  | O => OutOfFuel
  | S f =>
      let st' := fold_left (step m) (ord rnd (incomplete st)) st in
      match incomplete st' with
      | [] => Ok st'
      | _ =>
          match sk with
          | StopNoProgress =>
              if Nat.ltb (length (incomplete st')) (length (incomplete st))
              then process sk f ord (S rnd) m st'
              else Ok (place_unordered st')
          | _ => process sk f ord (S rnd) m st'
          end
      end
  end.

Definition init_state (m:model) : dstate := DS (map tname m) [] [] [].

(* CreateTableDepthMap *)
Definition depth_map (sk:stop_kind) (fuel:nat) (ord:nat -> list name -> list name) (m:model) : outcome dstate :=
  process sk fuel ord 0 m (init_state m).

Definition id_ord : nat -> list name -> list name := fun _ l => l.
Definition rev_ord : nat -> list name -> list name := fun _ l => rev l.

(* ---- vocabulary of the regenerated table Gen/DbTables.v (2) ---- *)
(* how GenerateDatabaseScriptCreate / writeCreateSQLForATable turn (name, line) pairs into an emission order *)
Inductive order_kind :=
  | ByLineMap      (* line -> name through a map[int32]string: two names on one line collide *)
  | ByLineName     (* sort by (line, name) *)
  | OrderUnknown.
(* a result arm of getPostgresDataTypes *)
Inductive pgres := Sized (pre suf : string) | Lit (s : string) | PgUnknown.
(* writeModifySQLForAColumn, new and old column both references:
     RefRefSilent   - nothing is emitted whatever the two targets are
     RefRefRetarget - when the targets differ: DROP CONSTRAINT, ALTER COLUMN TYPE, ADD CONSTRAINT *)
Inductive refref_kind := RefRefSilent | RefRefRetarget | RefRefUnknown.
(* writeModifySQLForATable, the final ADD CONSTRAINT .. PRIMARY KEY: whenever the key changed / only when a key
   column is left *)
Inductive pkadd_kind := PkAlways | PkNonEmpty | PkUnknown.
(* writeModifySQLForAColumn, type recorded in visitedAttributes for a retained plain autoincrement column:
   the primitive's type / bigint (what the creation script records) *)
Inductive autovt_kind := AutoVtPlain | AutoVtBigint | AutoVtUnknown.
Record dcfg := DCfg { cfg_refref : refref_kind; cfg_pkadd : pkadd_kind; cfg_autovt : autovt_kind }.

(* which columns take the "reference" branch of findTableDepth / writeCreateSQLForAColumn / writeModifySQLForAColumn:
   every type reference (what the repository had: a one-element reference then reads visitedAttributes["."] = "" as its
   type and blocks the depth fix-point) / only those foreignKeyTarget accepts (path of length >= 2) *)
Inductive guard_kind := GuardTypeRef | GuardForeignKey | GuardUnknown.
(* writeCreateSQLForATable, the body text after addConstraints: TrimSuffix(",") / TrimSuffix("\n") then TrimSuffix(",") *)
Inductive trim_kind := TrimComma | TrimNlComma | TrimUnknown.
(* writeModifySQLForATable, "attribute added": TrimSpace + drop the last byte of the column text, and of the first
   foreign-key constraint: drop the last byte + TrimSpace *)
Inductive post_kind := PostTrimDropLast | PostUnknown.

(* GenerateFromSQLMap, the call that writes a script file: the file is replaced (afero.WriteFile, Create, OpenFile with
   O_TRUNC) / opened for writing without truncation: the tail of a longer old file stays / opened with O_APPEND *)
Inductive write_kind := WriteTruncate | WriteKeepTail | WriteAppend | WriteUnknown.
