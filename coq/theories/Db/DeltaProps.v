(* C16 proofs: delta_sound, the part that is proved.
     delta_sound_tables_partial : for every pair of versions in which the tables the two versions share are
       declared the same (up to source position and column order) - tables may be ADDED, with any references to
       old and new tables, and DROPPED - running the delta script on any catalog that holds the old version's schema
       succeeds and leaves every table of the new version exactly as the new version declares it.
     With create_complete_ordered: creation script of old ++ delta script; and the chain v1 -> v2 -> v3.
   Column-level edits of retained tables are NOT covered by a general theorem (see Properties/C16.v). *)
From Coq Require Import String List NArith PArith Bool Lia Permutation Arith Sorted.
Import ListNotations.
Require Import Verif.Db.Depth Verif.Db.DepthProps Verif.Gen.DbTables Verif.Db.Script Verif.Db.SqlInterp
  Verif.Db.Tables Verif.Db.ScriptProps Verif.Db.CatalogProps Verif.Db.CreateProps.

(* ================================================================ "declared the same" *)
Definition strip (c:col) : col := C (cname c) 0%N (cprim c) (csize c) (cref c) (cpk c) (cauto c).
Definition prim_eqb (a b:prim) : bool :=
  match a, b with PString, PString | PInt, PInt | PDate, PDate | POther, POther | PRef1, PRef1 => true | _, _ => false end.
Definition ref_eqb (a b:option (name*name)) : bool :=
  match a, b with Some x, Some y => key_eqb x y | None, None => true | _, _ => false end.
Definition col_sameb (a b:col) : bool :=
  Pos.eqb (cname a) (cname b) && prim_eqb (cprim a) (cprim b) && N.eqb (csize a) (csize b) &&
  ref_eqb (cref a) (cref b) && Bool.eqb (cpk a) (cpk b) && Bool.eqb (cauto a) (cauto b).
(* same column names on both sides, every column with the same type / reference / ~pk / ~autoinc *)
Definition tab_sameb (ot nt:table) : bool :=
  forallb (fun nc => match find_col ot (cname nc) with Some oc => col_sameb oc nc | None => false end) (tcols nt) &&
  forallb (fun oc => match find_col nt (cname oc) with Some _ => true | None => false end) (tcols ot).
(* the edit script only adds and drops tables (and moves declarations around) *)
Definition only_tables_change (old new:model) : bool :=
  forallb (fun nt => match find_table old (tname nt) with Some ot => tab_sameb ot nt | None => true end) new.

Lemma col_sameb_spec a b : col_sameb a b = true -> strip a = strip b.
Proof.
  unfold col_sameb, strip. destruct a as [an al ap asz ar apk aau], b as [bn bl bp bsz br bpk bau]. cbn [cname cprim csize cref cpk cauto].
  rewrite !andb_true_iff. intros [[[[[H1 H2] H3] H4] H5] H6].
  apply Pos.eqb_eq in H1. apply N.eqb_eq in H3. apply Bool.eqb_prop in H5. apply Bool.eqb_prop in H6. subst.
  assert (ap = bp) by (destruct ap, bp; cbn in H2; congruence).
  assert (ar = br).
  { destruct ar as [x|], br as [y|]; cbn in H4; try congruence. apply key_eqb_eq in H4. congruence. }
  subst. reflexivity.
Qed.

Definition tab_same (ot nt:table) : Prop :=
  (forall nc, In nc (tcols nt) -> exists oc, In oc (tcols ot) /\ strip oc = strip nc) /\
  (forall oc, In oc (tcols ot) -> exists nc, In nc (tcols nt) /\ strip oc = strip nc).

Lemma same_name_same_col cols a b : NoDup (map cname cols) -> In a cols -> In b cols -> cname a = cname b -> a = b.
Proof.
  intros Hnd Ha Hb He. pose proof (find_in_cols cols a Hnd Ha) as Fa. pose proof (find_in_cols cols b Hnd Hb) as Fb.
  rewrite He in Fa. congruence.
Qed.

Lemma strip_name a b : strip a = strip b -> cname a = cname b.
Proof. intros H. apply (f_equal cname) in H. exact H. Qed.

Lemma tab_sameb_spec ot nt : NoDup (map cname (tcols ot)) -> tab_sameb ot nt = true -> tab_same ot nt.
Proof.
  unfold tab_sameb. rewrite andb_true_iff, !forallb_forall. intros Hnd [H1 H2].
  assert (A : forall nc, In nc (tcols nt) -> exists oc, In oc (tcols ot) /\ strip oc = strip nc).
  { intros nc Hnc. specialize (H1 nc Hnc). unfold find_col in H1.
    destruct (find _ (tcols ot)) as [oc|] eqn:E; [|discriminate]. apply find_some in E. exists oc. split; [apply E|apply col_sameb_spec, H1]. }
  split; [exact A|]. intros oc Hoc. specialize (H2 oc Hoc). unfold find_col in H2.
  destruct (find _ (tcols nt)) as [nc|] eqn:E; [|discriminate]. apply find_some in E. destruct E as [Hnc He]. apply Pos.eqb_eq in He.
  exists nc. split; [exact Hnc|]. destruct (A nc Hnc) as [oc' [Hoc' Hs]].
  assert (oc' = oc) by (apply (same_name_same_col (tcols ot)); [exact Hnd|exact Hoc'|exact Hoc|rewrite (strip_name _ _ Hs); exact He]).
  subst. exact Hs.
Qed.

Lemma strip_fields a b : strip a = strip b ->
  cname a = cname b /\ cref a = cref b /\ cpk a = cpk b /\ cauto a = cauto b /\ col_pg_type a = col_pg_type b.
Proof.
  intros H. injection H as H1 H2 H3 H4 H5 H6. unfold col_pg_type, attr_size. rewrite H2, H3. auto.
Qed.

Lemma col_ok_same cat a b cc : strip a = strip b -> col_ok cat a cc -> col_ok cat b cc.
Proof. intros H. destruct (strip_fields _ _ H) as [_ [Hr [_ [Ha Hp]]]]. unfold col_ok. rewrite Hr, Ha, Hp. auto. Qed.

Lemma tab_ok_same cat ot nt : tname ot = tname nt -> NoDup (map cname (tcols ot)) -> NoDup (map cname (tcols nt)) ->
  tab_same ot nt -> tab_ok cat ot -> tab_ok cat nt.
Proof.
  intros Hn Hndo Hndn [A B] [ct [Hf [Hp [Hc [Hk Hfk]]]]]. exists ct. rewrite <- Hn. split; [exact Hf|].
  assert (Hnames : forall x, In x (map cname (tcols ot)) <-> In x (map cname (tcols nt))).
  { intros x. rewrite !in_map_iff. split.
    - intros [oc [<- Hoc]]. destruct (B oc Hoc) as [nc [Hnc Hs]]. exists nc. split; [symmetry; apply strip_name, Hs|exact Hnc].
    - intros [nc [<- Hnc]]. destruct (A nc Hnc) as [oc [Hoc Hs]]. exists oc. split; [apply strip_name, Hs|exact Hoc]. }
  split; [|split; [|split]].
  - rewrite Hp. apply NoDup_Permutation; assumption.
  - intros nc Hnc. destruct (A nc Hnc) as [oc [Hoc Hs]]. destruct (Hc oc Hoc) as [cc [H1 H2]]. exists cc.
    rewrite <- (strip_name _ _ Hs). split; [exact H1|exact (col_ok_same _ _ _ _ Hs H2)].
  - intros k. rewrite Hk, !in_map_iff. split.
    + intros [oc [<- Hoc]]. apply filter_In in Hoc. destruct Hoc as [Hoc Hpk]. destruct (B oc Hoc) as [nc [Hnc Hs]].
      destruct (strip_fields _ _ Hs) as [H1 [_ [H3 _]]]. exists nc. split; [auto|]. apply filter_In. rewrite <- H3. auto.
    + intros [nc [<- Hnc]]. apply filter_In in Hnc. destruct Hnc as [Hnc Hpk]. destruct (A nc Hnc) as [oc [Hoc Hs]].
      destruct (strip_fields _ _ Hs) as [H1 [_ [H3 _]]]. exists oc. split; [auto|]. apply filter_In. rewrite H3. auto.
  - rewrite Hfk. unfold named_refs. apply NoDup_Permutation.
    + assert (H := nref_names_nodup _ Hndo). apply NoDup_map_inv in H. exact H.
    + assert (H := nref_names_nodup _ Hndn). apply NoDup_map_inv in H. exact H.
    + intros f. rewrite !in_flat_map. unfold nref. split.
      * intros [oc [Hoc Hin]]. destruct (B oc Hoc) as [nc [Hnc Hs]]. destruct (strip_fields _ _ Hs) as [H1 [H2 _]].
        exists nc. split; [exact Hnc|]. rewrite <- H1, <- H2. exact Hin.
      * intros [nc [Hnc Hin]]. destruct (A nc Hnc) as [oc [Hoc Hs]]. destruct (strip_fields _ _ Hs) as [H1 [H2 _]].
        exists oc. split; [exact Hoc|]. rewrite H1, H2. exact Hin.
Qed.

(* ================================================================ a retained, unchanged table *)
Definition cfg_cur : dcfg := DCfg RefRefRetarget PkNonEmpty AutoVtBigint.

Lemma modify_col_same2 t oc nc pks vt : strip oc = strip nc ->
  exists pks', modify_col cfg_cur t oc nc pks vt = ([], pks', vt_set vt (t, cname nc) (col_vt vt nc), false, cpk oc).
Proof.
  intros Hs. destruct (strip_fields _ _ Hs) as [_ [Hr [Hpk [Ha Hp]]]]. unfold modify_col, col_vt. rewrite Hr, Hpk, Ha, Hp.
  rewrite !Bool.eqb_reflx. cbn [negb cfg_cur cfg_refref cfg_autovt].
  destruct (cref nc) as [[rt rc]|].
  - rewrite key_eqb_refl. cbn [negb]. eauto.
  - rewrite sqlty_eqb_refl. cbn [negb app]. destruct (cauto nc); eauto.
Qed.

Lemma modify_table_same2 nt ot vt : tname ot = tname nt -> NoDup (map cname (tcols nt)) -> tab_same ot nt ->
  (forall oc, In oc (tcols ot) -> NoDup (map cname (tcols ot))) ->
  NoDup (map cname (tcols ot)) ->
  modify_table cfg_cur nt ot vt = ([], vt_ext (tname nt) (lookup_cols nt (sort_names (map cname (tcols nt)))) vt).
Proof.
  intros Hn Hndn [A B] _ Hndo. unfold modify_table.
  assert (H1 : forall l acc, (forall c, In c l -> In c (map cname (tcols ot))) -> fold_left (mt_drop_step nt ot) l acc = acc).
  { induction l as [|c l IH]; intros acc Hl; cbn [fold_left]; [reflexivity|].
    rewrite IH by (intros x Hx; apply Hl; right; exact Hx).
    unfold mt_drop_step. destruct acc as [[ch ex] dr].
    assert (Hc : In c (map cname (tcols ot))) by (apply Hl; left; reflexivity). apply in_map_iff in Hc. destruct Hc as [oc [<- Hoc]].
    destruct (B oc Hoc) as [nc [Hnc Hs]]. rewrite (strip_name _ _ Hs), (find_col_in nt nc Hndn Hnc). reflexivity. }
  rewrite H1 by (intros c Hc; unfold sort_names in Hc; apply sort_by_in in Hc; exact Hc).
  assert (H2 : forall l pks vt0 ex, (forall c, In c l -> In c (map cname (tcols nt))) -> exists pks' ex',
             fold_left (mt_col_step cfg_cur nt ot) l ([], pks, vt0, false, ex) = ([], pks', vt_ext (tname nt) (lookup_cols nt l) vt0, false, ex')).
  { induction l as [|c l IH]; intros pks vt0 ex Hl; cbn [fold_left]; [unfold lookup_cols; cbn; eauto|].
    assert (Hc : In c (map cname (tcols nt))) by (apply Hl; left; reflexivity). apply in_map_iff in Hc. destruct Hc as [nc [<- Hnc]].
    unfold mt_col_step at 2. rewrite (find_col_in nt nc Hndn Hnc).
    destruct (A nc Hnc) as [oc [Hoc Hs]]. rewrite <- (strip_name _ _ Hs), (find_col_in ot oc Hndo Hoc).
    destruct (modify_col_same2 (tname nt) oc nc pks vt0 Hs) as [pks' ->]. cbn [app orb].
    destruct (IH pks' (vt_set vt0 (tname nt, cname nc) (col_vt vt0 nc)) (ex || cpk oc)%bool) as [pks'' [ex' ->]];
      [intros x Hx; apply Hl; right; exact Hx|].
    exists pks'', ex'. unfold lookup_cols. cbn [map somes]. rewrite (strip_name _ _ Hs), (find_col_in nt nc Hndn Hnc). reflexivity. }
  destruct (H2 (sort_names (map cname (tcols nt))) [] vt false) as [pks' [ex' ->]].
  { intros c Hc. unfold sort_names in Hc. apply sort_by_in in Hc. exact Hc. }
  rewrite andb_false_r. cbn [app andb]. reflexivity.
Qed.

Lemma retain_step_ok cat vt nt :
  NoDup (map cname (tcols nt)) -> tab_ok cat nt -> refs_ready cat vt nt ->
  let vt' := vt_ext (tname nt) (lookup_cols nt (sort_names (map cname (tcols nt)))) vt in
  vt_link vt' cat nt /\ (forall k, fst k <> tname nt -> vt_get vt' k = vt_get vt k).
Proof.
  intros Hnd [ct [Hf [Hp [Hc _]]]] Hr vt'.
  set (oc := lookup_cols nt (sort_names (map cname (tcols nt)))) in *.
  assert (Hperm : Permutation oc (tcols nt)).
  { apply lookup_cols_perm; [exact Hnd|]. unfold sort_names. apply sort_by_perm. }
  assert (Hnd_oc : NoDup (map cname oc)) by (eapply Permutation_NoDup; [symmetry; apply Permutation_map, Hperm|exact Hnd]).
  assert (Hrn : refs_not (tname nt) oc).
  { intros c [rt rc] Hin Hcr. cbn [fst]. apply (Permutation_in _ Hperm) in Hin. destruct (Hr c rt rc Hin Hcr) as [Hne _]. exact Hne. }
  split.
  - intros c Hin. destruct (Hc c Hin) as [cc [Hcc [Hv Hok]]]. exists cc. split; [exact Hcc|]. split; [|exact Hv].
    unfold vt'. rewrite vt_ext_own; [|exact Hnd_oc|exact Hrn|eapply Permutation_in; [symmetry; exact Hperm|exact Hin]].
    unfold col_vt. destruct (cref c) as [[rt rc]|] eqn:Hcr.
    + destruct Hok as [_ Hty]. destruct (Hr c rt rc Hin Hcr) as [_ [cc' [H1 [H2 _]]]]. unfold cat_col_ty in Hty. rewrite H1 in Hty.
      cbn in Hty. rewrite H2. congruence.
    + destruct (cauto c); destruct Hok as [-> _]; [apply bigint_ty_is|reflexivity].
  - intros k Hk. apply vt_ext_other. intros c _ He. apply Hk. rewrite <- He. reflexivity.
Qed.

(* ================================================================ the run of generateDatabaseScriptModify *)
Lemma delta_from_flat cfg ck old new st :
  delta_from cfg ck old new st =
  snd (fold_left (delta_table_step cfg ck old new) (concat (map (fun lv => sort_names (snd lv)) (levels_sorted (bydepth st)))) ([], [])).
Proof.
  unfold delta_from. generalize (@nil ((name*name)*sqlty), @nil ddl). generalize (levels_sorted (bydepth st)).
  induction l as [|lv l IH]; intros acc; cbn [fold_left map concat]; [reflexivity|].
  rewrite fold_left_app. apply IH.
Qed.

Section DeltaRun.
Variables old new : model.
Variable cat0 : catalog.
Hypothesis Hwfo : wf old.
Hypothesis Hwfn : wf new.
Hypothesis Hco : wf_cols old.
Hypothesis Hcn : wf_cols new.
Hypothesis Hscope : only_tables_change old new = true.
Hypothesis Hfresh : forall nt, In nt new -> find_table old (tname nt) = None -> ~ In (tname nt) (cat_names cat0).

Record dinv (seen:list name) (acc:vtypes * list ddl) (cat:catalog) : Prop := {
  d_exec  : exec cat0 (snd acc) = XOk cat;
  d_names : forall x, In x (cat_names cat) <-> In x (cat_names cat0) \/ (In x seen /\ find_table old x = None);
  d_nd    : NoDup (cat_names cat);
  d_seq   : cat_wfseq cat;
  d_old   : forall tb, In tb old -> tab_ok cat tb;
  d_tabs  : forall t tb, In t seen -> find_table new t = Some tb -> tab_ok cat tb /\ vt_link (fst acc) cat tb
}.

Lemma scope_same nt ot : In nt new -> find_table old (tname nt) = Some ot -> tname ot = tname nt /\ tab_same ot nt /\ In ot old.
Proof.
  intros Hnt Hf. destruct (find_table_some _ _ _ Hf) as [Hot Hn]. unfold only_tables_change in Hscope.
  rewrite forallb_forall in Hscope. specialize (Hscope nt Hnt). rewrite Hf in Hscope.
  split; [exact Hn|]. split; [apply tab_sameb_spec; [apply Hco, Hot|exact Hscope]|exact Hot].
Qed.

Lemma delta_run ns : forall seen acc cat, dinv seen acc cat -> NoDup ns ->
  (forall t, In t ns -> ~ In t seen /\ In t (map tname new)) -> ordered_from new seen ns ->
  exists cat', dinv (rev ns ++ seen) (fold_left (delta_table_step cfg_cur ByLineName old new) ns acc) cat'.
Proof.
  induction ns as [|t ns IH]; intros seen acc cat I Hnd Hns Hord; cbn [fold_left rev app]; [eauto|].
  inversion Hnd as [|? ? Hnotin Hnd']; subst. destruct Hord as [Hrefs Hord].
  destruct (Hns t (or_introl eq_refl)) as [Hunseen Hname].
  destruct (find_table new t) as [nt|] eqn:Hft; [|exfalso; exact (find_table_none _ _ Hft Hname)].
  destruct (find_table_some _ _ _ Hft) as [Hnt Htn].
  assert (Hready : refs_ready cat (fst acc) nt).
  { intros c rt rc Hc Hcr. assert (Hr : In (rt, rc) (refs nt)).
    { unfold refs, refs_cols. apply in_flat_map. exists c. rewrite Hcr. cbn. auto. }
    pose proof (Hrefs nt (rt, rc) Hft Hr) as Hseen. cbn [fst] in Hseen. split.
    - rewrite Htn. intros ->. contradiction.
    - destruct Hwfn as [_ Hres]. destruct (Hres nt _ Hnt Hr) as [tb' [Hf' [c' [Hc' Hcn']]]]. cbn [fst snd] in *.
      destruct (d_tabs _ _ _ I rt tb' Hseen Hf') as [_ Hlink]. destruct (find_table_some _ _ _ Hf') as [_ Htn'].
      destruct (Hlink c' Hc') as [cc [H1 [H2 H3]]]. rewrite Htn', Hcn' in *. exists cc. auto. }
  assert (Hrest : forall x, In x ns -> ~ In x (t :: seen) /\ In x (map tname new)).
  { intros x Hx. destruct (Hns x (or_intror Hx)) as [H1 H2]. split; [|exact H2]. intros [<-|H]; contradiction. }
  destruct (find_table old t) as [ot|] eqn:Hfo.
  - (* retained: no statement, the types of its columns are recorded *)
    rewrite <- Htn in Hfo. destruct (scope_same nt ot Hnt Hfo) as [Hn [Hsame Hot]].
    assert (Hstep : delta_table_step cfg_cur ByLineName old new acc t =
                    (vt_ext (tname nt) (lookup_cols nt (sort_names (map cname (tcols nt)))) (fst acc), snd acc)).
    { unfold delta_table_step. rewrite Hft. rewrite <- Htn at 1. rewrite Hfo.
      rewrite (modify_table_same2 nt ot (fst acc) Hn (Hcn nt Hnt) Hsame (fun _ _ => Hco ot Hot) (Hco ot Hot)).
      rewrite app_nil_r. reflexivity. }
    rewrite Hstep.
    assert (Hok : tab_ok cat nt) by (apply (tab_ok_same cat ot nt Hn (Hco ot Hot) (Hcn nt Hnt) Hsame), (d_old _ _ _ I ot Hot)).
    destruct (retain_step_ok cat (fst acc) nt (Hcn nt Hnt) Hok Hready) as [Hlink Hvt].
    assert (I' : dinv (t :: seen) (vt_ext (tname nt) (lookup_cols nt (sort_names (map cname (tcols nt)))) (fst acc), snd acc) cat).
    { constructor; cbn [fst snd]; try apply I.
      - intros x. rewrite (d_names _ _ _ I x). cbn [In]. split; [tauto|]. intros [H|[[<-|H] Hno]]; [auto| |auto].
        rewrite <- Htn, Hfo in Hno. discriminate.
      - intros x xb [<-|Hx] Hfx.
        + rewrite Hft in Hfx. injection Hfx as <-. auto.
        + destruct (d_tabs _ _ _ I x xb Hx Hfx) as [H1 H2]. split; [exact H1|].
          intros c Hc. destruct (H2 c Hc) as [cc [Ha [Hb Hc']]]. exists cc. split; [exact Ha|]. split; [|exact Hc'].
          rewrite Hvt; [exact Hb|]. cbn [fst]. destruct (find_table_some _ _ _ Hfx) as [_ ->]. rewrite Htn. intros ->. contradiction. }
    destruct (IH (t :: seen) _ _ I' Hnd' Hrest Hord) as [cat' Hc']. exists cat'. rewrite <- app_assoc. exact Hc'.
  - (* added: CREATE TABLE *)
    assert (Hfresh' : ~ In (tname nt) (cat_names cat)).
    { rewrite Htn. intros H. apply (d_names _ _ _ I) in H. destruct H as [H|[H _]]; [|contradiction].
      apply (Hfresh nt Hnt); [rewrite Htn; exact Hfo|rewrite Htn; exact H]. }
    destruct (create_step_ok cat (fst acc) nt (Hcn nt Hnt) Hfresh' (d_nd _ _ _ I) (d_seq _ _ _ I) Hready)
      as [ct [sq [Hex [Hctn [Htab [Hlink [Hseq' [Hnd'' Hvt]]]]]]]].
    assert (Hstep : delta_table_step cfg_cur ByLineName old new acc t =
                    (snd (create_table ByLineName nt (fst acc)), snd acc ++ [fst (create_table ByLineName nt (fst acc))])).
    { unfold delta_table_step. rewrite Hft, Hfo. destruct (create_table ByLineName nt (fst acc)). reflexivity. }
    rewrite Hstep.
    assert (I' : dinv (t :: seen) (snd (create_table ByLineName nt (fst acc)), snd acc ++ [fst (create_table ByLineName nt (fst acc))]) (grow cat ct sq)).
    { constructor; cbn [fst snd].
      - rewrite exec_app, (d_exec _ _ _ I). cbn [exec]. rewrite Hex. reflexivity.
      - intros x. unfold cat_names, grow. cbn [tabs]. rewrite map_app, in_app_iff. cbn [map In]. rewrite Hctn, Htn.
        fold (cat_names cat). rewrite (d_names _ _ _ I x). split.
        + intros [[H|[H1 H2]]|[<-|[]]]; auto.
        + intros [H|[[<-|H1] H2]]; auto.
      - exact Hnd''.
      - exact Hseq'.
      - intros tb Htb. apply grow_tab_ok, (d_old _ _ _ I tb Htb).
      - intros x xb [<-|Hx] Hfx.
        + rewrite Hft in Hfx. injection Hfx as <-. auto.
        + destruct (d_tabs _ _ _ I x xb Hx Hfx) as [H1 H2]. split; [apply grow_tab_ok, H1|].
          intros c Hc. destruct (H2 c Hc) as [cc [Ha [Hb Hc']]]. exists cc. split; [apply grow_col_old, Ha|]. split; [|exact Hc'].
          rewrite Hvt; [exact Hb|]. cbn [fst]. destruct (find_table_some _ _ _ Hfx) as [_ ->]. rewrite Htn. intros ->. contradiction. }
    destruct (IH (t :: seen) _ _ I' Hnd' Hrest Hord) as [cat' Hc']. exists cat'. rewrite <- app_assoc. exact Hc'.
Qed.
End DeltaRun.

(* PARTIAL of delta_sound.  cat0 is ANY catalog that holds the old version's schema (in particular the one the
   creation script of the old version builds) and none of the tables the new version adds. *)
Theorem delta_sound_tables_partial sk old new dn ord fuel cat0 :
  wf old -> wf new -> wf_cols old -> wf_cols new -> is_depth new dn -> perm_oracle ord ->
  (length new < fuel)%nat -> (exists sto, depth_map sk fuel ord old = Ok sto) ->
  only_tables_change old new = true ->
  cat_matches old cat0 ->
  (forall nt, In nt new -> find_table old (tname nt) = None -> ~ In (tname nt) (cat_names cat0)) ->
  exists l cat1, delta sk cfg_cur ByLineName fuel ord old new = Ok l /\ exec cat0 l = XOk cat1 /\
    cat_matches new cat1 /\
    (forall x, In x (cat_names cat1) <-> In x (cat_names cat0) \/ In x (map tname new)).
Proof.
  intros Hwfo Hwfn Hco Hcn Hd Hord Hfuel [sto Hsto] Hscope [Hnd0 [Hseq0 Hok0]] Hfresh.
  destruct (depth_is_longest_path sk new dn ord fuel Hwfn Hd Hord Hfuel) as [st [Hst [_ [Hlv [Hkeys Hnd]]]]].
  unfold delta. rewrite Hsto, Hst. eexists. rewrite delta_from_flat.
  set (L := levels_sorted (bydepth st)). set (f := fun lv : N * list name => sort_names (snd lv)). set (ns := concat (map f L)).
  assert (HLperm : Permutation L (bydepth st)) by (unfold L, levels_sorted; apply sort_by_perm).
  assert (Hf : forall lv, Permutation (f lv) (snd lv)) by (intros lv; unfold f, sort_names; apply sort_by_perm).
  assert (HLk : NoDup (map fst L)) by (eapply Permutation_NoDup; [symmetry; apply Permutation_map, HLperm|exact Hkeys]).
  assert (HL1 : forall lv t, In lv L -> In t (snd lv) -> In t (map tname new) /\ dn t = fst lv).
  { intros [k l] t Hin Ht. apply (Permutation_in _ HLperm) in Hin. apply (Hlv t k). exists l. auto. }
  assert (HL2 : forall t, In t (map tname new) -> exists lv, In lv L /\ fst lv = dn t /\ In t (snd lv)).
  { intros t Ht. destruct (proj2 (Hlv t (dn t)) (conj Ht eq_refl)) as [l [Hkl Htl]]. exists (dn t, l).
    split; [eapply Permutation_in; [symmetry; exact HLperm|exact Hkl]|auto]. }
  assert (Hns_perm : Permutation ns (concat (map snd (bydepth st)))).
  { unfold ns. transitivity (concat (map snd L)); [apply concat_pointwise; intros lv _; apply Hf|].
    apply perm_concat, Permutation_map, HLperm. }
  assert (Hns_nd : NoDup ns) by (eapply Permutation_NoDup; [symmetry; exact Hns_perm|exact Hnd]).
  assert (Hns_in : forall t, In t ns <-> In t (map tname new)).
  { intros t. split.
    - intros H. apply (Permutation_in _ Hns_perm) in H. apply in_concat in H. destruct H as [l [Hl Ht]].
      apply in_map_iff in Hl. destruct Hl as [[k l'] [<- Hkl]]. apply (Hlv t k). eauto.
    - intros H. destruct (HL2 t H) as [lv [Hlv' [_ Hin]]]. unfold ns. apply in_concat. exists (f lv).
      split; [apply in_map, Hlv'|eapply Permutation_in; [symmetry; apply Hf|exact Hin]]. }
  assert (Hord' : ordered_from new [] ns).
  { apply (levels_ordered new dn Hwfn Hd f Hf L HLk HL1 HL2 L []); [apply incl_refl|apply levels_sorted_sorted|].
    intros t Ht Hno. destruct (HL2 t Ht) as [lv [Hin [Hk _]]]. exfalso. exact (Hno lv Hin Hk). }
  assert (I0 : dinv old new cat0 [] ([], []) cat0).
  { constructor; cbn [fst snd exec]; auto.
    - intros x. cbn [In]. tauto.
    - intros t tb []. }
  destruct (delta_run old new cat0 Hwfn Hco Hcn Hscope Hfresh ns [] ([], []) cat0 I0 Hns_nd) as [cat I].
  - intros t Ht. split; [intros []|apply Hns_in, Ht].
  - exact Hord'.
  - exists cat. split; [reflexivity|]. split; [exact (d_exec _ _ _ _ _ _ I)|]. rewrite app_nil_r in I. split.
    + split; [exact (d_nd _ _ _ _ _ _ I)|]. split; [exact (d_seq _ _ _ _ _ _ I)|]. intros tb Htb.
      apply (d_tabs _ _ _ _ _ _ I (tname tb) tb); [apply -> in_rev; apply Hns_in, in_map, Htb|apply find_table_in; [apply Hwfn|exact Htb]].
    + intros x. rewrite (d_names _ _ _ _ _ _ I x). split.
      * intros [H|[H _]]; [auto|]. right. apply Hns_in. apply in_rev. exact H.
      * intros [H|H]; [auto|]. destruct (find_table old x) as [ot|] eqn:Hfo.
        -- left. destruct (find_table_some _ _ _ Hfo) as [Hot <-]. destruct (Hok0 ot Hot) as [ct [Hfc _]].
           apply (cat_find_in_names _ _ _ Hfc).
        -- right. split; [apply -> in_rev; apply Hns_in, H|reflexivity].
Qed.

Lemma find_table_not_none m t : In t (map tname m) -> find_table m t <> None.
Proof. intros Hin Hf. exact (find_table_none _ _ Hf Hin). Qed.

(* creation script of the old version, then the delta script, from the empty catalog *)
Corollary create_then_delta_partial sk old new dold dn ord fuel :
  wf old -> wf new -> wf_cols old -> wf_cols new -> is_depth old dold -> is_depth new dn -> perm_oracle ord ->
  (length old < fuel)%nat -> (length new < fuel)%nat -> only_tables_change old new = true ->
  exists lc ld cat1, create sk ByLineName ByLineName fuel ord old = Ok lc /\
    delta sk cfg_cur ByLineName fuel ord old new = Ok ld /\
    exec empty_cat (lc ++ ld) = XOk cat1 /\ cat_matches new cat1 /\
    (forall x, In x (cat_names cat1) <-> In x (map tname old) \/ In x (map tname new)).
Proof.
  intros Hwfo Hwfn Hco Hcn Hdo Hdn Hord Hfo Hfn Hscope.
  destruct (create_complete_ordered sk old dold ord fuel Hwfo Hco Hdo Hord Hfo) as [lc [cat0 [Hc [He [Hm Hp]]]]].
  assert (Hsto : exists sto, depth_map sk fuel ord old = Ok sto).
  { destruct (depth_is_longest_path sk old dold ord fuel Hwfo Hdo Hord Hfo) as [sto [H _]]. eauto. }
  destruct (delta_sound_tables_partial sk old new dn ord fuel cat0 Hwfo Hwfn Hco Hcn Hdn Hord Hfn Hsto Hscope Hm)
    as [ld [cat1 [Hd [He1 [Hm1 Hn1]]]]].
  { intros nt Hnt Hnone Hin. apply (Permutation_in _ Hp) in Hin. exact (find_table_not_none _ _ Hin Hnone). }
  exists lc, ld, cat1. split; [exact Hc|]. split; [exact Hd|]. split; [rewrite exec_app, He; exact He1|]. split; [exact Hm1|].
  intros x. rewrite (Hn1 x). split; (intros [H|H]; [left|right; exact H]).
  - eapply Permutation_in; [exact Hp|exact H].
  - eapply Permutation_in; [symmetry; exact Hp|exact H].
Qed.

(* chain v1 -> v2 -> v3 by composition; a table dropped in v2 is not added again in v3 (the delta script never
   drops a table, so its CREATE TABLE would be rejected) *)
Corollary delta_chain_partial sk v1 v2 v3 d1 d2 d3 ord fuel :
  wf v1 -> wf v2 -> wf v3 -> wf_cols v1 -> wf_cols v2 -> wf_cols v3 ->
  is_depth v1 d1 -> is_depth v2 d2 -> is_depth v3 d3 -> perm_oracle ord ->
  (length v1 < fuel)%nat -> (length v2 < fuel)%nat -> (length v3 < fuel)%nat ->
  only_tables_change v1 v2 = true -> only_tables_change v2 v3 = true ->
  (forall nt, In nt v3 -> find_table v2 (tname nt) = None -> find_table v1 (tname nt) = None) ->
  exists lc l12 l23 cat3, create sk ByLineName ByLineName fuel ord v1 = Ok lc /\
    delta sk cfg_cur ByLineName fuel ord v1 v2 = Ok l12 /\ delta sk cfg_cur ByLineName fuel ord v2 v3 = Ok l23 /\
    exec empty_cat (lc ++ l12 ++ l23) = XOk cat3 /\ cat_matches v3 cat3.
Proof.
  intros W1 W2 W3 C1 C2 C3 D1 D2 D3 Hord F1 F2 F3 S12 S23 Hno.
  destruct (create_then_delta_partial sk v1 v2 d1 d2 ord fuel W1 W2 C1 C2 D1 D2 Hord F1 F2 S12)
    as [lc [l12 [cat2 [Hc [Hd12 [He [Hm2 Hn2]]]]]]].
  assert (Hsto : exists sto, depth_map sk fuel ord v2 = Ok sto).
  { destruct (depth_is_longest_path sk v2 d2 ord fuel W2 D2 Hord F2) as [sto [H _]]. eauto. }
  destruct (delta_sound_tables_partial sk v2 v3 d3 ord fuel cat2 W2 W3 C2 C3 D3 Hord F3 Hsto S23 Hm2)
    as [l23 [cat3 [Hd23 [He3 [Hm3 _]]]]].
  { intros nt Hnt Hnone Hin. apply Hn2 in Hin. destruct Hin as [Hin|Hin].
    - exact (find_table_not_none _ _ Hin (Hno nt Hnt Hnone)).
    - exact (find_table_not_none _ _ Hin Hnone). }
  exists lc, l12, l23, cat3. split; [exact Hc|]. split; [exact Hd12|]. split; [exact Hd23|]. split; [|exact Hm3].
  rewrite app_assoc, exec_app, He. exact He3.
Qed.

(* ---- non-vacuity: P(id autoinc key, n string(30)); v2 adds C(k key, p -> P.id, q -> P.n), moves P to another
   line and swaps its columns; v3 adds D(x -> C.p) and drops nothing ---- *)
Definition nv_col (n:name) (ln:N) (p:prim) (sz:N) (r:option (name*name)) (pk au:bool) : col := C n ln p sz r pk au.
Definition nv1 : model :=
  [T 1%positive 1%N [nv_col 10%positive 2%N PInt 0%N None true true; nv_col 11%positive 3%N PString 30%N None false false]].
Definition nv2 : model :=
  [T 2%positive 1%N [nv_col 12%positive 2%N PInt 0%N None true false;
                     nv_col 13%positive 3%N PInt 0%N (Some (1%positive, 10%positive)) false false;
                     nv_col 14%positive 3%N PInt 0%N (Some (1%positive, 11%positive)) false false];
   T 1%positive 9%N [nv_col 11%positive 10%N PString 30%N None false false; nv_col 10%positive 11%N PInt 0%N None true true]].
Definition nv3 : model := T 3%positive 1%N [nv_col 15%positive 2%N PInt 0%N (Some (2%positive, 13%positive)) true false] :: nv2.
Definition nv_d1 (t:name) : N := 0%N.
Definition nv_d2 (t:name) : N := match t with 2%positive => 1 | _ => 0 end%N.
Definition nv_d3 (t:name) : N := match t with 2%positive => 1 | 3%positive => 2 | _ => 0 end%N.

Ltac nv_nd := repeat (apply NoDup_cons; [cbn; intuition discriminate|]); apply NoDup_nil.
Ltac nv_wf := split; [cbn; nv_nd|];
  intros tb r Htb Hr; cbn in Htb; repeat (destruct Htb as [<-|Htb]; [cbn in Hr;
    repeat (destruct Hr as [<-|Hr]; [cbn; eexists; split; [reflexivity|]; first [eexists; split; [left; reflexivity|reflexivity] | eexists; split; [right; left; reflexivity|reflexivity] | eexists; split; [right; right; left; reflexivity|reflexivity]]|]); contradiction|]); contradiction.
Ltac nv_cols := intros tb Htb; cbn in Htb; repeat (destruct Htb as [<-|Htb]; [cbn; nv_nd|]); contradiction.
Ltac nv_depth := intros tb Htb; cbn in Htb; repeat (destruct Htb as [<-|Htb]; [reflexivity|]); contradiction.

Example nv_hypotheses :
  wf nv1 /\ wf nv2 /\ wf nv3 /\ wf_cols nv1 /\ wf_cols nv2 /\ wf_cols nv3 /\
  is_depth nv1 nv_d1 /\ is_depth nv2 nv_d2 /\ is_depth nv3 nv_d3 /\
  only_tables_change nv1 nv2 = true /\ only_tables_change nv2 nv3 = true /\
  (forall nt, In nt nv3 -> find_table nv2 (tname nt) = None -> find_table nv1 (tname nt) = None).
Proof.
  split; [nv_wf|]. split; [nv_wf|]. split; [nv_wf|]. split; [nv_cols|]. split; [nv_cols|]. split; [nv_cols|].
  split; [nv_depth|]. split; [nv_depth|]. split; [nv_depth|]. split; [reflexivity|]. split; [reflexivity|].
  intros nt Hnt. cbn in Hnt. repeat (destruct Hnt as [<-|Hnt]; [cbn; intros H; first [reflexivity|discriminate]|]). contradiction.
Qed.

(* and the delta nv1 -> nv2 is not empty: it is the CREATE TABLE of C with both references typed bigint / varchar (30) *)
Example nv_delta_runs :
  delta depth_stop cfg_cur ByLineName 4 id_ord nv1 nv2 =
  Ok [CreateTable 2%positive [(12%positive, TInteger); (13%positive, TBigint); (14%positive, TVarchar 30)] [12%positive]
        [(13%positive, (1%positive, 10%positive)); (14%positive, (1%positive, 11%positive))]].
Proof. vm_compute. reflexivity. Qed.
