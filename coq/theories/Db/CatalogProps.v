(* C16 proofs: what it means for a catalog to be the schema of a model (`tab_ok`, `cat_matches`), and the two
   ways the script generators make a table's entry right: emitting its CREATE TABLE (create_step_ok) and, in the
   delta path, recognising a retained table that did not change (retain_step_ok). *)
From Coq Require Import String List NArith PArith Bool Lia Permutation Arith.
Import ListNotations.
Require Import Verif.Db.Depth Verif.Db.DepthProps Verif.Gen.DbTables Verif.Db.Script Verif.Db.SqlInterp
  Verif.Db.Tables Verif.Db.ScriptProps.

(* ================================================================ the specification *)
Definition valid_stored (ty:sqlty) : bool := valid_ty ty && negb (snd (stored ty)).
Definition cat_col (cat:catalog) (t c:name) : option ccol :=
  match cat_find cat t with Some ct => find (fun x => Pos.eqb (ccname x) c) (ctcols ct) | None => None end.
Definition cat_col_ty (cat:catalog) (t c:name) : option sqlty := option_map ccty (cat_col cat t c).
Definition pk_list (ct:ctab) : list name := match ctpk ct with Some l => l | None => [] end.

(* one column: string(n) -> varchar (n), int -> integer, date -> date, other -> varchar (50) (col_pg_type, see
   Tables.pg_type_spec); ~autoinc -> bigint with a sequence default; a reference -> the type the referenced
   column has in the same catalog *)
Definition col_ok (cat:catalog) (c:col) (cc:ccol) : Prop :=
  valid_stored (ccty cc) = true /\
  match cref c with
  | Some (rt, rc) => ccdef cc = false /\ cat_col_ty cat rt rc = Some (ccty cc)
  | None => if cauto c then ccty cc = TBigint /\ ccdef cc = true else ccty cc = col_pg_type c /\ ccdef cc = false
  end.

Definition nref (c:col) : list (name * (name * name)) := match cref c with Some r => [(cname c, r)] | None => [] end.
Definition named_refs (tb:table) : list (name * (name * name)) := flat_map nref (tcols tb).

(* one table: exactly the model's columns with their types, the ~pk columns as key, one constraint per reference *)
Definition tab_ok (cat:catalog) (tb:table) : Prop :=
  exists ct, cat_find cat (tname tb) = Some ct /\
    Permutation (map ccname (ctcols ct)) (map cname (tcols tb)) /\
    (forall c, In c (tcols tb) -> exists cc, cat_col cat (tname tb) (cname c) = Some cc /\ col_ok cat c cc) /\
    (forall k, In k (pk_list ct) <-> In k (map cname (filter cpk (tcols tb)))) /\
    Permutation (ctfks ct) (named_refs tb).

Definition cat_wfseq (cat:catalog) : Prop := forall k, In k (seqs cat) -> In (fst k) (map ctname (tabs cat)).
Definition cat_names (cat:catalog) : list name := map ctname (tabs cat).

(* the catalog holds every table of the model, as the model says *)
Definition cat_matches (m:model) (cat:catalog) : Prop :=
  NoDup (cat_names cat) /\ cat_wfseq cat /\ forall tb, In tb m -> tab_ok cat tb.

(* models as Go maps: table names distinct, column names distinct inside a table, references resolve *)
Definition wf_cols (m:model) : Prop := forall tb, In tb m -> NoDup (map cname (tcols tb)).

(* the link between visitedAttributes and the catalog for a table already written *)
Definition vt_link (vt:vtypes) (cat:catalog) (tb:table) : Prop :=
  forall c, In c (tcols tb) -> exists cc, cat_col cat (tname tb) (cname c) = Some cc /\
    vt_get vt (tname tb, cname c) = ccty cc /\ valid_stored (ccty cc) = true.

(* ================================================================ small facts *)
Lemma vt_get_set vt k ty k' : vt_get (vt_set vt k ty) k' = if key_eqb k k' then ty else vt_get vt k'.
Proof. unfold vt_get, vt_set. cbn [find fst]. destruct (key_eqb k k'); reflexivity. Qed.

Lemma key_eqb_neq a b : a <> b -> key_eqb a b = false.
Proof. intros H. destruct (key_eqb a b) eqn:E; [apply key_eqb_eq in E; contradiction|reflexivity]. Qed.

Lemma valid_stored_stored ty : valid_stored ty = true -> stored ty = (ty, false) /\ valid_ty ty = true.
Proof. unfold valid_stored. destruct ty; cbn; intros H; try discriminate; auto. Qed.

Lemma pg_valid c : valid_stored (col_pg_type c) = true.
Proof. unfold col_pg_type. rewrite pg_type_spec. destruct (cprim c); reflexivity. Qed.

Lemma nodup_names_true l : NoDup l -> nodup_names l = true.
Proof.
  induction 1 as [|x l Hx Hnd IH]; cbn [nodup_names]; [reflexivity|]. rewrite IH, andb_true_r.
  apply negb_true_iff. destruct (mem_name x l) eqn:E; [|reflexivity]. unfold mem_name in E.
  apply existsb_exists in E. destruct E as [y [Hy He]]. apply Pos.eqb_eq in He. subst. contradiction.
Qed.

Lemma mem_name_in x l : In x l -> mem_name x l = true.
Proof. intros H. unfold mem_name. apply existsb_exists. exists x. split; [exact H|apply Pos.eqb_refl]. Qed.

Lemma cat_find_some cat t ct : cat_find cat t = Some ct -> In ct (tabs cat) /\ ctname ct = t.
Proof. unfold cat_find. intros H. apply find_some in H. destruct H as [Hin He]. apply Pos.eqb_eq in He. auto. Qed.

Lemma cat_find_none cat t : ~ In t (cat_names cat) -> cat_find cat t = None.
Proof.
  unfold cat_find, cat_names. intros H. destruct (find _ (tabs cat)) as [ct|] eqn:E; [|reflexivity].
  apply find_some in E. destruct E as [Hin He]. apply Pos.eqb_eq in He. exfalso. apply H. rewrite <- He. apply in_map, Hin.
Qed.

Lemma cat_find_in_names cat t ct : cat_find cat t = Some ct -> In t (cat_names cat).
Proof. intros H. apply cat_find_some in H. destruct H as [Hin <-]. apply in_map, Hin. Qed.

(* the catalog after CREATE TABLE: the old tables followed by the new one *)
Definition grow (cat:catalog) (ct:ctab) (sq:list (name*name)) : catalog := Cat (tabs cat ++ [ct]) (seqs cat ++ sq).

Lemma grow_find_old cat ct sq t x : cat_find cat t = Some x -> cat_find (grow cat ct sq) t = Some x.
Proof.
  unfold cat_find, grow. cbn [tabs]. intros H. induction (tabs cat) as [|y l IH]; cbn [find app] in *; [discriminate|].
  destruct (Pos.eqb (ctname y) t); [exact H|apply IH, H].
Qed.

Lemma grow_find_new cat ct sq : ~ In (ctname ct) (cat_names cat) -> cat_find (grow cat ct sq) (ctname ct) = Some ct.
Proof.
  unfold cat_find, grow, cat_names. cbn [tabs]. induction (tabs cat) as [|y l IH]; cbn [find app map In]; intros H.
  - rewrite Pos.eqb_refl. reflexivity.
  - destruct (Pos.eqb_spec (ctname y) (ctname ct)) as [He|Hne]; [exfalso; apply H; left; exact He|].
    apply IH. intros Hin. apply H. right. exact Hin.
Qed.

Lemma grow_col_old cat ct sq t c cc : cat_col cat t c = Some cc -> cat_col (grow cat ct sq) t c = Some cc.
Proof.
  unfold cat_col. destruct (cat_find cat t) as [x|] eqn:E; [|discriminate]. rewrite (grow_find_old _ ct sq _ _ E). auto.
Qed.

Lemma grow_col_ok cat ct sq c cc : col_ok cat c cc -> col_ok (grow cat ct sq) c cc.
Proof.
  unfold col_ok. intros [Hv H]. split; [exact Hv|]. destruct (cref c) as [[rt rc]|]; [|exact H].
  destruct H as [Hd Ht]. split; [exact Hd|]. unfold cat_col_ty in *.
  destruct (cat_col cat rt rc) as [x|] eqn:E; [|discriminate]. rewrite (grow_col_old _ ct sq _ _ _ E). exact Ht.
Qed.

Lemma grow_tab_ok cat ct sq tb : tab_ok cat tb -> tab_ok (grow cat ct sq) tb.
Proof.
  intros [x [Hf [Hp [Hc [Hk Hfk]]]]]. exists x. split; [apply grow_find_old, Hf|]. split; [exact Hp|].
  split; [|split; assumption]. intros c Hin. destruct (Hc c Hin) as [cc [H1 H2]]. exists cc.
  split; [apply grow_col_old, H1|apply grow_col_ok, H2].
Qed.

Lemma grow_vt_link vt cat ct sq tb : vt_link vt cat tb -> vt_link vt (grow cat ct sq) tb.
Proof.
  intros H c Hin. destruct (H c Hin) as [cc [H1 H2]]. exists cc. split; [apply grow_col_old, H1|exact H2].
Qed.

Lemma cat_col_has cat t c cc : cat_col cat t c = Some cc -> cat_has_col cat t c = true.
Proof.
  unfold cat_col, cat_has_col. destruct (cat_find cat t) as [ct|]; [|discriminate]. intros H.
  unfold ct_has_col. apply existsb_exists. apply find_some in H. destruct H as [Hin He]. exists cc. auto.
Qed.

(* ================================================================ writeCreateSQLForAColumn, closed form *)
Definition col_ty (vt:vtypes) (c:col) : sqlty :=
  match cref c with Some r => vt_get vt r | None => if cauto c then TBigserial else col_pg_type c end.
Definition col_vt (vt:vtypes) (c:col) : sqlty :=
  match cref c with Some r => vt_get vt r | None => if cauto c then bigint_ty else col_pg_type c end.

Lemma create_col_eq t c vt :
  create_col t c vt = ((cname c, col_ty vt c), option_map (fun r => (cname c, r)) (cref c), vt_set vt (t, cname c) (col_vt vt c)).
Proof. unfold create_col, col_ty, col_vt. destruct (cref c) as [[rt rc]|]; [reflexivity|]. destruct (cauto c); reflexivity. Qed.

Definition vt_ext (t:name) (cols:list col) (vt:vtypes) : vtypes :=
  fold_left (fun vt c => vt_set vt (t, cname c) (col_vt vt c)) cols vt.
Definition refs_not (t:name) (cols:list col) : Prop := forall c r, In c cols -> cref c = Some r -> fst r <> t.

Lemma vt_ext_other t cols : forall vt k, (forall c, In c cols -> (t, cname c) <> k) -> vt_get (vt_ext t cols vt) k = vt_get vt k.
Proof.
  induction cols as [|c cols IH]; intros vt k H; cbn [vt_ext fold_left]; [reflexivity|].
  fold (vt_ext t cols (vt_set vt (t, cname c) (col_vt vt c))). rewrite IH by (intros c' Hc'; apply H; right; exact Hc').
  rewrite vt_get_set, key_eqb_neq; [reflexivity|apply H; left; reflexivity].
Qed.

Lemma col_vt_set t c' ty vt c : (forall r, cref c = Some r -> fst r <> t) -> col_vt (vt_set vt (t, c') ty) c = col_vt vt c.
Proof.
  intros H. unfold col_vt. destruct (cref c) as [r|]; [|reflexivity]. rewrite vt_get_set, key_eqb_neq; [reflexivity|].
  intros He. apply (H r eq_refl). rewrite <- He. reflexivity.
Qed.
Lemma col_ty_set t c' ty vt c : (forall r, cref c = Some r -> fst r <> t) -> col_ty (vt_set vt (t, c') ty) c = col_ty vt c.
Proof.
  intros H. unfold col_ty. destruct (cref c) as [r|]; [|reflexivity]. rewrite vt_get_set, key_eqb_neq; [reflexivity|].
  intros He. apply (H r eq_refl). rewrite <- He. reflexivity.
Qed.

Lemma vt_ext_own t cols : forall vt c, NoDup (map cname cols) -> refs_not t cols -> In c cols ->
  vt_get (vt_ext t cols vt) (t, cname c) = col_vt vt c.
Proof.
  induction cols as [|c0 cols IH]; intros vt c Hnd Hr Hin; [contradiction|]. cbn [vt_ext fold_left].
  fold (vt_ext t cols (vt_set vt (t, cname c0) (col_vt vt c0))).
  inversion Hnd as [|? ? Hnotin Hnd']; subst. destruct Hin as [->|Hin].
  - rewrite vt_ext_other.
    + rewrite vt_get_set, key_eqb_refl. reflexivity.
    + intros c' Hc' [= He]. apply Hnotin. rewrite <- He. apply in_map, Hc'.
  - rewrite IH; [|exact Hnd'|intros c' r Hc'; apply Hr; right; exact Hc'|exact Hin].
    apply col_vt_set. intros r Hcr. apply (Hr c r); [right; exact Hin|exact Hcr].
Qed.

Lemma create_cols_fold t cols : forall defs pks fks vt, refs_not t cols ->
  fold_left (create_col_step t) cols (defs, pks, fks, vt) =
  (defs ++ map (fun c => (cname c, col_ty vt c)) cols, pks ++ map cname (filter cpk cols), fks ++ flat_map nref cols, vt_ext t cols vt).
Proof.
  induction cols as [|c cols IH]; intros defs pks fks vt Hr; cbn [fold_left map filter flat_map vt_ext].
  - rewrite !app_nil_r. reflexivity.
  - unfold create_col_step at 2. rewrite create_col_eq.
    rewrite IH by (intros c' r Hc'; apply Hr; right; exact Hc').
    assert (Hc : forall r, cref c = Some r -> fst r <> t) by (intros r; apply Hr; left; reflexivity).
    f_equal. f_equal; [f_equal|].
    + rewrite <- app_assoc. cbn [app]. f_equal. f_equal. apply map_ext_in. intros c' Hc'. f_equal.
      apply col_ty_set. intros r. apply Hr. right. exact Hc'.
    + destruct (cpk c); cbn [map]; [rewrite <- app_assoc|]; reflexivity.
    + unfold nref at 2. destruct (cref c) as [r|]; cbn [option_map]; [rewrite <- app_assoc|rewrite app_nil_l]; reflexivity.
Qed.

(* ================================================================ column order of CREATE TABLE *)
Lemma find_in_cols cols c : NoDup (map cname cols) -> In c cols -> find (fun x => Pos.eqb (cname x) (cname c)) cols = Some c.
Proof.
  induction cols as [|x l IH]; intros Hnd Hin; [contradiction|]. cbn [find map] in *.
  inversion Hnd as [|? ? Hnotin Hnd']; subst. destruct (Pos.eqb_spec (cname x) (cname c)) as [He|Hne].
  - destruct Hin as [->|Hin]; [reflexivity|]. exfalso. apply Hnotin. rewrite He. apply in_map, Hin.
  - destruct Hin as [->|Hin]; [congruence|]. apply IH; assumption.
Qed.
Lemma find_col_in tb c : NoDup (map cname (tcols tb)) -> In c (tcols tb) -> find_col tb (cname c) = Some c.
Proof. apply find_in_cols. Qed.

Lemma lookup_cols_perm tb names : NoDup (map cname (tcols tb)) -> Permutation names (map cname (tcols tb)) ->
  Permutation (lookup_cols tb names) (tcols tb).
Proof.
  intros Hnd Hp. unfold lookup_cols.
  assert (Hfind : forall c, In c (tcols tb) -> find_col tb (cname c) = Some c)
    by (intros c Hin; apply find_col_in; assumption).
  assert (Hb : forall l, (forall c, In c l -> find_col tb (cname c) = Some c) -> somes (map (find_col tb) (map cname l)) = l).
  { induction l as [|c l IH]; intros Hl; [reflexivity|].
    cbn [map somes]. rewrite (Hl c (or_introl eq_refl)). f_equal. apply IH. intros c' Hc'. apply Hl. right. exact Hc'. }
  pose proof (Hb (tcols tb) Hfind) as Hbase.
  assert (Hgen : forall a b, Permutation a b -> Permutation (somes (map (find_col tb) a)) (somes (map (find_col tb) b))).
  { induction 1 as [|x a b _ IH|x y a|a b c _ IH1 _ IH2]; cbn [map somes].
    - reflexivity.
    - destruct (find_col tb x); [constructor|]; exact IH.
    - destruct (find_col tb x), (find_col tb y); try reflexivity. apply perm_swap.
    - etransitivity; eassumption. }
  etransitivity; [apply Hgen, Hp|]. rewrite Hbase. reflexivity.
Qed.

Lemma ordered_cols_perm tb : NoDup (map cname (tcols tb)) -> Permutation (ordered_cols ByLineName tb) (tcols tb).
Proof.
  intros Hnd. unfold ordered_cols. apply lookup_cols_perm; [exact Hnd|]. unfold order_names.
  rewrite sort_by_perm, map_map. cbn [fst]. reflexivity.
Qed.

Lemma perm_flat_map {A B} (f:A -> list B) l l' : Permutation l l' -> Permutation (flat_map f l) (flat_map f l').
Proof.
  induction 1; cbn [flat_map]; [reflexivity|apply Permutation_app_head; assumption| |etransitivity; eassumption].
  rewrite !app_assoc. apply Permutation_app_tail, Permutation_app_comm.
Qed.
Lemma perm_filter {A} (f:A -> bool) l l' : Permutation l l' -> Permutation (filter f l) (filter f l').
Proof.
  induction 1; cbn [filter]; [reflexivity| | |etransitivity; eassumption].
  - destruct (f x); [constructor|]; assumption.
  - destruct (f x), (f y); try reflexivity. apply perm_swap.
Qed.

Lemma nref_names_nodup cols : NoDup (map cname cols) -> NoDup (map fst (flat_map nref cols)).
Proof.
  induction cols as [|c cols IH]; cbn [map flat_map]; intros Hnd; [constructor|].
  inversion Hnd as [|? ? Hnotin Hnd']; subst. rewrite map_app. unfold nref at 1.
  destruct (cref c) as [r|]; cbn [map app fst]; [|apply IH, Hnd']. constructor; [|apply IH, Hnd'].
  intros Hin. apply Hnotin. apply in_map_iff in Hin. destruct Hin as [[k r'] [Hk Hin]]. cbn [fst] in Hk. subst k.
  apply in_flat_map in Hin. destruct Hin as [c' [Hc' Hn]]. unfold nref in Hn. destruct (cref c'); [|contradiction].
  destruct Hn as [[= <- _]|[]]. apply in_map, Hc'.
Qed.

Lemma find_mk {A} (mk:col -> A) (nm:A -> name) cols c :
  (forall x, nm (mk x) = cname x) -> NoDup (map cname cols) -> In c cols ->
  find (fun x => Pos.eqb (nm x) (cname c)) (map mk cols) = Some (mk c).
Proof.
  intros Hnm. induction cols as [|x l IH]; intros Hnd Hin; [contradiction|]. cbn [map find].
  inversion Hnd as [|? ? Hnotin Hnd']; subst. rewrite Hnm. destruct (Pos.eqb_spec (cname x) (cname c)) as [He|Hne].
  - destruct Hin as [->|Hin]; [reflexivity|]. exfalso. apply Hnotin. rewrite He. apply in_map, Hin.
  - destruct Hin as [->|Hin]; [congruence|]. apply IH; assumption.
Qed.

(* ================================================================ CREATE TABLE makes the table's entry right *)
Lemma exec1_create cat t cols pk fks :
  cat_find cat t = None ->
  nodup_names (map fst cols) = true ->
  forallb (fun d => valid_ty (snd d)) cols = true ->
  forallb (fun k => mem_name k (map fst cols)) pk = true ->
  forallb (fun f => mem_name (fst f) (map fst cols) &&
                    ((Pos.eqb (fst (snd f)) t && mem_name (snd (snd f)) (map fst cols)) || cat_has_col cat (fst (snd f)) (snd (snd f)))) fks = true ->
  nodup_names (map fst fks) = true ->
  existsb (seq_mem cat) (map (fun d => (t, fst d)) (filter (fun d => snd (stored (snd d))) cols)) = false ->
  exec1 cat (CreateTable t cols pk fks) =
  XOk (grow cat (CT t (map (fun d => CC (fst d) (fst (stored (snd d))) (snd (stored (snd d)))) cols)
                      (match pk with [] => None | _ => Some pk end) fks)
                (map (fun d => (t, fst d)) (filter (fun d => snd (stored (snd d))) cols))).
Proof.
  intros H1 H2 H3 H4 H5 H6 H7. cbn [exec1]. rewrite H1, H2, H3, H4, H5, H6, H7. reflexivity.
Qed.

Definition mk_ccol (vt:vtypes) (c:col) : ccol := CC (cname c) (fst (stored (col_ty vt c))) (snd (stored (col_ty vt c))).

(* what the step needs to know about the columns a table refers to *)
Definition refs_ready (cat:catalog) (vt:vtypes) (tb:table) : Prop :=
  forall c rt rc, In c (tcols tb) -> cref c = Some (rt, rc) ->
    rt <> tname tb /\ exists cc, cat_col cat rt rc = Some cc /\ vt_get vt (rt, rc) = ccty cc /\ valid_stored (ccty cc) = true.

Lemma mk_ccol_facts cat vt tb c : refs_ready cat vt tb -> In c (tcols tb) ->
  ccty (mk_ccol vt c) = col_vt vt c /\ valid_stored (col_vt vt c) = true /\ valid_ty (col_ty vt c) = true /\
  ccdef (mk_ccol vt c) = match cref c with Some _ => false | None => cauto c end.
Proof.
  intros Hr Hin. unfold mk_ccol, col_vt, col_ty. cbn [ccty ccdef]. destruct (cref c) as [[rt rc]|] eqn:Hc.
  - destruct (Hr c rt rc Hin Hc) as [_ [cc [_ [Hv Hs]]]]. rewrite Hv. destruct (valid_stored_stored _ Hs) as [-> Hvt]. auto.
  - destruct (cauto c); [rewrite bigint_ty_is; cbn; auto|].
    pose proof (pg_valid c) as Hp. destruct (valid_stored_stored _ Hp) as [-> Hvt]. auto.
Qed.

Lemma create_table_eq tb vt : refs_not (tname tb) (ordered_cols ByLineName tb) ->
  create_table ByLineName tb vt =
  (CreateTable (tname tb) (map (fun c => (cname c, col_ty vt c)) (ordered_cols ByLineName tb))
               (map cname (filter cpk (ordered_cols ByLineName tb))) (flat_map nref (ordered_cols ByLineName tb)),
   vt_ext (tname tb) (ordered_cols ByLineName tb) vt).
Proof. intros H. unfold create_table. rewrite create_cols_fold by exact H. reflexivity. Qed.

Lemma create_step_ok cat vt tb :
  NoDup (map cname (tcols tb)) -> ~ In (tname tb) (cat_names cat) -> NoDup (cat_names cat) -> cat_wfseq cat ->
  refs_ready cat vt tb ->
  exists ct sq,
    exec1 cat (fst (create_table ByLineName tb vt)) = XOk (grow cat ct sq) /\ ctname ct = tname tb /\
    tab_ok (grow cat ct sq) tb /\ vt_link (snd (create_table ByLineName tb vt)) (grow cat ct sq) tb /\
    cat_wfseq (grow cat ct sq) /\ NoDup (cat_names (grow cat ct sq)) /\
    (forall k, fst k <> tname tb -> vt_get (snd (create_table ByLineName tb vt)) k = vt_get vt k).
Proof.
  intros Hnd Hfresh Hndc Hseq Hr.
  set (t := tname tb) in *. set (oc := ordered_cols ByLineName tb).
  assert (Hperm : Permutation oc (tcols tb)) by (apply ordered_cols_perm, Hnd).
  assert (Hin_oc : forall c, In c oc <-> In c (tcols tb)).
  { intros c. split; intros H; [eapply Permutation_in; eauto|eapply Permutation_in; [symmetry|]; eauto]. }
  assert (Hnd_oc : NoDup (map cname oc)) by (eapply Permutation_NoDup; [symmetry; apply Permutation_map, Hperm|exact Hnd]).
  assert (Hrn : refs_not t oc).
  { intros c [rt rc] Hc Hcr. cbn [fst]. apply Hin_oc in Hc. destruct (Hr c rt rc Hc Hcr) as [Hne _]. exact Hne. }
  rewrite (create_table_eq tb vt Hrn). fold t oc. cbn [fst snd].
  set (defs := map (fun c => (cname c, col_ty vt c)) oc).
  set (pks := map cname (filter cpk oc)). set (fks := flat_map nref oc).
  assert (Hnames : map fst defs = map cname oc) by (unfold defs; rewrite map_map; reflexivity).
  assert (Hcols : map (fun d => CC (fst d) (fst (stored (snd d))) (snd (stored (snd d)))) defs = map (mk_ccol vt) oc)
    by (unfold defs; rewrite map_map; reflexivity).
  set (sq := map (fun d => (t, fst d)) (filter (fun d => snd (stored (snd d))) defs)).
  set (ct := CT t (map (mk_ccol vt) oc) (match pks with [] => None | _ => Some pks end) fks).
  exists ct, sq.
  assert (Hexec : exec1 cat (CreateTable t defs pks fks) = XOk (grow cat ct sq)).
  { unfold ct, sq. rewrite <- Hcols. apply exec1_create.
    - apply cat_find_none, Hfresh.
    - rewrite Hnames. apply nodup_names_true, Hnd_oc.
    - unfold defs. rewrite forallb_forall. intros d Hd. apply in_map_iff in Hd. destruct Hd as [c [<- Hc]]. cbn [snd].
      apply Hin_oc in Hc. apply (mk_ccol_facts cat vt tb c Hr Hc).
    - rewrite Hnames, forallb_forall. intros k Hk. apply mem_name_in. unfold pks in Hk. apply in_map_iff in Hk.
      destruct Hk as [c [<- Hc]]. apply filter_In in Hc. apply in_map, Hc.
    - rewrite Hnames, forallb_forall. intros f Hf. unfold fks in Hf. apply in_flat_map in Hf. destruct Hf as [c [Hc Hn]].
      unfold nref in Hn. destruct (cref c) as [[rt rc]|] eqn:Hcr; [|contradiction]. destruct Hn as [<-|[]]. cbn [fst snd].
      rewrite (mem_name_in (cname c) (map cname oc)) by (apply in_map, Hc). cbn [andb].
      destruct (Hr c rt rc (proj1 (Hin_oc c) Hc) Hcr) as [_ [cc [Hcc _]]]. rewrite (cat_col_has _ _ _ _ Hcc). apply orb_true_r.
    - apply nodup_names_true. unfold fks. apply nref_names_nodup, Hnd_oc.
    - destruct (existsb (seq_mem cat) _) eqn:E; [|reflexivity]. exfalso. apply existsb_exists in E. destruct E as [k [Hk Hm]].
      apply in_map_iff in Hk. destruct Hk as [d [<- _]]. unfold seq_mem in Hm. apply existsb_exists in Hm.
      destruct Hm as [k' [Hk' He]]. apply key_eqb_eq in He. subst k'. apply Hseq in Hk'. cbn [fst] in Hk'. exact (Hfresh Hk'). }
  assert (Hnew : cat_find (grow cat ct sq) t = Some ct) by (apply (grow_find_new cat ct sq); exact Hfresh).
  assert (Hcol : forall c, In c (tcols tb) -> cat_col (grow cat ct sq) t (cname c) = Some (mk_ccol vt c)).
  { intros c Hc. unfold cat_col. rewrite Hnew. unfold ct. cbn [ctcols].
    apply (find_mk (mk_ccol vt) ccname oc c); [reflexivity|exact Hnd_oc|apply Hin_oc, Hc]. }
  split; [exact Hexec|]. split; [reflexivity|]. split; [|split; [|split; [|split]]].
  - (* tab_ok *)
    exists ct. split; [exact Hnew|]. split; [|split; [|split]].
    + unfold ct. cbn [ctcols]. rewrite map_map. cbn [mk_ccol ccname]. apply Permutation_map, Hperm.
    + intros c Hc. exists (mk_ccol vt c). split; [apply Hcol, Hc|].
      destruct (mk_ccol_facts cat vt tb c Hr Hc) as [Hty [Hvs [_ Hdef]]]. unfold col_ok. rewrite Hty. split; [exact Hvs|].
      unfold col_vt in *. destruct (cref c) as [[rt rc]|] eqn:Hcr.
      * split; [exact Hdef|]. destruct (Hr c rt rc Hc Hcr) as [_ [cc [Hcc [Hv _]]]]. unfold cat_col_ty.
        rewrite (grow_col_old _ ct sq _ _ _ Hcc). cbn [option_map]. rewrite Hv. reflexivity.
      * rewrite Hdef. destruct (cauto c); [rewrite bigint_ty_is; auto|auto].
    + intros k. unfold ct, pk_list. cbn [ctpk].
      assert (Hpk : match (match pks with [] => None | _ :: _ => Some pks end) with Some l => l | None => [] end = pks)
        by (destruct pks; reflexivity).
      rewrite Hpk. unfold pks. split; intros H; (eapply Permutation_in; [|exact H]); apply Permutation_map, perm_filter;
        [exact Hperm|symmetry; exact Hperm].
    + unfold ct. cbn [ctfks]. unfold fks, named_refs. apply perm_flat_map, Hperm.
  - (* vt_link *)
    intros c Hc. exists (mk_ccol vt c). split; [apply Hcol, Hc|].
    destruct (mk_ccol_facts cat vt tb c Hr Hc) as [Hty [Hvs _]]. rewrite Hty. split; [|exact Hvs].
    apply vt_ext_own; [exact Hnd_oc|exact Hrn|apply Hin_oc, Hc].
  - (* sequences *)
    intros k Hk. unfold grow in *. cbn [seqs tabs] in *. rewrite map_app. apply in_or_app. apply in_app_or in Hk.
    destruct Hk as [Hk|Hk]; [left; apply Hseq, Hk|right]. unfold sq in Hk. apply in_map_iff in Hk. destruct Hk as [d [<- _]].
    cbn. left. reflexivity.
  - unfold cat_names, grow. cbn [tabs]. rewrite map_app. cbn [map]. apply nodup_snoc; assumption.
  - intros k Hk. apply vt_ext_other. intros c _ He. apply Hk. rewrite <- He. reflexivity.
Qed.
