(* C16: lemmas about the regenerated table Gen/DbTables.v; each `reflexivity` is an obligation against the
   current source of pkg/database. *)
From Coq Require Import String List NArith PArith Bool.
Import ListNotations.
Require Import Verif.Db.Depth Verif.Db.Script Verif.Gen.DbTables.

Lemma source_shape :
  (depth_stop, table_order, column_order, delta_cfg) =
  (StopNoProgress, ByLineName, ByLineName, DCfg RefRefRetarget PkNonEmpty AutoVtBigint).
Proof. reflexivity. Qed.

Lemma depth_stop_is : depth_stop = StopNoProgress. Proof. reflexivity. Qed.
Lemma table_order_is : table_order = ByLineName. Proof. reflexivity. Qed.
Lemma column_order_is : column_order = ByLineName. Proof. reflexivity. Qed.
Lemma delta_cfg_is : delta_cfg = DCfg RefRefRetarget PkNonEmpty AutoVtBigint. Proof. reflexivity. Qed.

(* getPostgresDataTypes + constants *)
Lemma pg_type_spec : forall p sz, pg_type p sz =
  match p with PString => TVarchar sz | PInt => TInteger | PDate => TDate | POther | PRef1 => TVarchar 50 end.
Proof. intros [] sz; reflexivity. Qed.

(* the switch itself, arm by arm: a new / changed arm (e.g. another primitive mapped to a real SQL type) is an
   obligation even when the four classes of `prim` cannot tell *)
Local Open Scope string_scope.
Lemma pg_table_expected :
  (pg_types, pg_default, str_const, bigint_const, default_text_size) =
  ([("string", Sized "varchar (" ")"); ("int", Lit "integer"); ("date", Lit "date")], Lit "varchar (50)", "string", "bigint", 50%N).
Proof. reflexivity. Qed.
Local Close Scope string_scope.

Lemma default_size_is : default_text_size = 50%N. Proof. reflexivity. Qed.
Lemma bigint_ty_is : bigint_ty = TBigint. Proof. reflexivity. Qed.

(* ---- round 3: which columns are references, and what is done to the text writeCreateSQLForAColumn returns ---- *)
Lemma text_shape : (ref_guard, create_trim, addcol_post) = (GuardForeignKey, TrimNlComma, PostTrimDropLast).
Proof. reflexivity. Qed.
Lemma create_trim_is : create_trim = TrimNlComma. Proof. reflexivity. Qed.
Lemma addcol_post_is : addcol_post = PostTrimDropLast. Proof. reflexivity. Qed.

(* the pieces themselves: the three formats of the column text, the foreign-key constraint, addConstraints *)
Local Open Scope string_scope.
Lemma column_text_expected : column_text_shape =
  [
   "s = fmt.Sprintf(""  %s %s,\n"", attrName, datatype)";
   """  CONSTRAINT "" + fkName + "" FOREIGN KEY("" + attrName + "") REFERENCES "" + path0 + "" ("" + path1 + ""),""";
   "s = fmt.Sprintf(""  %s %s,\n"", attrName, ""bigserial"")";
   "s = fmt.Sprintf(""  %s %s,\n"", attrName, datatype)";
   "pk := v.getPrimaryKeyString(primaryKeys)";
   "if !strings.EqualFold(pk, """") { tableName = strings.ToUpper(tableName) + ""_PK"" s = s + ""  CONSTRAINT "" + tableName + "" PRIMARY KEY("" + pk + ""),"" }";
   "for _, foreignKeyConstraint := range foreignKeyConstraints { s = s + ""\n"" + foreignKeyConstraint }";
   "return s"].
Proof. reflexivity. Qed.

(* ProcessModSysls: one script per application name the new module has; the builder is Reset before each *)
Lemma mod_apps_expected : mod_apps_shape =
  [
   "var outputSlice []ScriptOutput";
   "for _, appName := range appNames";
   "appOld := appsOld[appName]";
   "appNew := appsNew[appName]";
   "if appOld != nil && appNew != nil";
   "v.stringBuilder.Reset()";
   "typeMapOld := appOld.GetTypes()";
   "typeMapNew := appNew.GetTypes()";
   "tableDepthMapOld := CreateTableDepthMap(typeMapOld)";
   "tableDepthMapNew := CreateTableDepthMap(typeMapNew)";
   "tablesWithActions := findAddedDeletedRetainedTables(typeMapOld, typeMapNew, tableDepthMapOld, tableDepthMapNew)";
   "outStr := v.processTablesForModifiedApps(tablesWithActions, v.title, appName, dbType)";
   "outputFile := filepath.Join(outputDir, appName+SQLExtension)";
   "outputStruct := MakeScriptOutput(outputFile, outStr)";
   "outputSlice = append(outputSlice, *outputStruct)";
   "if appNew != nil && appOld == nil";
   "v.stringBuilder.Reset()";
   "outStr := v.GenerateDatabaseScriptCreate(appNew.GetTypes(), dbType, appName)";
   "outputFile := filepath.Join(outputDir, appName+SQLExtension)";
   "outputStruct := MakeScriptOutput(outputFile, outStr)";
   "outputSlice = append(outputSlice, *outputStruct)";
   "return outputSlice"].
Proof. reflexivity. Qed.
Local Close Scope string_scope.

(* writeModifySQLForATable, statement by statement: the loop over the old column names (DROP COLUMN, key flags of dropped
   columns), the loop over the new column names, DROP CONSTRAINT of the key when it existed and changed, the DROP
   COLUMN statements, ADD CONSTRAINT .. PRIMARY KEY when the key changed and a key column is left (Script.modify_table) *)
Local Open Scope string_scope.
Lemma mod_table_expected : mod_table_shape =
  [
   "var primaryKeys []string";
   "dropColumnQueries := """"";
   "attrDefsNew := entityNew.AttrDefs";
   "attrDefsOld := entityOld.AttrDefs";
   "attrNamesListOld := sortColumnNamesIntoList(attrDefsOld)";
   "attrNamesListNew := sortColumnNamesIntoList(attrDefsNew)";
   "primaryKeyChanged := false";
   "primaryKeyExisted := false";
   "for _, attrNameOld := range attrNamesListOld { attrTypeOld := attrDefsOld[attrNameOld] attrTypeNew := attrDefsNew[attrNameOld] if attrTypeNew == nil { _, wasDeletedAttrAPrimaryKey := isAutoIncrementAndPrimaryKey(attrTypeOld) if wasDeletedAttrAPrimaryKey { primaryKeyChanged = true primaryKeyExisted = true } dropColumnQueries += fmt.Sprintf(""ALTER TABLE %s DROP COLUMN %s;\n"", tableName, attrNameOld) } }";
   "for _, attrNameNew := range attrNamesListNew { attrTypeOld := attrDefsOld[attrNameNew] attrTypeNew := attrDefsNew[attrNameNew] if attrTypeOld == nil { var foreignKeyConstraints []string str, isNewColumnPK := v.writeCreateSQLForAColumn(attrTypeNew, tableName, attrNameNew, &primaryKeys, &foreignKeyConstraints, visitedAttributes) str = strings.TrimSpace(str) str = str[:len(str)-1] v.stringBuilder.WriteString(fmt.Sprintf(""ALTER TABLE %s ADD COLUMN %s;\n"", tableName, str)) if len(foreignKeyConstraints) > 0 { constraint := foreignKeyConstraints[0] constraint = constraint[:len(constraint)-1] v.stringBuilder.WriteString(fmt.Sprintf(""ALTER TABLE %s ADD %s;\n"", tableName, strings.TrimSpace(constraint))) } if isNewColumnPK { primaryKeyChanged = true } } if attrTypeOld != nil { primaryKeyChangedByColumn, wasOldPrimaryKey := v.writeModifySQLForAColumn(attrTypeOld, attrTypeNew, tableName, attrNameNew, &primaryKeys, visitedAttributes) if primaryKeyChangedByColumn { primaryKeyChanged = true } if wasOldPrimaryKey { primaryKeyExisted = true } } }";
   "pkConstraintName := strings.ToUpper(tableName + ""_PK"")";
   "if primaryKeyExisted && primaryKeyChanged { v.stringBuilder.WriteString(fmt.Sprintf(""ALTER TABLE %s DROP CONSTRAINT %s;\n"", tableName, pkConstraintName)) }";
   "v.stringBuilder.WriteString(dropColumnQueries)";
   "if primaryKeyChanged && len(primaryKeys) > 0 { pk := v.getPrimaryKeyString(primaryKeys) v.stringBuilder.WriteString(fmt.Sprintf(""ALTER TABLE %s ADD CONSTRAINT %s PRIMARY KEY(%s);\n"", tableName, pkConstraintName, pk)) }"].
Proof. reflexivity. Qed.
Local Close Scope string_scope.
