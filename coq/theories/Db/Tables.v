(* C16: lemmas about the regenerated table Gen/DbTables.v; each `reflexivity` is an obligation against the
   current source of pkg/database. *)
From Coq Require Import String List NArith PArith Bool.
Import ListNotations.
Require Import Verif.Db.Depth Verif.Db.Script Verif.Gen.DbTables.

Lemma source_shape :
  (depth_stop, table_order, column_order, delta_cfg) =
  (StopNoProgress, ByLineName, ByLineName, DCfg RefRefRetarget PkNonEmpty AutoVtBigint).
Proof. reflexivity. Qed.

Lemma depth_stop_is : depth_stop = StopNoProgress. Proof. reflexivity. Qed.
Lemma table_order_is : table_order = ByLineName. Proof. reflexivity. Qed.
Lemma column_order_is : column_order = ByLineName. Proof. reflexivity. Qed.
Lemma delta_cfg_is : delta_cfg = DCfg RefRefRetarget PkNonEmpty AutoVtBigint. Proof. reflexivity. Qed.

(* getPostgresDataTypes + constants *)
Lemma pg_type_spec : forall p sz, pg_type p sz =
  match p with PString => TVarchar sz | PInt => TInteger | PDate => TDate | POther => TVarchar 50 end.
Proof. intros [] sz; reflexivity. Qed.

(* the switch itself, arm by arm: a new / changed arm (e.g. another primitive mapped to a real SQL type) is an
   obligation even when the four classes of `prim` cannot tell *)
Local Open Scope string_scope.
Lemma pg_table_expected :
  (pg_types, pg_default, str_const, bigint_const, default_text_size) =
  ([("string", Sized "varchar (" ")"); ("int", Lit "integer"); ("date", Lit "date")], Lit "varchar (50)", "string", "bigint", 50%N).
Proof. reflexivity. Qed.
Local Close Scope string_scope.

Lemma default_size_is : default_text_size = 50%N. Proof. reflexivity. Qed.
Lemma bigint_ty_is : bigint_ty = TBigint. Proof. reflexivity. Qed.
