(* C16 MODEL (definitions only): the script files of an output directory.  database.GenerateFromSQLMap writes one file
   per application (<output-dir>/<app>.sql); the directory may already hold a file of that name from an earlier run
   (creation script, then delta scripts of a history, written into one directory).
   A file's content is abstracted to a list of pieces (script id, from, to) = the bytes [from, to) of the script with
   that id; the harness numbers the scripts of a case 1, 2, ... (0 = bytes it cannot attribute). *)
From Coq Require Import List NArith Bool.
Import ListNotations.
Require Import Verif.Db.Depth Verif.Gen.DbTables.

Definition seg := (N * N * N)%type.
Definition content := list seg.

(* the content without its first n bytes *)
Fixpoint drop_bytes (n:N) (c:content) : content :=
  match c with
  | [] => []
  | (k, a, b) :: r => if N.leb (b - a) n then drop_bytes (n - (b - a)) r else (k, (a + n)%N, b) :: r
  end.

(* writing script k of n bytes over what the file held (None = the file did not exist) *)
Definition write (wk:write_kind) (old:option content) (k n:N) : option content :=
  match wk with
  | WriteTruncate => Some [(k, 0%N, n)]
  | WriteKeepTail => Some ((k, 0%N, n) :: match old with Some c => drop_bytes n c | None => [] end)
  | WriteAppend => Some (match old with Some c => c | None => [] end ++ [(k, 0%N, n)])
  | WriteUnknown => None
  end.

(* a sequence of runs into one directory: the content after each *)
Fixpoint run_writes (wk:write_kind) (cur:option content) (steps:list (N * N)) : list (option content) :=
  match steps with
  | [] => []
  | (k, n) :: r => let c := write wk cur k n in c :: run_writes wk c r
  end.
