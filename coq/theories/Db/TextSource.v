(* C16: the text theorems of Db/TextProps.v instantiated with what the translator reads from the current source
   (Gen: create_trim, addcol_post), and joined with the creation-script theorem. *)
From Coq Require Import List NArith PArith Bool Permutation.
Import ListNotations.
Require Import Verif.Db.Depth Verif.Db.DepthProps Verif.Db.Script Verif.Db.SqlInterp Verif.Db.Text Verif.Db.TextProps
  Verif.Gen.DbTables Verif.Db.Tables Verif.Db.ScriptProps Verif.Db.CatalogProps Verif.Db.CreateProps Verif.Db.DeltaProps.

Lemma body_text_parses_src : forall t defs pks fks,
  parse_body t (body_text create_trim defs pks fks) = Some (CreateTable t defs pks fks).
Proof. rewrite create_trim_is. exact body_text_parses. Qed.

Lemma stmt_text_roundtrip_src : forall s,
  exists l, stmt_text create_trim addcol_post s = Some l /\ parse_stmt s l = Some s.
Proof. rewrite create_trim_is, addcol_post_is. exact stmt_text_roundtrip. Qed.

(* the creation script as TEXT: every statement's text reads back as the statement, and the statements build the
   model's schema *)
Theorem create_text_complete_ordered : forall sk m d ord fuel,
  wf m -> wf_cols m -> is_depth m d -> perm_oracle ord -> (length m < fuel)%nat ->
  exists l cat, create sk table_order column_order fuel ord m = Ok l /\
    Forall (fun s => exists toks, stmt_text create_trim addcol_post s = Some toks /\ parse_stmt s toks = Some s) l /\
    exec empty_cat l = XOk cat /\ cat_matches m cat /\ Permutation (cat_names cat) (map tname m).
Proof.
  intros sk m d ord fuel W Wc D P F.
  destruct (create_complete_ordered sk m d ord fuel W Wc D P F) as [l [cat [C [E [M Pm]]]]].
  exists l, cat. split; [exact C|]. split; [|split; [exact E|split; [exact M|exact Pm]]].
  apply Forall_forall. intros s _. apply stmt_text_roundtrip_src.
Qed.

(* a table with a column of a named type (`price <: Money`), one without key and references, and one referring to
   the first: hypotheses of the theorem met, and what comes out *)
Definition nt_model : model :=
  [T 1%positive 2%N [C 10%positive 3%N PInt 0%N None true false; C 11%positive 4%N PRef1 0%N None false false];
   T 2%positive 5%N [C 12%positive 6%N PString 9%N None false false];
   T 3%positive 7%N [C 13%positive 8%N POther 0%N (Some (1%positive, 11%positive)) false false]].
Definition nt_depth (t:name) : N := match t with 3%positive => 1%N | _ => 0%N end.

Lemma nt_hypotheses : wf nt_model /\ wf_cols nt_model /\ is_depth nt_model nt_depth.
Proof. split; [nv_wf|]. split; [nv_cols|nv_depth]. Qed.

(* what the model emits for it: the named-type column is a column of the default type, the table without key and
   references ends without a comma, and the text of the three statements reads back *)
Example nt_create_runs :
  (create depth_stop table_order column_order 4 id_ord nt_model =
   Ok [CreateTable 1%positive [(10%positive, TInteger); (11%positive, TVarchar 50)] [10%positive] [];
       CreateTable 2%positive [(12%positive, TVarchar 9)] [] [];
       CreateTable 3%positive [(13%positive, TVarchar 50)] [] [(13%positive, (1%positive, 11%positive))]]) /\
  (body_text create_trim [(12%positive, TVarchar 9)] [] [] = [KInd; KName 12%positive; KSp; KTy (TVarchar 9)]) /\
  (body_text TrimComma [(12%positive, TVarchar 9)] [] [] = [KInd; KName 12%positive; KSp; KTy (TVarchar 9); KComma; KNl]).
Proof. split; [|split]; vm_compute; reflexivity. Qed.

(* several applications: hypotheses of process_mod_independent met by a run over three names (one application in
   both modules, one only in the new, one only in the old) *)
Example apps_hypotheses_met :
  Forall2 (fun e o => entry_script depth_stop delta_cfg table_order column_order 4 id_ord e = Ok o)
    [(Some nv1, Some nv2); (None, Some nt_model); (Some nv1, None)]
    [[ScrDelta [CreateTable 2%positive [(12%positive, TInteger); (13%positive, TBigint); (14%positive, TVarchar 30)] [12%positive]
                  [(13%positive, (1%positive, 10%positive)); (14%positive, (1%positive, 11%positive))]]];
     [ScrCreate [CreateTable 1%positive [(10%positive, TInteger); (11%positive, TVarchar 50)] [10%positive] [];
                 CreateTable 2%positive [(12%positive, TVarchar 9)] [] [];
                 CreateTable 3%positive [(13%positive, TVarchar 50)] [] [(13%positive, (1%positive, 11%positive))]]];
     []].
Proof. repeat constructor. Qed.
