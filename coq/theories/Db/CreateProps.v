(* C16 proofs: create_complete_ordered - running the creation script on the empty catalog succeeds and yields the
   schema of the model.  The interpreter rejects a CREATE TABLE whose foreign key names a table that is not there
   yet, so success carries the ordering clause; the argument for it is the depth theorem. *)
From Coq Require Import String List NArith PArith Bool Lia Permutation Arith Sorted.
Import ListNotations.
Require Import Verif.Db.Depth Verif.Db.DepthProps Verif.Gen.DbTables Verif.Db.Script Verif.Db.SqlInterp
  Verif.Db.Tables Verif.Db.ScriptProps Verif.Db.CatalogProps.

(* ---- the level list is sorted by depth ---- *)
Definition key_le (a b:N * list name) : Prop := (fst a <= fst b)%N.
Definition key_leb (a b:N * list name) : bool := N.leb (fst a) (fst b).

Lemma insert_sorted x l : StronglySorted key_le l -> StronglySorted key_le (insert_by key_leb x l).
Proof.
  induction 1 as [|y l Hs IH Hall]; cbn [insert_by]; [repeat constructor|].
  unfold key_leb at 1. destruct (N.leb_spec (fst x) (fst y)) as [Hle|Hgt].
  - constructor; [constructor; assumption|]. constructor; [exact Hle|].
    eapply Forall_impl; [|exact Hall]. intros z Hz. unfold key_le in *. lia.
  - constructor; [exact IH|]. apply Forall_forall. intros z Hz. apply insert_by_in in Hz. destruct Hz as [->|Hz].
    + unfold key_le. lia.
    + rewrite Forall_forall in Hall. apply Hall, Hz.
Qed.
Lemma levels_sorted_sorted bd : StronglySorted key_le (levels_sorted bd).
Proof.
  unfold levels_sorted, sort_by. induction bd as [|x l IH]; cbn [fold_right]; [constructor|].
  apply (insert_sorted x), IH.
Qed.

(* ---- "every table after the tables it refers to", as a property of a list of names ---- *)
Definition refs_in (m:model) (t:name) (seen:list name) : Prop :=
  forall tb r, find_table m t = Some tb -> In r (refs tb) -> In (fst r) seen.
Fixpoint ordered_from (m:model) (seen ns:list name) : Prop :=
  match ns with [] => True | t :: r => refs_in m t seen /\ ordered_from m (t :: seen) r end.

Lemma ordered_incl m a : forall seen, (forall t, In t a -> refs_in m t seen) -> ordered_from m seen a.
Proof.
  induction a as [|t a IH]; intros seen H; cbn [ordered_from]; [exact I|]. split; [apply H; left; reflexivity|].
  apply IH. intros x Hx tb r Hf Hr. right. exact (H x (or_intror Hx) tb r Hf Hr).
Qed.
Lemma ordered_app m a : forall seen b, ordered_from m seen a -> ordered_from m (rev a ++ seen) b -> ordered_from m seen (a ++ b).
Proof.
  induction a as [|t a IH]; intros seen b Ha Hb; cbn [app ordered_from rev] in *; [exact Hb|].
  destruct Ha as [H1 H2]. split; [exact H1|]. apply IH; [exact H2|]. rewrite <- app_assoc in Hb. exact Hb.
Qed.

Lemma same_key {A} (l:list (N * A)) a b : NoDup (map fst l) -> In a l -> In b l -> fst a = fst b -> a = b.
Proof.
  induction l as [|x l IH]; intros Hnd Ha Hb He; [contradiction|]. cbn [map] in Hnd.
  inversion Hnd as [|? ? Hnotin Hnd']; subst. destruct Ha as [->|Ha], Hb as [->|Hb]; auto.
  - exfalso. apply Hnotin. rewrite He. apply in_map, Hb.
  - exfalso. apply Hnotin. rewrite <- He. apply in_map, Ha.
Qed.

Section Order.
Variable m : model.
Variable d : name -> N.
Hypothesis Hwf : wf m.
Hypothesis Hd : is_depth m d.
Variable f : N * list name -> list name.
Hypothesis Hf : forall lv, Permutation (f lv) (snd lv).
Variable L : list (N * list name).     (* all levels, sorted *)
Hypothesis HLk : NoDup (map fst L).
Hypothesis HL1 : forall lv t, In lv L -> In t (snd lv) -> In t (map tname m) /\ d t = fst lv.
Hypothesis HL2 : forall t, In t (map tname m) -> exists lv, In lv L /\ fst lv = d t /\ In t (snd lv).

Lemma ref_smaller t tb r : find_table m t = Some tb -> In r (refs tb) -> In (fst r) (map tname m) /\ (d (fst r) < d t)%N.
Proof.
  intros Hft Hr. destruct (find_table_some _ _ _ Hft) as [Htb Htn]. destruct Hwf as [_ Hrefs].
  destruct (Hrefs tb r Htb Hr) as [tb' [Hf' _]]. destruct (find_table_some _ _ _ Hf') as [Htb' Htn']. split.
  - rewrite <- Htn'. apply in_map, Htb'.
  - pose proof (Hd tb Htb) as He. rewrite Htn in He. rewrite He.
    assert ((d (fst r) + 1 <= maxl (map (fun r0 => (d (fst r0) + 1)%N) (refs tb)))%N); [|lia].
    apply maxl_ge. apply in_map_iff. exists r. auto.
Qed.

Lemma levels_ordered : forall L' seen, incl L' L -> StronglySorted key_le L' ->
  (forall t, In t (map tname m) -> (forall lv, In lv L' -> fst lv <> d t) -> In t seen) ->
  ordered_from m seen (concat (map f L')).
Proof.
  induction L' as [|lv L' IH]; intros seen Hincl Hs Hseen; cbn [map concat]; [exact I|].
  inversion Hs as [|? ? Hs' Hall]; subst. apply ordered_app.
  - apply ordered_incl. intros t Ht tb r Hft Hr. apply (Permutation_in _ (Hf lv)) in Ht.
    destruct (HL1 lv t (Hincl lv (or_introl eq_refl)) Ht) as [_ Hdt].
    destruct (ref_smaller t tb r Hft Hr) as [Hrn Hlt]. apply Hseen; [exact Hrn|].
    intros lv' [<-|Hlv'] He; [lia|]. rewrite Forall_forall in Hall. specialize (Hall lv' Hlv'). unfold key_le in Hall. lia.
  - apply IH; [intros x Hx; apply Hincl; right; exact Hx|exact Hs'|].
    intros t Ht Hno. apply in_or_app.
    destruct (N.eq_dec (fst lv) (d t)) as [He|Hne].
    + left. apply -> in_rev. destruct (HL2 t Ht) as [lv0 [Hlv0 [Hk Hin]]].
      assert (lv0 = lv) by (apply (same_key L); [exact HLk|exact Hlv0|apply Hincl; left; reflexivity|congruence]). subst lv0.
      eapply Permutation_in; [symmetry; apply Hf|exact Hin].
    + right. apply Hseen; [exact Ht|]. intros lv' [<-|Hlv']; [exact Hne|apply Hno, Hlv'].
Qed.
End Order.

(* ---- running the statements ---- *)
Lemma exec_app c l1 l2 : exec c (l1 ++ l2) = match exec c l1 with XOk c' => exec c' l2 | XErr => XErr end.
Proof.
  revert c. induction l1 as [|s l1 IH]; intros c; cbn [app exec]; [reflexivity|]. destruct (exec1 c s); [apply IH|reflexivity].
Qed.

Lemma create_from_flat tk ck m st :
  create_from tk ck m st = snd (fold_left (create_table_step ck m) (concat (map (level_names tk m) (levels_sorted (bydepth st)))) ([], [])).
Proof.
  unfold create_from. generalize (@nil ((name*name)*sqlty), @nil ddl). generalize (levels_sorted (bydepth st)).
  induction l as [|lv l IH]; intros acc; cbn [fold_left map concat]; [reflexivity|].
  rewrite fold_left_app. apply IH.
Qed.

Section Run.
Variable m : model.
Hypothesis Hwf : wf m.
Hypothesis Hcols : wf_cols m.

(* the invariant between the accumulator of GenerateDatabaseScriptCreate and the catalog its statements build *)
Record cinv (seen:list name) (acc:vtypes * list ddl) (cat:catalog) : Prop := {
  c_exec  : exec empty_cat (snd acc) = XOk cat;
  c_names : forall x, In x (cat_names cat) <-> In x seen;
  c_order : cat_names cat = rev seen;
  c_nd    : NoDup (cat_names cat);
  c_seq   : cat_wfseq cat;
  c_tabs  : forall t tb, In t seen -> find_table m t = Some tb -> tab_ok cat tb /\ vt_link (fst acc) cat tb
}.

Lemma create_run ns : forall seen acc cat, cinv seen acc cat -> NoDup ns ->
  (forall t, In t ns -> ~ In t seen /\ In t (map tname m)) -> ordered_from m seen ns ->
  exists cat', cinv (rev ns ++ seen) (fold_left (create_table_step ByLineName m) ns acc) cat'.
Proof.
  induction ns as [|t ns IH]; intros seen acc cat I Hnd Hns Hord; cbn [fold_left rev app]; [eauto|].
  inversion Hnd as [|? ? Hnotin Hnd']; subst. destruct Hord as [Hrefs Hord].
  destruct (Hns t (or_introl eq_refl)) as [Hfresh Hname].
  destruct (find_table m t) as [tb|] eqn:Hft; [|exfalso; exact (find_table_none _ _ Hft Hname)].
  destruct (find_table_some _ _ _ Hft) as [Htb Htn].
  assert (Hready : refs_ready cat (fst acc) tb).
  { intros c rt rc Hc Hcr. assert (Hr : In (rt, rc) (refs tb)).
    { unfold refs, refs_cols. apply in_flat_map. exists c. rewrite Hcr. cbn. auto. }
    pose proof (Hrefs tb (rt, rc) Hft Hr) as Hseen. cbn [fst] in Hseen. split.
    - rewrite Htn. intros ->. contradiction.
    - destruct Hwf as [_ Hres]. destruct (Hres tb _ Htb Hr) as [tb' [Hf' [c' [Hc' Hcn]]]]. cbn [fst snd] in *.
      destruct (c_tabs _ _ _ I rt tb' Hseen Hf') as [_ Hlink]. destruct (find_table_some _ _ _ Hf') as [_ Htn'].
      destruct (Hlink c' Hc') as [cc [H1 [H2 H3]]]. rewrite Htn', Hcn in *. exists cc. auto. }
  assert (Hfresh' : ~ In (tname tb) (cat_names cat)) by (rewrite Htn; intros H; apply Hfresh, (c_names _ _ _ I), H).
  destruct (create_step_ok cat (fst acc) tb (Hcols tb Htb) Hfresh' (c_nd _ _ _ I) (c_seq _ _ _ I) Hready)
    as [ct [sq [Hex [Hctn [Htab [Hlink [Hseq' [Hnd'' Hvt]]]]]]]].
  assert (Hstep : create_table_step ByLineName m acc t =
                  (snd (create_table ByLineName tb (fst acc)), snd acc ++ [fst (create_table ByLineName tb (fst acc))])).
  { unfold create_table_step. rewrite Hft. destruct (create_table ByLineName tb (fst acc)). reflexivity. }
  rewrite Hstep.
  assert (I' : cinv (t :: seen) (snd (create_table ByLineName tb (fst acc)), snd acc ++ [fst (create_table ByLineName tb (fst acc))]) (grow cat ct sq)).
  { constructor; cbn [fst snd].
    - rewrite exec_app, (c_exec _ _ _ I). cbn [exec]. rewrite Hex. reflexivity.
    - intros x. unfold cat_names, grow. cbn [tabs]. rewrite map_app, in_app_iff. cbn [map In]. rewrite Hctn, Htn.
      fold (cat_names cat). rewrite (c_names _ _ _ I x). tauto.
    - unfold cat_names, grow. cbn [tabs rev]. rewrite map_app. cbn [map]. fold (cat_names cat). rewrite (c_order _ _ _ I), Hctn, Htn. reflexivity.
    - exact Hnd''.
    - exact Hseq'.
    - intros x xb [<-|Hx] Hfx.
      + rewrite Hft in Hfx. injection Hfx as <-. auto.
      + destruct (c_tabs _ _ _ I x xb Hx Hfx) as [H1 H2]. split; [apply grow_tab_ok, H1|].
        intros c Hc. destruct (H2 c Hc) as [cc [Ha [Hb Hc']]]. exists cc. split; [apply grow_col_old, Ha|]. split; [|exact Hc'].
        rewrite Hvt; [exact Hb|]. cbn [fst]. destruct (find_table_some _ _ _ Hfx) as [_ ->]. rewrite Htn. intros ->. contradiction. }
  destruct (IH (t :: seen) _ _ I' Hnd') as [cat' Hc'].
  - intros x Hx. destruct (Hns x (or_intror Hx)) as [H1 H2]. split; [|exact H2]. intros [<-|H]; [contradiction|contradiction].
  - exact Hord.
  - exists cat'. rewrite <- app_assoc. exact Hc'.
Qed.
End Run.

(* HEADLINE.  For every model whose references resolve and are acyclic (a longest-path depth d exists), with
   distinct table names and distinct column names per table - line numbers arbitrary, equal ones included - for
   every map iteration order: the creation script of the current source runs without a rejected statement on the
   empty catalog, and the catalog it builds has exactly the model's tables, each with exactly its columns, their
   types, its key and one foreign key per reference. *)
Theorem create_complete_ordered sk m d ord fuel :
  wf m -> wf_cols m -> is_depth m d -> perm_oracle ord -> (length m < fuel)%nat ->
  exists l cat, create sk ByLineName ByLineName fuel ord m = Ok l /\ exec empty_cat l = XOk cat /\
    cat_matches m cat /\ Permutation (cat_names cat) (map tname m).
Proof.
  intros Hwf Hcols Hd Hord Hfuel.
  destruct (depth_is_longest_path sk m d ord fuel Hwf Hd Hord Hfuel) as [st [Hst [_ [Hlv [Hkeys Hnd]]]]].
  unfold create. rewrite Hst. eexists. rewrite create_from_flat.
  set (L := levels_sorted (bydepth st)). set (f := level_names ByLineName m). set (ns := concat (map f L)).
  assert (HLperm : Permutation L (bydepth st)) by (unfold L, levels_sorted; apply sort_by_perm).
  assert (Hf : forall lv, Permutation (f lv) (snd lv)) by (intros lv; apply level_names_perm).
  assert (HLk : NoDup (map fst L)) by (eapply Permutation_NoDup; [symmetry; apply Permutation_map, HLperm|exact Hkeys]).
  assert (HL1 : forall lv t, In lv L -> In t (snd lv) -> In t (map tname m) /\ d t = fst lv).
  { intros [k l] t Hin Ht. apply (Permutation_in _ HLperm) in Hin. apply (Hlv t k). exists l. auto. }
  assert (HL2 : forall t, In t (map tname m) -> exists lv, In lv L /\ fst lv = d t /\ In t (snd lv)).
  { intros t Ht. destruct (proj2 (Hlv t (d t)) (conj Ht eq_refl)) as [l [Hkl Htl]]. exists (d t, l).
    split; [eapply Permutation_in; [symmetry; exact HLperm|exact Hkl]|auto]. }
  assert (Hns_perm : Permutation ns (concat (map snd (bydepth st)))).
  { unfold ns. transitivity (concat (map snd L)); [apply concat_pointwise; intros lv _; apply Hf|].
    apply perm_concat, Permutation_map, HLperm. }
  assert (Hns_nd : NoDup ns) by (eapply Permutation_NoDup; [symmetry; exact Hns_perm|exact Hnd]).
  assert (Hns_in : forall t, In t ns <-> In t (map tname m)).
  { intros t. split.
    - intros H. apply (Permutation_in _ Hns_perm) in H. apply in_concat in H. destruct H as [l [Hl Ht]].
      apply in_map_iff in Hl. destruct Hl as [[k l'] [<- Hkl]]. apply (Hlv t k). eauto.
    - intros H. destruct (HL2 t H) as [lv [Hlv' [_ Hin]]]. unfold ns. apply in_concat. exists (f lv).
      split; [apply in_map, Hlv'|eapply Permutation_in; [symmetry; apply Hf|exact Hin]]. }
  assert (Hord' : ordered_from m [] ns).
  { apply (levels_ordered m d Hwf Hd f Hf L HLk HL1 HL2 L []); [apply incl_refl|apply levels_sorted_sorted|].
    intros t Ht Hno. destruct (HL2 t Ht) as [lv [Hin [Hk _]]]. exfalso. exact (Hno lv Hin Hk). }
  assert (I0 : cinv m [] ([], []) empty_cat).
  { constructor; cbn; try tauto; try constructor. intros k []. }
  destruct (create_run m Hwf Hcols ns [] ([], []) empty_cat I0 Hns_nd) as [cat I].
  - intros t Ht. split; [intros []|apply Hns_in, Ht].
  - exact Hord'.
  - exists cat. split; [reflexivity|]. split; [exact (c_exec _ _ _ _ I)|]. rewrite app_nil_r in I. split.
    + split; [exact (c_nd _ _ _ _ I)|]. split; [exact (c_seq _ _ _ _ I)|]. intros tb Htb.
      apply (c_tabs _ _ _ _ I (tname tb) tb); [apply -> in_rev; apply Hns_in, in_map, Htb|apply find_table_in; [apply Hwf|exact Htb]].
    + rewrite (c_order _ _ _ _ I), rev_involutive. etransitivity; [exact Hns_perm|].
      apply NoDup_Permutation; [exact Hnd|apply (proj1 Hwf)|]. intros t. rewrite <- Hns_in. split; intros H;
        [eapply Permutation_in; [symmetry; exact Hns_perm|exact H]|eapply Permutation_in; [exact Hns_perm|exact H]].
Qed.
