(* C01 obligations against the CURRENT source for the "never kills the host process" clause.
   Gen/KillSites.v is regenerated on every run from every non-test Go file of the packages on the compile path.
   The lemmas closed by `reflexivity` stop checking when a process-killing call (logrus.Fatal*, log.Fatal*,
   <logger>.Fatal*, os.Exit) appears, disappears or moves on the compile path, when its guard changes, when an
   importer writer gets a sink other than a bytes.Buffer, when the listener records somewhere else or with another
   location, when the location format / the key of linter.apps changes, or when parseSpecs stops walking each
   element of specs exactly once with sc.filename = cleanImportFilename(src.filename).
   Below them: the walk invariant over the import model (flattenSpecs lists every index once; distinct indices
   have distinct sc.filename) and the composition "the linter never kills, for every closure". *)
From Coq Require Import String Ascii List Bool NArith.
Import ListNotations.
Require Import Verif.Total.KillTypes Verif.Total.Linter Verif.Total.LinterProps Verif.Gen.KillSites.
Require Import Verif.Imports.Rules Verif.Imports.Collect Verif.Imports.CollectProps Verif.Imports.FlattenProps
               Verif.Imports.Index Verif.Imports.IndexProps Verif.Imports.Current Verif.Gen.ImportRules.
Local Open Scope string_scope.

(* ---- the table ---- *)
Definition expected_kill_sites : list ksite := [
  {| k_pkg := "pkg/importer"; k_func := "writer.mustWrite"; k_callee := KLoggerFatal; k_call := "w.logger.Fatalf";
     k_guard := GErrOf "Write" "w.Writer.Write"; k_reach := true |};
  {| k_pkg := "pkg/parse"; k_func := "TreeShapeListener.recordApp"; k_callee := KLogrusFatal; k_call := "logrus.Fatal";
     k_guard := GErrOf "recordApp" "s.getApps().recordApp"; k_reach := true |};
  {| k_pkg := "pkg/parse"; k_func := "TreeShapeListener.recordEndpoint"; k_callee := KLogrusFatal; k_call := "logrus.Fatal";
     k_guard := GErrOf "recordEndpoint" "s.getApps().recordEndpoint"; k_reach := true |} ].

Lemma kill_sites_current : kill_sites = expected_kill_sites.
Proof. reflexivity. Qed.

(* how a kill site is discharged *)
Inductive discharge :=
  | ByLinterModel (k:ksite_id)   (* the Fatal branch of Linter.step; unreachable by lint_never_kills *)
  | ByBufferSink                 (* guarded by the error of a Write to the writer's sink, and every sink is a *bytes.Buffer,
                                    whose Write returns a nil error (Go standard library, trusted) *)
  | NotDischarged.
Definition discharge_of (s:ksite) : discharge :=
  match k_guard s with
  | GErrOf f _ =>
      if String.eqb (k_func s) "TreeShapeListener.recordApp" && String.eqb f "recordApp" then ByLinterModel KRecordApp
      else if String.eqb (k_func s) "TreeShapeListener.recordEndpoint" && String.eqb f "recordEndpoint" then ByLinterModel KRecordEndpoint
      else if String.eqb (k_func s) "writer.mustWrite" && String.eqb f "Write" then ByBufferSink
      else NotDischarged
  | _ => NotDischarged
  end.
Definition discharged (s:ksite) : bool := match discharge_of s with NotDischarged => false | _ => true end.

(* every process-killing call on the compile path is accounted for *)
Lemma every_kill_site_discharged : forallb discharged kill_sites = true.
Proof. reflexivity. Qed.
Lemma writer_sinks_are_buffers :
  forallb (fun p => String.eqb (snd p) "*bytes.Buffer") writer_sinks = true /\ writer_built_in = ["newWriter"].
Proof. split; reflexivity. Qed.

(* the packages the table was computed over (pkg/parse and what it imports, transitively) include the ones the property
   names; the exact list is generated information, not pinned: a further package without kill sites changes nothing *)
Lemma compile_path_covers :
  forallb (fun p => existsb (String.eqb p) compile_path)
    ["pkg/parse"; "pkg/grammar"; "pkg/importer"; "pkg/syslutil"; "pkg/pbutil"; "pkg/env"; "pkg/arrai"; "pkg/printer"] = true.
Proof. reflexivity. Qed.

(* where and with what location the listener records: exactly the four events of Linter.event *)
Lemma record_sites_current : record_sites =
  [("EnterCall_stmt", "recordCall", true); ("EnterCall_stmt", "recordCall", true); ("EnterMethod_def", "recordMethod", true);
   ("EnterSimple_endpoint", "recordEndpoint", true); ("EnterApp_decl", "recordApp", true)].
Proof. reflexivity. Qed.

Lemma location_facts_current :
  loc_format = "%s:%d:%d" /\ loc_args = "s.sc.filename,lineNum,colNum" /\ loc_is_token_line_col = true /\
  apps_key_is_lowercased_name = true /\
  one_listener_per_parse = true /\ each_spec_walked_once = true /\ sc_filename_is_clean_src_name = true.
Proof. repeat split. Qed.

(* ---- the walk invariant, over the import model ---- *)
(* flattenSpecs hands parseSpecs every retrieved index once: every schedule, every import graph, every depth limit *)
Theorem flatten_lists_each_index_once g root maxd sched l :
  quiescent (run current_rules g maxd root sched) = true -> final_cur g root maxd sched = Some l -> NoDup l.
Proof.
  unfold final_cur. rewrite rules_current. intros Hq Hl.
  exact (proj1 (result_shape g root maxd sched l Hq Hl)).
Qed.

Lemma NoDup_map_comp {A B C} (f:B -> C) (h:A -> B) (l:list A) : NoDup (map (fun x => f (h x)) l) -> NoDup (map h l).
Proof.
  induction l as [|x r IH]; cbn [map]; intros H; [constructor|]. inversion H as [|? ? Hn Hr]; subst. constructor; [|apply IH, Hr].
  intros Hin. apply Hn. apply in_map_iff in Hin. destruct Hin as (y & E & Hy). apply in_map_iff. exists y. split; [rewrite E; reflexivity|exact Hy].
Qed.

(* sc.filename = cleanImportFilename(src.filename) is replace_bs; the index is cut_at of it: files with distinct
   indices are walked under distinct sc.filename *)
Lemma distinct_index_distinct_scname (srcs:list string) :
  NoDup (map (index_of current_rules) srcs) -> NoDup (map replace_bs srcs).
Proof.
  rewrite rules_current. intros H. apply (NoDup_map_comp cut_at replace_bs).
  erewrite map_ext; [exact H|]. intros s. symmetry. apply index_unfold.
Qed.

(* src_of: the name under which index i was first imported (retrieved.l[i].src.src.filename) *)
Theorem each_file_walked_under_its_own_name g root maxd sched l (src_of:idx -> string) :
  quiescent (run current_rules g maxd root sched) = true -> final_cur g root maxd sched = Some l ->
  (forall i j, index_of current_rules (src_of i) = index_of current_rules (src_of j) -> i = j) ->
  NoDup (map replace_bs (map src_of l)).
Proof.
  intros Hq Hl Hinj. apply distinct_index_distinct_scname. rewrite map_map.
  pose proof (flatten_lists_each_index_once g root maxd sched l Hq Hl) as Hn.
  clear Hq Hl. induction Hn as [|i r Hni Hr IH]; cbn [map]; constructor; [|exact IH].
  intros Hin. apply in_map_iff in Hin. destruct Hin as (j & E & Hj). apply Hinj in E. subst j. contradiction.
Qed.

Lemma map_fst_combine {A B} (a:list A) (b:list B) : length a = length b -> map fst (combine a b) = a.
Proof.
  revert b. induction a as [|x r IH]; intros [|y s] H; cbn in *; try reflexivity; try discriminate.
  f_equal. apply IH. congruence.
Qed.
Lemma forall_snd_combine {A B} (P:B -> Prop) (a:list A) (b:list B) : Forall P b -> Forall (fun w => P (snd w)) (combine a b).
Proof.
  revert b. induction a as [|x r IH]; intros [|y s] H; cbn [combine]; try constructor.
  - inversion H; assumption.
  - apply IH. inversion H; assumption.
Qed.

(* the composition: for every import graph, schedule and depth limit, whatever the files contain - as long as
   inside one file no two application bodies and no two endpoint / method definitions start at the same
   (line, column), which distinct tokens of one file never do - the linter of the compile finishes: neither
   logrus.Fatal site is reached, under any lower-casing function *)
Theorem linter_never_kills_current lower g root maxd sched l (src_of:idx -> string) (content:idx -> list block) :
  quiescent (run current_rules g maxd root sched) = true -> final_cur g root maxd sched = Some l ->
  (forall i j, index_of current_rules (src_of i) = index_of current_rules (src_of j) -> i = j) ->
  (forall i, NoDup (app_pos (content i)) /\ NoDup (ep_pos (content i))) ->
  exists st ws, lint_all lower (closure_events (combine (map replace_bs (map src_of l)) (map content l))) = SOk st ws.
Proof.
  intros Hq Hl Hinj Hpos. apply lint_never_kills, closure_events_wf.
  - rewrite map_fst_combine; [|rewrite !map_length; reflexivity].
    exact (each_file_walked_under_its_own_name g root maxd sched l src_of Hq Hl Hinj).
  - apply (forall_snd_combine (fun bs => NoDup (app_pos bs) /\ NoDup (ep_pos bs))). apply Forall_forall. intros bs Hin. apply in_map_iff in Hin. destruct Hin as (i & <- & _). apply Hpos.
Qed.

(* non-vacuity: a closure of two files that re-open the same application (once with another case) *)
Definition ex_walks : list fwalk :=
  [ ("a.sysl", [ {| b_app := "A"; b_line := 2; b_col := 4; b_items := [IEndpoint "x" 2 4; ICall "B" "y" "" 3 8; IMethod "/p" "GET" 5 8; IMethod "/p" "GET" 7 8] |};
                 {| b_app := "a"; b_line := 10; b_col := 4; b_items := [IEndpoint "x" 10 4] |} ]%N);
    ("./a.sysl", [ {| b_app := "A"; b_line := 2; b_col := 4; b_items := [IEndpoint "x" 2 4] |} ]%N) ].
Example ex_walks_wf : NoDup (map fst ex_walks) /\ Forall (fun w => NoDup (app_pos (snd w)) /\ NoDup (ep_pos (snd w))) ex_walks.
Proof.
  split; [repeat constructor; cbn; intuition discriminate|].
  repeat constructor; cbn; intuition discriminate.
Qed.
Example ex_walks_run : exists st, lint_all lower_string (closure_events ex_walks) =
  SOk st [WRecMethod EMethodExists (LAt "a.sysl" 7 8) "A" "GET" "/p";
          WRedef "A" (LAt "./a.sysl" 2 4); WRedef "A" (LAt "a.sysl" 2 4); WRedef "a" (LAt "a.sysl" 10 4);
          WLintNoApp (LAt "a.sysl" 3 8) "B" "B <- y"]%N.
Proof. eexists. vm_compute. reflexivity. Qed.
(* ... and walking the first file a second time under the same name dies in recordApp *)
Example double_walk_fatal :
  lint_all lower_string (closure_events (ex_walks ++ [hd ("",[]) ex_walks])) = SFatal KRecordApp EAppExists.
Proof. vm_compute. reflexivity. Qed.
