(* C01: exact predictor of the second-`!wrap` panic. *)
From Coq Require Import List Bool NArith Arith Lia.
Import ListNotations.
Require Import Verif.Total.FieldPanics Verif.Total.Wrap.

Lemma wrap_walk_gen : forall bs wr,
  wrap_walk bs wr = Panic <-> exists a, 2 <= (if memN a wr then 1 else 0) + facades a bs.
Proof.
  induction bs as [|[b w] t IH]; intro wr.
  - cbn. split; [discriminate|]. intros [a H]. destruct (memN a wr); lia.
  - destruct w as [|[|w]]; cbn [wrap_walk facades].
    + rewrite IH. split; intros [a H]; exists a; destruct (N.eqb a b); lia.
    + destruct (memN b wr) eqn:Hm.
      * split; [intros _|reflexivity]. exists b. rewrite Hm, N.eqb_refl. lia.
      * rewrite IH. split; intros [a H]; exists a; cbn [memN existsb] in *; fold (memN a wr) in *;
          destruct (N.eqb a b) eqn:E; cbn [orb] in *;
          try (apply N.eqb_eq in E; subst a; rewrite ?Hm in * ); lia.
    + split; [intros _|reflexivity]. exists b. rewrite N.eqb_refl. destruct (memN b wr); lia.
Qed.

(* the walk panics exactly when some application has two or more `!wrap` members in the whole closure - in one
   block, in two blocks of one file, or in two files; every walk *)
Theorem wrap_panics_iff bs : wrap_walk bs [] = Panic <-> exists a, 2 <= facades a bs.
Proof. rewrite wrap_walk_gen. split; intros [a H]; exists a; cbn in *; lia. Qed.

Example wrap_examples :
  wrap_walk [(1%N, 1); (2%N, 1); (1%N, 0)] [] = Ok [2%N; 1%N] /\ wrap_walk [(1%N, 1); (2%N, 0); (1%N, 1)] [] = Panic /\
  wrap_walk [(1%N, 2)] [] = Panic /\ facades 1%N [(1%N, 1); (2%N, 0); (1%N, 1)] = 2.
Proof. vm_compute. repeat split. Qed.
