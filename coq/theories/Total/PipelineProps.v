(* Proofs about Total/Pipeline.v and Total/FieldPanics.v *)
From Coq Require Import List ZArith Bool Lia.
Import ListNotations.
Require Import Verif.Total.Pipeline Verif.Total.FieldPanics Verif.Total.RunC01.
Local Open Scope Z_scope.

Lemma guard_true r : guard true r <> RPanic.
Proof. destruct r; cbn; discriminate. Qed.
Lemma propagate_panic p r : propagate p r = RPanic -> r = RPanic.
Proof. destruct r as [|k|]; cbn; try destruct p; congruence. Qed.
Lemma andthen_panic a b : andthen a b = RPanic -> a = RPanic \/ b = RPanic.
Proof. destruct a; cbn; auto. Qed.
Lemma rewrap_panic r : rewrap_import r = RPanic -> r = RPanic.
Proof. destruct r; cbn; congruence. Qed.
Lemma seq_stage_panic st fs : seq_stage st fs = RPanic -> exists f, In f fs /\ st f = RPanic.
Proof.
  induction fs as [|f r IH]; cbn [seq_stage]; [discriminate|].
  intros H. apply andthen_panic in H. destruct H as [H|H].
  - exists f. split; [left; reflexivity|exact H].
  - destruct (IH H) as (g & Hg & Hs). exists g. split; [right; exact Hg|exact Hs].
Qed.

Record guarded (gs:guardset) : Prop := {
  G_antlr : g_antlr gs = true; G_specs : g_walk_specs gs = true; G_imports : g_walk_imports gs = true;
  G_post : g_post gs = true;
  G_perr : err_parse_propagated gs = true; G_cerr : err_collect_propagated gs = true; G_code : exit_uses_code gs = true;
  G_pc : parse_error_code gs <> 0; G_ic : import_error_code gs <> 0; G_dc : default_exit_code gs <> 0 }.

Lemma all_guarded_spec gs : all_guarded gs = true -> guarded gs.
Proof.
  unfold all_guarded. rewrite !andb_true_iff, !negb_true_iff, !Z.eqb_neq.
  intros [[[[[[[[[? ?] ?] ?] ?] ?] ?] ?] ?] ?]. constructor; assumption.
Qed.

Lemma collect_file_no_panic gs f : guarded gs -> b_read f <> RPanic -> collect_file gs f <> RPanic.
Proof.
  intros G Hr H. unfold collect_file in H. rewrite (G_antlr gs G), (G_imports gs G) in H.
  apply andthen_panic in H. destruct H as [H|H].
  - apply propagate_panic in H. destruct (b_read f); congruence.
  - apply andthen_panic in H. destruct H as [H|H]; apply propagate_panic in H; eapply guard_true; exact H.
Qed.

Lemma parse_file_no_panic gs f : guarded gs -> b_foreign f <> RPanic -> parse_file gs f <> RPanic.
Proof.
  intros G Hr H. unfold parse_file in H. rewrite (G_antlr gs G), (G_specs gs G) in H.
  apply andthen_panic in H. destruct H as [H|H].
  - apply propagate_panic in H. congruence.
  - apply andthen_panic in H. destruct H as [H|H]; apply propagate_panic in H; eapply guard_true; exact H.
Qed.

Lemma collect_all_no_panic gs fs : guarded gs -> Forall unguarded_stages_dont_panic fs -> collect_all gs fs <> RPanic.
Proof.
  intros G Hall H. destruct fs as [|root rest]; [discriminate|]. cbn [collect_all] in H.
  inversion Hall as [|? ? [Hr _] Hrest]; subst.
  apply andthen_panic in H. destruct H as [H|H]; [exact (collect_file_no_panic gs root G Hr H)|].
  apply propagate_panic, rewrap_panic, seq_stage_panic in H. destruct H as (f & Hin & Hf).
  rewrite Forall_forall in Hrest. destruct (Hrest f Hin) as [Hrf _]. exact (collect_file_no_panic gs f G Hrf Hf).
Qed.

(* never a crash: for every closure, every behaviour of the stages that run under a recover, every
   error behaviour of the others *)
Lemma post_stage_no_panic gs post : guarded gs -> post_stage gs post <> RPanic.
Proof.
  intros G H. unfold post_stage in H. apply propagate_panic in H. rewrite (G_post gs G) in H.
  exact (guard_true post H).
Qed.

Theorem compile_never_crashes gs fs post :
  all_guarded gs = true -> Forall unguarded_stages_dont_panic fs ->
  compile gs fs post <> OCrash.
Proof.
  intros Hg Hall. apply all_guarded_spec in Hg. unfold compile.
  assert (H : andthen (collect_all gs fs) (andthen (seq_stage (parse_file gs) fs) (post_stage gs post)) <> RPanic).
  { intros H. apply andthen_panic in H. destruct H as [H|H]; [exact (collect_all_no_panic gs fs Hg Hall H)|].
    apply andthen_panic in H. destruct H as [H|H]; [|exact (post_stage_no_panic gs post Hg H)].
    apply seq_stage_panic in H. destruct H as (f & Hin & Hf). rewrite Forall_forall in Hall.
    destruct (Hall f Hin) as [_ Hff]. exact (parse_file_no_panic gs f Hg Hff Hf). }
  destruct (andthen _ _); cbn; congruence.
Qed.

(* a reported error always carries a non-zero exit status, one of the three the source defines *)
Theorem compile_error_nonzero gs fs post c :
  all_guarded gs = true -> compile gs fs post = OError c ->
  c <> 0 /\ (c = parse_error_code gs \/ c = import_error_code gs \/ c = default_exit_code gs).
Proof.
  intros Hg H. apply all_guarded_spec in Hg. unfold compile in H.
  destruct (andthen _ _) as [|k|]; cbn in H; try discriminate. injection H as <-.
  unfold code_of. rewrite (G_code gs Hg). destruct k.
  - split; [exact (G_pc gs Hg)|auto].
  - split; [exact (G_ic gs Hg)|auto].
  - split; [exact (G_dc gs Hg)|auto].
Qed.

(* a model is produced only when every stage of every file succeeded: no failure is swallowed *)
Definition file_all_ok (f:fbehave) : Prop :=
  b_read f = ROk /\ b_antlr_imp f = ROk /\ b_walk_imp f = ROk /\ b_foreign f = ROk /\ b_antlr f = ROk /\ b_walk f = ROk.

Lemma andthen_ok a b : andthen a b = ROk <-> a = ROk /\ b = ROk.
Proof. destruct a; cbn; split; try tauto; try (intros [? ?]; congruence); intros H; discriminate. Qed.
Lemma propagate_ok r : propagate true r = ROk <-> r = ROk.
Proof. destruct r; cbn; split; congruence. Qed.
Lemma guard_ok g r : guard g r = ROk <-> r = ROk.
Proof. destruct r, g; cbn; split; congruence. Qed.
Lemma rewrap_ok r : rewrap_import r = ROk <-> r = ROk.
Proof. destruct r; cbn; split; congruence. Qed.
Lemma seq_stage_ok st fs : seq_stage st fs = ROk <-> Forall (fun f => st f = ROk) fs.
Proof.
  induction fs as [|f r IH]; cbn [seq_stage]; [split; [constructor|reflexivity]|].
  rewrite andthen_ok, IH. split; [intros [? ?]; constructor; assumption|intros H; inversion H; auto].
Qed.
Lemma collect_file_ok gs f : guarded gs ->
  collect_file gs f = ROk <-> (b_read f = ROk /\ b_antlr_imp f = ROk /\ b_walk_imp f = ROk).
Proof.
  intros G. unfold collect_file. rewrite (G_cerr gs G), !andthen_ok, !propagate_ok, !guard_ok.
  destruct (b_read f); split; intros H; try tauto; destruct H as [H _]; discriminate.
Qed.
Lemma parse_file_ok gs f : guarded gs ->
  parse_file gs f = ROk <-> (b_foreign f = ROk /\ b_antlr f = ROk /\ b_walk f = ROk).
Proof. intros G. unfold parse_file. rewrite (G_perr gs G), !andthen_ok, !propagate_ok, !guard_ok. tauto. Qed.

Theorem compile_model_iff_all_ok gs fs post :
  all_guarded gs = true ->
  (compile gs fs post = OModel <-> Forall file_all_ok fs /\ post = ROk).
Proof.
  intros Hg. apply all_guarded_spec in Hg. unfold compile.
  assert (E : to_obs gs (andthen (collect_all gs fs) (andthen (seq_stage (parse_file gs) fs) (post_stage gs post))) = OModel
              <-> andthen (collect_all gs fs) (andthen (seq_stage (parse_file gs) fs) (post_stage gs post)) = ROk).
  { destruct (andthen _ _); cbn; split; congruence. }
  assert (P : post_stage gs post = ROk <-> post = ROk).
  { unfold post_stage. rewrite (G_perr gs Hg), propagate_ok, guard_ok. tauto. }
  rewrite E, !andthen_ok, seq_stage_ok, P.
  assert (C : collect_all gs fs = ROk <-> Forall (fun f => collect_file gs f = ROk) fs).
  { destruct fs as [|root rest]; cbn [collect_all]; [split; [constructor|reflexivity]|].
    rewrite andthen_ok, (G_cerr gs Hg), propagate_ok, rewrap_ok, seq_stage_ok.
    split; [intros [? ?]; constructor; assumption|intros H; inversion H; auto]. }
  rewrite C. rewrite !Forall_forall. split.
  - intros (Hc & Hp & Hpost). split; [|exact Hpost]. intros f Hin.
    apply (collect_file_ok gs f Hg) in Hc; [|exact Hin]. apply (parse_file_ok gs f Hg) in Hp; [|exact Hin].
    unfold file_all_ok. tauto.
  - intros [Hall Hpost]. split; [|split; [|exact Hpost]]; intros f Hin; destruct (Hall f Hin) as (?&?&?&?&?&?).
    + apply collect_file_ok; auto.
    + apply parse_file_ok; auto.
Qed.

(* the guard is necessary: without the recover around the walk a panicking listener kills the process *)
Example unguarded_walk_crashes :
  exists gs f, g_walk_specs gs = false /\ unguarded_stages_dont_panic f /\ compile gs [f] ROk = OCrash.
Proof.
  exists {| g_antlr := true; g_walk_specs := false; g_walk_imports := true; g_post := true; err_parse_propagated := true;
            err_collect_propagated := true; exit_uses_code := true; parse_error_code := 2; import_error_code := 1;
            default_exit_code := 1 |},
         {| b_read := ROk; b_antlr_imp := ROk; b_walk_imp := ROk; b_foreign := ROk; b_antlr := ROk; b_walk := RPanic |}.
  split; [reflexivity|]. split; [split; discriminate|reflexivity].
Qed.
(* ... and a swallowed error yields a model for a bad file *)
Example swallowed_error_yields_model :
  exists gs f, err_parse_propagated gs = false /\ b_antlr f = RErr EParse /\ compile gs [f] ROk = OModel.
Proof.
  exists {| g_antlr := true; g_walk_specs := true; g_walk_imports := true; g_post := true; err_parse_propagated := false;
            err_collect_propagated := true; exit_uses_code := true; parse_error_code := 2; import_error_code := 1;
            default_exit_code := 1 |}, (behave_of FBadParse).
  repeat split.
Qed.

(* ---- the listener's crash predictor for field declarations ---- *)
Lemma field_panics_iff d : denote_field d = Panic <-> field_panics d = true.
Proof.
  unfold denote_field, field_panics, fits. destruct d as [n w s o]. cbn [fnat fwrap fspec fopt].
  destruct (prim_of n) as [p cs] eqn:Hp. cbn [fst].
  assert (L : forall z, negb (z <=? int64_max) = (int64_max <? z)) by (intros z; rewrite Z.leb_antisym, negb_involutive; reflexivity).
  destruct s as [|sz m|lo hi]; cbn [apply_spec].
  - split; discriminate.
  - rewrite !L. destruct (sizable p) eqn:Hs; cbn [negb orb]; [|split; reflexivity].
    destruct (int64_max <? sz) eqn:Hn; cbn [orb]; [split; reflexivity|].
    destruct p; try discriminate Hs; destruct m as [k|]; try (split; discriminate).
    rewrite L. destruct (int64_max <? k); split; congruence.
  - destruct (sizable p) eqn:Hs; cbn [negb orb]; [|split; reflexivity].
    destruct hi as [h|]; rewrite L; [destruct (int64_max <? h)|destruct (int64_max <? lo)]; split; congruence.
Qed.

Theorem field_compile_class gs d :
  all_guarded gs = true ->
  compile gs [field_behaviour d] ROk = if field_panics d then OError (parse_error_code gs) else OModel.
Proof.
  intros Hg. apply all_guarded_spec in Hg. destruct Hg as [Ga Gs Gi Go Gp Gc Gk _ _ _].
  unfold compile, field_behaviour, collect_all, collect_file, parse_file, post_stage, to_obs.
  cbn [seq_stage b_read b_antlr_imp b_walk_imp b_foreign b_antlr b_walk].
  rewrite Ga, Gs, Gi, Go, Gp, Gc.
  destruct (field_panics d) eqn:Hp.
  - apply field_panics_iff in Hp. rewrite Hp. cbn [propagate guard andthen rewrap_import]. unfold code_of. rewrite Gk. reflexivity.
  - destruct (denote_field d) eqn:Hd; [reflexivity|]. apply field_panics_iff in Hd. congruence.
Qed.

(* non-vacuity of the predictor: both classes are inhabited *)
Example field_ok_example : field_panics {| fnat := NString; fwrap := WSeq; fspec := SSize 10 None; fopt := true |} = false.
Proof. reflexivity. Qed.
Example field_panic_example : field_panics {| fnat := NFloat; fwrap := WNone; fspec := SSize 5 None; fopt := false |} = true.
Proof. reflexivity. Qed.

(* the recover around lint + post-processing is necessary too: without it an assertion in postProcess kills the process *)
Example unguarded_post_crashes :
  exists gs f, g_post gs = false /\ unguarded_stages_dont_panic f /\ compile gs [f] RPanic = OCrash.
Proof.
  exists {| g_antlr := true; g_walk_specs := true; g_walk_imports := true; g_post := false; err_parse_propagated := true;
            err_collect_propagated := true; exit_uses_code := true; parse_error_code := 2; import_error_code := 1;
            default_exit_code := 1 |}, (behave_of FGood).
  split; [reflexivity|]. split; [split; discriminate|reflexivity].
Qed.
