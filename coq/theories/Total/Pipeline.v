(* C01: the compile pipeline of pkg/parse/parse.go (Parser.Parse -> collectSpecs -> parseSpecs) and
   cmd/sysl/sysl.go main2 as a composition of stages. What each stage does to a given file is an
   arbitrary behaviour (ok / error of some kind / Go panic); which stages run under a recover, whether
   stage errors are propagated, and the exit codes come from Gen/Guards.v (regenerated from the source).
   Definitions only. *)
From Coq Require Import List ZArith Bool.
Import ListNotations.
Local Open Scope Z_scope.

Record guardset := {
  g_antlr : bool;                 (* parseString: defer recover around the generated parser *)
  g_walk_specs : bool;            (* tree walk of the full parse runs under a recover *)
  g_walk_imports : bool;          (* tree walk of the import pre-parse runs under a recover *)
  g_post : bool;                  (* lint + postProcess (finishModule) run under a recover *)
  err_parse_propagated : bool;    (* parseSpecs tests and returns every stage error *)
  err_collect_propagated : bool;  (* collectSpecs / parseImports / Parse test and return every stage error *)
  exit_uses_code : bool;          (* main2 takes the status from syslutil.Exit.Code *)
  parse_error_code : Z;
  import_error_code : Z;
  default_exit_code : Z
}.

Inductive ekind := EParse | EImport | EPlain.     (* Exitf(ParseError..), Exitf(ImportError..), any other error *)
Inductive raw := ROk | RErr (k:ekind) | RPanic.

(* what the real stages do to one file; unconstrained *)
Record fbehave := {
  b_read : raw;          (* reader.ReadHashBranch *)
  b_antlr_imp : raw;     (* generated parser on the extracted import lines *)
  b_walk_imp : raw;      (* listener walk of the import pre-parse *)
  b_foreign : raw;       (* importForeign / FromPBStringContents *)
  b_antlr : raw;         (* generated parser on the whole file *)
  b_walk : raw           (* listener walk of the whole file *)
}.

Inductive obsclass := OModel | OError (code:Z) | OCrash.

(* a deferred recover that turns a panic into Exitf(ParseError, ...) *)
Definition guard (g:bool) (r:raw) : raw :=
  match r with RPanic => if g then RErr EParse else RPanic | x => x end.
(* an error that is not tested is lost *)
Definition propagate (p:bool) (r:raw) : raw :=
  match r with RErr _ => if p then r else ROk | x => x end.
(* collectSpecs re-wraps whatever a child returned as an ImportError *)
Definition rewrap_import (r:raw) : raw := match r with RErr _ => RErr EImport | x => x end.

Definition andthen (r:raw) (k:raw) : raw := match r with ROk => k | x => x end.

Definition collect_file (gs:guardset) (f:fbehave) : raw :=
  let p := propagate (err_collect_propagated gs) in
  andthen (p (match b_read f with RErr _ => RErr EImport | x => x end))
 (andthen (p (guard (g_antlr gs) (b_antlr_imp f)))
          (p (guard (g_walk_imports gs) (b_walk_imp f)))).

Definition parse_file (gs:guardset) (f:fbehave) : raw :=
  let p := propagate (err_parse_propagated gs) in
  andthen (p (b_foreign f))
 (andthen (p (guard (g_antlr gs) (b_antlr f)))
          (p (guard (g_walk_specs gs) (b_walk f)))).

Fixpoint seq_stage (st:fbehave -> raw) (fs:list fbehave) : raw :=
  match fs with [] => ROk | f :: r => andthen (st f) (seq_stage st r) end.

(* root first; every non-root file's collect error travels up through at least one errgroup.Wait *)
Definition collect_all (gs:guardset) (fs:list fbehave) : raw :=
  match fs with
  | [] => ROk
  | root :: rest => andthen (collect_file gs root)
                            (propagate (err_collect_propagated gs) (rewrap_import (seq_stage (collect_file gs) rest)))
  end.

Definition code_of (gs:guardset) (k:ekind) : Z :=
  if exit_uses_code gs then
    match k with EParse => parse_error_code gs | EImport => import_error_code gs | EPlain => default_exit_code gs end
  else default_exit_code gs.

Definition to_obs (gs:guardset) (r:raw) : obsclass :=
  match r with ROk => OModel | RErr k => OError (code_of gs k) | RPanic => OCrash end.

(* fs: the files of the closure in flatten order; post: lint + postProcess on the merged module *)
Definition post_stage (gs:guardset) (post:raw) : raw := propagate (err_parse_propagated gs) (guard (g_post gs) post).
Definition compile (gs:guardset) (fs:list fbehave) (post:raw) : obsclass :=
  to_obs gs (andthen (collect_all gs fs) (andthen (seq_stage (parse_file gs) fs) (post_stage gs post))).

Definition all_guarded (gs:guardset) : bool :=
  g_antlr gs && g_walk_specs gs && g_walk_imports gs && g_post gs && err_parse_propagated gs && err_collect_propagated gs &&
  exit_uses_code gs && negb (parse_error_code gs =? 0) && negb (import_error_code gs =? 0) && negb (default_exit_code gs =? 0).

(* the stages that the repository does not run under a recover (file reader, foreign-format import): they are
   assumed not to panic (hypothesis of the theorem, monitored by the harness on every case) *)
Definition unguarded_stages_dont_panic (f:fbehave) : Prop := b_read f <> RPanic /\ b_foreign f <> RPanic.

(* ---- closure cases of the harness: each file is good / has a parse-stage error / cannot be read ---- *)
Inductive fclass := FGood | FBadParse | FMissing.
Definition behave_of (c:fclass) : fbehave :=
  match c with
  | FGood => {| b_read := ROk; b_antlr_imp := ROk; b_walk_imp := ROk; b_foreign := ROk; b_antlr := ROk; b_walk := ROk |}
  | FBadParse => {| b_read := ROk; b_antlr_imp := ROk; b_walk_imp := ROk; b_foreign := ROk; b_antlr := RErr EParse; b_walk := ROk |}
  | FMissing => {| b_read := RErr EPlain; b_antlr_imp := ROk; b_walk_imp := ROk; b_foreign := ROk; b_antlr := ROk; b_walk := ROk |}
  end.
