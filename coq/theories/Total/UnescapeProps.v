(* Proofs about Total/Unescape.v: MustUnescape panics exactly on the texts that are not sequences of plain bytes and
   well-formed %XX escapes; the lexer's Name token is always such a sequence (so a bad escape can only arrive through
   the free-text tokens TEXT, TEXT_VALUE, TEXT_LINE, QSTRING); trimming blanks never repairs or breaks an escape. *)
From Coq Require Import String Ascii List Bool NArith ZArith Lia.
Import ListNotations.
Require Import Verif.Total.FieldPanics Verif.Total.Unescape.
Local Open Scope string_scope.

(* the grammar of texts PathUnescape accepts *)
Inductive wf_esc : string -> Prop :=
  | wf_nil : wf_esc EmptyString
  | wf_chr c s : c <> pct -> wf_esc s -> wf_esc (String c s)
  | wf_pct a b s : is_hex a = true -> is_hex b = true -> wf_esc s -> wf_esc (String pct (String a (String b s))).

(* induction three bytes at a time *)
Lemma string_ind3 (P:string -> Prop) :
  P EmptyString -> (forall c, P (String c EmptyString)) -> (forall c d, P (String c (String d EmptyString))) ->
  (forall c d e s, P s -> P (String d (String e s)) -> P (String e s) -> P (String c (String d (String e s)))) ->
  forall s, P s.
Proof.
  intros H0 H1 H2 H3.
  assert (H : forall s, P s /\ (forall c, P (String c s)) /\ (forall c d, P (String c (String d s)))).
  { induction s as [|e s (IH0 & IH1 & IH2)].
    - split; [exact H0|]. split; [exact H1|exact H2].
    - split; [apply IH1|]. split; [intros c; apply IH2|]. intros c d. apply H3; [exact IH0|apply IH2|apply IH1]. }
  intros s. apply H.
Qed.

Lemma unescape_ok_iff : forall s, (exists t, unescape s = Ok t) <-> wf_esc s.
Proof.
  assert (Hstep : forall c r, c <> pct -> ((exists t, unescape r = Ok t) <-> wf_esc r) ->
                  ((exists t, unescape (String c r) = Ok t) <-> wf_esc (String c r))).
  { intros c r Hc IH. cbn [unescape]. destruct (Ascii.eqb_spec c pct) as [E|_]; [contradiction|]. split.
    - intros (t & Ht). destruct (unescape r) as [t'|]; [|discriminate]. apply wf_chr; [exact Hc|apply IH; eauto].
    - intros H. inversion H as [|? ? _ Hr|]; subst; [|contradiction].
      apply IH in Hr. destruct Hr as (t & ->). eauto. }
  apply (string_ind3 (fun s => (exists t, unescape s = Ok t) <-> wf_esc s)).
  - split; [intros _; constructor|intros _; exists EmptyString; reflexivity].
  - intros c. destruct (Ascii.eqb_spec c pct) as [->|Hc].
    + cbn. split; [intros (t & Ht); discriminate|intros H; inversion H; subst; contradiction].
    + apply Hstep; [exact Hc|]. split; [intros _; constructor|intros _; exists EmptyString; reflexivity].
  - intros c d. destruct (Ascii.eqb_spec c pct) as [->|Hc].
    + cbn. split; [intros (t & Ht); discriminate|intros H; inversion H; subst; contradiction].
    + apply Hstep; [exact Hc|]. destruct (Ascii.eqb_spec d pct) as [->|Hd].
      * cbn. split; [intros (t & Ht); discriminate|intros H; inversion H; subst; contradiction].
      * apply Hstep; [exact Hd|]. split; [intros _; constructor|intros _; exists EmptyString; reflexivity].
  - intros c d e s IHs IHde IHe. destruct (Ascii.eqb_spec c pct) as [->|Hc].
    + cbn [unescape]. rewrite Ascii.eqb_refl. destruct (is_hex d && is_hex e) eqn:Hh.
      * apply andb_true_iff in Hh. destruct Hh as [Hd He]. split.
        -- intros (t & Ht). destruct (unescape s) as [t'|] eqn:Hs; [|discriminate]. apply wf_pct; [exact Hd|exact He|]. apply IHs. eauto.
        -- intros H. inversion H as [|? ? Hn _|? ? ? _ _ Hr]; subst; [contradiction|]. apply IHs in Hr. destruct Hr as (t & ->). eauto.
      * split; [intros (t & Ht); discriminate|].
        intros H. inversion H as [|? ? Hn _|? ? ? Hd He _]; subst; [contradiction|]. rewrite Hd, He in Hh. discriminate.
    + apply Hstep; [exact Hc|exact IHde].
Qed.

Theorem unescape_panics_iff s : unescape s = Panic <-> ~ wf_esc s.
Proof.
  rewrite <- unescape_ok_iff. destruct (unescape s) as [t|]; split; try congruence.
  - intros H. exfalso. apply H. eauto.
  - intros _ (t' & H). discriminate.
Qed.

Lemma bad_escape_spec : forall s, bad_escape s = true <-> unescape s = Panic.
Proof.
  apply (string_ind3 (fun s => bad_escape s = true <-> unescape s = Panic)).
  - cbn. split; discriminate.
  - intros c. cbn. destruct (Ascii.eqb c pct); split; congruence.
  - intros c d. cbn. destruct (Ascii.eqb c pct); [split; congruence|]. destruct (Ascii.eqb d pct); split; congruence.
  - intros c d e s IHs IHde IHe. cbn [bad_escape unescape]. destruct (Ascii.eqb c pct).
    + destruct (is_hex d && is_hex e); cbn [negb orb]; [|split; reflexivity].
      rewrite IHs. destruct (unescape s); split; congruence.
    + change (bad_escape (String d (String e s)) = true <-> match unescape (String d (String e s)) with Ok t => Ok (String c t) | Panic => Panic end = Panic).
      rewrite IHde. destruct (unescape (String d (String e s))); split; congruence.
Qed.

(* MustUnescape panics exactly on a bad escape; TrimSpace plays no part *)
Theorem must_unescape_panics_iff s : must_unescape s = Panic <-> bad_escape s = true.
Proof. unfold must_unescape. rewrite bad_escape_spec. destruct (unescape s); split; congruence. Qed.

(* ---- the lexer's Name token: ('%' HEX HEX)* [a-zA-Z_] ([-a-zA-Z0-9_] | '%' HEX HEX)* ---- *)
Definition name_char (c:ascii) : bool :=
  let n := N_of_ascii c in
  ((65 <=? n)%N && (n <=? 90)%N) || ((97 <=? n)%N && (n <=? 122)%N) || ((48 <=? n)%N && (n <=? 57)%N) || (n =? 95)%N || (n =? 45)%N.
(* a superset of the token: any mix of name characters and well-formed escapes *)
Inductive name_like : string -> Prop :=
  | nl_nil : name_like EmptyString
  | nl_chr c s : name_char c = true -> name_like s -> name_like (String c s)
  | nl_pct a b s : is_hex a = true -> is_hex b = true -> name_like s -> name_like (String pct (String a (String b s))).

Lemma name_char_not_pct c : name_char c = true -> c <> pct.
Proof. intros H ->. vm_compute in H. discriminate. Qed.

Theorem name_token_never_panics s : name_like s -> exists t, must_unescape s = Ok t.
Proof.
  intros H. assert (W : wf_esc s).
  { induction H as [|c s Hc _ IH|a b s Ha Hb _ IH]; [constructor|apply wf_chr; [apply name_char_not_pct, Hc|exact IH]|apply wf_pct; assumption]. }
  apply unescape_ok_iff in W. destruct W as (t & Ht). unfold must_unescape. rewrite Ht. eauto.
Qed.

(* examples: both classes, and the escapes of the crash family *)
Example unescape_examples :
  must_unescape "ok %3c%3A Foo%20" = Ok "ok <: Foo" /\ must_unescape "100%" = Panic /\ must_unescape "%zz" = Panic /\
  must_unescape "%4" = Panic /\ must_unescape "a%%41" = Panic /\ ret_payload "  %41+b  " = Ok "A+b".
Proof. vm_compute. repeat split. Qed.

(* ---- integer literals of view expressions ---- *)
Local Open Scope Z_scope.
Lemma digits_val_ge : forall s acc z, 0 <= acc -> digits_val s acc = Some z -> acc <= z.
Proof.
  induction s as [|c r IH]; intros acc z Ha H; cbn [digits_val] in H.
  - injection H as <-. lia.
  - set (n := Z.of_N (N_of_ascii c)) in *. destruct ((48 <=? n) && (n <=? 57)) eqn:Hd; [|discriminate].
    apply andb_true_iff in Hd. destruct Hd as [H1 H2]. apply Z.leb_le in H1. apply Z.leb_le in H2.
    apply IH in H; lia.
Qed.
(* ExitLiteral panics exactly on the digit strings whose value exceeds MaxInt64, whatever their length or leading zeros *)
Theorem literal_int_panics_iff s z : s <> EmptyString -> digits_val s 0 = Some z ->
  (literal_int s = Panic <-> int64_max < z) /\ (forall v, literal_int s = Ok v -> v = z /\ 0 <= v <= int64_max).
Proof.
  intros Hne Hz. unfold literal_int. destruct s as [|c r]; [contradiction|]. rewrite Hz.
  pose proof (digits_val_ge _ _ _ (Z.le_refl 0) Hz) as Hge.
  destruct (int64_max <? z) eqn:Hlt.
  - apply Z.ltb_lt in Hlt. split; [split; [intros _; exact Hlt|reflexivity]|intros v H; discriminate].
  - apply Z.ltb_ge in Hlt. split; [split; [discriminate|lia]|]. intros v H. injection H as <-. lia.
Qed.
Example literal_examples :
  literal_int "9223372036854775807" = Ok 9223372036854775807 /\ literal_int "9223372036854775808" = Panic /\
  literal_int "000000000000000000009223372036854775808" = Panic /\ literal_int "007" = Ok 7.
Proof. vm_compute. repeat split. Qed.
