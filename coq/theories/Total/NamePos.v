(* C01: the listener's MustUnescape in the NAME positions that can receive free text:
     <text>:            at the top level       EnterName_with_attribs / ExitName_with_attribs  (application name)
     <text> <- x        in an endpoint         ExitTarget: Call.Target.Part                    (target of a call)
     -|> <text>                                ExitMixin: Mixin2[..].Name.Part                 (mixin)
   Each stores MustUnescapeStrings(app_name.Parts()), the parts being the texts of the name_str tokens; a text without
   `::` is one part. What arrives depends on the LEXER (pkg/grammar/SyslLexer.g4):
     Name       ('%' HEX HEX)* [a-zA-Z_] ([-a-zA-Z0-9_] | '%' HEX HEX)*
     PRINTABLE  one or more characters other than blank, tab, line breaks and  . - < > , ( ) ! # / : ? @ [ ] { } |  and the two quotes
     TEXT_LINE  PRINTABLE ([ \-]+ (PRINTABLE | IN_ANGLE))+          - two or more words
   For a text made of PRINTABLE characters and blanks (the frame of this model; `in_frame`) name_str accepts it iff it is
   ONE word that is a Name token, or TWO OR MORE words (a TEXT_LINE); blanks around it are skipped by the lexer.
   Otherwise the file has a syntax error and the listener is never asked. Definitions only. *)
From Coq Require Import String Ascii List Bool NArith.
Import ListNotations.
Require Import Verif.Total.FieldPanics Verif.Total.Unescape.
Local Open Scope string_scope.

(* number of maximal runs of non-blank characters *)
Fixpoint nwords (s:string) (inword:bool) : nat :=
  match s with
  | EmptyString => 0
  | String c r => if is_blank32 c then nwords r false else (if inword then 0 else 1) + nwords r true
  end.

Definition name_char (c:ascii) : bool :=
  let n := N_of_ascii c in
  ((65 <=? n)%N && (n <=? 90)%N) || ((97 <=? n)%N && (n <=? 122)%N) || ((48 <=? n)%N && (n <=? 57)%N) || (n =? 95)%N || (n =? 45)%N.
Definition name_start (c:ascii) : bool :=
  let n := N_of_ascii c in ((65 <=? n)%N && (n <=? 90)%N) || ((97 <=? n)%N && (n <=? 122)%N) || (n =? 95)%N.
(* ([-a-zA-Z0-9_] | '%' HEX HEX)* *)
Fixpoint name_body (s:string) : bool :=
  match s with
  | EmptyString => true
  | String c r =>
      if Ascii.eqb c pct then match r with String a (String b r') => is_hex a && is_hex b && name_body r' | _ => false end
      else name_char c && name_body r
  end.
(* the Name token *)
Fixpoint name_tokb (s:string) : bool :=
  match s with
  | EmptyString => false
  | String c r =>
      if Ascii.eqb c pct then match r with String a (String b r') => is_hex a && is_hex b && name_tokb r' | _ => false end
      else name_start c && name_body r
  end.

(* does name_str take the text as one name? *)
Definition accepts (text:string) : bool :=
  match nwords text false with
  | 0 => false
  | 1 => name_tokb (trim is_blank32 text)
  | _ => true
  end.

Inductive nres := NSyntax | NPanic | NOk (stored:string).
(* what a name position does with the text: syntax error before the walk / panic of MustUnescape under walkTree's
   recover / the stored part *)
Definition name_outcome (text:string) : nres :=
  if accepts text
  then match must_unescape (trim is_blank32 text) with Panic => NPanic | Ok s => NOk s end
  else NSyntax.

(* the frame: PRINTABLE characters and blanks; `-` is a PRINTABLE-excluded separator of TEXT_LINE and is left out *)
Definition printable (c:ascii) : bool :=
  let n := N_of_ascii c in
  (33 <=? n)%N && (n <=? 126)%N &&
  negb (existsb (N.eqb n) [46; 45; 60; 62; 44; 40; 41; 33; 34; 35; 39; 47; 58; 63; 64; 91; 93; 123; 125; 124]%N).
Fixpoint in_frame (s:string) : bool :=
  match s with EmptyString => true | String c r => (is_blank32 c || printable c) && in_frame r end.
