(* Proofs about Total/Linter.v: the process-killing branches of the linter (logrus.Fatal in recordApp /
   recordEndpoint) and the nil dereference recordAsCall could make are unreachable, for EVERY sequence of
   recordings in which no application location and no endpoint location repeats and every endpoint is recorded
   inside an application recorded before it - which is what one walk per file of the closure provides
   (closure_events_wf); and they ARE reached as soon as a file is walked twice (double_walk_fatal). *)
From Coq Require Import String Ascii List Bool NArith Lia.
Import ListNotations.
Require Import Verif.Total.Linter.
Local Open Scope list_scope.

(* ---------------- association lists ---------------- *)
Lemma alookup_aset {V} k k' (v:V) m : alookup k' (aset k v m) = if String.eqb k' k then Some v else alookup k' m.
Proof.
  induction m as [|[k0 v0] t IH]; cbn [aset alookup].
  - reflexivity.
  - destruct (String.eqb_spec k k0) as [->|Hn]; cbn [alookup].
    + destruct (String.eqb k' k0); reflexivity.
    + destruct (String.eqb_spec k' k0) as [->|Hn'].
      * destruct (String.eqb_spec k0 k) as [E|_]; [congruence|reflexivity].
      * exact IH.
Qed.

Lemma lc_eqb_spec a b : reflect (a = b) (lc_eqb a b).
Proof.
  destruct a as [|f l c], b as [|f' l' c']; cbn [lc_eqb]; try (constructor; congruence).
  destruct (String.eqb_spec f f') as [->|Hf]; cbn [andb]; [|constructor; congruence].
  destruct (N.eqb_spec l l') as [->|Hl]; cbn [andb]; [|constructor; congruence].
  destruct (N.eqb_spec c c') as [->|Hc]; constructor; congruence.
Qed.
Lemma lmem_In l ls : lmem l ls = true <-> In l ls.
Proof.
  unfold lmem. rewrite existsb_exists. split.
  - intros (x & Hx & He). destruct (lc_eqb_spec l x); [subst; exact Hx|discriminate].
  - intros H. exists l. split; [exact H|]. destruct (lc_eqb_spec l l); congruence.
Qed.
Lemma lmem_false l ls : lmem l ls = false <-> ~ In l ls.
Proof. rewrite <- lmem_In. destruct (lmem l ls); split; congruence. Qed.

(* ---------------- what a graph holds, as total functions ---------------- *)
Definition has (g:graph) (a:string) : bool := match alookup a g with Some _ => true | None => false end.
Definition glocs (g:graph) (a:string) : list lc := match alookup a g with Some d => ad_locs d | None => [] end.
Definition elocs (g:graph) (a e:string) : list lc :=
  match alookup a g with
  | Some d => match alookup e (ad_eps d) with Some ed => ed_locs ed | None => [] end
  | None => [] end.

(* recordApp *)
Lemma record_app_err g a l : snd (record_app g a l) <> None <-> In l (glocs g a).
Proof.
  unfold record_app, glocs. destruct (alookup a g) as [d|]; cbn [snd].
  - destruct (lmem l (ad_locs d)) eqn:H; cbn [snd].
    + apply lmem_In in H. split; [auto|discriminate].
    + apply lmem_false in H. split; [congruence|tauto].
  - split; [congruence|intros []].
Qed.
Lemma record_app_has g a l a' : has (fst (record_app g a l)) a' = has g a' || String.eqb a' a.
Proof.
  unfold record_app, has. destruct (alookup a g) as [d|] eqn:Ha.
  - destruct (lmem l (ad_locs d)); cbn [fst].
    + destruct (String.eqb_spec a' a) as [->|]; [rewrite Ha; reflexivity|rewrite orb_false_r; reflexivity].
    + rewrite alookup_aset. destruct (String.eqb_spec a' a) as [->|]; [rewrite Ha; reflexivity|rewrite orb_false_r; reflexivity].
  - cbn [fst]. rewrite alookup_aset. destruct (String.eqb_spec a' a) as [->|]; [rewrite Ha; reflexivity|rewrite orb_false_r; reflexivity].
Qed.
Lemma record_app_glocs g a l a' x : In x (glocs (fst (record_app g a l)) a') -> In x (glocs g a') \/ (a' = a /\ x = l).
Proof.
  unfold record_app, glocs. destruct (alookup a g) as [d|] eqn:Ha.
  - destruct (lmem l (ad_locs d)); cbn [fst]; [auto|].
    rewrite alookup_aset. destruct (String.eqb_spec a' a) as [->|]; [|auto].
    rewrite Ha. cbn [ad_locs]. intros [<-|H]; auto.
  - cbn [fst]. rewrite alookup_aset. destruct (String.eqb_spec a' a) as [->|]; [|auto].
    cbn [ad_locs]. intros [<-|[]]. auto.
Qed.
Lemma record_app_elocs g a l a' e x : In x (elocs (fst (record_app g a l)) a' e) -> In x (elocs g a' e).
Proof.
  unfold record_app, elocs. destruct (alookup a g) as [d|] eqn:Ha.
  - destruct (lmem l (ad_locs d)); cbn [fst]; [auto|].
    rewrite alookup_aset. destruct (String.eqb_spec a' a) as [->|]; [|auto]. rewrite Ha. cbn [ad_eps]. auto.
  - cbn [fst]. rewrite alookup_aset. destruct (String.eqb_spec a' a) as [->|]; [|auto]. cbn [ad_eps alookup]. intros [].
Qed.

(* recordEndpoint *)
Lemma record_endpoint_err g a e l :
  snd (record_endpoint g a e l) <> None <-> (has g a = false \/ In l (elocs g a e)).
Proof.
  unfold record_endpoint, has, elocs. destruct (alookup a g) as [d|]; cbn [snd].
  - destruct (alookup e (ad_eps d)) as [ed|]; cbn [snd].
    + destruct (lmem l (ed_locs ed)) eqn:H; cbn [snd].
      * apply lmem_In in H. split; [auto|discriminate].
      * apply lmem_false in H. split; [congruence|intros [?|?]; [discriminate|tauto]].
    + split; [congruence|intros [?|[]]; discriminate].
  - split; [auto|discriminate].
Qed.
Lemma record_endpoint_has g a e l a' : has (fst (record_endpoint g a e l)) a' = has g a'.
Proof.
  unfold record_endpoint, has. destruct (alookup a g) as [d|] eqn:Ha; [|reflexivity].
  destruct (alookup e (ad_eps d)) as [ed|]; [destruct (lmem l (ed_locs ed))|]; cbn [fst]; try reflexivity;
    rewrite alookup_aset; destruct (String.eqb_spec a' a) as [->|]; try reflexivity; rewrite Ha; reflexivity.
Qed.
Lemma record_endpoint_glocs g a e l a' : glocs (fst (record_endpoint g a e l)) a' = glocs g a'.
Proof.
  unfold record_endpoint, glocs. destruct (alookup a g) as [d|] eqn:Ha; [|reflexivity].
  destruct (alookup e (ad_eps d)) as [ed|]; [destruct (lmem l (ed_locs ed))|]; cbn [fst]; try reflexivity;
    rewrite alookup_aset; destruct (String.eqb_spec a' a) as [->|]; try reflexivity; rewrite Ha; reflexivity.
Qed.
Lemma record_endpoint_elocs g a e l a' e' x :
  In x (elocs (fst (record_endpoint g a e l)) a' e') -> In x (elocs g a' e') \/ x = l.
Proof.
  unfold record_endpoint, elocs. destruct (alookup a g) as [d|] eqn:Ha; [|auto].
  destruct (alookup e (ad_eps d)) as [ed|] eqn:He; [destruct (lmem l (ed_locs ed))|]; cbn [fst]; auto;
    rewrite alookup_aset; destruct (String.eqb_spec a' a) as [->|]; auto; rewrite Ha; cbn [ad_eps];
    rewrite alookup_aset; destruct (String.eqb_spec e' e) as [->|]; auto; rewrite ?He; cbn [ed_locs].
  - intros [<-|H]; auto.
  - intros [<-|[]]; auto.
Qed.
(* after recordEndpoint on an existing application, the endpoint exists *)
Lemma record_endpoint_ep g a e l d : alookup a g = Some d ->
  exists d' ed', alookup a (fst (record_endpoint g a e l)) = Some d' /\ alookup e (ad_eps d') = Some ed'.
Proof.
  intros Ha. unfold record_endpoint. rewrite Ha.
  destruct (alookup e (ad_eps d)) as [ed|] eqn:He; [destruct (lmem l (ed_locs ed))|]; cbn [fst].
  - exists d, ed. auto.
  - rewrite alookup_aset, String.eqb_refl. eexists _, _. split; [reflexivity|]. cbn [ad_eps]. rewrite alookup_aset, String.eqb_refl. reflexivity.
  - rewrite alookup_aset, String.eqb_refl. eexists _, _. split; [reflexivity|]. cbn [ad_eps]. rewrite alookup_aset, String.eqb_refl. reflexivity.
Qed.

(* recordMethod *)
Lemma record_method_has g a e m l a' : has (fst (record_method g a e m l)) a' = has g a'.
Proof.
  unfold record_method, has. destruct (alookup a g) as [d|] eqn:Ha; [|reflexivity].
  destruct (alookup e (ad_eps d)) as [ed|]; [|reflexivity].
  destruct (alookup m _); cbn [fst]; rewrite alookup_aset; destruct (String.eqb_spec a' a) as [->|]; try reflexivity; rewrite Ha; reflexivity.
Qed.
Lemma record_method_glocs g a e m l a' : glocs (fst (record_method g a e m l)) a' = glocs g a'.
Proof.
  unfold record_method, glocs. destruct (alookup a g) as [d|] eqn:Ha; [|reflexivity].
  destruct (alookup e (ad_eps d)) as [ed|]; [|reflexivity].
  destruct (alookup m _); cbn [fst]; rewrite alookup_aset; destruct (String.eqb_spec a' a) as [->|]; try reflexivity; rewrite Ha; reflexivity.
Qed.
Lemma record_method_elocs g a e m l a' e' : elocs (fst (record_method g a e m l)) a' e' = elocs g a' e'.
Proof.
  unfold record_method, elocs. destruct (alookup a g) as [d|] eqn:Ha; [|reflexivity].
  destruct (alookup e (ad_eps d)) as [ed|] eqn:He; [|reflexivity].
  destruct (alookup m _); cbn [fst]; rewrite alookup_aset; destruct (String.eqb_spec a' a) as [->|]; try reflexivity; rewrite Ha; cbn [ad_eps];
    rewrite alookup_aset; destruct (String.eqb_spec e' e) as [->|]; try reflexivity; rewrite He; reflexivity.
Qed.
(* on an existing endpoint recordMethod can only fail with "method already exist", and then the method is there *)
Lemma record_method_on_ep g a e m l d ed : alookup a g = Some d -> alookup e (ad_eps d) = Some ed ->
  let r := record_method g a e m l in
  (snd r = None \/ snd r = Some EMethodExists) /\
  exists d' ed' ms ls, alookup a (fst r) = Some d' /\ alookup e (ad_eps d') = Some ed' /\ ed_methods ed' = Some ms /\ alookup m ms = Some ls.
Proof.
  intros Ha He. unfold record_method. cbv zeta. rewrite Ha, He.
  set (ms0 := match ed_methods ed with None => [] | Some ms => ms end).
  destruct (alookup m ms0) as [ls|] eqn:Hm; cbn [fst snd]; (split; [auto|]);
    eexists _, _, _, _; (split; [rewrite alookup_aset, String.eqb_refl; reflexivity|]); cbn [ad_eps];
    (split; [rewrite alookup_aset, String.eqb_refl; reflexivity|]); cbn [ed_methods]; (split; [reflexivity|]).
  - exact Hm.
  - rewrite alookup_aset, String.eqb_refl. reflexivity.
Qed.

(* recordAsCall never dereferences nil - for every graph and every call ("this isn't possible" aside) *)
Theorem record_as_call_no_nil g a e m l : fst (record_as_call g a e m l) <> None.
Proof.
  unfold record_as_call. destruct (String.eqb m ""); [cbn [fst]; discriminate|].
  set (g1 := fst (record_app g a LNone)).
  assert (H1 : exists d, alookup a g1 = Some d).
  { pose proof (record_app_has g a LNone a) as H. rewrite String.eqb_refl, orb_true_r in H. fold g1 in H.
    unfold has in H. destruct (alookup a g1) as [d|]; [eauto|discriminate]. }
  destruct H1 as (d1 & Hd1).
  destruct (record_endpoint_ep g1 a e l d1 Hd1) as (d2 & ed2 & Hd2 & Hed2).
  destruct (record_method_on_ep _ a e m l d2 ed2 Hd2 Hed2) as [Hr (d3 & ed3 & ms & ls & A & B & C & D)].
  destruct (record_method (fst (record_endpoint g1 a e l)) a e m l) as [g3 [er|]]; cbn [fst snd] in *; [|discriminate].
  rewrite A, B, C, D. destruct (lmem l ls); cbn [fst]; discriminate.
Qed.

(* ---------------- the listener ---------------- *)
(* well-formed recordings, relative to what has been recorded so far: the location of an application recording
   is new; an endpoint recording names an application recorded before and its location is new among endpoint /
   method locations *)
Fixpoint wf_from (apps:list string) (la le:list lc) (evs:list event) : Prop :=
  match evs with
  | [] => True
  | EvApp a l :: r => ~ In l la /\ wf_from (a :: apps) (l :: la) le r
  | EvEndpoint a _ l :: r => In a apps /\ ~ In l le /\ wf_from apps la (l :: le) r
  | EvMethod _ _ _ l :: r => wf_from apps la (l :: le) r
  | EvCall _ _ _ _ :: r => wf_from apps la le r
  end.
Definition wf_events (evs:list event) : Prop := wf_from [] [] [] evs.

Section Lower.
Variable lower : string -> string.

Definition apps_at (st:lstate) (k:string) : graph := match alookup k (l_apps st) with Some g => g | None => [] end.
Lemma get_apps_at st a : get_apps lower st a = apps_at st (lower a).
Proof. reflexivity. Qed.
Lemma put_apps_at st a g k : apps_at (put_apps lower st a g) k = if String.eqb k (lower a) then g else apps_at st k.
Proof. unfold apps_at, put_apps. cbn [l_apps]. rewrite alookup_aset. destruct (String.eqb k (lower a)); reflexivity. Qed.

Record inv (st:lstate) (apps:list string) (la le:list lc) : Prop := {
  inv_has : forall a, In a apps -> has (apps_at st (lower a)) a = true;
  inv_la : forall k a x, In x (glocs (apps_at st k) a) -> In x la;
  inv_le : forall k a e x, In x (elocs (apps_at st k) a e) -> In x le }.

Lemma inv0 : inv lstate0 [] [] [].
Proof. constructor; [intros a []|intros k a x H; exact H|intros k a e x H; exact H]. Qed.

Lemma step_ok st apps la le ev r : inv st apps la le -> wf_from apps la le (ev :: r) ->
  exists st' ws apps' la' le', step lower st ev = SOk st' ws /\ inv st' apps' la' le' /\ wf_from apps' la' le' r.
Proof.
  intros [Ih Ia Ie] Hwf. destruct ev as [a l|a e l|a u m l|t e m l]; cbn [wf_from] in Hwf; cbn [step].
  - (* recordApp *)
    destruct Hwf as [Hnew Hr]. rewrite get_apps_at.
    destruct (record_app (apps_at st (lower a)) a l) as [g' er] eqn:E.
    assert (Her : er = None).
    { destruct er as [x|]; [|reflexivity]. exfalso. apply Hnew, (Ia (lower a) a).
      apply record_app_err. rewrite E. discriminate. }
    subst er. exists (put_apps lower st a g'), [], (a :: apps), (l :: la), le. split; [reflexivity|]. split; [|exact Hr].
    assert (Eg : g' = fst (record_app (apps_at st (lower a)) a l)) by (rewrite E; reflexivity).
    constructor.
    + intros a' Hin. rewrite put_apps_at. destruct (String.eqb_spec (lower a') (lower a)) as [El|Hne].
      * rewrite Eg, record_app_has. destruct Hin as [<-|Hin]; [rewrite String.eqb_refl; apply orb_true_r|].
        rewrite <- El, (Ih a' Hin). reflexivity.
      * destruct Hin as [<-|Hin]; [congruence|apply Ih, Hin].
    + intros k a' x. rewrite put_apps_at. destruct (String.eqb k (lower a)).
      * rewrite Eg. intros H. apply record_app_glocs in H. destruct H as [H|[_ Hx]]; [right; eapply Ia, H|left; symmetry; exact Hx].
      * intros H. right. eapply Ia, H.
    + intros k a' e x. rewrite put_apps_at. destruct (String.eqb k (lower a)).
      * rewrite Eg. intros H. apply record_app_elocs in H. eapply Ie, H.
      * intros H. eapply Ie, H.
  - (* recordEndpoint *)
    destruct Hwf as (Hin & Hnew & Hr). rewrite get_apps_at.
    destruct (record_endpoint (apps_at st (lower a)) a e l) as [g' er] eqn:E.
    assert (Her : er = None).
    { destruct er as [x|]; [|reflexivity]. exfalso.
      assert (H : snd (record_endpoint (apps_at st (lower a)) a e l) <> None) by (rewrite E; discriminate).
      apply record_endpoint_err in H. destruct H as [H|H]; [rewrite (Ih a Hin) in H; discriminate|].
      apply Hnew, (Ie (lower a) a e), H. }
    subst er. exists (put_apps lower st a g'), [], apps, la, (l :: le). split; [reflexivity|]. split; [|exact Hr].
    assert (Eg : g' = fst (record_endpoint (apps_at st (lower a)) a e l)) by (rewrite E; reflexivity).
    constructor.
    + intros a' Hin'. rewrite put_apps_at. destruct (String.eqb_spec (lower a') (lower a)) as [El|_]; [|apply Ih, Hin'].
      rewrite Eg, record_endpoint_has, <- El. apply Ih, Hin'.
    + intros k a' x. rewrite put_apps_at. destruct (String.eqb k (lower a)); [|apply Ia].
      rewrite Eg, record_endpoint_glocs. apply Ia.
    + intros k a' e' x. rewrite put_apps_at. destruct (String.eqb k (lower a)).
      * rewrite Eg. intros H. apply record_endpoint_elocs in H. destruct H as [H|Hx]; [right; eapply Ie, H|left; symmetry; exact Hx].
      * intros H. right. eapply Ie, H.
  - (* recordMethod: never kills, at worst warns *)
    rewrite get_apps_at. set (g1 := fst (record_endpoint (apps_at st (lower a)) a u l)).
    destruct (record_method g1 a u m l) as [g2 er] eqn:E.
    assert (Eg : g2 = fst (record_method g1 a u m l)) by (rewrite E; reflexivity).
    assert (Hinv : inv (put_apps lower st a g2) apps la (l :: le)).
    { constructor.
      + intros a' Hin'. rewrite put_apps_at. destruct (String.eqb_spec (lower a') (lower a)) as [El|_]; [|apply Ih, Hin'].
        rewrite Eg, record_method_has. unfold g1. rewrite record_endpoint_has, <- El. apply Ih, Hin'.
      + intros k a' x. rewrite put_apps_at. destruct (String.eqb k (lower a)); [|apply Ia].
        rewrite Eg, record_method_glocs. unfold g1. rewrite record_endpoint_glocs. apply Ia.
      + intros k a' e' x. rewrite put_apps_at. destruct (String.eqb k (lower a)).
        * rewrite Eg, record_method_elocs. unfold g1. intros H. apply record_endpoint_elocs in H.
          destruct H as [H|Hx]; [right; eapply Ie, H|left; symmetry; exact Hx].
        * intros H. right. eapply Ie, H. }
    destruct er as [[]|]; eexists _, _, apps, la, (l :: le); (split; [reflexivity|]); split; assumption.
  - (* recordCall: touches the call graph only *)
    pose proof (record_as_call_no_nil (l_calls st) t e m l) as Hn.
    destruct (record_as_call (l_calls st) t e m l) as [[g|] er]; cbn [fst] in Hn; [|congruence].
    assert (Hinv : inv {| l_apps := l_apps st; l_calls := g |} apps la le) by (constructor; assumption).
    destruct er; eexists _, _, apps, la, le; (split; [reflexivity|]); split; assumption.
Qed.

Lemma run_ok : forall evs st ws apps la le, inv st apps la le -> wf_from apps la le evs ->
  exists st' ws', run lower st ws evs = SOk st' ws'.
Proof.
  induction evs as [|ev r IH]; intros st ws apps la le Hinv Hwf; cbn [run]; [eauto|].
  destruct (step_ok st apps la le ev r Hinv Hwf) as (st' & w & apps' & la' & le' & Hs & Hinv' & Hwf').
  rewrite Hs. eapply IH; eassumption.
Qed.

(* no recording sequence that is well-formed reaches logrus.Fatal (or a nil dereference): the linter finishes *)
Theorem lint_never_kills evs : wf_events evs -> exists st ws, lint_all lower evs = SOk st ws.
Proof.
  intros Hwf. unfold lint_all. destruct (run_ok evs lstate0 [] [] [] [] inv0 Hwf) as (st & ws & H).
  rewrite H. eauto.
Qed.

(* ... and the hypothesis is needed: recording one application block twice - what a second walk of a file does -
   ends in logrus.Fatal, whatever was recorded in between, as long as that part is itself well-formed *)
Lemma run_app st ws evs1 evs2 : run lower st ws (evs1 ++ evs2) =
  match run lower st ws evs1 with SOk st' ws' => run lower st' ws' evs2 | x => x end.
Proof.
  revert st ws. induction evs1 as [|ev r IH]; intros st ws; cbn [run app]; [reflexivity|].
  destruct (step lower st ev); try reflexivity. apply IH.
Qed.

(* application locations, once recorded, stay recorded *)
Lemma step_keeps_loc st ev st' w a x : step lower st ev = SOk st' w ->
  In x (glocs (apps_at st (lower a)) a) -> In x (glocs (apps_at st' (lower a)) a).
Proof.
  destruct ev as [b l|b e l|b u m l|t e m l]; cbn [step]; rewrite ?get_apps_at.
  - destruct (record_app (apps_at st (lower b)) b l) as [g' [er|]] eqn:E; [discriminate|].
    intros H. injection H as <- _. rewrite put_apps_at. destruct (String.eqb_spec (lower a) (lower b)) as [El|_]; [|auto].
    rewrite El. intros Hin. assert (g' = fst (record_app (apps_at st (lower b)) b l)) as -> by (rewrite E; reflexivity).
    clear E. unfold record_app, glocs in *. destruct (alookup b (apps_at st (lower b))) as [d|] eqn:Hb.
    + destruct (lmem l (ad_locs d)); cbn [fst]; [exact Hin|]. rewrite alookup_aset.
      destruct (String.eqb_spec a b) as [->|]; [|exact Hin]. rewrite Hb in Hin. cbn [ad_locs]. right. exact Hin.
    + cbn [fst]. rewrite alookup_aset. destruct (String.eqb_spec a b) as [->|]; [|exact Hin]. rewrite Hb in Hin. destruct Hin.
  - destruct (record_endpoint (apps_at st (lower b)) b e l) as [g' [er|]] eqn:E; [discriminate|].
    intros H. injection H as <- _. rewrite put_apps_at. destruct (String.eqb_spec (lower a) (lower b)) as [El|_]; [|auto].
    rewrite El. assert (g' = fst (record_endpoint (apps_at st (lower b)) b e l)) as -> by (rewrite E; reflexivity).
    rewrite record_endpoint_glocs. auto.
  - set (g1 := fst (record_endpoint (apps_at st (lower b)) b u l)).
    destruct (record_method g1 b u m l) as [g2 er] eqn:E.
    assert (Eg : g2 = fst (record_method g1 b u m l)) by (rewrite E; reflexivity).
    assert (Hk : In x (glocs (apps_at st (lower a)) a) -> In x (glocs (apps_at (put_apps lower st b g2) (lower a)) a)).
    { rewrite put_apps_at. destruct (String.eqb_spec (lower a) (lower b)) as [El|_]; [|auto].
      rewrite El, Eg, record_method_glocs. unfold g1. rewrite record_endpoint_glocs. auto. }
    destruct er as [[]|]; intros H; injection H as <- _; exact Hk.
  - destruct (record_as_call (l_calls st) t e m l) as [[g|] [er|]]; try discriminate; intros H; injection H as <- _; auto.
Qed.
Lemma run_keeps_loc : forall evs st ws st' ws' a x, run lower st ws evs = SOk st' ws' ->
  In x (glocs (apps_at st (lower a)) a) -> In x (glocs (apps_at st' (lower a)) a).
Proof.
  induction evs as [|ev r IH]; intros st ws st' ws' a x; cbn [run].
  - intros H. injection H as <- _. auto.
  - destruct (step lower st ev) as [| |st1 w] eqn:Hs; try discriminate. intros H Hin.
    eapply IH; [exact H|]. eapply step_keeps_loc; eassumption.
Qed.

Theorem double_recording_kills a l mid :
  wf_events (EvApp a l :: mid) -> lint_all lower (EvApp a l :: mid ++ [EvApp a l]) = SFatal KRecordApp EAppExists.
Proof.
  intros Hwf. unfold lint_all. change (EvApp a l :: mid ++ [EvApp a l])%list with ((EvApp a l :: mid) ++ [EvApp a l])%list.
  rewrite run_app. destruct (run_ok _ lstate0 [] [] [] [] inv0 Hwf) as (st & ws & Hrun). rewrite Hrun.
  assert (Hin : In l (glocs (apps_at st (lower a)) a)).
  { cbn [run] in Hrun. destruct (step lower lstate0 (EvApp a l)) as [| |st1 w] eqn:Hs; try discriminate.
    eapply run_keeps_loc; [exact Hrun|]. cbn [step] in Hs. rewrite get_apps_at in Hs.
    unfold lstate0, apps_at in Hs. cbn [l_apps alookup record_app] in Hs. injection Hs as <- _.
    rewrite put_apps_at, String.eqb_refl. unfold glocs. cbn [aset alookup]. rewrite String.eqb_refl. left. reflexivity. }
  cbn [run step]. rewrite get_apps_at. unfold record_app, glocs in *.
  destruct (alookup a (apps_at st (lower a))) as [d|]; [|destruct Hin].
  apply lmem_In in Hin. rewrite Hin. reflexivity.
Qed.
End Lower.

(* ---------------- from the shape of a closure to well-formed recordings ---------------- *)
(* sufficient, order-free form: no application location twice, no endpoint / method location twice, every
   endpoint recording preceded by a recording of its application *)
Definition app_locs_of (evs:list event) : list lc := flat_map (fun ev => match ev with EvApp _ l => [l] | _ => [] end) evs.
Definition ep_locs_of (evs:list event) : list lc :=
  flat_map (fun ev => match ev with EvEndpoint _ _ l => [l] | EvMethod _ _ _ l => [l] | _ => [] end) evs.
Fixpoint declared (apps:list string) (evs:list event) : Prop :=
  match evs with
  | [] => True
  | EvApp a _ :: r => declared (a :: apps) r
  | EvEndpoint a _ _ :: r => In a apps /\ declared apps r
  | _ :: r => declared apps r
  end.

Lemma wf_from_nodup : forall evs apps la le,
  NoDup (rev la ++ app_locs_of evs) -> NoDup (rev le ++ ep_locs_of evs) -> declared apps evs -> wf_from apps la le evs.
Proof.
  induction evs as [|ev r IH]; intros apps la le Ha He Hd; [exact I|].
  destruct ev as [a l|a e l|a u m l|t e m l]; cbn [wf_from declared app_locs_of ep_locs_of flat_map app] in *.
  - split.
    + intros Hin. apply NoDup_remove_2 in Ha. apply Ha, in_or_app. left. apply in_rev in Hin. exact Hin.
    + apply IH; [|exact He|exact Hd]. cbn [rev]. rewrite <- app_assoc. exact Ha.
  - destruct Hd as [Hin Hd]. split; [exact Hin|]. split.
    + intros Hin'. apply NoDup_remove_2 in He. apply He, in_or_app. left. apply in_rev in Hin'. exact Hin'.
    + apply IH; [exact Ha| |exact Hd]. cbn [rev]. rewrite <- app_assoc. exact He.
  - apply IH; [exact Ha| |exact Hd]. cbn [rev]. rewrite <- app_assoc. exact He.
  - apply IH; assumption.
Qed.

Lemma declared_mono : forall evs apps apps', incl apps apps' -> declared apps evs -> declared apps' evs.
Proof.
  induction evs as [|ev r IH]; intros apps apps' Hi Hd; [exact I|].
  destruct ev; cbn [declared] in *.
  - eapply IH; [|exact Hd]. intros x [<-|Hx]; [left; reflexivity|right; apply Hi, Hx].
  - destruct Hd as [Hin Hd]. split; [apply Hi, Hin|eapply IH; eassumption].
  - eapply IH; eassumption.
  - eapply IH; eassumption.
Qed.
Lemma declared_app : forall e1 e2 apps, declared apps e1 -> (forall apps', declared apps' e2) -> declared apps (e1 ++ e2).
Proof.
  induction e1 as [|ev r IH]; intros e2 apps H1 H2; cbn [app]; [apply H2|].
  destruct ev; cbn [declared] in *; try (apply IH; assumption).
  destruct H1 as [Hin H1]. split; [exact Hin|apply IH; assumption].
Qed.
Lemma declared_items file a items : forall apps, In a apps -> declared apps (map (item_event file a) items).
Proof.
  induction items as [|i r IH]; intros apps Hin; cbn [map]; [exact I|].
  destruct i; cbn [item_event declared]; [split; [exact Hin|]|..]; apply IH, Hin.
Qed.
Lemma declared_blocks file bs : forall apps, declared apps (flat_map (block_events file) bs).
Proof.
  induction bs as [|b r IH]; intros apps; cbn [flat_map]; [exact I|].
  unfold block_events at 1. cbn [app declared]. apply declared_app; [apply declared_items; left; reflexivity|exact IH].
Qed.
Lemma declared_closure ws : forall apps, declared apps (closure_events ws).
Proof.
  induction ws as [|w r IH]; intros apps; [exact I|]. unfold closure_events. cbn [flat_map].
  apply declared_app; [apply declared_blocks|exact IH].
Qed.

Lemma app_locs_app e1 e2 : app_locs_of (e1 ++ e2) = app_locs_of e1 ++ app_locs_of e2.
Proof. unfold app_locs_of. apply flat_map_app. Qed.
Lemma ep_locs_app e1 e2 : ep_locs_of (e1 ++ e2) = ep_locs_of e1 ++ ep_locs_of e2.
Proof. unfold ep_locs_of. apply flat_map_app. Qed.

Lemma app_locs_items file a items : app_locs_of (map (item_event file a) items) = [].
Proof. induction items as [|i r IH]; [reflexivity|]. destruct i; cbn [map item_event app_locs_of flat_map app]; exact IH. Qed.
Lemma app_locs_blocks file bs : app_locs_of (flat_map (block_events file) bs) = map (fun p => LAt file (fst p) (snd p)) (app_pos bs).
Proof.
  induction bs as [|b r IH]; [reflexivity|]. cbn [flat_map]. rewrite app_locs_app. unfold block_events at 1.
  change (app_locs_of (EvApp (b_app b) (LAt file (b_line b) (b_col b)) :: map (item_event file (b_app b)) (b_items b)))
    with (LAt file (b_line b) (b_col b) :: app_locs_of (map (item_event file (b_app b)) (b_items b))).
  rewrite app_locs_items, IH. reflexivity.
Qed.
Lemma ep_locs_items file a items : ep_locs_of (map (item_event file a) items) = map (fun p => LAt file (fst p) (snd p)) (flat_map item_pos items).
Proof.
  induction items as [|i r IH]; [reflexivity|]. destruct i; cbn [map item_event ep_locs_of flat_map app item_pos fst snd];
    fold (ep_locs_of (map (item_event file a) r)); rewrite IH; reflexivity.
Qed.
Lemma ep_locs_blocks file bs : ep_locs_of (flat_map (block_events file) bs) = map (fun p => LAt file (fst p) (snd p)) (ep_pos bs).
Proof.
  induction bs as [|b r IH]; [reflexivity|]. cbn [flat_map]. rewrite ep_locs_app. unfold block_events at 1.
  change (ep_locs_of (EvApp (b_app b) (LAt file (b_line b) (b_col b)) :: map (item_event file (b_app b)) (b_items b)))
    with (ep_locs_of (map (item_event file (b_app b)) (b_items b))).
  rewrite ep_locs_items, IH. unfold ep_pos. cbn [flat_map]. rewrite map_app. reflexivity.
Qed.

Lemma NoDup_app_disjoint {A} (l1 l2:list A) : NoDup l1 -> NoDup l2 -> (forall x, In x l1 -> In x l2 -> False) -> NoDup (l1 ++ l2).
Proof.
  induction l1 as [|x r IH]; intros H1 H2 Hd; [exact H2|]. cbn [app]. inversion H1; subst. constructor.
  - intros Hin. apply in_app_or in Hin. destruct Hin as [Hin|Hin]; [contradiction|]. eapply Hd; [left; reflexivity|exact Hin].
  - apply IH; [assumption|assumption|]. intros y Hy1 Hy2. eapply Hd; [right; exact Hy1|exact Hy2].
Qed.
Lemma NoDup_map_LAt file ps : NoDup ps -> NoDup (map (fun p : N * N => LAt file (fst p) (snd p)) ps).
Proof.
  induction 1 as [|p r Hn Hr IH]; [constructor|]. cbn [map]. constructor; [|exact IH].
  intros Hin. apply in_map_iff in Hin. destruct Hin as ([l c] & E & Hin). destruct p as [l' c']. cbn [fst snd] in E.
  injection E as -> ->. contradiction.
Qed.

(* the locations recorded by a closure whose files have pairwise distinct names and, inside one file, pairwise
   distinct positions *)
Lemma closure_locs (f:list block -> list (N*N)) (locs:list event -> list lc) :
  (forall e1 e2, locs (e1 ++ e2) = locs e1 ++ locs e2) -> locs [] = [] ->
  (forall file bs, locs (flat_map (block_events file) bs) = map (fun p => LAt file (fst p) (snd p)) (f bs)) ->
  forall ws, NoDup (map fst ws) -> Forall (fun w => NoDup (f (snd w))) ws -> NoDup (locs (closure_events ws)) /\
    forall x, In x (locs (closure_events ws)) -> exists file l c, x = LAt file l c /\ In file (map fst ws).
Proof.
  intros Happ Hnil Hb. induction ws as [|[file bs] r IH]; intros Hn Hf.
  - unfold closure_events. cbn [flat_map]. rewrite Hnil. split; [constructor|intros x []].
  - unfold closure_events in *. cbn [flat_map]. rewrite Happ. unfold walk_events at 1 3. cbn [fst snd map] in *.
    inversion Hn as [|? ? Hnot Hn']; subst. inversion Hf as [|? ? Hf1 Hf']; subst. cbn [snd] in Hf1.
    destruct (IH Hn' Hf') as [IH1 IH2]. rewrite Hb. split.
    + apply NoDup_app_disjoint; [apply NoDup_map_LAt, Hf1|exact IH1|].
      intros x Hx1 Hx2. apply in_map_iff in Hx1. destruct Hx1 as (p & <- & _).
      destruct (IH2 _ Hx2) as (file' & l & c & E & Hin). injection E as <- _ _. contradiction.
    + intros x Hx. apply in_app_or in Hx. destruct Hx as [Hx|Hx].
      * apply in_map_iff in Hx. destruct Hx as (p & <- & _). exists file, (fst p), (snd p). split; [reflexivity|left; reflexivity].
      * destruct (IH2 _ Hx) as (file' & l & c & E & Hin). exists file', l, c. split; [exact E|right; exact Hin].
Qed.

Theorem closure_events_wf ws :
  NoDup (map fst ws) ->
  Forall (fun w => NoDup (app_pos (snd w)) /\ NoDup (ep_pos (snd w))) ws ->
  wf_events (closure_events ws).
Proof.
  intros Hn Hf. unfold wf_events. apply wf_from_nodup; cbn [rev app].
  - apply (closure_locs app_pos app_locs_of app_locs_app eq_refl app_locs_blocks ws Hn).
    eapply Forall_impl; [|exact Hf]. intros w [H _]. exact H.
  - apply (closure_locs ep_pos ep_locs_of ep_locs_app eq_refl ep_locs_blocks ws Hn).
    eapply Forall_impl; [|exact Hf]. intros w [_ H]. exact H.
  - apply declared_closure.
Qed.
