(* C01 obligations against the CURRENT source: Gen/Guards.v is regenerated from parse.go / constants.go /
   sysl.go on every run; `guards_ok` stops checking the moment a recover is removed, a stage error is
   dropped, or an exit code becomes zero. *)
From Coq Require Import List ZArith Bool.
Import ListNotations.
Require Import Verif.Total.Pipeline Verif.Total.FieldPanics Verif.Total.RunC01 Verif.Total.PipelineProps Verif.Gen.Guards.
Local Open Scope Z_scope.

Lemma guards_ok : all_guarded guards = true.
Proof. reflexivity. Qed.

Lemma exit_codes : parse_error_code guards = 2 /\ import_error_code guards = 1 /\ default_exit_code guards = 1.
Proof. repeat split. Qed.

Theorem current_never_crashes fs post :
  Forall unguarded_stages_dont_panic fs -> compile guards fs post <> OCrash.
Proof. apply compile_never_crashes, guards_ok. Qed.

Theorem current_error_status fs post c : compile guards fs post = OError c -> c = 1 \/ c = 2.
Proof.
  intros H. destruct (compile_error_nonzero guards fs post c guards_ok H) as [_ Hc].
  destruct exit_codes as (E1 & E2 & E3). rewrite E1, E2, E3 in Hc. tauto.
Qed.

Theorem current_model_iff_all_ok fs post :
  compile guards fs post = OModel <-> Forall file_all_ok fs /\ post = ROk.
Proof. apply compile_model_iff_all_ok, guards_ok. Qed.

Theorem current_field_class d :
  compile guards [field_behaviour d] ROk = if field_panics d then OError 2 else OModel.
Proof. rewrite (field_compile_class guards d guards_ok). destruct exit_codes as (-> & _). reflexivity. Qed.
