(* C01, foreign files of an import closure: obligations against the CURRENT source (Gen/ImporterRec.v, regenerated on
   every run by translate/importerrec.go). The model Total/ImportRec.v was written against exactly the recursion skeleton
   and marker operations reviewed below; when the source changes any of them - the in-progress map created or reset
   somewhere else, a mark without its deferred done-mark, a circularity test moved or dropped, a new descent into a
   $ref, the XSD importer no longer registering a type before its children, importForeign without its recover or
   outside its goroutine, a further foreign format on the compile path - a `reflexivity` below stops checking. *)
From Coq Require Import String List Bool.
Import ListNotations.
Require Import Verif.Total.ImportRecTypes Verif.Gen.ImporterRec.
Local Open Scope string_scope.

Definition refmap_ops_reviewed : list (string * rmop) := [
  ("OpenAPI3Importer.loadTypeSchema", RNilTest "==");
  ("OpenAPI3Importer.loadTypeSchema", RMake "o.refMap == nil");
  ("OpenAPI3Importer.loadTypeSchema", RSet "refName" "true" true);
  ("OpenAPI3Importer.loadTypeSchema", RSet "schema.Items.Ref" "false" false);
  ("OpenAPI3Importer.loadTypeSchema", RDeferDone "schema.Items.Ref");
  ("OpenAPI3Importer.loadTypeSchema", RSet "subschema.Ref" "false" false);
  ("OpenAPI3Importer.loadTypeSchema", RDoneNow "subschema.Ref");
  ("OpenAPI3Importer.isCircular", RNilTest "==");
  ("OpenAPI3Importer.isCircular", RGet "ref.Ref")].
Definition rec_skeleton_reviewed : list (string * list string) := [
  ("OpenAPI3Importer.loadTypeSchema", [
     "if o.refMap == nil {";
     "  o.refMap = make(map[string]bool)";
     "}";
     "defer o.pushName(name)()";
     "setDefined := func {";
     "  o.refMap[refName] = true";
     "}";
     "switch  {";
     "  case schema.Type.Is(openapi3.TypeArray) {";
     "    if schema.Items == nil {";
     "      return nil, fmt.Errorf(""array type %s has no items"", name)";
     "    }";
     "    if childName := o.typeNameFromSchemaRef(schema.Items); childName == OpenAPI_OBJECT || innerArray {";
     "      defer o.pushName(""obj"")()";
     "      if o.isCircular(schema.Items) {";
     "        return nil, errCircularType(o.nameStack)";
     "      }";
     "      if schema.Items.Ref != """" {";
     "        o.refMap[schema.Items.Ref] = false";
     "      }";
     "      defer setDefined(schema.Items.Ref)";
     "      items, err = o.loadTypeSchema(name+""_obj"", schema.Items.Value)";
     "    }";
     "  }";
     "  case schema.Type.Is(openapi3.TypeObject), schema.Type.Is(OpenAPI_EMPTY), schema.Type == nil {";
     "    if len(schema.OneOf) != 0 {";
     "      for range schema.OneOf {";
     "        field, err := o.buildField(o.typeNameFromSchemaRef(subSchema), subSchema)";
     "      }";
     "    }";
     "    for range schema.AllOf {";
     "      if o.isCircular(subschema) {";
     "        return nil, errCircularType(o.nameStack)";
     "      }";
     "      if subschema.Ref != """" {";
     "        o.refMap[subschema.Ref] = false";
     "      }";
     "      subType, err := o.loadTypeSchema("""", subschema.Value)";
     "      setDefined(subschema.Ref)";
     "    }";
     "    for range schema.Properties {";
     "      f, err := o.buildField(fname, prop)";
     "    }";
     "  }";
     "}"]);
  ("OpenAPI3Importer.buildField", [
     "typeName := o.typeNameFromSchemaRef(prop)";
     "if prop.Ref != """" {";
     "  return f, nil";
     "}";
     "defer o.pushName(name)()";
     "if isArray && prop.Value.Items.Ref != """" {";
     "  f.Type = &Array{Items: nameOnlyType(o.typeNameFromSchemaRef(prop.Value.Items))}";
     "  return f, nil";
     "}";
     "if isArray && typeName != OpenAPI_OBJECT && prop.Value.Items.Value.Type.Is(openapi3.TypeArray) {";
     "  ns := o.nameStack";
     "  o.nameStack = nil";
     "  defer func() { o.nameStack = ns }()";
     "  t, err := o.loadTypeSchema(strings.Join(ns, ""_""), prop.Value.Items.Value)";
     "}";
     "switch typeName {";
     "  case OpenAPI_OBJECT {";
     "    ns := o.nameStack";
     "    o.nameStack = nil";
     "    defer func() { o.nameStack = ns }()";
     "    t, err := o.loadTypeSchema(strings.Join(ns, ""_""), prop.Value)";
     "  }";
     "}"]);
  ("OpenAPI3Importer.typeNameFromSchemaRef", [
     "if idx := strings.Index(ref.Ref, openapiv3DefinitionPrefix); idx >= 0 {";
     "  return o.existingTypeOrSyslSafeName(strings.TrimPrefix(ref.Ref[idx:], openapiv3DefinitionPrefix))";
     "}";
     "if idx := strings.Index(ref.Ref, openapiv2DefinitionPrefix); idx >= 0 {";
     "  return o.existingTypeOrSyslSafeName(strings.TrimPrefix(ref.Ref[idx:], openapiv2DefinitionPrefix))";
     "}";
     "switch  {";
     "  case ref.Value.Type.Is(openapi3.TypeArray) {";
     "    if ref.Value.Items == nil {";
     "      return OpenAPI_OBJECT";
     "    }";
     "    return o.typeNameFromSchemaRef(ref.Value.Items)";
     "  }";
     "}"]);
  ("OpenAPI3Importer.isCircular", [
     "if o.refMap == nil || ref.Ref == """" {";
     "  return false";
     "}";
     "t, visited := o.refMap[ref.Ref]"]);
  ("OpenAPI3Importer.typeAliasForSchema", [
     "name := o.typeNameFromSchemaRef(ref)";
     "if name == OpenAPI_OBJECT {";
     "  t = nameOnlyType(strings.Join(o.nameStack, ""_""))";
     "}";
     "if _, ok := t.(*Array); !ok && ref.Ref == """" && ref.Value.Type.Is(openapi3.TypeArray) {";
     "  return &Array{Items: t}";
     "}"]);
  ("loadSchemaTypes", [
     "for range xsdToSyslMappings {";
     "  types.Add(makeNamespacedType(from, to))";
     "}";
     "for range keys {";
     "  if name.Local == ""_self"" {";
     "    t := findType(data, &types)";
     "    if t == nil {";
     "      t = makeType(name, data, &types, logger)";
     "      if name.Space != """" {";
     "        types.Add(makeNamespacedType(name, t))";
     "      }";
     "    }";
     "  }";
     "  if t := findType(data, &types); t == nil {";
     "    types.Add(makeType(name, data, &types, logger))";
     "  }";
     "}"]);
  ("findType", [
     "if res, found := knownTypes.Find(fmt.Sprintf(""%s:%s"", xsd.XMLName(t).Space, xsd.XMLName(t).Local)); found {";
     "  return res";
     "}";
     "if res, found := knownTypes.Find(xsd.XMLName(t).Local); found {";
     "  return res";
     "}"]);
  ("makeType", [
     "switch t := from.(type) {";
     "  case *xsd.ComplexType {";
     "    if isExtendedType(t) {";
     "      return makeExtendedType(t, knownTypes, logger)";
     "    }";
     "    return makeComplexType(t, knownTypes, logger)";
     "  }";
     "  case *xsd.SimpleType {";
     "    return makeSimpleType(t, knownTypes, logger)";
     "  }";
     "}"]);
  ("makeComplexType", [
     "createChildItem := func {";
     "  childType := findType(data, knownTypes)";
     "  if childType == nil {";
     "    childType = makeType(name, data, knownTypes, logger)";
     "    knownTypes.Add(childType)";
     "  }";
     "}";
     "knownTypes.Add(item)";
     "for range getAllElements(from) {";
     "  c := createChildItem(child.Name, child.Type, false, child.Optional, child.Plural)";
     "}";
     "for range from.Attributes {";
     "  c := createChildItem(child.Name, child.Type, true, child.Optional, child.Plural)";
     "}"]);
  ("makeExtendedType", [
     "return &Alias{ baseType: baseType{name: from.Name.Local}, Target: makeType(from.Name, from.Base, knownTypes, logger), }"]);
  ("makeSimpleType", [
     "item := &Alias{ baseType: baseType{name: from.Name.Local}, Target: makeType(from.Name, from.Base, knownTypes, logger), }"]);
  ("getAllElements", [
     "return getAllElementsBelow(current, map[*xsd.ComplexType]bool{})"]);
  ("getAllElementsBelow", [
     "if current == nil {";
     "  return nil";
     "}";
     "if concreteCurrent, cok := current.(*xsd.ComplexType); cok {";
     "  if parent == nil || parent == xsd.AnyType {";
     "    return concreteCurrent.Elements";
     "  }";
     "  if concreteParent, pok := parent.(*xsd.ComplexType); pok {";
     "    onPath[concreteCurrent] = true";
     "    if onPath[concreteParent] {";
     "      return concreteCurrent.Elements";
     "    }";
     "    inherited := getAllElementsBelow(concreteParent, onPath)";
     "  }";
     "}"])].

Lemma refmap_ops_current : refmap_ops = refmap_ops_reviewed.
Proof. reflexivity. Qed.
Lemma rec_skeleton_current : rec_skeleton = rec_skeleton_reviewed.
Proof. reflexivity. Qed.

(* the marker discipline that Total/ImportRecProps.load_frame / load_terminates rest on, read off the current table *)
Lemma refmap_discipline_current :
  made_only_when_nil refmap_ops = true /\ marks_have_done refmap_ops = true /\ done_only_deferred refmap_ops = true.
Proof. repeat split; reflexivity. Qed.

(* which foreign formats a compilation can reach at all: detectFileType offers four, importForeign hands three of them
   to importer.Factory. XSD, Avro, SQL, JSON schema ... are not among them: `import x.xsd` ends in "has unknown format",
   the XSD importer (makeType <-> makeComplexType, getAllElements) is not on the compile path. importForeign converts a
   panic of an importer into its error result and runs in a goroutine of its own - where a stack overflow would end the
   process, which is why the recursion's termination is a theorem (C01_swagger_import_terminates) and not a recover. *)
Lemma foreign_path_current :
  foreign_formats = ["OpenAPI3"; "OpenAPI2"; "SYSL"; "Protobuf"] /\
  foreign_cases = [("SYSL", false); ("SyslPB", false); ("OpenAPI3,OpenAPI2,Protobuf", true); ("default", false)] /\
  foreign_recover = true /\ foreign_in_goroutine = true.
Proof. repeat split; reflexivity. Qed.
