(* C01 correspondence glue for stream "swagger-cycle": a generated Swagger 2 document (as the schema graph the
   importer sees) with what the real compilation of `import api.yaml as ... ~swagger` reported. *)
From Coq Require Import List Bool Arith PArith.
Import ListNotations.
Require Import Verif.Total.ImportRec.

Inductive sobs :=
  | SModel      (* the closure compiled *)
  | SSyntax     (* the importer finished, but the Sysl text it wrote does not parse: ParseError "<file> has syntax errors" *)
  | SLib        (* kin-openapi (openapi2conv / loader) refused the document before convertSpec ran: not comparable *)
  | SCirc       (* ParseError "... circular reference detected for type ..." *)
  | SNoItems    (* ParseError "... array type ... has no items" *)
  | SOther.     (* any other reported error *)
Definition swagger_case := (sdoc * sobs)%type.

(* the document is within the model's frame (inline schemas numbered after their parent) and the model, run with the
   fuel that ImportRecProps.import_swagger_terminates shows to suffice, predicts the observation exactly *)
Definition c01_swagger_ok (c:swagger_case) : bool :=
  inline_increasing (fst c) &&
  match import_swagger (fst c), snd c with
  | _, SLib => true
  | LOk, SModel | LOk, SSyntax | LCirc, SCirc | LNoItems, SNoItems => true
  | _, _ => false
  end.
