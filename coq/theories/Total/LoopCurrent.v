(* C01, "never fails to terminate": the hand-written loops and recursions of the parser proper (pkg/parse and the
   hand-written part of pkg/grammar) that the translator LoopSites finds in the CURRENT source, each with its status.
   `loop_sites_parser_current` (reflexivity) stops checking when such a loop or recursion is added, removed or its
   condition changes. The generated ANTLR lexer / parser (counted by the translator, not listed) is outside every model:
   its termination is observed under the harness deadline only. The loops of the other compile-path packages
   (importers, arr.ai bridge, ChrootFs) are listed in Gen.LoopSites.loop_sites and named in notes/C01.md as not proved. *)
From Coq Require Import String List Bool NArith.
Import ListNotations.
Require Import Verif.Total.KillTypes Verif.Gen.LoopSites.
Local Open Scope string_scope.

Inductive lstatus :=
  | Proved (theorem:string)        (* a termination theorem over a model, exported in Properties/C01.v *)
  | ByConstruction (model:string)  (* the model is a structural recursion on its input (total in Coq by construction) *)
  | NotProved (why:string).        (* named here and in the notes; bounded only by the harness deadline *)

Definition parser_loop_status : list (string * string * lkind * lstatus) := [
  ("pkg/grammar", "getNextToken", LFor "ls.spaces != getPreviousIndent(ls.level)", Proved "C01_indent_loop_terminates");
  ("pkg/parse", "Parser.collectSpecs", LRec, Proved "C01_collector_terminates");
  ("pkg/parse", "Parser.inferExprType", LRec, NotProved "recursion on the sub-expressions of a finite sysl.Expr; no model");
  ("pkg/parse", "TreeShapeListener.EnterView", LFor "index < len(sc.Text)", NotProved "scan of a string with a computed step; no model");
  ("pkg/parse", "TreeShapeListener.ExitFinal_else", LFor "ifelse.GetIfelse().IfFalse != nil", NotProved "walk down the IfFalse chain of an expression the listener has just built (acyclic by construction); no model");
  ("pkg/parse", "TreeShapeListener.ExitTemplate_statement", LFor "", NotProved "walk down the Rhs chain of an expression the listener has just built (acyclic by construction); no model");
  ("pkg/parse", "TreeShapeListener.makeArraysAttribute", LRec, NotProved "recursion on the children of a finite parse tree; no model");
  ("pkg/parse", "TreeShapeListener.reverseOp", LRec, NotProved "recursion on the sub-expressions of a finite sysl.Expr; no model");
  ("pkg/parse", "addIfElseControl", LRec, NotProved "recursion down the IfFalse chain of a finite sysl.Expr; no model");
  ("pkg/parse", "addStmt", LRec, NotProved "recursion on the sub-expressions of a finite sysl.Expr; no model");
  ("pkg/parse", "applyAttributes", LRec, NotProved "recursion on the nested statements of a finite sysl.Statement (C13 models the collector's effect, not this walk)");
  ("pkg/parse", "checkCalls", LRec, NotProved "recursion on the nested statements of a finite sysl.Statement; no model");
  ("pkg/parse", "extractImports", LFor "scanner.Scan()", ByConstruction "Imports/Extract.v extract: a filter over the lines (bufio.Scanner over a byte slice, standard library)");
  ("pkg/parse", "flattenSpecs", LRec, Proved "C01_flatten_terminates");
  ("pkg/parse", "injectType", LRec, NotProved "recursion on the sub-expressions of a finite sysl.Expr; no model");
  ("pkg/parse", "lastToken", LRec, NotProved "recursion on the last child of a finite parse tree; no model") ].

Lemma loop_sites_parser_current : loop_sites_parser = map (fun r => (fst (fst (fst r)), snd (fst (fst r)), snd (fst r))) parser_loop_status.
Proof. reflexivity. Qed.

(* the whole table, for the record: its size changes when any compile-path package gains or loses such a site *)
Lemma loop_sites_count : List.length loop_sites = 47%nat /\ List.length loop_sites_parser = 16%nat.
Proof. split; reflexivity. Qed.
