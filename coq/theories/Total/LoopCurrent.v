(* C01, "never fails to terminate": the hand-written loops and recursions of the parser proper (pkg/parse and the
   hand-written part of pkg/grammar) that the translator LoopSites finds in the CURRENT source, each with its status.
   `loop_sites_parser_current` (reflexivity) stops checking when such a loop or recursion is added, removed or its
   condition changes. The generated ANTLR lexer / parser (counted by the translator, not listed) is outside every model:
   its termination is observed under the harness deadline only. The loops of the other compile-path packages
   (importers, arr.ai bridge, ChrootFs) are listed in Gen.LoopSites.loop_sites and named in notes/C01.md as not proved. *)
From Coq Require Import String List Bool NArith.
Import ListNotations.
Require Import Verif.Total.KillTypes Verif.Gen.LoopSites.
Local Open Scope string_scope.

Inductive lstatus :=
  | Proved (theorem:string)        (* a termination theorem over a model, exported in Properties/C01.v *)
  | ByConstruction (model:string)  (* the model is a structural recursion on its input (total in Coq by construction) *)
  | NotProved (why:string)         (* named here and in the notes; bounded only by the harness deadline *)
  | NotARecursion (why:string)     (* a false positive of the translator's name-based call graph *)
  | OffCompilePath (why:string).   (* the function cannot be reached from parse.Parser.Parse (Total/ImportRecCurrent.foreign_path_current) *)

Definition parser_loop_status : list (string * string * lkind * lstatus) := [
  ("pkg/grammar", "getNextToken", LFor "ls.spaces != getPreviousIndent(ls.level)", Proved "C01_indent_loop_terminates");
  ("pkg/parse", "Parser.collectSpecs", LRec, Proved "C01_collector_terminates");
  ("pkg/parse", "Parser.inferExprType", LRec, NotProved "recursion on the sub-expressions of a finite sysl.Expr; no model");
  ("pkg/parse", "TreeShapeListener.EnterView", LFor "index < len(sc.Text)", NotProved "scan of a string with a computed step; no model");
  ("pkg/parse", "TreeShapeListener.ExitFinal_else", LFor "ifelse.GetIfelse().IfFalse != nil", NotProved "walk down the IfFalse chain of an expression the listener has just built (acyclic by construction); no model");
  ("pkg/parse", "TreeShapeListener.ExitTemplate_statement", LFor "", NotProved "walk down the Rhs chain of an expression the listener has just built (acyclic by construction); no model");
  ("pkg/parse", "TreeShapeListener.makeArraysAttribute", LRec, NotProved "recursion on the children of a finite parse tree; no model");
  ("pkg/parse", "TreeShapeListener.reverseOp", LRec, NotProved "recursion on the sub-expressions of a finite sysl.Expr; no model");
  ("pkg/parse", "addIfElseControl", LRec, NotProved "recursion down the IfFalse chain of a finite sysl.Expr; no model");
  ("pkg/parse", "addStmt", LRec, NotProved "recursion on the sub-expressions of a finite sysl.Expr; no model");
  ("pkg/parse", "applyAttributes", LRec, NotProved "recursion on the nested statements of a finite sysl.Statement (C13 models the collector's effect, not this walk)");
  ("pkg/parse", "checkCalls", LRec, NotProved "recursion on the nested statements of a finite sysl.Statement; no model");
  ("pkg/parse", "extractImports", LFor "scanner.Scan()", ByConstruction "Imports/Extract.v extract: a filter over the lines (bufio.Scanner over a byte slice, standard library)");
  ("pkg/parse", "flattenSpecs", LRec, Proved "C01_flatten_terminates");
  ("pkg/parse", "injectType", LRec, NotProved "recursion on the sub-expressions of a finite sysl.Expr; no model");
  ("pkg/parse", "lastToken", LRec, NotProved "recursion on the last child of a finite parse tree; no model") ].

Lemma loop_sites_parser_current : loop_sites_parser = map (fun r => (fst (fst (fst r)), snd (fst (fst r)), snd (fst r))) parser_loop_status.
Proof. reflexivity. Qed.

(* ---- the importers (pkg/importer): reached from parseSpecs -> importForeign -> importer.Factory(...).Load for the formats
   OpenAPI3 / OpenAPI2 / Protobuf only (foreign_path_current). What bounds each recursion on a CYCLIC schema graph is a
   fact of Gen/ImporterRec.v (rec_skeleton_current, refmap_discipline_current). ---- *)
Definition importer_loop_status : list (string * string * lkind * lstatus) := [
  ("pkg/importer", "IndentWriter.Write", LRec, NotARecursion "calls the Write of the embedded io.Writer, not itself");
  ("pkg/importer", "OpenAPI3Importer.buildField", LMutual 2, Proved "C01_swagger_import_terminates: no descent into a property that is a $ref or an array of a $ref; an inline object goes to loadTypeSchema");
  ("pkg/importer", "OpenAPI3Importer.loadTypeSchema", LMutual 2, Proved "C01_swagger_import_terminates: a $ref is followed (allOf, items named `object`) only after isCircular said no and refMap[ref] = false was set; setDefined(ref) clears the mark - deferred for array items, right after the part for allOf (since c310a5e) - so a successful call restores the marks (C01_swagger_marks_restored); refMap is created once");
  ("pkg/importer", "OpenAPI3Importer.typeNameFromSchemaRef", LRec, Proved "C01_swagger_import_terminates (tn_obj): stops at a $ref into the definitions, else walks down inline `items`; $refs to other places are not modelled (kin-openapi refuses circles of them: observed by stream foreign-cycle)");
  ("pkg/importer", "exampleAttrStr", LRec, NotProved "recursion on a decoded JSON value (finite tree); the map / slice cases re-enter once with a string; no model");
  ("pkg/importer", "getAllElementsBelow", LRec, OffCompilePath "XSD: walks up the Base chain of a complex type; since 4924daa the types passed are kept in onPath and a type derived from itself ends the chain (rec_skeleton_current); not proved");
  ("pkg/importer", "getSyslTypeName", LRec, NotProved "recursion on the Items / Target chain of the importer's Type values, which the importers build without pointer circles; no model");
  ("pkg/importer", "makeComplexType", LMutual 4, OffCompilePath "XSD: knownTypes.Add(item) BEFORE the children are built and findType before makeType in createChildItem (rec_skeleton_current) stop an element of its own / an enclosing type; not proved");
  ("pkg/importer", "makeExtendedType", LMutual 4, OffCompilePath "XSD: makeType on the Base of a simpleContent extension; no marker: an extension circle is left to the xsd parser; not proved");
  ("pkg/importer", "makeSimpleType", LMutual 4, OffCompilePath "XSD: makeType on the Base of a simple type; no marker; not proved");
  ("pkg/importer", "makeType", LMutual 4, OffCompilePath "XSD: dispatch on the kind of type; see makeComplexType");
  ("pkg/importer", "mapOpenAPITypeAndFormatToType", LRec, NotProved "one re-entry with the empty format, which every per-type table contains; no model") ].

(* the recursive functions of pkg/importer (a plain `for` there is not pinned) *)
Definition in_importer (r:string * string * lkind) : bool :=
  String.eqb (fst (fst r)) "pkg/importer" && match snd r with LFor _ => false | _ => true end.
Lemma loop_sites_importer_current :
  filter in_importer loop_sites = map (fun r => (fst (fst (fst r)), snd (fst (fst r)), snd (fst r))) importer_loop_status.
Proof. reflexivity. Qed.

(* The whole table Gen.LoopSites.loop_sites (all 14 compile-path packages: arr.ai bridge, relmod, ChrootFs, ...) is generated
   information only - printed into the notes, not pinned: C01 proves nothing about those loops, and a harmless change there
   must not stop this check. Pinned are the reviewed lists above: the parser proper (loop_sites_parser_current) and the
   recursive functions of the importers (loop_sites_importer_current). *)
