(* C01: MODEL of pkg/parse/utils.go MustUnescape - url.PathUnescape, panic on error, then strings.TrimSpace - and of
   the two listener callbacks that hand it free text the lexer does not restrict (every byte except a line break):
     EnterRet_stmt   payload := MustUnescape(strings.Trim(ctx.TEXT().GetText(), " "))
     EnterCall_stmt  endpoint := MustUnescape(ctx.Target_endpoint().GetText())   (the ARGS-mode token, already trimmed)
   net/url unescape(s, encodePathSegment): a '%' must be followed by two hex digits, otherwise EscapeError - here Panic;
   '+' is kept. Bytes are Coq ascii. TrimSpace is modelled on ASCII white space only (the harness alphabet cannot
   produce a multi-byte Unicode space). Definitions only; proofs in UnescapeProps.v. *)
From Coq Require Import String Ascii List Bool NArith ZArith.
Import ListNotations.
Require Import Verif.Total.FieldPanics.
Local Open Scope string_scope.

Definition pct : ascii := "%"%char.
Definition hexval (c:ascii) : option N :=
  let n := N_of_ascii c in
  if (48 <=? n)%N && (n <=? 57)%N then Some (n - 48)%N
  else if (97 <=? n)%N && (n <=? 102)%N then Some (n - 87)%N
  else if (65 <=? n)%N && (n <=? 70)%N then Some (n - 55)%N
  else None.
Definition is_hex (c:ascii) : bool := match hexval c with Some _ => true | None => false end.
Definition byte_of (a b:ascii) : ascii :=
  match hexval a, hexval b with Some x, Some y => ascii_of_N (16 * x + y) | _, _ => zero end.

Fixpoint unescape (s:string) : outcome string :=
  match s with
  | EmptyString => Ok EmptyString
  | String c r =>
      if Ascii.eqb c pct then
        match r with
        | String a (String b r') =>
            if is_hex a && is_hex b
            then match unescape r' with Ok t => Ok (String (byte_of a b) t) | Panic => Panic end
            else Panic
        | _ => Panic
        end
      else match unescape r with Ok t => Ok (String c t) | Panic => Panic end
  end.

(* strings.TrimSpace on ASCII: \t \n \v \f \r and space *)
Definition is_space (c:ascii) : bool := let n := N_of_ascii c in ((9 <=? n)%N && (n <=? 13)%N) || (n =? 32)%N.
Fixpoint ltrim (p:ascii -> bool) (s:string) : string :=
  match s with EmptyString => EmptyString | String c r => if p c then ltrim p r else s end.
Fixpoint srev_acc (s acc:string) : string := match s with EmptyString => acc | String c r => srev_acc r (String c acc) end.
Definition srev (s:string) : string := srev_acc s EmptyString.
Definition trim (p:ascii -> bool) (s:string) : string := srev (ltrim p (srev (ltrim p s))).

Definition must_unescape (s:string) : outcome string :=
  match unescape s with Ok t => Ok (trim is_space t) | Panic => Panic end.

Definition is_blank32 (c:ascii) : bool := Ascii.eqb c " "%char.
(* `return <text>`: the payload stored in the Return statement *)
Definition ret_payload (text:string) : outcome string := must_unescape (trim is_blank32 text).

(* decidable characterisation: some '%' is not followed by two hex digits *)
Fixpoint bad_escape (s:string) : bool :=
  match s with
  | EmptyString => false
  | String c r =>
      if Ascii.eqb c pct then
        match r with
        | String a (String b r') => negb (is_hex a && is_hex b) || bad_escape r'
        | _ => true
        end
      else bad_escape r
  end.

(* ---- ExitLiteral, E_DIGITS: iVal, err := strconv.ParseInt(txt, 10, 0); syslutil.PanicOnError(err) ----
   txt is the token [0-9]+ (leading zeros allowed); int is 64 bits on every platform the harness runs on *)
Local Open Scope Z_scope.
Fixpoint digits_val (s:string) (acc:Z) : option Z :=
  match s with
  | EmptyString => Some acc
  | String c r => let n := Z.of_N (N_of_ascii c) in
                  if (48 <=? n) && (n <=? 57) then digits_val r (acc * 10 + (n - 48)) else None
  end.
Definition literal_int (txt:string) : outcome Z :=
  match txt with
  | EmptyString => Panic                                   (* ParseInt("") is a syntax error; the token is never empty *)
  | _ => match digits_val txt 0 with
         | Some z => if int64_max <? z then Panic else Ok z   (* ErrRange *)
         | None => Panic                                      (* ErrSyntax; not a digit string *)
         end
  end.
