(* Correspondence glue for Total/Unescape.v (C01, stream unescape-form): position, the text after `return` / `<-`
   up to the end of the line, and what was observed. *)
From Coq Require Import String Ascii List Bool NArith ZArith.
Import ListNotations.
Require Import Verif.Total.FieldPanics Verif.Total.Unescape Verif.Total.NamePos.
Local Open Scope string_scope.

Inductive upos := PRet | PCall | PLit    (* PLit: `x = <digits>` in a view transform (ExitLiteral) *)
  | PApp | PTarget | PMixin.             (* name positions that take free text: `<text>:` at the top of a file (application name),
                                            `<text> <- x` (target of a call), `-|> <text>` (mixin) - each stores
                                            MustUnescapeStrings(app_name.Parts()), one part when the text has no `::` *)
Inductive uobs :=
  | UModel (payload:list N)    (* a model; the bytes stored in Return.Payload / Call.Endpoint *)
  | UInt (z:Z)                 (* a model; the integer stored in the literal *)
  | UNoStatement               (* a model without that statement *)
  | UPanicRecovered            (* ParseError "cannot be processed: invalid URL escape ..." / "... strconv.ParseInt ...": the predicted
                                  listener panic, under walkTree's recover *)
  | USyntax                    (* ParseError "has syntax errors": rejected before the walk *)
  | UOtherError.               (* any other reported error (e.g. a panic recovered after the walks, in lint / post-processing) *)
Definition unescape_case := (upos * string * uobs)%type.

Fixpoint bytes_of (s:string) : list N := match s with EmptyString => [] | String c r => N_of_ascii c :: bytes_of r end.
Fixpoint bytes_eqb (a b:list N) : bool :=
  match a, b with [], [] => true | x :: r, y :: t => N.eqb x y && bytes_eqb r t | _, _ => false end.

(* PRet: payload := MustUnescape(strings.Trim(TEXT, " ")).  PCall: the ARGS-mode token is TrimSpace'd by the lexer
   (trimText), then endpoint := MustUnescape(text) *)
Definition predicted (p:upos) (text:string) : outcome string :=
  match p with
  | PRet => ret_payload text
  | PCall | PApp | PTarget | PMixin => must_unescape (trim is_space text)
  | PLit => Panic
  end.
Definition name_pos (p:upos) : bool := match p with PApp | PTarget | PMixin => true | _ => false end.

Definition c01_unescape_ok (c:unescape_case) : bool :=
  let '(p, text, o) := c in
  match p with
  | PLit => match literal_int text, o with
            | Ok z, UInt z' => Z.eqb z z'
            | Panic, UPanicRecovered => true
            | _, _ => false
            end
  | PApp | PTarget | PMixin =>
      (* exact, three-way: syntax error before the walk / recovered panic of MustUnescape / the stored part
         (Total/NamePos.v; the text must lie in the model's frame: PRINTABLE characters and blanks) *)
      in_frame text &&
      match name_outcome text, o with
      | NSyntax, USyntax => true
      | NPanic, UPanicRecovered => true
      | NOk s, UModel b => bytes_eqb (bytes_of s) b
      | _, _ => false
      end
  | _ => match predicted p text, o with
         | Ok s, UModel b => bytes_eqb (bytes_of s) b
         | Panic, UPanicRecovered => true
         | _, _ => false
         end
  end.
