(* C01 correspondence glue for stream "wrap-form": the application blocks of a closure in walk order (application id,
   number of `!wrap` members) and what the compilation reported. *)
From Coq Require Import List Bool NArith Arith.
Import ListNotations.
Require Import Verif.Total.FieldPanics Verif.Total.Wrap.

Inductive wobs :=
  | WModel            (* the closure compiled *)
  | WPanicRecovered   (* ParseError "... cannot be processed: not implemented yet?": the predicted panic under walkTree's recover *)
  | WOther.           (* anything else that was reported *)
Definition wrap_case := (list wblock * wobs)%type.
Definition c01_wrap_ok (c:wrap_case) : bool :=
  match wrap_walk (fst c) [], snd c with
  | Ok _, WModel => true
  | Panic, WPanicRecovered => true
  | _, _ => false
  end.
