(* C01: exact predictor of the listener's panic in the name positions (Total/NamePos.v). *)
From Coq Require Import String Ascii List Bool NArith Lia.
Import ListNotations.
Require Import Verif.Total.FieldPanics Verif.Total.Unescape Verif.Total.UnescapeProps Verif.Total.NamePos.
Local Open Scope string_scope.

Lemma name_char_same c : NamePos.name_char c = UnescapeProps.name_char c.
Proof. reflexivity. Qed.
Lemma name_start_char c : name_start c = true -> UnescapeProps.name_char c = true.
Proof.
  unfold name_start, UnescapeProps.name_char. intro H.
  apply orb_true_iff in H. destruct H as [H|H]; [apply orb_true_iff in H; destruct H as [H|H]|]; rewrite H; repeat rewrite orb_true_r; reflexivity.
Qed.

Lemma name_body_like : forall s, name_body s = true -> name_like s.
Proof.
  apply (string_ind3 (fun s => name_body s = true -> name_like s)).
  - intros _. constructor.
  - intros c. cbn. destruct (Ascii.eqb c pct); [discriminate|]. rewrite andb_true_r. intro H. apply nl_chr; [exact H|constructor].
  - intros c d. cbn [name_body]. destruct (Ascii.eqb c pct) eqn:Ec; [discriminate|].
    intro H. apply andb_true_iff in H. destruct H as [Hc H]. apply nl_chr; [exact Hc|].
    cbn [name_body] in H. destruct (Ascii.eqb d pct); [discriminate|]. rewrite andb_true_r in H. apply nl_chr; [exact H|constructor].
  - intros c d e s IHs IHde IHe. cbn [name_body]. destruct (Ascii.eqb c pct) eqn:Ec.
    + apply Ascii.eqb_eq in Ec. subst c. intro H. apply andb_true_iff in H. destruct H as [H Hs]. apply andb_true_iff in H. destruct H as [Hd He].
      apply nl_pct; [exact Hd|exact He|apply IHs, Hs].
    + intro H. apply andb_true_iff in H. destruct H as [Hc H]. apply nl_chr; [exact Hc|apply IHde, H].
Qed.

Lemma name_tokb_like : forall s, name_tokb s = true -> name_like s.
Proof.
  apply (string_ind3 (fun s => name_tokb s = true -> name_like s)).
  - discriminate.
  - intros c. cbn. destruct (Ascii.eqb c pct); [discriminate|]. rewrite andb_true_r. intro H. apply nl_chr; [apply name_start_char, H|constructor].
  - intros c d. cbn [name_tokb]. destruct (Ascii.eqb c pct); [discriminate|].
    intro H. apply andb_true_iff in H. destruct H as [Hc H]. apply nl_chr; [apply name_start_char, Hc|apply name_body_like, H].
  - intros c d e s IHs IHde IHe. cbn [name_tokb]. destruct (Ascii.eqb c pct) eqn:Ec.
    + apply Ascii.eqb_eq in Ec. subst c. intro H. apply andb_true_iff in H. destruct H as [H Hs]. apply andb_true_iff in H. destruct H as [Hd He].
      apply nl_pct; [exact Hd|exact He|apply IHs, Hs].
    + intro H. apply andb_true_iff in H. destruct H as [Hc H]. apply nl_chr; [apply name_start_char, Hc|apply name_body_like, H].
Qed.

(* a name of ONE word is a Name token or a syntax error: it never makes the listener panic *)
Theorem one_word_name_never_panics text : nwords text false = 1 -> name_outcome text <> NPanic.
Proof.
  intro H1. unfold name_outcome, accepts. rewrite H1. destruct (name_tokb (trim is_blank32 text)) eqn:Ht; [|discriminate].
  destruct (name_token_never_panics _ (name_tokb_like _ Ht)) as (t & E). rewrite E. discriminate.
Qed.

(* the exact predictor: MustUnescape panics in a name position exactly for a text of two or more words in which some
   '%' is not followed by two hex digits - every text, any length *)
Theorem name_outcome_panics_iff text :
  name_outcome text = NPanic <-> 2 <= nwords text false /\ bad_escape (trim is_blank32 text) = true.
Proof.
  destruct (nwords text false) as [|[|n]] eqn:Hn.
  - unfold name_outcome, accepts. rewrite Hn. split; [discriminate|intros [H _]; lia].
  - split; [intro H; exfalso; exact (one_word_name_never_panics text Hn H)|intros [H _]; lia].
  - unfold name_outcome, accepts. rewrite Hn. rewrite <- must_unescape_panics_iff.
    destruct (must_unescape (trim is_blank32 text)); split; try discriminate; try (intros [_ H]; discriminate).
    + intros _. split; [lia|reflexivity].
    + reflexivity.
Qed.

(* syntax error exactly when the text is empty / blank, or one word that is not a Name token *)
Theorem name_outcome_syntax_iff text :
  name_outcome text = NSyntax <-> nwords text false = 0 \/ (nwords text false = 1 /\ name_tokb (trim is_blank32 text) = false).
Proof.
  unfold name_outcome, accepts. destruct (nwords text false) as [|[|n]] eqn:Hn.
  - split; [intros _; left; reflexivity|reflexivity].
  - destruct (name_tokb (trim is_blank32 text)) eqn:Ht.
    + destruct (must_unescape (trim is_blank32 text)); split; try discriminate; intros [H|[_ H]]; discriminate.
    + split; [intros _; right; split; reflexivity|reflexivity].
  - destruct (must_unescape (trim is_blank32 text)); split; try discriminate; intros [H|[H _]]; discriminate.
Qed.

Example name_pos_examples :
  name_outcome "k %zz" = NPanic /\ name_outcome "k%zz" = NSyntax /\ name_outcome "k%20a" = NOk "k a" /\
  name_outcome "k %41 " = NOk "k A" /\ name_outcome "k+" = NSyntax /\ name_outcome "k + %" = NPanic /\
  in_frame "k + %41 G" = true /\ in_frame "k-a" = false.
Proof. vm_compute. repeat split. Qed.
