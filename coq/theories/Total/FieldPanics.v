(* C01 / C02: field-type denotation - pkg/parse/utils.go primitiveFromNativeDataType, listener_impl.go
   EnterTypes / exitSetOrSequence_type / ExitField_type / makeTypeConstraint / makeArrayConstraint -
   as a function returning the constraints or Panic. It is the crash predictor of the listener for field
   declarations (which grammatical inputs make the tree walk panic). Definitions only. *)
From Coq Require Import List ZArith Bool.
Import ListNotations.
Local Open Scope Z_scope.

Inductive native := NInt | NInt32 | NInt64 | NFloat | NFloat32 | NFloat64 | NString | NDate | NBool | NDecimal | NDatetime | NBytes | NAny.
Inductive prim := PAny | PBool | PInt | PFloat | PDecimal | PString | PBytes | PDate | PDatetime.
Inductive wrap := WNone | WSet | WSeq.
Inductive spec := SNone | SSize (n:Z) (m:option Z) | SArr (lo:Z) (hi:option Z).
Record fdecl := { fnat : native; fwrap : wrap; fspec : spec; fopt : bool }.

Record constr := { bw : Z; lmin : Z; lmax : Z; prec : Z; scale : Z; has_range : bool }.
Record fobs := { owrap : wrap; oprim : prim; oopt_outer : bool; oopt_inner : bool; ocons : list constr }.
Inductive outcome (A:Type) := Ok (a:A) | Panic.
Arguments Ok {A}. Arguments Panic {A}.

Definition mkc b mi ma p s r := {| bw := b; lmin := mi; lmax := ma; prec := p; scale := s; has_range := r |}.

Definition prim_of (n:native) : prim * list constr :=
  match n with
  | NInt => (PInt, []) | NInt32 => (PInt, [mkc 32 0 0 0 0 true]) | NInt64 => (PInt, [mkc 64 0 0 0 0 true])
  | NFloat => (PFloat, []) | NFloat32 => (PFloat, [mkc 32 0 0 0 0 false]) | NFloat64 => (PFloat, [mkc 64 0 0 0 0 false])
  | NString => (PString, []) | NDate => (PDate, []) | NBool => (PBool, []) | NDecimal => (PDecimal, [])
  | NDatetime => (PDatetime, []) | NBytes => (PBytes, []) | NAny => (PAny, [])
  end.
Definition bitwidth (cs:list constr) : Z := match find (fun c => 0 <? bw c) cs with Some c => bw c | None => 0 end.
Definition int64_max := 9223372036854775807.
Definition wrap32 (z:Z) : Z := (z + 2147483648) mod 4294967296 - 2147483648.   (* Go: int32(l) *)

(* size specs are accepted on these primitives only; on the others makeTypeConstraint panics *)
Definition sizable (p:prim) : bool := match p with PDate | PDatetime | PInt | PString | PBytes | PDecimal => true | _ => false end.

Definition apply_spec (p:prim) (cs:list constr) (s:spec) : outcome (list constr) :=
  match s with
  | SNone => Ok cs
  | SSize n m =>
      if negb (sizable p) then Panic else
      if int64_max <? n then Panic else
      match p with
      | PDecimal =>
          match m with
          | None => Ok [mkc 0 0 n 0 0 false]
          | Some k => if int64_max <? k then Panic else Ok [mkc 0 0 n (wrap32 n) (wrap32 k) false]
          end
      | _ => Ok [mkc (bitwidth cs) 0 n 0 0 false]
      end
  | SArr lo hi =>
      if negb (sizable p) then Panic else
      (* only the LAST ParseInt error is looked at *)
      match hi with
      | None => if int64_max <? lo then Panic else Ok [mkc (bitwidth cs) lo 0 0 0 false]
      | Some h => if int64_max <? h then Panic else Ok [mkc (bitwidth cs) (if int64_max <? lo then 0 else lo) h 0 0 false]
      end
  end.

Definition denote_field (d:fdecl) : outcome fobs :=
  let '(p, cs) := prim_of (fnat d) in
  match apply_spec p cs (fspec d) with
  | Panic => Panic
  | Ok cs' => Ok {| owrap := fwrap d; oprim := p; oopt_outer := fopt d; oopt_inner := false; ocons := cs' |}
  end.

(* decidable characterisation, proved equivalent in PipelineProps.v *)
Definition fits (z:Z) : bool := z <=? int64_max.
Definition field_panics (d:fdecl) : bool :=
  let p := fst (prim_of (fnat d)) in
  match fspec d with
  | SNone => false
  | SSize n m => negb (sizable p) || negb (fits n) ||
                 match p, m with PDecimal, Some k => negb (fits k) | _, _ => false end
  | SArr lo hi => negb (sizable p) || match hi with None => negb (fits lo) | Some h => negb (fits h) end
  end.
