(* Correspondence glue for the linter model (C01, stream lint-closure): the walks of one compile as the harness
   wrote them (sc.filename and application blocks with their positions, in the order Parse processed the files) and
   what was observed - the process died in one of the two logrus.Fatal sites, or the multiset of warnings. *)
From Coq Require Import String List Bool NArith.
Import ListNotations.
Require Import Verif.Total.Linter.
Local Open Scope string_scope.

Definition Bk (a:string) (l c:N) (its:list item) : block := {| b_app := a; b_line := l; b_col := c; b_items := its |}.

Inductive lobs := OFatal (k:ksite_id) | ODone (ws:list warn).
Definition lint_case := (list fwalk * lobs)%type.

Definition rerr_eqb (a b:rerr) : bool :=
  match a, b with
  | EAppExists, EAppExists | EEpExists, EEpExists | ENoApp, ENoApp | EMethodExists, EMethodExists
  | EMethodNoApp, EMethodNoApp | ECallLocExists, ECallLocExists => true
  | _, _ => false end.
Definition warn_eqb (a b:warn) : bool :=
  match a, b with
  | WRecMethod e l x y z, WRecMethod e' l' x' y' z' => rerr_eqb e e' && lc_eqb l l' && String.eqb x x' && String.eqb y y' && String.eqb z z'
  | WRecCall e, WRecCall e' => rerr_eqb e e'
  | WRedef x l, WRedef x' l' => String.eqb x x' && lc_eqb l l'
  | WLintNoApp l x y, WLintNoApp l' x' y' => lc_eqb l l' && String.eqb x x' && String.eqb y y'
  | WLintNoMethod l x y, WLintNoMethod l' x' y' => lc_eqb l l' && String.eqb x x' && String.eqb y y'
  | WLintNoEndpoint l x y, WLintNoEndpoint l' x' y' => lc_eqb l l' && String.eqb x x' && String.eqb y y'
  | _, _ => false end.
Definition wcount (w:warn) (l:list warn) : nat := List.length (filter (warn_eqb w) l).
(* equal as multisets: logrus sees the warnings in Go map iteration order *)
Definition same_warnings (a b:list warn) : bool :=
  Nat.eqb (List.length a) (List.length b) && forallb (fun w => Nat.eqb (wcount w a) (wcount w b)) a.

Definition ksite_eqb (a b:ksite_id) : bool :=
  match a, b with KRecordApp, KRecordApp | KRecordEndpoint, KRecordEndpoint => true | _, _ => false end.

Definition c01_lint_ok (c:lint_case) : bool :=
  match lint_all lower_string (closure_events (fst c)), snd c with
  | SOk _ ws, ODone ws' => same_warnings ws ws'
  | SFatal k _, OFatal k' => ksite_eqb k k'
  | _, _ => false
  end.
