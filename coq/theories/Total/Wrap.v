(* C01: the listener's abort on a second `!wrap` (pkg/parse/listener_impl.go EnterModel_name):
     if s.currentApp().Wrapped.Name != nil { panic("not implemented yet?") }
   s.currentApp() is module.Apps[name]: the SAME application whenever the name is re-opened, in the same file or in
   another file of the closure (one listener, one module per Parse). EnterApp_decl creates Wrapped when the block has a
   facade and the application has none yet. A walk is the sequence of application blocks in walk order, each with the
   number of its `!wrap` members; the state is the set of applications whose Wrapped.Name is set. Definitions only. *)
From Coq Require Import List Bool NArith Arith.
Import ListNotations.
Require Import Verif.Total.FieldPanics.

Definition wblock := (N * nat)%type.   (* application (by name), number of facades in this block *)
Definition memN (a:N) (l:list N) : bool := existsb (N.eqb a) l.

Fixpoint wrap_walk (bs:list wblock) (wrapped:list N) : outcome (list N) :=
  match bs with
  | [] => Ok wrapped
  | (a, 0) :: t => wrap_walk t wrapped
  | (a, 1) :: t => if memN a wrapped then Panic else wrap_walk t (a :: wrapped)
  | (a, _) :: t => Panic      (* the first facade sets the name or panics, the second one panics *)
  end.

(* facades of application a in the whole walk *)
Fixpoint facades (a:N) (bs:list wblock) : nat :=
  match bs with [] => 0 | (b, w) :: t => (if N.eqb a b then w else 0) + facades a t end.
