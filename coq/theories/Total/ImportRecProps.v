(* C01: the recursion of the Swagger importer (Total/ImportRec.v) ends on EVERY document - cyclic or not - and its
   in-progress marks are exactly restored by every call. No bounds on the document. *)
From Coq Require Import List Bool Arith PArith Lia.
Import ListNotations.
Require Import Verif.Total.ImportRec.

(* ---------- o.refMap ---------- *)
Lemma rget_rset rm k b k' : rget (rset rm k b) k' = if Pos.eqb k k' then Some b else rget rm k'.
Proof. reflexivity. Qed.
Lemma inprog_rset rm k b k' : inprog (rset rm k b) k' = if Pos.eqb k k' then negb b else inprog rm k'.
Proof. unfold inprog. rewrite rget_rset. destruct (Pos.eqb k k'); [destruct b|]; reflexivity. Qed.

Definition memp (k:positive) (l:list positive) : bool := existsb (Pos.eqb k) l.
Lemma inprog_set_done l : forall rm k, inprog (set_done rm l) k = negb (memp k l) && inprog rm k.
Proof.
  induction l as [|r t IH]; intros rm k; cbn [set_done memp existsb]; [reflexivity|].
  rewrite IH, inprog_rset. fold (memp k t). rewrite (Pos.eqb_sym k r).
  destruct (Pos.eqb r k); cbn; [rewrite andb_false_r|]; reflexivity.
Qed.
Lemma memp_app k a b : memp k (a ++ b) = memp k a || memp k b.
Proof. unfold memp. apply existsb_app. Qed.

(* a call leaves the in-progress marks as it found them *)
Definition same_ip (rm rm':rmap) : Prop := forall k, inprog rm' k = inprog rm k.
Lemma same_ip_refl rm : same_ip rm rm. Proof. intro; reflexivity. Qed.
Lemma same_ip_trans a b c : same_ip a b -> same_ip b c -> same_ip a c.
Proof. intros H1 H2 k. rewrite H2. apply H1. Qed.

(* undoing the mark of one schema position: if it was not in progress before and the callee restored the marks *)
Lemma unmark_same rm s rm2 : is_circular rm s = false -> same_ip (mark rm s) rm2 -> same_ip rm (set_done rm2 (marks_of s)).
Proof.
  intros Hc Hf k. rewrite inprog_set_done, Hf. destruct s as [r|m]; cbn [marks_of mark memp existsb]; [|reflexivity].
  rewrite inprog_rset, orb_false_r, (Pos.eqb_sym k r). destruct (Pos.eqb r k) eqn:E; cbn; [|reflexivity].
  apply Pos.eqb_eq in E. subst k. symmetry. exact Hc.
Qed.

Section Frame.
  Variable d : sdoc.
  Variable ld : nat -> rmap -> lres * rmap.
  Variable tn : sref -> option bool.
  Hypothesis ld_frame : forall n rm, lres_ok (fst (ld n rm)) = true -> same_ip rm (snd (ld n rm)).

  Lemma build_field_frame p rm : lres_ok (fst (build_field ld tn d p rm)) = true -> same_ip rm (snd (build_field ld tn d p rm)).
  Proof.
    unfold build_field. destruct p as [r|n]; [intros _; apply same_ip_refl|].
    destruct (kind_of d n) as [[r|m]| | |]; try (intros _; apply same_ip_refl); [|apply ld_frame].
    destruct (tn (SInl n)) as [b|]; [|discriminate].
    destruct (b || is_arr d m); [apply ld_frame|intros _; apply same_ip_refl].
  Qed.

  Lemma fields_frame l : forall rm, lres_ok (fst (fields ld tn d l rm)) = true -> same_ip rm (snd (fields ld tn d l rm)).
  Proof.
    induction l as [|p t IH]; intro rm; cbn [fields]; [intros _; apply same_ip_refl|].
    pose proof (build_field_frame p rm) as Hb. destruct (build_field ld tn d p rm) as [res rm1]. cbn [fst snd] in Hb.
    destruct (lres_ok res) eqn:E; [|cbn [fst]; congruence].
    intro H. eapply same_ip_trans; [apply Hb; reflexivity|apply IH, H].
  Qed.

  Lemma allofs_frame l : forall rm, lres_ok (fst (allofs ld d l rm)) = true -> same_ip rm (snd (allofs ld d l rm)).
  Proof.
    induction l as [|s t IH]; intro rm; cbn [allofs]; [intros _; apply same_ip_refl|].
    destruct (is_circular rm s) eqn:Hc; [discriminate|].
    pose proof (ld_frame (value_of d s) (mark rm s)) as Hf.
    destruct (ld (value_of d s) (mark rm s)) as [res rm2]. cbn [fst snd] in Hf.
    destruct (lres_ok res) eqn:E; [|cbn [fst]; congruence].
    intro H. eapply same_ip_trans; [apply (unmark_same rm s rm2 Hc), Hf; reflexivity|apply IH, H].
  Qed.
End Frame.

(* a loadTypeSchema that SUCCEEDS leaves the in-progress marks exactly as it found them: whatever it set to false it has
   set to true again, and it never touches a mark that was in progress when it was called. (A failing one leaves the
   mark of the failing allOf part behind; its callers all return the error.) *)
Theorem load_frame d fuel : forall n rm, lres_ok (fst (load fuel d n rm)) = true -> same_ip rm (snd (load fuel d n rm)).
Proof.
  induction fuel as [|f IH]; intros n rm; cbn [load]; [discriminate|].
  destruct (kind_of d n) as [it| |oneof allof props|]; try (intros _; apply same_ip_refl).
  - destruct (tn_obj f d it) as [b|]; [|discriminate].
    destruct (b || inner_array d it); [|intros _; apply same_ip_refl].
    destruct (is_circular rm it) eqn:Hc; [discriminate|].
    pose proof (IH (value_of d it) (mark rm it)) as Hf. destruct (load f d (value_of d it) (mark rm it)) as [res rm2]. cbn [fst snd] in *.
    intro H. apply (unmark_same rm it rm2 Hc), Hf, H.
  - destruct oneof as [|o os].
    + pose proof (allofs_frame d (load f d) IH allof rm) as Ha.
      destruct (allofs (load f d) d allof rm) as [res rm1]. cbn [fst snd] in *.
      destruct (lres_ok res) eqn:E; [|cbn [fst]; congruence].
      intro H. eapply same_ip_trans; [apply Ha; reflexivity|apply fields_frame; [exact IH|exact H]].
    + apply fields_frame, IH.
Qed.

(* ---------- termination ---------- *)
Lemma filter_len_le {A} (f g:A->bool) l : (forall x, f x = true -> g x = true) -> length (filter f l) <= length (filter g l).
Proof.
  intro H. induction l as [|a t IH]; cbn; [lia|].
  destruct (f a) eqn:Ef; [rewrite (H a Ef); cbn; lia|]. destruct (g a); cbn; lia.
Qed.
Lemma filter_len_lt {A} (f g:A->bool) l a : (forall x, f x = true -> g x = true) -> In a l -> f a = false -> g a = true ->
  S (length (filter f l)) <= length (filter g l).
Proof.
  intros H Hin Hf Hg. induction l as [|b t IH]; [destruct Hin|]. cbn. destruct Hin as [->|Hin].
  - rewrite Hf, Hg. cbn. pose proof (filter_len_le f g t H). lia.
  - specialize (IH Hin). destruct (f b) eqn:Ef; [rewrite (H b Ef); cbn; lia|]. destruct (g b); cbn; lia.
Qed.
Lemma filter_len_all {A} (f:A->bool) l : length (filter f l) <= length l.
Proof. induction l as [|a t IH]; cbn; [lia|]. destruct (f a); cbn; lia. Qed.

(* the $ref names of the document that are NOT in progress: what a further mark can still use up *)
Definition free (d:sdoc) (rm:rmap) : nat := length (filter (fun r => negb (inprog rm r)) (universe d)).
Definition ip_sup (a b:rmap) : Prop := forall k, inprog a k = true -> inprog b k = true.

Lemma ip_sup_refl a : ip_sup a a. Proof. intros k H; exact H. Qed.
Lemma ip_sup_same a b c : ip_sup a b -> same_ip b c -> ip_sup a c.
Proof. intros H1 H2 k Hk. rewrite H2. apply H1, Hk. Qed.
Lemma free_le d a b : ip_sup a b -> free d b <= free d a.
Proof.
  intro H. apply filter_len_le. intros r Hr. apply negb_true_iff in Hr. apply negb_true_iff.
  destruct (inprog a r) eqn:E; [rewrite (H r E) in Hr; discriminate|reflexivity].
Qed.
Lemma free_mark d a b r : ip_sup a b -> In r (universe d) -> inprog b r = false ->
  S (free d (rset b r false)) <= free d a.
Proof.
  intros H Hin Hb. unfold free. apply filter_len_lt with (a:=r); [|exact Hin| |].
  - intros x Hx. rewrite inprog_rset in Hx. apply negb_true_iff in Hx. apply negb_true_iff.
    destruct (Pos.eqb r x); [discriminate|]. destruct (inprog a x) eqn:E; [rewrite (H x E) in Hx; discriminate|reflexivity].
  - rewrite inprog_rset, Pos.eqb_refl. reflexivity.
  - apply negb_true_iff. destruct (inprog a r) eqn:E; [rewrite (H r E) in Hb; discriminate|reflexivity].
Qed.

Lemma kind_at_in l n : kind_at l n = KPrim \/ In (n, kind_at l n) l.
Proof.
  induction l as [|[m k] t IH]; cbn; [left; reflexivity|].
  destruct (Nat.eqb m n) eqn:E; [apply Nat.eqb_eq in E; subst m; right; left; reflexivity|].
  destruct IH as [IH|IH]; [left; exact IH|right; right; exact IH].
Qed.

Section Term.
  Variable d : sdoc.
  Hypothesis Hinc : inline_increasing d = true.

  Lemma child_ok n s : In s (srefs_of (kind_of d n)) -> inline_ok (max_id d) n s = true.
  Proof.
    intro Hs. unfold kind_of in Hs. destruct (kind_at_in (nodes d) n) as [E|Hin]; [rewrite E in Hs; destruct Hs|].
    unfold inline_increasing in Hinc. rewrite forallb_forall in Hinc. specialize (Hinc _ Hin). cbn [fst snd] in Hinc.
    rewrite forallb_forall in Hinc. apply Hinc, Hs.
  Qed.
  Lemma child_inl n m : In (SInl m) (srefs_of (kind_of d n)) -> n < m /\ m <= max_id d.
  Proof.
    intro H. apply child_ok in H. cbn in H. apply andb_true_iff in H. destruct H as [H1 H2].
    apply Nat.ltb_lt in H1. apply Nat.leb_le in H2. split; assumption.
  Qed.
  Lemma refnames_in r l : In (SRef r) l -> In r (refnames l).
  Proof.
    induction l as [|[q|m] t IH]; cbn; [tauto| |].
    - intros [E|H]; [inversion E; left; reflexivity|right; apply IH, H].
    - intros [E|H]; [discriminate|apply IH, H].
  Qed.
  Lemma child_ref n r : In (SRef r) (srefs_of (kind_of d n)) -> In r (universe d).
  Proof.
    intro Hs. unfold kind_of in Hs. destruct (kind_at_in (nodes d) n) as [E|Hin]; [rewrite E in Hs; destruct Hs|].
    unfold universe. apply in_flat_map. exists (n, kind_at (nodes d) n). split; [exact Hin|]. cbn [snd]. apply refnames_in, Hs.
  Qed.

  Definition tn_need (s:sref) : nat := match s with SRef _ => 1 | SInl n => 2 + (max_id d - n) end.
  Lemma tn_obj_fuel f : forall s, tn_need s <= f -> tn_obj f d s <> None.
  Proof.
    induction f as [|f IH]; intros s Hs; [destruct s; cbn in Hs; lia|].
    cbn [tn_obj]. destruct s as [r|n]; [discriminate|].
    destruct (kind_of d n) as [it| | |] eqn:Ek; try discriminate.
    apply IH. cbn [tn_need] in Hs. destruct it as [r|m]; cbn [tn_need]; [lia|].
    destruct (child_inl n m) as [H1 H2]; [rewrite Ek; left; reflexivity|]. lia.
  Qed.

  Section Lists.
    Variable ld : nat -> rmap -> lres * rmap.
    Variable tn : sref -> option bool.
    Variable n : nat.          (* the schema whose frame this is *)
    Variable rm0 : rmap.       (* the marks when the frame was entered *)
    Hypothesis Hld : forall m rm, n < m -> m <= max_id d -> ip_sup rm0 rm -> fst (ld m rm) <> LFuel.
    Hypothesis Href : forall m rm, S (free d rm) <= free d rm0 -> fst (ld m rm) <> LFuel.
    Hypothesis Hframe : forall m rm, lres_ok (fst (ld m rm)) = true -> same_ip rm (snd (ld m rm)).
    Hypothesis Htn : forall m, n < m -> m <= max_id d -> tn (SInl m) <> None.

    Lemma build_field_term p rm : inline_ok (max_id d) n p = true -> ip_sup rm0 rm -> fst (build_field ld tn d p rm) <> LFuel.
    Proof.
      intros Hp Hs. unfold build_field. destruct p as [r|m]; [discriminate|].
      cbn in Hp. apply andb_true_iff in Hp. destruct Hp as [H1 H2]. apply Nat.ltb_lt in H1. apply Nat.leb_le in H2.
      destruct (kind_of d m) as [[r|k]| | |] eqn:Ek; try discriminate.
      - specialize (Htn m H1 H2). destruct (tn (SInl m)) as [b|]; [|congruence].
        destruct (b || is_arr d k); [|discriminate].
        destruct (child_inl m k) as [H3 H4]; [rewrite Ek; left; reflexivity|]. apply Hld; [lia|exact H4|exact Hs].
      - apply Hld; assumption.
    Qed.

    Lemma fields_term l : forall rm, (forall p, In p l -> inline_ok (max_id d) n p = true) -> ip_sup rm0 rm ->
      fst (fields ld tn d l rm) <> LFuel.
    Proof.
      induction l as [|p t IH]; intros rm Hl Hs; cbn [fields]; [discriminate|].
      pose proof (build_field_term p rm (Hl p (or_introl eq_refl)) Hs) as Hb.
      pose proof (build_field_frame d ld tn Hframe p rm) as Hf.
      destruct (build_field ld tn d p rm) as [res rm1]. cbn [fst snd] in *.
      destruct (lres_ok res) eqn:E; [|exact Hb]. apply IH; [intros q Hq; apply Hl; right; exact Hq|eapply ip_sup_same; [exact Hs|apply Hf; reflexivity]].
    Qed.

    Lemma allofs_term l : forall rm,
      (forall s, In s l -> inline_ok (max_id d) n s = true /\ forall r, s = SRef r -> In r (universe d)) -> ip_sup rm0 rm ->
      fst (allofs ld d l rm) <> LFuel.
    Proof.
      induction l as [|s t IH]; intros rm Hl Hs; cbn [allofs]; [discriminate|].
      destruct (is_circular rm s) eqn:Hc; [discriminate|].
      destruct (Hl s (or_introl eq_refl)) as [Hok Hu].
      assert (Hcall : fst (ld (value_of d s) (mark rm s)) <> LFuel).
      { destruct s as [r|m]; cbn [value_of mark].
        - apply Href. apply free_mark; [exact Hs|apply Hu; reflexivity|exact Hc].
        - cbn in Hok. apply andb_true_iff in Hok. destruct Hok as [H1 H2]. apply Nat.ltb_lt in H1. apply Nat.leb_le in H2.
          apply Hld; assumption. }
      pose proof (Hframe (value_of d s) (mark rm s)) as Hf.
      destruct (ld (value_of d s) (mark rm s)) as [res rm2]. cbn [fst snd] in *.
      destruct (lres_ok res) eqn:E; [|exact Hcall].
      apply IH; [intros q Hq; apply Hl; right; exact Hq|].
      eapply ip_sup_same; [exact Hs|apply (unmark_same rm s rm2 Hc), Hf; reflexivity].
    Qed.
  End Lists.

  Definition req (fuel:nat) (rm:rmap) (n:nat) : Prop := free d rm * (max_id d + 3) + (max_id d - n) + 2 <= fuel.

  Theorem load_terminates fuel : forall n rm, req fuel rm n -> fst (load fuel d n rm) <> LFuel.
  Proof.
    induction fuel as [|f IH]; intros n rm Hreq; [unfold req in Hreq; lia|].
    cbn [load]. unfold req in Hreq.
    assert (HLd : forall m rm', n < m -> m <= max_id d -> ip_sup rm rm' -> fst (load f d m rm') <> LFuel).
    { intros m rm' H1 H2 H3. apply IH. unfold req. pose proof (free_le d _ _ H3). nia. }
    assert (HRef : forall m rm', S (free d rm') <= free d rm -> fst (load f d m rm') <> LFuel).
    { intros m rm' H1. apply IH. unfold req. nia. }
    assert (HTn : forall m, n < m -> m <= max_id d -> tn_obj f d (SInl m) <> None).
    { intros m H1 H2. apply tn_obj_fuel. cbn [tn_need]. lia. }
    destruct (kind_of d n) as [it| |oneof allof props|] eqn:Ek; try discriminate.
    - assert (Hit : In it (srefs_of (kind_of d n))) by (rewrite Ek; left; reflexivity).
      assert (Htn : tn_obj f d it <> None).
      { apply tn_obj_fuel. destruct it as [r|m]; cbn [tn_need]; [lia|]. destruct (child_inl n m Hit). lia. }
      destruct (tn_obj f d it) as [b|]; [|congruence].
      destruct (b || inner_array d it); [|discriminate].
      destruct (is_circular rm it) eqn:Hc; [discriminate|].
      assert (Hcall : fst (load f d (value_of d it) (mark rm it)) <> LFuel).
      { destruct it as [r|m]; cbn [value_of mark].
        - apply HRef. apply free_mark; [apply ip_sup_refl|apply (child_ref n), Hit|exact Hc].
        - destruct (child_inl n m Hit). apply HLd; [assumption|assumption|apply ip_sup_refl]. }
      destruct (load f d (value_of d it) (mark rm it)) as [res rm2]. exact Hcall.
    - assert (Hch : forall s, In s (oneof ++ allof ++ props) -> inline_ok (max_id d) n s = true).
      { intros s Hs. apply child_ok. rewrite Ek. exact Hs. }
      destruct oneof as [|o os].
      + pose proof (allofs_term (load f d) n rm HLd HRef (load_frame d f) allof rm) as Ha.
        pose proof (allofs_frame d (load f d) (load_frame d f) allof rm) as Hf1.
        destruct (allofs (load f d) d allof rm) as [res rm1]. cbn [fst snd] in *.
        assert (Hres : res <> LFuel).
        { apply Ha; [|apply ip_sup_refl]. intros s Hs. split; [apply Hch; cbn; apply in_or_app; left; exact Hs|].
          intros r ->. apply (child_ref n). rewrite Ek. cbn. apply in_or_app; left; exact Hs. }
        destruct (lres_ok res) eqn:E; [|exact Hres].
        apply (fields_term (load f d) (tn_obj f d) n rm HLd (load_frame d f) HTn);
          [intros p Hp'; apply Hch; cbn; apply in_or_app; right; exact Hp'|].
        intros k Hk. rewrite (Hf1 eq_refl). exact Hk.
      + apply (fields_term (load f d) (tn_obj f d) n rm HLd (load_frame d f) HTn); [|apply ip_sup_refl].
        intros p Hp. apply Hch. apply in_or_app; left; exact Hp.
  Qed.

  Lemma load_all_terminates fuel l : forall rm, free d rm * (max_id d + 3) + max_id d + 2 <= fuel ->
    fst (load_all fuel d l rm) <> LFuel.
  Proof.
    induction l as [|r t IH]; intros rm Hf; cbn [load_all]; [discriminate|].
    pose proof (load_terminates fuel (value_of d (SRef r)) rm) as Ht.
    pose proof (load_frame d fuel (value_of d (SRef r)) rm) as Hs.
    destruct (load fuel d (value_of d (SRef r)) rm) as [res rm1]. cbn [fst snd] in *.
    assert (res <> LFuel) by (apply Ht; unfold req; lia).
    destruct (lres_ok res) eqn:E; [|assumption]. apply IH.
    assert (free d rm1 <= free d rm) by (apply free_le; intros k Hk; rewrite (Hs eq_refl); exact Hk). nia.
  Qed.
End Term.

(* every Swagger 2 document, cyclic in whatever way, is converted or refused: the recursion loadTypeSchema <-> buildField
   <-> typeNameFromSchemaRef comes to an end within (names of $refs + 1) * (schemas + 3) nested calls *)
Theorem import_swagger_terminates d : inline_increasing d = true -> import_swagger d <> LFuel.
Proof.
  intro H. unfold import_swagger. apply load_all_terminates; [exact H|].
  unfold enough_fuel. assert (free d [] <= length (universe d)) by apply filter_len_all. nia.
Qed.

(* the bound is needed: without marks nothing stops a circle. A (object) allOf [$ref A]: two nested loads, then "circular" *)
Example ex_self_allof : import_swagger {| nodes := [(1, KObj [] [SRef 2%positive] [])]; defs := [(2%positive, 1)]; order := [2%positive] |} = LCirc.
Proof. vm_compute. reflexivity. Qed.
(* the seeded regression's document: A allOf [B]; B {inner: object allOf [A]} - the circle passes an inline property *)
Definition doc_through_inline : sdoc :=
  {| nodes := [(1, KObj [] [SRef 3%positive] []); (2, KObj [] [] [SInl 3]); (3, KObj [] [SRef 2%positive] [])];
     defs := [(2%positive, 1); (3%positive, 2)]; order := [2%positive; 3%positive] |}.
Example ex_through_inline : inline_increasing doc_through_inline = true /\ import_swagger doc_through_inline = LCirc.
Proof. vm_compute. split; reflexivity. Qed.
(* since c310a5e an allOf diamond is no circle: A allOf [B, C]; C allOf [B]; B {} *)
Example ex_allof_diamond : import_swagger {| nodes := [(1, KObj [] [SRef 3%positive; SRef 4%positive] []); (2, KObj [] [] []); (3, KObj [] [SRef 3%positive] [])];
                                             defs := [(2%positive, 1); (3%positive, 2); (4%positive, 3)]; order := [2%positive; 3%positive; 4%positive] |} = LOk.
Proof. vm_compute. reflexivity. Qed.
(* a circle through a property reference only is not followed at all: A {p: $ref A} imports *)
Example ex_prop_circle_ok : import_swagger {| nodes := [(1, KObj [] [] [SRef 2%positive])]; defs := [(2%positive, 1)]; order := [2%positive] |} = LOk.
Proof. vm_compute. reflexivity. Qed.

(* ---------- necessity: the in-progress map must survive the descent into an inline property ----------
   The seeded regression re-created refMap whenever the name stack was empty - which buildField makes it before it loads
   an inline object. load_r is loadTypeSchema with that one change (the load of an inline object / inline array items
   from buildField starts from an EMPTY map); everything else is as in Total/ImportRec.v. *)
Definition build_field_r (ld:nat -> rmap -> lres * rmap) (tn:sref -> option bool) (d:sdoc) (p:sref) (rm:rmap) : lres * rmap :=
  match p with
  | SRef _ => (LOk, rm)
  | SInl n =>
      match kind_of d n with
      | KArr (SRef _) => (LOk, rm)
      | KArr (SInl m) => match tn p with None => (LFuel, rm) | Some b => if b || is_arr d m then ld m [] else (LOk, rm) end
      | KArrNoItems => (LOk, rm)
      | KObj _ _ _ => ld n []
      | KPrim => (LOk, rm)
      end
  end.
Fixpoint fields_r (ld:nat -> rmap -> lres * rmap) (tn:sref -> option bool) (d:sdoc) (l:list sref) (rm:rmap) : lres * rmap :=
  match l with
  | [] => (LOk, rm)
  | p::t => let '(res, rm1) := build_field_r ld tn d p rm in if lres_ok res then fields_r ld tn d t rm1 else (res, rm1)
  end.
Fixpoint load_r (fuel:nat) (d:sdoc) (n:nat) (rm:rmap) : lres * rmap :=
  match fuel with O => (LFuel, rm) | S f =>
    match kind_of d n with
    | KArrNoItems => (LNoItems, rm)
    | KArr it =>
        match tn_obj f d it with
        | None => (LFuel, rm)
        | Some b =>
            if b || inner_array d it then
              if is_circular rm it then (LCirc, rm)
              else let '(res, rm2) := load_r f d (value_of d it) (mark rm it) in (res, set_done rm2 (marks_of it))
            else (LOk, rm)
        end
    | KObj oneof allof props =>
        match oneof with
        | _ :: _ => fields_r (load_r f d) (tn_obj f d) d oneof rm
        | [] =>
            let '(res, rm1) := allofs (load_r f d) d allof rm in
            if lres_ok res then fields_r (load_r f d) (tn_obj f d) d props rm1 else (res, rm1)
        end
    | KPrim => (LOk, rm)
    end
  end.

Local Notation Dti := doc_through_inline.
Lemma reset_step1 f rm : inprog rm 3%positive = false ->
  fst (load_r f Dti 2 (rset rm 3%positive false)) = LFuel -> fst (load_r (S f) Dti 1 rm) = LFuel.
Proof.
  intros Hc H. cbn [load_r]. change (kind_of Dti 1) with (KObj [] [SRef 3%positive] []). cbn [allofs is_circular].
  rewrite Hc. change (value_of Dti (SRef 3%positive)) with 2. cbn [mark].
  destruct (load_r f Dti 2 (rset rm 3%positive false)) as [res rm2]. cbn [fst] in H. subst res. reflexivity.
Qed.
Lemma reset_step2 f rm : fst (load_r f Dti 3 []) = LFuel -> fst (load_r (S f) Dti 2 rm) = LFuel.
Proof.
  intro H. cbn [load_r]. change (kind_of Dti 2) with (KObj [] [] [SInl 3]). cbn [allofs lres_ok fields_r build_field_r].
  change (kind_of Dti 3) with (KObj [] [SRef 2%positive] []). cbn iota.
  destruct (load_r f Dti 3 []) as [res rm2]. cbn [fst] in H. subst res. reflexivity.
Qed.
Lemma reset_step3 f : fst (load_r f Dti 1 (rset [] 2%positive false)) = LFuel -> fst (load_r (S f) Dti 3 []) = LFuel.
Proof.
  intro H. cbn [load_r]. change (kind_of Dti 3) with (KObj [] [SRef 2%positive] []). cbn [allofs is_circular].
  change (inprog [] 2%positive) with false. cbn iota. change (value_of Dti (SRef 2%positive)) with 1. cbn [mark].
  destruct (load_r f Dti 1 (rset [] 2%positive false)) as [res rm2]. cbn [fst] in H. subst res. reflexivity.
Qed.

(* with the map dropped at the inline property, NO amount of fuel lets the import of the document end: the real code
   then recurses until the stack is exhausted, and the process dies *)
Theorem reset_in_mid_recursion_never_ends : forall fuel rm, inprog rm 3%positive = false ->
  fst (load_r fuel doc_through_inline 1 rm) = LFuel.
Proof.
  assert (H3 : forall f, (forall rm, inprog rm 3%positive = false -> fst (load_r f Dti 1 rm) = LFuel) /\
                         (forall rm, inprog rm 3%positive = false -> fst (load_r (S f) Dti 1 rm) = LFuel) /\
                         (forall rm, inprog rm 3%positive = false -> fst (load_r (S (S f)) Dti 1 rm) = LFuel)).
  { induction f as [|f (IH0 & IH1 & IH2)].
    - split; [reflexivity|]. split; intros rm Hc.
      + apply reset_step1; [exact Hc|reflexivity].
      + apply reset_step1; [exact Hc|]. apply reset_step2. reflexivity.
    - split; [exact IH1|]. split; [exact IH2|]. intros rm Hc.
      apply reset_step1; [exact Hc|]. apply reset_step2. apply reset_step3. apply IH0. reflexivity. }
  intros fuel. apply H3.
Qed.
(* ... whereas the code as it is refuses the same document (ex_through_inline) *)
