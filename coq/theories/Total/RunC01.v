(* Correspondence glue for C01 *)
From Coq Require Import List ZArith Bool.
Import ListNotations.
Require Import Verif.Total.Pipeline Verif.Total.FieldPanics Verif.Base.Harness.
Local Open Scope Z_scope.

Definition obs_eqb (a b:obsclass) : bool :=
  match a, b with
  | OModel, OModel => true | OCrash, OCrash => true | OError x, OError y => x =? y | _, _ => false end.

Definition good := behave_of FGood.
(* one field declaration in one file: the listener walk panics exactly when the predictor says so *)
Definition field_behaviour (d:fdecl) : fbehave :=
  {| b_read := ROk; b_antlr_imp := ROk; b_walk_imp := ROk; b_foreign := ROk; b_antlr := ROk;
     b_walk := match denote_field d with Panic => RPanic | Ok _ => ROk end |}.
Definition c01_field_ok (gs:guardset) (c:fdecl * obsclass) : bool :=
  obs_eqb (compile gs [field_behaviour (fst c)] ROk) (snd c).

(* an import closure: per file (reachable from the root?, class); index 0 is the root *)
Definition closure_case := (list (bool * fclass) * obsclass)%type.
Definition c01_closure_ok (gs:guardset) (c:closure_case) : bool :=
  let fs := map (fun p => behave_of (snd p)) (filter fst (fst c)) in
  obs_eqb (compile gs fs ROk) (snd c).
