(* C01: types of the Gen/ImporterRec.v table (translator translate/importerrec.go). Definitions only.
   rmop: one statement of pkg/importer that touches the in-progress map `refMap` of the Swagger / OpenAPI importer. *)
From Coq Require Import String List Bool.
Import ListNotations.
Local Open Scope string_scope.

Inductive rmop :=
  | RMake (guard:string)                        (* `o.refMap = ...`, with the condition of the innermost `if` around it *)
  | RSet (key value:string) (in_closure:bool)   (* `o.refMap[key] = value`; in_closure: inside a func literal *)
  | RDeferDone (arg:string)                     (* `defer setDefined(arg)` *)
  | RDoneNow (arg:string)                       (* `setDefined(arg)` as a statement of its own (since c310a5e: the allOf loop) *)
  | RGet (key:string)                           (* `o.refMap[key]` read *)
  | RNilTest (op:string).                       (* `o.refMap == nil` / `!= nil` *)

Definition rmop_eqb (a b:rmop) : bool :=
  match a, b with
  | RMake g, RMake g' => String.eqb g g'
  | RSet k v c, RSet k' v' c' => String.eqb k k' && String.eqb v v' && Bool.eqb c c'
  | RDeferDone x, RDeferDone x' => String.eqb x x'
  | RDoneNow x, RDoneNow x' => String.eqb x x'
  | RGet k, RGet k' => String.eqb k k'
  | RNilTest o, RNilTest o' => String.eqb o o'
  | _, _ => false
  end.

(* the marker discipline, as decidable facts over the table *)
(* the map is created only where it does not exist yet: never reset while a load is in progress *)
Definition made_only_when_nil (ops:list (string * rmop)) : bool :=
  forallb (fun o => match snd o with RMake g => String.eqb g "o.refMap == nil" | _ => true end) ops.
(* every in-progress mark `refMap[k] = false` of a function is followed, in that function, by `defer setDefined(k)` or by
   `setDefined(k)` *)
Fixpoint marks_have_done (ops:list (string * rmop)) : bool :=
  match ops with
  | [] => true
  | (f, RSet k v false) :: t =>
      (negb (String.eqb v "false") ||
       existsb (fun o => String.eqb (fst o) f && (rmop_eqb (snd o) (RDeferDone k) || rmop_eqb (snd o) (RDoneNow k))) t) && marks_have_done t
  | _ :: t => marks_have_done t
  end.
(* nothing but the deferred closure sets an entry to true, nothing sets an entry to false inside a closure *)
Definition done_only_deferred (ops:list (string * rmop)) : bool :=
  forallb (fun o => match snd o with RSet _ v c => Bool.eqb c (String.eqb v "true") | _ => true end) ops.
