(* C01: types of the Gen/KillSites.v table (translator translate/killsites.go): the calls that end the host
   process - logrus.Fatal*, log.Fatal*, <logger value>.Fatal*, os.Exit - found in the packages on the compile path.
   Definitions only. *)
From Coq Require Import String List Bool.
Import ListNotations.
Local Open Scope string_scope.

Inductive kcallee := KLogrusFatal | KLogFatal | KLoggerFatal | KOsExit.
(* the innermost `if` around the call:
     GErrOf f call   `if err := <call>(...); err != nil { KILL }`  (f = last selector of call)
     GCond text      any other condition (text as printed by go/printer), `switch-default`, `else-of: ...`
     GNone           unconditional in its function *)
Inductive kguard := GErrOf (f call:string) | GCond (text:string) | GNone.
Record ksite := {
  k_pkg : string;       (* package, relative to the module *)
  k_func : string;      (* enclosing function, Recv.Name for methods *)
  k_callee : kcallee;
  k_call : string;      (* the callee expression as written *)
  k_guard : kguard;
  k_reach : bool        (* reachable from pkg/parse + pkg/grammar under the name-based call graph of the translator *)
}.

Definition kcallee_eqb (a b:kcallee) : bool :=
  match a, b with KLogrusFatal, KLogrusFatal | KLogFatal, KLogFatal | KLoggerFatal, KLoggerFatal | KOsExit, KOsExit => true | _, _ => false end.
Definition kguard_eqb (a b:kguard) : bool :=
  match a, b with
  | GErrOf f c, GErrOf f' c' => String.eqb f f' && String.eqb c c'
  | GCond t, GCond t' => String.eqb t t'
  | GNone, GNone => true
  | _, _ => false end.
Definition ksite_eqb (a b:ksite) : bool :=
  String.eqb (k_pkg a) (k_pkg b) && String.eqb (k_func a) (k_func b) && kcallee_eqb (k_callee a) (k_callee b) &&
  String.eqb (k_call a) (k_call b) && kguard_eqb (k_guard a) (k_guard b) && Bool.eqb (k_reach a) (k_reach b).

(* ---- Gen/LoopSites.v (translator translate/loopsites.go): hand-written loops / recursions on the compile path whose
   termination is not evident from their shape ----
     LFor cond    a `for` whose condition is not `i < n` (<=, >, >=) with a matching i++ / i-- / i += k post statement; "" = `for {}`
     LRec         the function calls itself
     LMutual n    the function lies on a call cycle of n functions of its package *)
Inductive lkind := LFor (cond:string) | LRec | LMutual (cycle:nat).
Definition lkind_eqb (a b:lkind) : bool :=
  match a, b with
  | LFor c, LFor c' => String.eqb c c' | LRec, LRec => true | LMutual n, LMutual n' => Nat.eqb n n' | _, _ => false end.
