(* C01: MODEL of the linter's record graph, pkg/parse/linter.go - the only place on the compile path where the
   listener itself ends the process (logrus.Fatal in TreeShapeListener.recordApp / recordEndpoint).

     type graph map[string]*graphData ; type graphData struct { locations map[string]bool; rec *graph }
     linterRecords{ apps map[string]*graph  (key: strings.ToLower(app name)),  calls *graph }

   graph.recordApp / recordEndpoint / recordMethod / recordAsCall are transliterated on association lists
   (a Go map is a finite partial function; iteration order is never observed: warnings are compared as multisets).
   The listener wrappers (recordApp, recordEndpoint: Fatal on error; recordMethod, recordCall: Warn on error) are
   `step`; lintAppDefs / lintEndpoint are `lint_app_defs` / `lint_endpoint`. A location is the string
   fmt.Sprintf("%s:%d:%d", sc.filename, line, col) - here the triple itself (the format is injective: the last
   two fields are numbers) - or "" (what recordAsCall passes to recordApp).
   Definitions only; proofs in LinterProps.v. *)
From Coq Require Import String Ascii List Bool NArith.
Import ListNotations.
Local Open Scope string_scope.

Inductive lc := LNone | LAt (file:string) (line col:N).
Definition lc_eqb (a b:lc) : bool :=
  match a, b with
  | LNone, LNone => true
  | LAt f l c, LAt f' l' c' => String.eqb f f' && N.eqb l l' && N.eqb c c'
  | _, _ => false end.
Definition lmem (l:lc) (ls:list lc) : bool := existsb (lc_eqb l) ls.

(* ---- association lists keyed by strings ---- *)
Section AList.
Context {V:Type}.
Fixpoint alookup (k:string) (m:list (string*V)) : option V :=
  match m with [] => None | (k',v)::t => if String.eqb k k' then Some v else alookup k t end.
Fixpoint aset (k:string) (v:V) (m:list (string*V)) : list (string*V) :=
  match m with [] => [(k,v)] | (k',v')::t => if String.eqb k k' then (k,v)::t else (k',v')::aset k v t end.
End AList.

(* graphData at the three depths of the graph: application, endpoint, method *)
Definition methods := list (string * list lc).                            (* method -> locations (rec is nil) *)
Record edata := { ed_locs : list lc; ed_methods : option methods }.       (* None: rec == nil, "not a REST endpoint" *)
Record adata := { ad_locs : list lc; ad_eps : list (string * edata) }.
Definition graph := list (string * adata).

Inductive rerr :=
  | EAppExists       (* recordApp: app already exists: <loc> <app> *)
  | EEpExists        (* recordEndpoint: endpoint already exists *)
  | ENoApp           (* recordEndpoint: app does not exist *)
  | EMethodExists    (* recordMethod: method already exist *)
  | EMethodNoApp     (* recordMethod: app does not exist (app or endpoint missing) *)
  | ECallLocExists.  (* recordAsCall: location already exists ("this isn't possible") *)

Definition record_app (g:graph) (a:string) (l:lc) : graph * option rerr :=
  match alookup a g with
  | None => (aset a {| ad_locs := [l]; ad_eps := [] |} g, None)
  | Some d => if lmem l (ad_locs d) then (g, Some EAppExists)
              else (aset a {| ad_locs := l :: ad_locs d; ad_eps := ad_eps d |} g, None)
  end.

Definition record_endpoint (g:graph) (a e:string) (l:lc) : graph * option rerr :=
  match alookup a g with
  | None => (g, Some ENoApp)
  | Some d =>
      match alookup e (ad_eps d) with
      | None => (aset a {| ad_locs := ad_locs d; ad_eps := aset e {| ed_locs := [l]; ed_methods := None |} (ad_eps d) |} g, None)
      | Some ed => if lmem l (ed_locs ed) then (g, Some EEpExists)
                   else (aset a {| ad_locs := ad_locs d;
                                   ad_eps := aset e {| ed_locs := l :: ed_locs ed; ed_methods := ed_methods ed |} (ad_eps d) |} g, None)
      end
  end.

(* `if e.rec == nil { e.rec = newAppEndpointGraph() }` happens before the method is looked up: the endpoint
   becomes a REST endpoint even when the call then fails *)
Definition record_method (g:graph) (a e m:string) (l:lc) : graph * option rerr :=
  match alookup a g with
  | None => (g, Some EMethodNoApp)
  | Some d =>
      match alookup e (ad_eps d) with
      | None => (g, Some EMethodNoApp)
      | Some ed =>
          let ms := match ed_methods ed with None => [] | Some ms => ms end in
          match alookup m ms with
          | None => (aset a {| ad_locs := ad_locs d;
                               ad_eps := aset e {| ed_locs := ed_locs ed; ed_methods := Some (aset m [l] ms) |} (ad_eps d) |} g, None)
          | Some _ => (aset a {| ad_locs := ad_locs d;
                                 ad_eps := aset e {| ed_locs := ed_locs ed; ed_methods := Some ms |} (ad_eps d) |} g, Some EMethodExists)
          end
      end
  end.

(* recordAsCall: None in the first component = the nil dereference the Go code would make if, after a failed
   recordMethod, app / endpoint / method map / method were missing (LinterProps.record_as_call_no_nil: never) *)
Definition record_as_call (g:graph) (a e m:string) (l:lc) : option graph * option rerr :=
  let g1 := fst (record_app g a LNone) in
  if String.eqb m "" then let r := record_endpoint g1 a e l in (Some (fst r), snd r) else
  let g2 := fst (record_endpoint g1 a e l) in
  match record_method g2 a e m l with
  | (g3, None) => (Some g3, None)
  | (g3, Some _) =>
      match alookup a g3 with
      | None => (None, None)
      | Some d =>
          match alookup e (ad_eps d) with
          | None => (None, None)
          | Some ed =>
              match ed_methods ed with
              | None => (None, None)
              | Some ms =>
                  match alookup m ms with
                  | None => (None, None)
                  | Some ls =>
                      if lmem l ls then (Some g3, Some ECallLocExists)
                      else (Some (aset a {| ad_locs := ad_locs d;
                                            ad_eps := aset e {| ed_locs := ed_locs ed; ed_methods := Some (aset m (l :: ls) ms) |} (ad_eps d) |} g3), None)
                  end
              end
          end
      end
  end.

(* ---- the listener ---- *)
Record lstate := { l_apps : list (string * graph); l_calls : graph }.
Definition lstate0 : lstate := {| l_apps := []; l_calls := [] |}.

(* what the tree walk does to the linter, in walk order. `app` is getFullAppName() at that moment *)
Inductive event :=
  | EvApp (app:string) (l:lc)                    (* EnterApp_decl -> recordApp *)
  | EvEndpoint (app ep:string) (l:lc)            (* EnterSimple_endpoint -> recordEndpoint *)
  | EvMethod (app url meth:string) (l:lc)        (* EnterMethod_def -> recordMethod *)
  | EvCall (target ep meth:string) (l:lc).       (* EnterCall_stmt -> recordCall *)

Inductive ksite_id := KRecordApp | KRecordEndpoint.
Inductive warn :=
  | WRecMethod (e:rerr) (l:lc) (app meth url:string)
  | WRecCall (e:rerr)
  | WRedef (app:string) (l:lc)                   (* one per (spelling, location) of "case-sensitive redefinitions detected" *)
  | WLintNoApp (l:lc) (app call:string)
  | WLintNoMethod (l:lc) (meth call:string)
  | WLintNoEndpoint (l:lc) (ep call:string).

Inductive sres := SFatal (k:ksite_id) (e:rerr) | SNil | SOk (st:lstate) (ws:list warn).

Section Lower.
Variable lower : string -> string.     (* strings.ToLower; the theorems hold for any function *)

(* getApps(): the graph under the lower-cased name, created empty when missing *)
Definition get_apps (st:lstate) (a:string) : graph :=
  match alookup (lower a) (l_apps st) with Some g => g | None => [] end.
Definition put_apps (st:lstate) (a:string) (g:graph) : lstate :=
  {| l_apps := aset (lower a) g (l_apps st); l_calls := l_calls st |}.

Definition step (st:lstate) (ev:event) : sres :=
  match ev with
  | EvApp a l =>
      match record_app (get_apps st a) a l with
      | (_, Some e) => SFatal KRecordApp e
      | (g, None) => SOk (put_apps st a g) []
      end
  | EvEndpoint a e l =>
      match record_endpoint (get_apps st a) a e l with
      | (_, Some er) => SFatal KRecordEndpoint er
      | (g, None) => SOk (put_apps st a g) []
      end
  | EvMethod a url m l =>
      let g1 := fst (record_endpoint (get_apps st a) a url l) in
      match record_method g1 a url m l with
      | (g2, None) => SOk (put_apps st a g2) []
      | (g2, Some EMethodNoApp) => SOk (put_apps st a g2) [WRecMethod EMethodNoApp l a "" ""]   (* that message has no method / url *)
      | (g2, Some er) => SOk (put_apps st a g2) [WRecMethod er l a m url]
      end
  | EvCall t e m l =>
      match record_as_call (l_calls st) t e m l with
      | (None, _) => SNil
      | (Some g, None) => SOk {| l_apps := l_apps st; l_calls := g |} []
      | (Some g, Some er) => SOk {| l_apps := l_apps st; l_calls := g |} [WRecCall er]
      end
  end.

Fixpoint run (st:lstate) (ws:list warn) (evs:list event) : sres :=
  match evs with
  | [] => SOk st ws
  | ev :: r => match step st ev with
               | SOk st' w => run st' (ws ++ w) r
               | x => x
               end
  end.

(* ---- lint (finishModule) ---- *)
Definition lint_app_defs (st:lstate) : list warn :=
  flat_map (fun kg : string * graph =>
    if Nat.ltb 1 (List.length (snd kg))
    then flat_map (fun ad : string * adata => map (WRedef (fst ad)) (ad_locs (snd ad))) (snd kg)
    else []) (l_apps st).

Definition is_blank (c:ascii) : bool := Ascii.eqb c " " || Ascii.eqb c (ascii_of_nat 9).
Fixpoint strip (s:string) : string :=
  match s with EmptyString => EmptyString | String c r => if is_blank c then strip r else String c (strip r) end.

Definition lint_one (st:lstate) (app ep meth call:string) (l:lc) : list warn :=
  let a := strip app in
  match alookup (lower a) (l_apps st) with
  | None => [WLintNoApp l a call]
  | Some g =>
      match alookup a g with
      | None => [WLintNoApp l a call]
      | Some d =>
          match alookup ep (ad_eps d) with
          | None => [WLintNoEndpoint l ep call]
          | Some ed =>
              if String.eqb meth "" then [] else
              match ed_methods ed with
              | None => [WLintNoMethod l meth call]
              | Some ms => match alookup meth ms with Some _ => [] | None => [WLintNoMethod l meth call] end
              end
          end
      end
  end.

Definition lint_endpoint (st:lstate) : list warn :=
  flat_map (fun ad : string * adata =>
    let app := fst ad in
    flat_map (fun ee : string * edata =>
      let ep := fst ee in
      match ed_methods (snd ee) with
      | None => flat_map (lint_one st app ep "" (app ++ " <- " ++ ep)) (ed_locs (snd ee))
      | Some ms => flat_map (fun ml : string * list lc =>
                     flat_map (lint_one st app ep (fst ml) (app ++ " <- " ++ fst ml ++ " " ++ ep)) (snd ml)) ms
      end) (ad_eps (snd ad))) (l_calls st).

(* the whole life of the linter in one Parser.Parse: the walks of all files of the closure, then lint *)
Definition lint_all (evs:list event) : sres :=
  match run lstate0 [] evs with
  | SOk st ws => SOk st (ws ++ lint_app_defs st ++ lint_endpoint st)
  | x => x
  end.
End Lower.

(* ---- the events of a closure, from what the files contain ---- *)
Inductive item :=
  | IEndpoint (ep:string) (line col:N)
  | IMethod (url meth:string) (line col:N)
  | ICall (target ep meth:string) (line col:N).
Record block := { b_app : string; b_line : N; b_col : N; b_items : list item }.
(* one walked file: sc.filename and its application blocks in textual order *)
Definition fwalk := (string * list block)%type.

Definition item_event (file app:string) (i:item) : event :=
  match i with
  | IEndpoint ep l c => EvEndpoint app ep (LAt file l c)
  | IMethod url m l c => EvMethod app url m (LAt file l c)
  | ICall t ep m l c => EvCall t ep m (LAt file l c)
  end.
Definition block_events (file:string) (b:block) : list event :=
  EvApp (b_app b) (LAt file (b_line b) (b_col b)) :: map (item_event file (b_app b)) (b_items b).
Definition walk_events (w:fwalk) : list event := flat_map (block_events (fst w)) (snd w).
Definition closure_events (ws:list fwalk) : list event := flat_map walk_events ws.

(* positions (line, col) at which a file records applications / endpoints and methods *)
Definition app_pos (bs:list block) : list (N*N) := map (fun b => (b_line b, b_col b)) bs.
Definition item_pos (i:item) : list (N*N) :=
  match i with IEndpoint _ l c => [(l,c)] | IMethod _ _ l c => [(l,c)] | ICall _ _ _ _ _ => [] end.
Definition ep_pos (bs:list block) : list (N*N) := flat_map (fun b => flat_map item_pos (b_items b)) bs.

(* ---- ASCII lower-casing, for running the model on the harness's (ASCII) names ---- *)
Definition lower_ascii (c:ascii) : ascii :=
  let n := nat_of_ascii c in if Nat.leb 65 n && Nat.leb n 90 then ascii_of_nat (n + 32) else c.
Fixpoint lower_string (s:string) : string :=
  match s with EmptyString => EmptyString | String c r => String (lower_ascii c) (lower_string r) end.
