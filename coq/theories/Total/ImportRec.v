(* C01, "never kills the host process, never fails to terminate" for FOREIGN files of an import closure.
   A Swagger 2 document reached through `import api.yaml as Ns :: App ~swagger` is converted by
   pkg/importer/openapi3_legacy.go inside the importForeign goroutine of parseSpecs; its schema graph may be cyclic
   ($ref circles) and the importer recurses over it: loadTypeSchema <-> buildField, typeNameFromSchemaRef. A stack
   overflow there ends the process (no recover() stops it). This file TRANSLITERATES that recursion, definitions
   only; ImportRecProps.v proves that it ends for every document.

   Document model (what kin-openapi hands the importer after openapi2conv + ResolveRefsIn):
     node ids (nat)       the schema objects of the document; an INLINE schema is a node of its own
     sref                 a schema position: `$ref: '#/definitions/<name>'` (SRef) or an inline schema (SInl node).
                          kin-openapi shares the target's *Schema behind a $ref, so following SRef goes to the
                          definition's node: that is where circles come from. Inline edges form the finite document tree.
     skind                array with items / array without items / object (oneOf, allOf, properties) / anything else

   What bounds the recursion in the Go code (Gen/ImporterRec.v pins the sites):
     - buildField does not descend into a property that is a $ref (nor into an array whose items are a $ref);
     - loadTypeSchema descends into $ref targets only under allOf and under array items whose type name is "object"
       (a definition called `object`), and only after isCircular(ref) said no and refMap[ref] was set to false - the
       IN-PROGRESS mark. Array items: the deferred setDefined(ref) turns it into true when that loadTypeSchema frame
       returns. allOf parts (since c310a5e): setDefined(ref) follows the load of the part at once when it succeeded - an
       allOf diamond (A: allOf [B, C], C: allOf [B]) is no circle -; when the part fails the error is returned and the
       mark stays (every caller returns the error too: nothing looks at the map again);
     - (since bda330c) an inline array below an array - items of a definition, or a property - gets a type of its own:
       loadTypeSchema / buildField descend into it like into an inline object;
     - refMap is created once (`if o.refMap == nil`), never reset in mid-recursion.
   The deferred setDefined("") of an inline allOf / items entry writes the key "" that isCircular never reads
   (it answers false for Ref == "" first): not modelled. The name stack only shapes names and messages: not modelled. *)
From Coq Require Import List Bool Arith PArith.
Import ListNotations.

Inductive sref := SRef (r:positive) | SInl (n:nat).
Inductive skind :=
  | KArr (items:sref)
  | KArrNoItems
  | KObj (oneof allof props:list sref)
  | KPrim.

Record sdoc := {
  nodes : list (nat * skind);        (* node id -> kind *)
  defs  : list (positive * nat);     (* definition name -> its node *)
  order : list positive              (* convertSpec: utils.OrderedKeys(spec.Components.Schemas) *)
}.

(* the reserved definition name `object`: typeNameFromSchemaRef of a $ref to it is OpenAPI_OBJECT *)
Definition obj_name : positive := 1%positive.

Fixpoint kind_at (l:list (nat*skind)) (n:nat) : skind :=
  match l with [] => KPrim | (m,k)::t => if Nat.eqb m n then k else kind_at t n end.
Definition kind_of (d:sdoc) (n:nat) : skind := kind_at (nodes d) n.
Fixpoint def_at (l:list (positive*nat)) (r:positive) : option nat :=
  match l with [] => None | (q,n)::t => if Pos.eqb q r then Some n else def_at t r end.
(* a $ref that names no definition never reaches the importer (kin-openapi fails to resolve it): node 0 stands in *)
Definition value_of (d:sdoc) (s:sref) : nat :=
  match s with SRef r => match def_at (defs d) r with Some n => n | None => 0 end | SInl n => n end.

(* ---- o.refMap ---- *)
Definition rmap := list (positive * bool).
Fixpoint rget (rm:rmap) (k:positive) : option bool :=
  match rm with [] => None | (q,b)::t => if Pos.eqb q k then Some b else rget t k end.
Definition rset (rm:rmap) (k:positive) (b:bool) : rmap := (k,b)::rm.
(* isCircular: visited && !t *)
Definition inprog (rm:rmap) (k:positive) : bool := match rget rm k with Some false => true | _ => false end.
Definition is_circular (rm:rmap) (s:sref) : bool := match s with SRef r => inprog rm r | SInl _ => false end.
(* `if ref.Ref != "" { o.refMap[ref.Ref] = false }` *)
Definition mark (rm:rmap) (s:sref) : rmap := match s with SRef r => rset rm r false | SInl _ => rm end.
Definition marks_of (s:sref) : list positive := match s with SRef r => [r] | SInl _ => [] end.
(* setDefined for the refs of one schema position (deferred: array items; at once: an allOf part) *)
Fixpoint set_done (rm:rmap) (l:list positive) : rmap := match l with [] => rm | r::t => set_done (rset rm r true) t end.

Inductive lres := LOk | LCirc | LNoItems | LFuel.
Definition lres_ok (r:lres) : bool := match r with LOk => true | _ => false end.

(* typeNameFromSchemaRef(ref) == OpenAPI_OBJECT ?  (None: out of fuel)
   a $ref with the definitions prefix: the name itself; inline array: the name of its items (RECURSION), "object"
   without items; inline object / no type: "object"; everything else: a primitive's name *)
Fixpoint tn_obj (fuel:nat) (d:sdoc) (s:sref) : option bool :=
  match fuel with O => None | S f =>
    match s with
    | SRef r => Some (Pos.eqb r obj_name)
    | SInl n => match kind_of d n with
                | KArr it => tn_obj f d it
                | KArrNoItems => Some true
                | KObj _ _ _ => Some true
                | KPrim => Some false
                end
    end
  end.

(* schema.Type.Is(array) *)
Definition is_arr (d:sdoc) (n:nat) : bool := match kind_of d n with KArr _ | KArrNoItems => true | _ => false end.
(* innerArray := schema.Items.Ref == "" && schema.Items.Value.Type.Is(array) *)
Definition inner_array (d:sdoc) (s:sref) : bool := match s with SRef _ => false | SInl m => is_arr d m end.

Section WithLoad.
  (* loadTypeSchema at the next lower fuel *)
  Variable ld : nat -> rmap -> lres * rmap.
  Variable tn : sref -> option bool.
  Variable d : sdoc.

  (* buildField(name, prop) as far as the recursion goes *)
  Definition build_field (p:sref) (rm:rmap) : lres * rmap :=
    match p with
    | SRef _ => (LOk, rm)                               (* prop.Ref != "": a name-only type *)
    | SInl n =>
        match kind_of d n with
        | KArr (SRef _) => (LOk, rm)                    (* isArray && Items.Ref != "" *)
        | KArr (SInl m) =>
            match tn p with
            | None => (LFuel, rm)
            | Some b =>
                (* b: case OBJECT: prop = prop.Value.Items; loadTypeSchema(prop.Value).
                   is_arr d m: an array of arrays, loadTypeSchema(prop.Value.Items.Value) *)
                if b || is_arr d m then ld m rm else (LOk, rm)
            end
        | KArrNoItems => (LOk, rm)                      (* Items := a fresh empty object schema; loading it gives a string alias *)
        | KObj _ _ _ => ld n rm                         (* case OBJECT *)
        | KPrim => (LOk, rm)
        end
    end.

  (* `for ... { f, err := o.buildField(..); if err != nil { return nil, err } }` (oneOf options, properties) *)
  Fixpoint fields (l:list sref) (rm:rmap) : lres * rmap :=
    match l with
    | [] => (LOk, rm)
    | p::t => let '(res, rm1) := build_field p rm in
              if lres_ok res then fields t rm1 else (res, rm1)
    end.

  (* `for _, subschema := range schema.AllOf`: circularity test, in-progress mark, recursive load; on success the
     done-mark at once, on failure the error is returned with the mark still set *)
  Fixpoint allofs (l:list sref) (rm:rmap) : lres * rmap :=
    match l with
    | [] => (LOk, rm)
    | s::t =>
        if is_circular rm s then (LCirc, rm)
        else let '(res, rm2) := ld (value_of d s) (mark rm s) in
             if lres_ok res then allofs t (set_done rm2 (marks_of s)) else (res, rm2)
    end.
End WithLoad.

(* loadTypeSchema(name, schema) *)
Fixpoint load (fuel:nat) (d:sdoc) (n:nat) (rm:rmap) : lres * rmap :=
  match fuel with O => (LFuel, rm) | S f =>
    match kind_of d n with
    | KArrNoItems => (LNoItems, rm)                                   (* "array type %s has no items" *)
    | KArr it =>
        match tn_obj f d it with
        | None => (LFuel, rm)
        | Some b =>
            if b || inner_array d it then
              if is_circular rm it then (LCirc, rm)
              else let '(res, rm2) := load f d (value_of d it) (mark rm it) in
                   (res, set_done rm2 (marks_of it))                  (* defer setDefined(schema.Items.Ref) *)
            else (LOk, rm)                                            (* items = typeAliasForSchema(schema.Items) *)
        end
    | KObj oneof allof props =>
        match oneof with
        | _ :: _ => fields (load f d) (tn_obj f d) d oneof rm          (* a Union: allOf and properties are not looked at *)
        | [] =>
            let '(res, rm1) := allofs (load f d) d allof rm in
            if lres_ok res then fields (load f d) (tn_obj f d) d props rm1 else (res, rm1)
        end
    | KPrim => (LOk, rm)
    end
  end.

(* convertSpec: the definitions in name order, one refMap for all of them, the first error ends the import *)
Fixpoint load_all (fuel:nat) (d:sdoc) (l:list positive) (rm:rmap) : lres * rmap :=
  match l with
  | [] => (LOk, rm)
  | r::t => let '(res, rm1) := load fuel d (value_of d (SRef r)) rm in
            if lres_ok res then load_all fuel d t rm1 else (res, rm1)
  end.

(* ---- the bound ---- *)
Definition srefs_of (k:skind) : list sref :=
  match k with KArr it => [it] | KArrNoItems => [] | KObj a b c => a ++ b ++ c | KPrim => [] end.
Fixpoint refnames (l:list sref) : list positive :=
  match l with [] => [] | SRef r :: t => r :: refnames t | SInl _ :: t => refnames t end.
(* every $ref name that occurs in the document *)
Definition universe (d:sdoc) : list positive := flat_map (fun nk => refnames (srefs_of (snd nk))) (nodes d).
Definition max_id (d:sdoc) : nat := fold_right (fun nk m => Nat.max (fst nk) m) 0 (nodes d).
(* inline schemas are numbered after the schema that contains them (pre-order of the document tree) *)
Definition inline_ok (D n:nat) (s:sref) : bool :=
  match s with SRef _ => true | SInl m => Nat.ltb n m && Nat.leb m D end.
Definition inline_increasing (d:sdoc) : bool :=
  forallb (fun nk => forallb (inline_ok (max_id d) (fst nk)) (srefs_of (snd nk))) (nodes d).
(* one more in-progress mark costs at most one pass down the inline tree (+3: the type-name lookups of the last level) *)
Definition enough_fuel (d:sdoc) : nat := S (length (universe d)) * (max_id d + 3).

Definition import_swagger (d:sdoc) : lres := fst (load_all (enough_fuel d) d (order d) []).
