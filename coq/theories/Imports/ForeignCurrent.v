(* C06 obligations of the dispatch model against the CURRENT source (Gen/FaultArms.v, translator translate/faultarms.go),
   the theorems of ForeignProps restated for the current tables, what they say for the extensions and suffixes the
   current tables accept, and non-vacuity examples. *)
From Coq Require Import String Ascii List Bool NArith Lia.
Import ListNotations.
Require Import Verif.Imports.ForeignTypes Verif.Imports.Rules Verif.Imports.Collect Verif.Imports.CollectProps Verif.Imports.Faults
               Verif.Imports.FaultsProps Verif.Imports.Foreign Verif.Imports.ForeignProps Verif.Imports.CurrentFaults
               Verif.Gen.ImportRules Verif.Gen.FaultArms.
Local Open Scope string_scope.
Local Open Scope list_scope.

(* ---- the texts Foreign.v was transliterated from ---- *)
Definition expected_shape_from_pb : list string := [
  "m := &sysl.Module{}";
  "switch { case strings.HasSuffix(pbPath, "".pb""): err := proto.Unmarshal(toBytes(contents), m) return m, err case strings.HasSuffix(pbPath, "".pb.json""): err := protojson.Unmarshal(toBytes(contents), m) return m, err case strings.HasSuffix(pbPath, "".textpb""): err := prototext.Unmarshal(toBytes(contents), m) return m, err }";
  "return nil, ErrUnknownExtension"
].
Definition expected_shape_guess : list string := [
  "if isDir { if files, err := os.ReadDir(path); err == nil { for _, info := range files { if strings.HasSuffix(info.Name(), "".up.sql"") || strings.HasSuffix(info.Name(), "".up.ddl"") { return Format{}, fmt.Errorf( ""input file format for %s could be one of {%v, %v, %v, %v}; pass --format to specify"", path, SpannerSQLDir.Name, PostgresDir.Name, MySQLDir.Name, ProtobufDir.Name) } } } }";
  "var matchesExt []Format";
  "ext := filepath.Ext(path)";
  "for _, format := range validFormats { for _, formatExt := range format.FileExt { if formatExt == ext { matchesExt = append(matchesExt, format) break } } }";
  "if len(matchesExt) == 1 { return matchesExt[0], nil }";
  "var matchesSignature []Format";
  "if ext == "".json"" { var err error content, err = yaml.JSONToYAML(content) if err != nil { return Format{}, fmt.Errorf(""error converting spec to yaml for: %s"", path) } }";
  "for _, format := range matchesExt { if format.Signature == nil || format.Signature.Match(content) { matchesSignature = append(matchesSignature, format) } }";
  "switch len(matchesSignature) { case 1: return matchesSignature[0], nil case 0: return Format{}, fmt.Errorf(""error detecting input file format for %s"", path) default: names := make([]string, len(matchesSignature)) for i, f := range matchesSignature { names[i] = f.Name } return Format{}, fmt.Errorf( ""input file format for %s could be one of {%v}; pass --format to specify"", path, strings.Join(names, "", "")) }"
].
Definition expected_shape_detect : list string := [
  "var ParserFormats = []importer.Format{ importer.OpenAPI3, importer.OpenAPI2, importer.SYSL, importer.Protobuf, }";
  "return importer.GuessFileType(fileName, false, file, ParserFormats)"
].
Definition expected_shape_import_foreign : list string := [
  "defer func() { if r := recover(); r != nil { out, err = nil, syslutil.Exitf(ParseError, fmt.Sprintf(""%s cannot be imported: %v\n"", def.filename, r)) } }()";
  "logger := logrus.StandardLogger()";
  "fileName, _ := mod.ExtractVersion(def.filename)";
  "file := input.GetText(0, input.Size())";
  "fileType, err := detectFileType(fileName, []byte(file))";
  "if err != nil { return nil, err }";
  "switch fileType.Name { case importer.SYSL.Name: return input, nil case importer.SyslPB.Name: m, err := pbutil.FromPBByteContents(fileName, []byte(file)) if err != nil { return nil, syslutil.Exitf(ParseError, fmt.Sprintf(""%s has unknown format: %s"", fileName, err)) } var buf bytes.Buffer printer.Module(&buf, m) output := buf.String() return antlr.NewInputStream(output), nil case importer.OpenAPI3.Name, importer.OpenAPI2.Name, importer.Protobuf.Name: imp, err := importer.Factory(fileName, false, """", []byte(file), logger) if err != nil { return nil, syslutil.Exitf(ParseError, fmt.Sprintf(""%s has unknown format: %s"", fileName, err)) } imp, err = imp.Configure(&importer.ImporterArg{AppName: def.appname, PackageName: def.pkg, Imports: """"}) if err != nil { return nil, syslutil.Exitf(ParseError, fmt.Sprintf(""%s cannot be imported: %s"", fileName, err)) } output, err := imp.Load(file) if err != nil { return nil, syslutil.Exitf(ParseError, fmt.Sprintf(""%s has unknown format: %s"", fileName, err)) } return antlr.NewInputStream(output), nil default: return nil, syslutil.Exitf(ParseError, fmt.Sprintf(""%s has unknown format"", fileName)) }"
].
Definition expected_shape_stage1 : list string := [
  "out.src = v.src";
  "out.syslProtoImport, out.err = pbutil.FromPBStringContents(v.src.filename, v.input)";
  "if !errors.Is(pbutil.ErrUnknownExtension, out.err) { return nil }";
  "fsinput := &fsFileStream{antlr.NewInputStream(v.input), v.src.filename}";
  "var err error";
  "out.str, err = importForeign(v.src, fsinput)";
  "if err != nil { return err }";
  "return nil"
].
Definition expected_shape_stage1_wait : list string := [
  "gerr := g.Wait()";
  "if gerr != nil { return nil, gerr }"
].
Definition expected_shape_stage2_pb : list string := [
  "if !errors.Is(pbutil.ErrUnknownExtension, v.err) { if v.err != nil { return nil, fmt.Errorf(""error parsing %s: %w"", src.filename, v.err) } if v.syslProtoImport != nil { merge := func() (err error) { defer func() { if r := recover(); r != nil { err = fmt.Errorf(""%v"", r) } }() return mergo.Merge(listener.module, v.syslProtoImport) } if err := merge(); err != nil { return nil, fmt.Errorf(""error merging %s: %w"", src.filename, err) } } continue }"
].

Lemma foreign_shapes_current :
  shape_from_pb = expected_shape_from_pb /\ shape_guess = expected_shape_guess /\ shape_detect = expected_shape_detect /\
  shape_import_foreign = expected_shape_import_foreign /\ shape_stage1 = expected_shape_stage1 /\
  shape_stage1_wait = expected_shape_stage1_wait /\ shape_stage2_pb = expected_shape_stage2_pb.
Proof. repeat split; reflexivity. Qed.

(* every table entry was understood by the translator; the arms of importForeign name formats that exist *)
Definition decoder_known (d:decoder) : bool := match d with DecOther => false | _ => true end.
Definition sig_known (s:sigre) : bool := match s with SigUnknown => false | _ => true end.
Definition format_known (f:format) : bool :=
  sig_known (fsig f) && negb (String.eqb (fname f) "?") && negb (smem "?" (fexts f)).
Definition tables_wf (T:tables) : bool :=
  forallb (fun p => decoder_known (snd p) && negb (String.eqb (fst p) "?")) (t_pb T) && t_pb_unknown_after T &&
  forallb format_known (t_vars T) && forallb format_known (t_all T) && forallb format_known (t_parser T) &&
  negb (Nat.eqb (length (t_all T)) 0) && negb (Nat.eqb (length (t_parser T)) 0).

Lemma foreign_tables_current :
  tables_wf current_tables = true /\
  map (var_name current_tables) ["SYSL"; "SyslPB"; "OpenAPI3"; "OpenAPI2"; "Protobuf"] =
    ["sysl"; "sysl.pb"; "openapi3"; "swagger"; "protobuf"].
Proof. split; reflexivity. Qed.

(* ---- what the current tables accept ---- *)
Definition accepted_exts : list string := [".yaml"; ".json"; ".yml"; ".sysl"; ".proto"].
Definition ambiguous_exts : list string := [".yaml"; ".json"; ".yml"].

Lemma pb_dispatch_current path :
  pb_dispatch pb_cases path =
  if has_suffix path ".pb" then Some DecBinary
  else if has_suffix path ".pb.json" then Some DecJson
  else if has_suffix path ".textpb" then Some DecText else None.
Proof. reflexivity. Qed.

Lemma parser_exts_current :
  forallb (fun f => forallb (fun e => smem e accepted_exts) (fexts f)) parser_formats = true /\
  forallb (fun e => existsb (fun f => smem e (fexts f)) parser_formats) accepted_exts = true.
Proof. split; reflexivity. Qed.

Lemma smem_sub x exts acc : forallb (fun e => smem e acc) exts = true -> smem x acc = false -> existsb (String.eqb x) exts = false.
Proof.
  induction exts as [|e r IH]; cbn [forallb existsb]; [reflexivity|]. intros H Hx.
  apply andb_true_iff in H. destruct H as [He Hr]. rewrite (IH Hr Hx), orb_false_r.
  destruct (String.eqb x e) eqn:E; [|reflexivity]. apply String.eqb_eq in E. subst e. congruence.
Qed.

Lemma filter_none {A} (p:A -> bool) l : forallb (fun x => negb (p x)) l = true -> filter p l = [].
Proof.
  induction l as [|h t IH]; cbn [forallb filter]; [reflexivity|]. intros H. apply andb_true_iff in H.
  destruct H as [Hh Ht]. destruct (p h); [discriminate|]. apply IH, Ht.
Qed.

(* wrong extension: a name that is no compiled model and whose extension no parser format lists never becomes
   part of a model, whatever its content *)
Theorem current_unaccepted_ext_fails d :
  ~ bad_collect d -> pb_dispatch pb_cases (d_path d) = None -> smem (path_ext (d_path d)) accepted_exts = false ->
  file_fault current_tables d = Some ForeignDetect \/ file_fault current_tables d = Some ForeignJson.
Proof.
  intros Hnc Hp Hx. apply no_format_fault; [exact Hnc|exact Hp|]. unfold ext_formats. apply filter_none.
  cbn [t_parser current_tables]. destruct parser_exts_current as [Hsub _].
  revert Hsub. generalize parser_formats. intros l. induction l as [|f r IH]; cbn [forallb]; [reflexivity|].
  intros H. apply andb_true_iff in H. destruct H as [Hf Hr]. rewrite (IH Hr), andb_true_r.
  unfold ext_matches. rewrite (smem_sub _ _ _ Hf Hx). reflexivity.
Qed.

(* two format signatures at once in a .yaml / .yml / .json file: the import fails as ambiguous *)
Theorem current_two_signatures_fail d c :
  ~ bad_collect d -> pb_dispatch pb_cases (d_path d) = None -> smem (path_ext (d_path d)) ambiguous_exts = true ->
  d_eff d = Some c -> sig_ok SigOpenapi c = true -> sig_ok SigSwagger c = true ->
  file_fault current_tables d = Some ForeignAmbiguous.
Proof.
  intros Hnc Hp Hx He Ho Hs.
  assert (Hext : path_ext (d_path d) = ".yaml" \/ path_ext (d_path d) = ".json" \/ path_ext (d_path d) = ".yml").
  { unfold smem, ambiguous_exts in Hx. cbn [existsb] in Hx. rewrite !orb_true_iff in Hx.
    destruct Hx as [H|[H|[H|H]]]; [| | |discriminate]; apply String.eqb_eq in H; auto. }
  apply (two_signatures_fault current_tables d c Hnc Hp); [| exact He |].
  - unfold ext_formats. cbn [t_parser current_tables]. destruct Hext as [-> |[-> | ->]]; vm_compute; discriminate.
  - unfold sig_formats, ext_formats. cbn [t_parser current_tables].
    destruct Hext as [-> |[-> | ->]]; cbn [filter parser_formats ext_matches existsb fexts String.eqb Ascii.eqb Bool.eqb orb fsig];
      rewrite Ho, Hs; cbn [length]; lia.
Qed.

(* neither signature: the import fails as undetectable *)
Theorem current_no_signature_fails d c :
  ~ bad_collect d -> pb_dispatch pb_cases (d_path d) = None -> smem (path_ext (d_path d)) ambiguous_exts = true ->
  d_eff d = Some c -> sig_ok SigOpenapi c = false -> sig_ok SigSwagger c = false ->
  file_fault current_tables d = Some ForeignDetect.
Proof.
  intros Hnc Hp Hx He Ho Hs.
  assert (Hext : path_ext (d_path d) = ".yaml" \/ path_ext (d_path d) = ".json" \/ path_ext (d_path d) = ".yml").
  { unfold smem, ambiguous_exts in Hx. cbn [existsb] in Hx. rewrite !orb_true_iff in Hx.
    destruct Hx as [H|[H|[H|H]]]; [| | |discriminate]; apply String.eqb_eq in H; auto. }
  assert (Hr : d_read d = true) by (destruct (d_read d) eqn:E; [reflexivity|exfalso; apply Hnc, bad_unreadable, E]).
  assert (Hi : contains (d_path d) ".sysl" && negb (d_imports_ok d) = false).
  { destruct (contains (d_path d) ".sysl") eqn:Ec; [|reflexivity]. destruct (d_imports_ok d) eqn:Ei; [reflexivity|].
    exfalso. apply Hnc, bad_import_lines; assumption. }
  unfold file_fault. rewrite Hr, Hi. cbn [negb t_pb current_tables]. rewrite Hp. unfold import_foreign.
  rewrite (guess_no_signature (t_parser current_tables) _ _ _ c); [reflexivity| |exact He|].
  - unfold ext_formats. cbn [t_parser current_tables]. destruct Hext as [-> |[-> | ->]]; vm_compute; discriminate.
  - unfold sig_formats, ext_formats. cbn [t_parser current_tables].
    destruct Hext as [-> |[-> | ->]]; cbn [filter parser_formats ext_matches existsb fexts String.eqb Ascii.eqb Bool.eqb orb fsig];
      rewrite Ho, Hs; reflexivity.
Qed.

(* a compiled model that does not decode *)
Theorem current_pb_undecodable_fails d dec :
  ~ bad_collect d -> pb_dispatch pb_cases (d_path d) = Some dec -> d_pay d = PayUndecodable ->
  file_fault current_tables d = Some PbDecode.
Proof.
  intros Hnc Hp Hpay.
  assert (Hr : d_read d = true) by (destruct (d_read d) eqn:E; [reflexivity|exfalso; apply Hnc, bad_unreadable, E]).
  assert (Hi : contains (d_path d) ".sysl" && negb (d_imports_ok d) = false).
  { destruct (contains (d_path d) ".sysl") eqn:Ec; [|reflexivity]. destruct (d_imports_ok d) eqn:Ei; [reflexivity|].
    exfalso. apply Hnc, bad_import_lines; assumption. }
  unfold file_fault. rewrite Hr, Hi. cbn [negb t_pb current_tables]. rewrite Hp, Hpay. reflexivity.
Qed.

(* a compiled model that decodes but cannot be merged (second pass) *)
Theorem current_pb_unmergeable_fails d dec :
  ~ bad_collect d -> pb_dispatch pb_cases (d_path d) = Some dec -> d_pay d = PayInvalid ->
  file_fault current_tables d = Some PbMerge.
Proof.
  intros Hnc Hp Hpay.
  assert (Hr : d_read d = true) by (destruct (d_read d) eqn:E; [reflexivity|exfalso; apply Hnc, bad_unreadable, E]).
  assert (Hi : contains (d_path d) ".sysl" && negb (d_imports_ok d) = false).
  { destruct (contains (d_path d) ".sysl") eqn:Ec; [|reflexivity]. destruct (d_imports_ok d) eqn:Ei; [reflexivity|].
    exfalso. apply Hnc, bad_import_lines; assumption. }
  unfold file_fault. rewrite Hr, Hi. cbn [negb t_pb current_tables]. rewrite Hp, Hpay. reflexivity.
Qed.

(* the compiled-model arm exactly: the class of a readable compiled model is a function of its payload alone (its
   content is never looked at by the format detection) *)
Theorem current_pb_arm_exact d dec :
  ~ bad_collect d -> pb_dispatch pb_cases (d_path d) = Some dec ->
  file_fault current_tables d =
  match d_pay d with PayOk => None | PayUndecodable => Some PbDecode | PayInvalid => Some PbMerge end.
Proof.
  intros Hnc Hp.
  assert (Hr : d_read d = true) by (destruct (d_read d) eqn:E; [reflexivity|exfalso; apply Hnc, bad_unreadable, E]).
  assert (Hi : contains (d_path d) ".sysl" && negb (d_imports_ok d) = false).
  { destruct (contains (d_path d) ".sysl") eqn:Ec; [|reflexivity]. destruct (d_imports_ok d) eqn:Ei; [reflexivity|].
    exfalso. apply Hnc, bad_import_lines; assumption. }
  unfold file_fault. rewrite Hr, Hi. cbn [negb t_pb current_tables]. rewrite Hp. destruct (d_pay d); reflexivity.
Qed.

(* ---- the closure theorem for the current rule and format tables ---- *)
Theorem foreign_fails_clean_current g descs maxd root s choice :
  let fl := faults_from current_tables descs in
  reachable_cur g fl maxd root s -> ftasks s = [] ->
  let o := foutcome current_rules fl root choice s in
  o <> Stuck /\
  ((exists f, In f (freads s) /\ bad_collect (descs f)) ->
     exists e f', o = Error e /\ (exit_code e = 1 \/ exit_code e = 2)%N /\
                  names e f' = true /\ In f' (freads s) /\ bad_collect (descs f')) /\
  (forall l, froot s = Some None -> flatten current_rules (2 + length (fcl s)) (fcl s) [] root = Some l ->
     (exists f, In f l /\ bad_parse current_tables (descs f) /\ ~ bad_collect (descs f)) ->
     exists e f', o = Error e /\ In f' l /\ names e f' = true /\ fl f' <> None /\
                  exit_code e = parse_status fl f' /\ (exit_code e = 1 \/ exit_code e = 2)%N) /\
  (forall l, o = Model l ->
     (forall f, In f (freads s) -> ~ bad_collect (descs f)) /\
     (forall f, In f l -> ~ bad_collect (descs f) -> ~ bad_parse current_tables (descs f))).
Proof. rewrite rules_current_c06. exact (foreign_fails_clean current_tables g descs maxd root s choice). Qed.

(* ---- non-vacuity: descriptions that meet the hypotheses, and closures that fail on them ---- *)
Definition mk (p c:string) (pay:payload) : fdesc :=
  {| d_path := p; d_content := c; d_yaml := None; d_app := true; d_read := true; d_imports_ok := true; d_pay := pay |}.
Definition d_root := mk "root.sysl" "" PayOk.
Definition d_both := mk "api/a.yaml" (String.append "swagger: ""2.0""" (String "010" "'openapi' : 3")) PayOk.
Definition d_none := mk "a.yml" "name: nothing" PayOk.
Definition d_pbbad := mk "m.pb.json" "{" PayUndecodable.
Definition d_pbodd := mk "d/m.textpb" "apps: {}" PayInvalid.
Definition d_txt := mk "notes.d/readme" "x" PayOk.
Definition d_good := mk "b.yaml" "swagger: ""2.0""" PayOk.
Definition d_json_schema :=
  {| d_path := "c.json"; d_content := "{""swagger"":""2.0"",""$schema"":""x""}"; d_yaml := Some (String.append "$schema: x" (String "010" "swagger: ""2.0"""));
     d_app := true; d_read := true; d_imports_ok := true; d_pay := PayOk |}.

Example dispatch_examples :
  path_ext "api/a.yaml" = ".yaml" /\ path_ext "notes.d/readme" = "" /\ path_ext "x.pb.json" = ".json" /\
  pb_dispatch pb_cases "x.pb.json" = Some DecJson /\ pb_dispatch pb_cases "x.json" = None /\
  file_fault current_tables d_root = None /\ file_fault current_tables d_good = None /\
  file_fault current_tables d_both = Some ForeignAmbiguous /\ file_fault current_tables d_none = Some ForeignDetect /\
  file_fault current_tables d_pbbad = Some PbDecode /\ file_fault current_tables d_txt = Some ForeignDetect /\
  file_fault current_tables d_pbodd = Some PbMerge /\
  (* detected as swagger by the parser's list, ambiguous among importer.Formats: the importer arm fails *)
  file_fault current_tables d_json_schema = Some ForeignConvert.
Proof. vm_compute. repeat split. Qed.

Example hypotheses_met :
  (~ bad_collect d_both /\ pb_dispatch pb_cases (d_path d_both) = None /\ smem (path_ext (d_path d_both)) ambiguous_exts = true /\
   exists c, d_eff d_both = Some c /\ sig_ok SigOpenapi c = true /\ sig_ok SigSwagger c = true) /\
  (~ bad_collect d_txt /\ pb_dispatch pb_cases (d_path d_txt) = None /\ smem (path_ext (d_path d_txt)) accepted_exts = false) /\
  (bad_parse current_tables d_pbbad /\ ~ bad_collect d_pbbad) /\
  (bad_parse current_tables d_pbodd /\ ~ bad_collect d_pbodd /\ pb_dispatch pb_cases (d_path d_pbodd) = Some DecText).
Proof.
  assert (Hnc : forall p c pay, ~ bad_collect (mk p c pay)) by (intros p c pay [H|_ H]; discriminate).
  split; [|split; [|split]].
  - split; [apply Hnc|]. split; [reflexivity|]. split; [reflexivity|]. eexists. split; [reflexivity|]. split; reflexivity.
  - split; [apply Hnc|]. split; reflexivity.
  - split; [|apply Hnc]. apply (bad_pb current_tables d_pbbad DecJson); reflexivity.
  - split; [|split; [apply Hnc|reflexivity]]. apply (bad_pb_merge current_tables d_pbodd DecText); reflexivity.
Qed.

(* root imports a.yaml (two signatures), m.pb.json (does not decode) and b.yaml (fine): the conversion error of stage 1
   wins over the decoding error that stage 2 would report; without it the decoding error is reported *)
Definition g_foreign : graph := graph_of [(0,[1;2;3]); (1,[]); (2,[]); (3,[])]%N.
Definition descs_a (f:idx) : fdesc :=
  if N.eqb f 1 then d_both else if N.eqb f 2 then d_pbbad else if N.eqb f 3 then d_good else d_root.
Definition descs_b (f:idx) : fdesc := if N.eqb f 1 then d_good else descs_a f.
(* second pass: 1 = a compiled model that cannot be merged, 2 = one that does not decode: the first in file order *)
Definition descs_c (f:idx) : fdesc := if N.eqb f 1 then d_pbodd else descs_a f.
Example merge_runs :
  let fl := faults_from current_tables descs_c in
  let s := frun expected_rules g_foreign fl 0 0%N (repeat 0 20) in
  ftasks s = [] /\ (forall choice, In choice [0;1;2;3] -> foutcome expected_rules fl 0%N choice s = Error (EMerge 1%N)) /\
  exit_code (EMerge 1%N) = 1%N.
Proof. vm_compute. repeat split; intros choice [<-|[<-|[<-|[<-|[]]]]]; reflexivity. Qed.
Example foreign_runs :
  (let fl := faults_from current_tables descs_a in
   let s := frun expected_rules g_foreign fl 0 0%N (repeat 0 20) in
   ftasks s = [] /\ foutcome expected_rules fl 0%N 0 s = Error (EAmbiguous 1%N)) /\
  (let fl := faults_from current_tables descs_b in
   let s := frun expected_rules g_foreign fl 0 0%N (repeat 0 20) in
   ftasks s = [] /\ foutcome expected_rules fl 0%N 0 s = Error (EPbDecode 2%N) /\ exit_code (EPbDecode 2%N) = 1%N).
Proof. vm_compute. repeat split. Qed.
