(* MODEL for C06, part 2: which fault class a file of the import closure falls into, from its NAME and CONTENT,
   as parseSpecs stage 1 decides it. Definitions only; tables from Gen/FaultArms.v.

     pkg/pbutil/input.go   fromPBContents     pb_dispatch   first arm whose suffix the name ends with
     path/filepath         Ext                path_ext      from the last '.' of the last path element
     pkg/importer/formats.go GuessFileType    guess         formats whose FileExt contains the extension; exactly one:
                                                            that one; else (for .json: content := JSONToYAML(content),
                                                            failure = error) those whose Signature is nil or matches:
                                                            exactly one: that one; none: "error detecting"; several:
                                                            "could be one of {..}"
     regexp                ["']?openapi["']?\s*:  etc.     sig_ok        unanchored match
     pkg/parse/parse.go    importForeign      import_foreign  detectFileType, then the arm of the detected format;
                                                            the importer arm detects AGAIN (importer.Factory, among
                                                            importer.Formats), configures (application name) and loads
     pkg/parse/parse.go    parseSpecs closure file_fault    compiled model by suffix first, else importForeign

   What the decoders / importers / the Sysl parser do with the payload is not modelled: d_pay says whether the
   content is decodable and valid for whatever it is taken as; yaml.JSONToYAML's result is given (d_yaml). *)
From Coq Require Import String Ascii List Bool NArith.
Import ListNotations.
Require Import Verif.Imports.ForeignTypes Verif.Imports.Collect Verif.Imports.Faults.
Local Open Scope string_scope.

Definition chars := list ascii.
Definition cs (s:string) : chars := list_ascii_of_string s.

Fixpoint starts_with (w l:chars) : option chars :=
  match w, l with
  | [], _ => Some l
  | a :: w', b :: l' => if Ascii.eqb a b then starts_with w' l' else None
  | _ :: _, [] => None
  end.
Definition is_some {A} (o:option A) : bool := match o with Some _ => true | None => false end.
Fixpoint anywhere (p:chars -> bool) (l:chars) : bool :=
  p l || match l with [] => false | _ :: r => anywhere p r end.

(* strings.HasSuffix / strings.Contains *)
Definition has_suffix (s suf:string) : bool := is_some (starts_with (rev (cs suf)) (rev (cs s))).
Definition contains (s sub:string) : bool := anywhere (fun l => is_some (starts_with (cs sub) l)) (cs s).

(* filepath.Ext: scan from the end up to the last separator; the text from the last dot *)
Fixpoint ext_scan (r acc:chars) : chars :=
  match r with
  | [] => []
  | c :: r' => if Ascii.eqb c "/" then [] else if Ascii.eqb c "." then c :: acc else ext_scan r' (c :: acc)
  end.
Definition path_ext (p:string) : string := string_of_list_ascii (ext_scan (rev (cs p)) []).

(* fromPBContents: a tagless switch of strings.HasSuffix tests, first match *)
Fixpoint pb_dispatch (arms:list (string * decoder)) (path:string) : option decoder :=
  match arms with
  | [] => None
  | (suf, d) :: r => if has_suffix path suf then Some d else pb_dispatch r path
  end.

(* ---- signatures ---- *)
Definition is_ws (c:ascii) : bool :=           (* RE2 \s = [\t\n\f\r ] *)
  let n := N_of_ascii c in (N.eqb n 9 || N.eqb n 10 || N.eqb n 12 || N.eqb n 13 || N.eqb n 32)%N.
Definition is_quote (c:ascii) : bool := let n := N_of_ascii c in (N.eqb n 34 || N.eqb n 39)%N.
Fixpoint skip_ws (l:chars) : chars := match l with c :: r => if is_ws c then skip_ws r else l | [] => [] end.
(* ["']?WORD["']?\s*:  matched at l, without the optional leading quote (the search is unanchored) *)
Definition key_at (w:chars) (l:chars) : bool :=
  match starts_with w l with
  | None => false
  | Some r => let r1 := match r with c :: r' => if is_quote c then r' else r | [] => r end in
              match skip_ws r1 with c :: _ => Ascii.eqb c ":" | [] => false end
  end.
Definition sig_ok (s:sigre) (content:string) : bool :=
  match s with
  | SigNone => true                                           (* format.Signature == nil *)
  | SigOpenapi => anywhere (key_at (cs "openapi")) (cs content)
  | SigSwagger => anywhere (key_at (cs "swagger")) (cs content)
  | SigSchema => contains content "$schema"
  | SigUnknown => false
  end.

(* ---- GuessFileType (isDir = false) ---- *)
Inductive guess_res := GOk (f:format) | GDetect | GAmbiguous (names:list string) | GJsonErr.
Definition ext_matches (ext:string) (f:format) : bool := existsb (String.eqb ext) (fexts f).
Definition guess (valid:list format) (path content:string) (yaml:option string) : guess_res :=
  let ext := path_ext path in
  let m := filter (ext_matches ext) valid in
  match m with
  | [f] => GOk f
  | _ =>
    match (if String.eqb ext ".json" then yaml else Some content) with
    | None => GJsonErr
    | Some c =>
      match filter (fun f => sig_ok (fsig f) c) m with
      | [f] => GOk f
      | [] => GDetect
      | fs => GAmbiguous (map fname fs)
      end
    end
  end.

(* ---- one file as parseSpecs sees it ---- *)
Inductive payload := PayOk | PayUndecodable | PayInvalid.
Record fdesc := {
  d_path : string;            (* the file name the import resolves to (no @version) *)
  d_content : string;
  d_yaml : option string;     (* yaml.JSONToYAML(content): None = not JSON (used for .json only) *)
  d_app : bool;               (* the import statement names an application (`as X`) *)
  d_read : bool;              (* ReadHashBranch succeeds *)
  d_imports_ok : bool;        (* the import lines parse (Sysl files) *)
  d_pay : payload             (* PayUndecodable: the decoder / importer rejects the content; PayInvalid: converted, but
                                 the resulting Sysl text has syntax errors (for Sysl text: it has syntax errors; for a
                                 compiled model: decoded, but mergo.Merge into the module built so far fails or panics) *)
}.

Definition var_name (T:tables) (v:string) : string :=
  match find (fun f => String.eqb (fvar f) v) (t_vars T) with Some f => fname f | None => "?" ++ v end.
Definition smem (x:string) (l:list string) : bool := existsb (String.eqb x) l.

(* importers whose Configure does not ask for an application name (protobuf.go, sql.go, syslpb.go); all others
   return "application name not provided" *)
Definition no_app_needed : list string :=
  ["protobuf"; "protobufDir"; "sysl.pb"; "spannerSQL"; "spannerSQLdir"; "postgres"; "postgresDir"; "mysql"; "mysqlDir"; "bigquery"].
(* importer.Factory: the grammar importer is disabled *)
Definition factory_refuses (name:string) : bool := String.eqb name "grammar".

Definition pay_fault (p:payload) : option fault :=
  match p with PayOk => None | PayUndecodable => Some ForeignConvert | PayInvalid => Some BodySyntax end.

(* importForeign: None = a character stream that the second stage parses without error *)
Definition import_foreign (T:tables) (d:fdesc) : option fault :=
  match guess (t_parser T) (d_path d) (d_content d) (d_yaml d) with
  | GDetect => Some ForeignDetect
  | GAmbiguous _ => Some ForeignAmbiguous
  | GJsonErr => Some ForeignJson
  | GOk f =>
    let n := fname f in
    if String.eqb n (var_name T "SYSL") then
      match d_pay d with PayOk => None | _ => Some BodySyntax end        (* the input itself, parsed in stage 2 *)
    else if String.eqb n (var_name T "SyslPB") then
      match pb_dispatch (t_pb T) (d_path d) with
      | Some _ => match d_pay d with PayUndecodable => Some ForeignConvert | _ => None end
      | None => Some ForeignConvert                                         (* ErrUnknownExtension, wrapped *)
      end
    else if smem n [var_name T "OpenAPI3"; var_name T "OpenAPI2"; var_name T "Protobuf"] then
      match guess (t_all T) (d_path d) (d_content d) (d_yaml d) with       (* importer.Factory(fileName, false, "", ..) *)
      | GOk f2 =>
          if factory_refuses (fname f2) then Some ForeignConvert
          else if negb (smem (fname f2) no_app_needed) && negb (d_app d) then Some ForeignConvert   (* Configure *)
          else pay_fault (d_pay d)                                                                  (* Load *)
      | _ => Some ForeignConvert
      end
    else Some ForeignConvert                                                (* default arm *)
  end.

(* the file's fault class: collectSpecs (read, import lines of a name containing ".sysl"), then the closure of
   parseSpecs stage 1: a compiled model by suffix first (its decoding error, or the failure of merging it, surfaces in
   stage 2), else importForeign *)
Definition file_fault (T:tables) (d:fdesc) : option fault :=
  if negb (d_read d) then Some ReadErr
  else if contains (d_path d) ".sysl" && negb (d_imports_ok d) then Some ImportSyntax
  else match pb_dispatch (t_pb T) (d_path d) with
       | Some _ => match d_pay d with PayUndecodable => Some PbDecode | PayInvalid => Some PbMerge | PayOk => None end
       | None => import_foreign T d
       end.

Definition faults_from (T:tables) (descs:idx -> fdesc) : faults := fun f => file_fault T (descs f).
