(* C05 obligations against the CURRENT source: the table regenerated from parse.go / utils.go
   (Gen/ImportRules.v) must be the one the model and its theorems were written for. The lemma is
   closed by `reflexivity`; it stops checking as soon as the claim moves behind the read, the
   flatten loop changes direction, the depth comparison changes, the mutex no longer covers the
   lookup-and-insert, the join loses its error, or fileNameToIndex gains / loses a step.
   Below it the theorems of CollectProps / FlattenProps / TermProps / IndexProps are restated for the
   model instantiated with the regenerated table, with non-vacuity examples for their hypotheses. *)
From Coq Require Import String List NArith Arith Bool.
Import ListNotations.
Require Import Verif.Imports.Rules Verif.Imports.Collect Verif.Imports.CollectProps Verif.Imports.FlattenProps
               Verif.Imports.TermProps Verif.Imports.Index Verif.Imports.IndexProps Verif.Imports.Extract Verif.Imports.ExtractProps
               Verif.Imports.NameTables Verif.Imports.Paths Verif.Imports.PathsProps Verif.Imports.Names Verif.Imports.NamesProps
               Verif.Imports.History Verif.Imports.HistoryProps Verif.Imports.DepthProps
               Verif.Imports.Versions Verif.Imports.VersionsProps
               Verif.Gen.ImportRules Verif.Gen.NameRules.

Lemma rules_current : current_rules = expected_rules.
Proof. reflexivity. Qed.

(* the statements Names.v / Paths.v / History.v were transliterated from are the ones in the source now: Parser.Set,
   the writers of Settings, the head of Parse, EnterImport_stmt's name construction, importDir, localReadName,
   fileNameToIndex WITH its normalisation step (fixes/C05-2), IsRemoteImport / GetRemoteRepoRoot / repoRegexp, the
   second-claimer branch and the read-to-fan-out part of collectSpecs, the golden-retriever version *)
Lemma name_rules_current : current_name_rules = expected_name_rules.
Proof. reflexivity. Qed.

Lemma hrules_current : hrules_of current_name_rules = expected_hrules.
Proof. rewrite name_rules_current. reflexivity. Qed.

Definition final_cur g root maxd sched := snd (result current_rules g maxd root sched).
Definition got_cur g root maxd sched f := lookup f (claimed (run current_rules g maxd root sched)) <> None.

(* cycles end: on a finite import graph every long enough schedule ends with no goroutine left *)
Theorem collect_terminates_current g root maxd univ sched :
  In root univ -> (forall f k, In f univ -> In k (g f) -> In k univ) ->
  step_bound g univ <= length sched -> quiescent (run current_rules g maxd root sched) = true.
Proof. rewrite rules_current. intros Hr Hc. exact (collect_terminates g root maxd univ Hr Hc sched). Qed.

Theorem closure_unlimited_current g root sched : let s := run current_rules g 0 root sched in
  quiescent s = true ->
  forall f, (reach g root f <-> exists e, lookup f (claimed s) = Some e /\ eimports e = Some (g f)).
Proof. rewrite rules_current. exact (closure_unlimited g root sched). Qed.

Theorem claim_once_current g root maxd sched : let s := run current_rules g maxd root sched in
  quiescent s = true ->
  NoDup (reads s) /\ forall f, In f (reads s) <-> lookup f (claimed s) <> None.
Proof. rewrite rules_current. exact (claim_once g root maxd sched). Qed.

Theorem closure_unlimited_result_current g root sched : quiescent (run current_rules g 0 root sched) = true ->
  exists l, final_cur g root 0 sched = Some l /\ NoDup l /\ (forall f, In f l <-> reach g root f) /\
    (exists fuel, dfs fuel g (fun _ => true) [] root = Some l) /\
    (forall fuel l', dfs fuel g (fun _ => true) [] root = Some l' -> l' = l).
Proof. unfold final_cur. rewrite rules_current. exact (closure_unlimited_result g root sched). Qed.

Theorem closure_unlimited_independent_current g root s1 s2 :
  quiescent (run current_rules g 0 root s1) = true -> quiescent (run current_rules g 0 root s2) = true ->
  final_cur g root 0 s1 = final_cur g root 0 s2.
Proof. unfold final_cur. rewrite rules_current. exact (closure_unlimited_independent g root s1 s2). Qed.

Theorem closure_depth_unique_result_current g root maxd sched :
  quiescent (run current_rules g maxd root sched) = true -> 0 < maxd ->
  (forall f d d', walk g root f d -> walk g root f d' -> d = d') ->
  exists l, final_cur g root maxd sched = Some l /\ NoDup l /\ forall f, In f l <-> nearer g root maxd f.
Proof. unfold final_cur. rewrite rules_current. exact (closure_depth_unique_result g root maxd sched). Qed.

Theorem closure_depth_unique_independent_current g root maxd s1 s2 :
  quiescent (run current_rules g maxd root s1) = true -> quiescent (run current_rules g maxd root s2) = true -> 0 < maxd ->
  (forall f d d', walk g root f d -> walk g root f d' -> d = d') ->
  final_cur g root maxd s1 = final_cur g root maxd s2.
Proof. unfold final_cur. rewrite rules_current. exact (closure_depth_unique_independent g root maxd s1 s2). Qed.

Theorem closure_depth_partial_current g root maxd sched :
  quiescent (run current_rules g maxd root sched) = true -> 0 < maxd ->
  exists l, final_cur g root maxd sched = Some l /\ NoDup l /\
    (forall f, In f l -> nearer g root maxd f) /\
    (forall f d, walk g root f d -> d < maxd -> (forall d', walk g root f d' -> d' = d) -> In f l) /\
    (forall f k, In f l -> In k (g f) -> got_cur g root maxd sched k -> In k l).
Proof. unfold final_cur, got_cur. rewrite rules_current. exact (closure_depth_partial_result g root maxd sched). Qed.

Theorem closure_depth_refuted_current :
  exists g maxd root s1 s2,
    quiescent (run current_rules g maxd root s1) = true /\ quiescent (run current_rules g maxd root s2) = true /\
    final_cur g root maxd s1 = Some [0;1;4;5;2;3]%N /\
    final_cur g root maxd s2 = Some [0;1;4;2;3]%N.
Proof. unfold final_cur. rewrite rules_current. exact closure_depth_refuted. Qed.

Theorem index_canonical_current :
  (forall s s', slash_eq s s' -> index_of current_rules s = index_of current_rules s') /\
  (forall name v, IndexProps.has at_sign name = false -> index_of current_rules (name ++ String at_sign v) = index_of current_rules name) /\
  (forall s s', IndexProps.has backslash s = false -> IndexProps.has at_sign s = false -> IndexProps.has backslash s' = false -> IndexProps.has at_sign s' = false ->
      index_of current_rules s = index_of current_rules s' -> s = s') /\
  (forall s, index_of current_rules (index_of current_rules s) = index_of current_rules s).
Proof.
  rewrite rules_current. split; [exact index_slash_direction|]. split; [exact index_version|].
  split; [exact index_distinguishes|exact index_idempotent].
Qed.

Theorem extract_layout_current :
  (forall a l b, is_layout l = true -> extract current_rules (a ++ l :: b) = extract current_rules (a ++ b)) /\
  (forall sec body, Forall (fun l => is_import current_rules l = false) body ->
      extract current_rules (sec ++ body) = filter (is_import current_rules) sec /\
      (forall l, In l (extract current_rules (sec ++ body)) <-> In l sec /\ is_import current_rules l = true)).
Proof. rewrite rules_current. split; [exact extract_ignores_layout|exact extract_exact]. Qed.

(* ---------------- round 3: histories, names, the depth limit narrowed ---------------- *)
Definition spec_outcome_cur (x:settings * graph * idx * list nat) : outcome :=
  match x with (s, g, root, sched) => result current_rules g (s_maxd s) root sched end.

Theorem parse_depends_on_latest_settings_current ops :
  run_history current_rules (hrules_of current_name_rules) ops = map spec_outcome_cur (with_latest zero_settings ops).
Proof. unfold spec_outcome_cur. rewrite hrules_current, rules_current. exact (parse_depends_on_latest_settings ops). Qed.

Theorem same_text_both_included_current files resource sched i j fi fj raw l :
  let g := ngraph files resource in let root := root_idx files resource in
  quiescent (run current_rules g 0 root sched) = true -> final_cur g root 0 sched = Some l ->
  reach g root i -> reach g root j ->
  nth_error files (N.to_nat i) = Some fi -> nth_error files (N.to_nat j) = Some fj ->
  In raw (nf_imports fi) -> In raw (nf_imports fj) ->
  In (resolve files resource i raw) l /\ In (resolve files resource j raw) l /\
  (In (nindex (import_name (base_of files resource i) [] raw)) (map nf_key files) ->
   nindex (import_name (base_of files resource i) [] raw) <> nindex (import_name (base_of files resource j) [] raw) ->
   resolve files resource i raw <> resolve files resource j raw).
Proof. cbv zeta. unfold final_cur. rewrite rules_current. exact (same_text_both_included files resource sched i j fi fj raw l). Qed.

Theorem spellings_claimed_once_current files resource maxd sched :
  let g := ngraph files resource in let root := root_idx files resource in
  let s := run current_rules g maxd root sched in
  quiescent s = true -> NoDup (reads s) /\ forall l, final_cur g root maxd sched = Some l -> NoDup l.
Proof. cbv zeta. unfold final_cur. rewrite rules_current. exact (spellings_claimed_once files resource maxd sched). Qed.

Theorem closure_depth_sure_current g root maxd sched :
  (forall f, nearer g root maxd f -> sure g root maxd f) ->
  quiescent (run current_rules g maxd root sched) = true -> 0 < maxd ->
  exists l, final_cur g root maxd sched = Some l /\ NoDup l /\ (forall f, In f l <-> nearer g root maxd f).
Proof.
  unfold final_cur. rewrite rules_current. intros Hs Hq Hp.
  destruct (closure_depth_sure_result g root maxd Hs sched Hq Hp) as (l & H1 & H2 & H3 & _). exists l. auto.
Qed.

Theorem closure_depth_sure_independent_current g root maxd s1 s2 :
  (forall f, nearer g root maxd f -> sure g root maxd f) ->
  quiescent (run current_rules g maxd root s1) = true -> quiescent (run current_rules g maxd root s2) = true -> 0 < maxd ->
  final_cur g root maxd s1 = final_cur g root maxd s2.
Proof. unfold final_cur. rewrite rules_current. intros Hs. exact (closure_depth_sure_independent g root maxd Hs s1 s2). Qed.

Theorem versions_erase_current tg maxd nocheck root roottag sched :
  t_st (trun current_rules nocheck tg maxd root roottag sched) = run current_rules (erase_graph tg) maxd root sched.
Proof. rewrite rules_current. apply (trun_erase tg maxd nocheck root roottag sched). Qed.

Theorem consistent_no_error_current tg maxd nocheck tagof root roottag sched :
  (forall f k t, In (k, t) (tg f) -> same_tag (tagof k) t = true) -> same_tag (tagof root) roottag = true ->
  t_err (trun current_rules nocheck tg maxd root roottag sched) = false.
Proof. rewrite rules_current. intros H. exact (consistent_no_error tg maxd nocheck tagof H root roottag sched). Qed.

(* ---------------- non-vacuity of the hypotheses ---------------- *)
(* a cyclic graph with a diamond and a self-import: 0->1,2,0 ; 1->3,1 ; 2->3,0 ; 3->1,3 *)
Definition g_cyc : graph := graph_of [(0,[1;2;0]); (1,[3;1]); (2,[3;0]); (3,[1;3])]%N.
Example terminates_nonvacuous :
  In 0%N [0;1;2;3]%N /\ (forall f k, In f [0;1;2;3]%N -> In k (g_cyc f) -> In k [0;1;2;3]%N) /\
  step_bound g_cyc [0;1;2;3]%N = 18 /\
  result expected_rules g_cyc 0 0%N (repeat 0 18) = (true, Some [0;1;3;2]%N) /\
  result expected_rules g_cyc 0 0%N (repeat 5 18) = (true, Some [0;1;3;2]%N).
Proof.
  split; [left; reflexivity|]. split; [|vm_compute; repeat split].
  intros f k Hf Hk. cbn in Hf. destruct Hf as [<-|[<-|[<-|[<-|[]]]]]; vm_compute in Hk; cbn; tauto.
Qed.

(* a tree (every file at one depth) under a limit that cuts: 0->1,2 ; 1->3 ; 3->4, limit 3 *)
Definition g_tree : graph := graph_of [(0,[1;2]); (1,[3]); (2,[]); (3,[4]); (4,[])]%N.
Example depth_unique_nonvacuous :
  result expected_rules g_tree 3 0%N (repeat 0 20) = (true, Some [0;1;3;2]%N) /\
  result expected_rules g_tree 3 0%N ([0;0;1;1] ++ repeat 0 20) = (true, Some [0;1;3;2]%N).
Proof. vm_compute. split; reflexivity. Qed.
