(* C05 obligations against the CURRENT source: the table regenerated from parse.go / utils.go
   (Gen/ImportRules.v) must be the one the model and its theorems were written for. The lemma is
   closed by `reflexivity`; it stops checking as soon as the claim moves behind the read, the
   flatten loop changes direction, the depth comparison changes, the mutex no longer covers the
   lookup-and-insert, the join loses its error, or fileNameToIndex gains / loses a step. *)
From Coq Require Import List NArith Arith Bool.
Import ListNotations.
Require Import Verif.Imports.Rules Verif.Imports.Collect Verif.Imports.CollectProps Verif.Gen.ImportRules.

Lemma rules_current : current_rules = expected_rules.
Proof. reflexivity. Qed.

(* the theorems, restated for the model instantiated with the regenerated table *)
Theorem closure_unlimited_current g root sched : let s := run current_rules g 0 root sched in
  quiescent s = true ->
  forall f, (reach g root f <-> exists e, lookup f (claimed s) = Some e /\ eimports e = Some (g f)).
Proof. rewrite rules_current. exact (closure_unlimited g root sched). Qed.

Theorem claim_once_current g root maxd sched : let s := run current_rules g maxd root sched in
  quiescent s = true ->
  NoDup (reads s) /\ forall f, In f (reads s) <-> lookup f (claimed s) <> None.
Proof. rewrite rules_current. exact (claim_once g root maxd sched). Qed.
