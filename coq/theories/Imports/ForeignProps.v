(* Proofs about the dispatch model (Foreign.v), for every format table, file name and content.

   guess_*            GuessFileType: what an Ok result means; no format for the extension, no signature, two
                      signatures, broken JSON are errors - never a format
   bad_collect/parse  the property's fault classes, stated on the file description (name, content, payload) without the
                      dispatch: unreadable; import lines do not parse; compiled model that does not decode; extension
                      no parser format accepts; ambiguous extension with no / two signatures or a .json that is not
                      JSON; payload undecodable or invalid
   bad_*_fault        every such file gets a fault class from the dispatch (none slips through an arm)
   foreign_fails_clean  the closure theorem of FaultsProps for fault assignments COMPUTED from file descriptions *)
From Coq Require Import String Ascii List Bool NArith Lia.
Import ListNotations.
Require Import Verif.Imports.ForeignTypes Verif.Imports.Rules Verif.Imports.Collect Verif.Imports.Faults
               Verif.Imports.CollectProps Verif.Imports.FaultsProps Verif.Imports.Foreign.
Local Open Scope string_scope.
Local Open Scope list_scope.

(* ---------- GuessFileType ---------- *)
Definition eff_content (path content:string) (yaml:option string) : option string :=
  if String.eqb (path_ext path) ".json" then yaml else Some content.
Definition ext_formats (valid:list format) (path:string) : list format := filter (ext_matches (path_ext path)) valid.
Definition sig_formats (valid:list format) (path c:string) : list format :=
  filter (fun f => sig_ok (fsig f) c) (ext_formats valid path).

Lemma guess_unfold valid path content yaml :
  guess valid path content yaml =
  match ext_formats valid path with
  | [f] => GOk f
  | _ => match eff_content path content yaml with
         | None => GJsonErr
         | Some c => match sig_formats valid path c with
                     | [f] => GOk f | [] => GDetect | fs => GAmbiguous (map fname fs) end
         end
  end.
Proof. reflexivity. Qed.

Lemma len1 {A} (l:list A) : length l = 1 -> exists x, l = [x].
Proof. destruct l as [|x [|y r]]; cbn; try discriminate. eauto. Qed.

(* the four ways to fail *)
Theorem guess_no_format valid path content yaml :
  ext_formats valid path = [] ->
  guess valid path content yaml = GDetect \/ guess valid path content yaml = GJsonErr.
Proof.
  intros H. rewrite guess_unfold. unfold sig_formats. rewrite H. cbn [filter].
  destruct (eff_content path content yaml); auto.
Qed.

Theorem guess_bad_json valid path content yaml :
  length (ext_formats valid path) <> 1 -> eff_content path content yaml = None ->
  guess valid path content yaml = GJsonErr.
Proof.
  intros Hl He. rewrite guess_unfold, He. destruct (ext_formats valid path) as [|x [|y r]]; try reflexivity.
  cbn in Hl. congruence.
Qed.

Theorem guess_no_signature valid path content yaml c :
  length (ext_formats valid path) <> 1 -> eff_content path content yaml = Some c -> sig_formats valid path c = [] ->
  guess valid path content yaml = GDetect.
Proof.
  intros Hl He Hs. rewrite guess_unfold, He, Hs. destruct (ext_formats valid path) as [|x [|y r]]; try reflexivity.
  cbn in Hl. congruence.
Qed.

Theorem guess_two_signatures valid path content yaml c :
  length (ext_formats valid path) <> 1 -> eff_content path content yaml = Some c -> 2 <= length (sig_formats valid path c) ->
  guess valid path content yaml = GAmbiguous (map fname (sig_formats valid path c)).
Proof.
  intros Hl He Hs. rewrite guess_unfold, He.
  destruct (sig_formats valid path c) as [|a [|b r]] eqn:Hsf; cbn in Hs; try lia.
  destruct (ext_formats valid path) as [|x [|y r']]; try reflexivity. cbn in Hl. congruence.
Qed.

(* two different formats of the list both take the extension and both recognise the content: never a format *)
Corollary guess_ambiguous_named valid path content yaml c f1 f2 a b :
  valid = a ++ f1 :: b -> In f2 (a ++ b) ->
  ext_matches (path_ext path) f1 = true -> ext_matches (path_ext path) f2 = true ->
  eff_content path content yaml = Some c -> sig_ok (fsig f1) c = true -> sig_ok (fsig f2) c = true ->
  exists names, guess valid path content yaml = GAmbiguous names /\ In (fname f1) names /\ In (fname f2) names.
Proof.
  intros -> Hin He1 He2 Hc Hs1 Hs2.
  set (valid := a ++ f1 :: b).
  assert (Hsplit : sig_formats valid path c =
            filter (fun f => sig_ok (fsig f) c) (filter (ext_matches (path_ext path)) a) ++ f1 ::
            filter (fun f => sig_ok (fsig f) c) (filter (ext_matches (path_ext path)) b)).
  { unfold sig_formats, ext_formats, valid. rewrite filter_app. cbn [filter]. rewrite He1, filter_app. cbn [filter]. rewrite Hs1. reflexivity. }
  assert (Hin2 : In f2 (filter (fun f => sig_ok (fsig f) c) (filter (ext_matches (path_ext path)) a) ++
                        filter (fun f => sig_ok (fsig f) c) (filter (ext_matches (path_ext path)) b))).
  { apply in_app_iff in Hin. apply in_app_iff. destruct Hin as [Hin|Hin]; [left|right]; apply filter_In; (split; [apply filter_In; split; assumption|assumption]). }
  assert (Hlen : 2 <= length (sig_formats valid path c)).
  { rewrite Hsplit, app_length. cbn [length]. apply in_app_iff in Hin2. destruct Hin2 as [H|H].
    - destruct (filter _ (filter _ a)); [destruct H|cbn; lia].
    - destruct (filter (fun f => sig_ok (fsig f) c) (filter _ b)); [destruct H|cbn; lia]. }
  assert (Hext : length (ext_formats valid path) <> 1).
  { assert (Hle : length (sig_formats valid path c) <= length (ext_formats valid path)).
    { unfold sig_formats. generalize (ext_formats valid path). intros l0.
      induction l0 as [|h t IH]; cbn; [lia|]. destruct (sig_ok (fsig h) c); cbn; lia. }
    lia. }
  exists (map fname (sig_formats valid path c)). split; [apply guess_two_signatures; assumption|].
  split; apply in_map; rewrite Hsplit.
  - apply in_app_iff. right. left. reflexivity.
  - apply in_app_iff in Hin2. apply in_app_iff. destruct Hin2 as [H|H]; [left; exact H|right; right; exact H].
Qed.

(* what a detected format means *)
Theorem guess_ok_sound valid path content yaml f :
  guess valid path content yaml = GOk f ->
  In f valid /\ ext_matches (path_ext path) f = true /\
  (ext_formats valid path = [f] \/
   exists c, eff_content path content yaml = Some c /\ sig_formats valid path c = [f] /\ sig_ok (fsig f) c = true).
Proof.
  rewrite guess_unfold. intros H.
  assert (Hsig : forall c, sig_formats valid path c = [f] -> In f valid /\ ext_matches (path_ext path) f = true /\ sig_ok (fsig f) c = true).
  { intros c Hc. assert (Hin : In f (sig_formats valid path c)) by (rewrite Hc; left; reflexivity).
    apply filter_In in Hin. destruct Hin as [Hin Hs]. apply filter_In in Hin. destruct Hin as [Hin He]. auto. }
  assert (Hrest : match eff_content path content yaml with
                  | None => GJsonErr
                  | Some c => match sig_formats valid path c with [f0] => GOk f0 | [] => GDetect | fs => GAmbiguous (map fname fs) end
                  end = GOk f ->
                  In f valid /\ ext_matches (path_ext path) f = true /\
                  (ext_formats valid path = [f] \/ exists c, eff_content path content yaml = Some c /\ sig_formats valid path c = [f] /\ sig_ok (fsig f) c = true)).
  { destruct (eff_content path content yaml) as [c|]; [|discriminate].
    destruct (sig_formats valid path c) as [|x [|y r]] eqn:Hs; try discriminate. intros [= ->].
    destruct (Hsig c Hs) as (H1 & H2 & H3). split; [exact H1|]. split; [exact H2|]. right. exists c. auto. }
  destruct (ext_formats valid path) as [|x [|y r]] eqn:He; try (apply Hrest, H).
  injection H as ->. assert (Hin : In f (ext_formats valid path)) by (rewrite He; left; reflexivity).
  apply filter_In in Hin. destruct Hin as [Hin Hm]. split; [exact Hin|]. split; [exact Hm|]. left. reflexivity.
Qed.

(* ---------- the fault classes of the property, on the description ---------- *)
Section Bad.
Variable T : tables.

Definition is_pb (d:fdesc) : option decoder := pb_dispatch (t_pb T) (d_path d).
Definition d_eff (d:fdesc) : option string := eff_content (d_path d) (d_content d) (d_yaml d).

Inductive bad_collect (d:fdesc) : Prop :=
| bad_unreadable : d_read d = false -> bad_collect d
| bad_import_lines : contains (d_path d) ".sysl" = true -> d_imports_ok d = false -> bad_collect d.

Inductive bad_parse (d:fdesc) : Prop :=
| bad_pb dec : is_pb d = Some dec -> d_pay d = PayUndecodable -> bad_parse d
| bad_pb_merge dec : is_pb d = Some dec -> d_pay d = PayInvalid -> bad_parse d
| bad_no_format : is_pb d = None -> ext_formats (t_parser T) (d_path d) = [] -> bad_parse d
| bad_json : is_pb d = None -> length (ext_formats (t_parser T) (d_path d)) <> 1 -> d_eff d = None -> bad_parse d
| bad_no_signature c : is_pb d = None -> length (ext_formats (t_parser T) (d_path d)) <> 1 -> d_eff d = Some c ->
                       sig_formats (t_parser T) (d_path d) c = [] -> bad_parse d
| bad_two_signatures c : is_pb d = None -> length (ext_formats (t_parser T) (d_path d)) <> 1 -> d_eff d = Some c ->
                       2 <= length (sig_formats (t_parser T) (d_path d) c) -> bad_parse d
| bad_payload : is_pb d = None -> d_pay d <> PayOk -> bad_parse d.

Definition collect_kind (k:fault) : bool := match k with ReadErr | ImportSyntax => true | _ => false end.
Definition parse_kind (k:fault) : bool := negb (collect_kind k).

Lemma import_foreign_kind d k : import_foreign T d = Some k -> parse_kind k = true.
Proof.
  unfold import_foreign, pay_fault.
  repeat match goal with
         | |- context [match ?x with _ => _ end] => destruct x
         end; intros [= <-]; reflexivity.
Qed.

Lemma file_fault_collect d :
  (exists k, file_fault T d = Some k /\ collect_kind k = true) <-> bad_collect d.
Proof.
  unfold file_fault. split.
  - intros (k & H & Hk). destruct (d_read d) eqn:Hr; cbn [negb] in H; [|apply bad_unreadable; exact Hr].
    destruct (contains (d_path d) ".sysl") eqn:Hc; cbn [andb] in H.
    + destruct (d_imports_ok d) eqn:Hi; cbn [negb] in H; [|apply bad_import_lines; assumption].
      destruct (pb_dispatch (t_pb T) (d_path d)).
      * destruct (d_pay d); inversion H; subst k; discriminate.
      * apply import_foreign_kind in H. unfold parse_kind in H. rewrite Hk in H. discriminate.
    + destruct (pb_dispatch (t_pb T) (d_path d)).
      * destruct (d_pay d); inversion H; subst k; discriminate.
      * apply import_foreign_kind in H. unfold parse_kind in H. rewrite Hk in H. discriminate.
  - intros [Hr|Hc Hi].
    + rewrite Hr. cbn. eauto.
    + destruct (d_read d); cbn [negb]; [|eauto]. rewrite Hc, Hi. cbn. eauto.
Qed.

(* no bad file slips through the dispatch *)
Theorem bad_parse_fault d : bad_parse d -> ~ bad_collect d -> exists k, file_fault T d = Some k /\ parse_kind k = true.
Proof.
  intros Hb Hnc.
  assert (Hr : d_read d = true) by (destruct (d_read d) eqn:E; [reflexivity|exfalso; apply Hnc, bad_unreadable, E]).
  assert (Hi : contains (d_path d) ".sysl" && negb (d_imports_ok d) = false).
  { destruct (contains (d_path d) ".sysl") eqn:Ec; [|reflexivity]. destruct (d_imports_ok d) eqn:Ei; [reflexivity|].
    exfalso. apply Hnc, bad_import_lines; assumption. }
  unfold file_fault. rewrite Hr, Hi. cbn [negb].
  assert (Hg : forall k, (match guess (t_parser T) (d_path d) (d_content d) (d_yaml d) with
                          | GDetect => Some ForeignDetect | GAmbiguous _ => Some ForeignAmbiguous | GJsonErr => Some ForeignJson
                          | GOk _ => Some k end) <> None) by (intros k; destruct (guess _ _ _ _); discriminate).
  destruct Hb as [dec Hp Hpay|dec Hp Hpay|Hp Hn|Hp Hl He|c Hp Hl He Hs|c Hp Hl He Hs|Hp Hpay]; unfold is_pb, d_eff in *; rewrite Hp.
  - rewrite Hpay. eauto.
  - rewrite Hpay. eauto.
  - unfold import_foreign. destruct (guess_no_format (t_parser T) (d_path d) (d_content d) (d_yaml d) Hn) as [-> | ->]; eauto.
  - unfold import_foreign. rewrite (guess_bad_json _ _ _ _ Hl He). eauto.
  - unfold import_foreign. rewrite (guess_no_signature _ _ _ _ c Hl He Hs). eauto.
  - unfold import_foreign. rewrite (guess_two_signatures _ _ _ _ c Hl He Hs). eauto.
  - destruct (import_foreign T d) as [k|] eqn:Hif; [exists k; split; [reflexivity|apply (import_foreign_kind d k Hif)]|].
    exfalso. revert Hif. unfold import_foreign, pay_fault.
    repeat match goal with
           | |- context [match ?x with _ => _ end] => destruct x eqn:?
           end; try discriminate; congruence.
Qed.

(* which class: the detection faults, when the file is read and its import lines are fine *)
Theorem two_signatures_fault d c :
  ~ bad_collect d -> is_pb d = None -> length (ext_formats (t_parser T) (d_path d)) <> 1 -> d_eff d = Some c ->
  2 <= length (sig_formats (t_parser T) (d_path d) c) -> file_fault T d = Some ForeignAmbiguous.
Proof.
  intros Hnc Hp Hl He Hs.
  assert (Hr : d_read d = true) by (destruct (d_read d) eqn:E; [reflexivity|exfalso; apply Hnc, bad_unreadable, E]).
  assert (Hi : contains (d_path d) ".sysl" && negb (d_imports_ok d) = false).
  { destruct (contains (d_path d) ".sysl") eqn:Ec; [|reflexivity]. destruct (d_imports_ok d) eqn:Ei; [reflexivity|].
    exfalso. apply Hnc, bad_import_lines; assumption. }
  unfold file_fault, is_pb in *. rewrite Hr, Hi, Hp. cbn [negb]. unfold import_foreign.
  rewrite (guess_two_signatures _ _ _ _ c Hl He Hs). reflexivity.
Qed.

Theorem no_format_fault d :
  ~ bad_collect d -> is_pb d = None -> ext_formats (t_parser T) (d_path d) = [] ->
  file_fault T d = Some ForeignDetect \/ file_fault T d = Some ForeignJson.
Proof.
  intros Hnc Hp Hn.
  assert (Hr : d_read d = true) by (destruct (d_read d) eqn:E; [reflexivity|exfalso; apply Hnc, bad_unreadable, E]).
  assert (Hi : contains (d_path d) ".sysl" && negb (d_imports_ok d) = false).
  { destruct (contains (d_path d) ".sysl") eqn:Ec; [|reflexivity]. destruct (d_imports_ok d) eqn:Ei; [reflexivity|].
    exfalso. apply Hnc, bad_import_lines; assumption. }
  unfold file_fault, is_pb in *. rewrite Hr, Hi, Hp. cbn [negb]. unfold import_foreign.
  destruct (guess_no_format (t_parser T) (d_path d) (d_content d) (d_yaml d) Hn) as [-> | ->]; auto.
Qed.
End Bad.

(* ---------- the closure, with the fault classes computed from the descriptions ---------- *)
Section Closure.
Variable T : tables.
Variable g : graph.
Variable descs : idx -> fdesc.
Variable maxd : nat.
Variable root : idx.
Let fl := faults_from T descs.

Lemma collect_fault_bad f : collect_fault fl f = true <-> bad_collect (descs f).
Proof.
  rewrite <- (file_fault_collect T). unfold collect_fault, fl, faults_from. split.
  - destruct (file_fault T (descs f)) as [k|]; [|discriminate]. intros H. exists k. split; [reflexivity|].
    destruct k; try discriminate; reflexivity.
  - intros (k & -> & Hk). destruct k; try discriminate; reflexivity.
Qed.

Lemma parse_kind_fault f k : fl f = Some k -> parse_kind k = true -> parse_fault fl f = true.
Proof. unfold parse_fault, foreign_fault, body_fault. intros -> Hk. destruct k; try discriminate; reflexivity. Qed.

Theorem foreign_fails_clean s choice : reachable g fl maxd root s -> ftasks s = [] ->
  let o := foutcome R fl root choice s in
  o <> Stuck /\
  (* a file that was read is unreadable / has unparsable import lines *)
  ((exists f, In f (freads s) /\ bad_collect (descs f)) ->
     exists e f', o = Error e /\ (exit_code e = 1 \/ exit_code e = 2)%N /\
                  names e f' = true /\ In f' (freads s) /\ bad_collect (descs f')) /\
  (* the collection went through and a processed file is bad for the parse stage *)
  (forall l, froot s = Some None -> flatten R (2 + length (fcl s)) (fcl s) [] root = Some l ->
     (exists f, In f l /\ bad_parse T (descs f) /\ ~ bad_collect (descs f)) ->
     exists e f', o = Error e /\ In f' l /\ names e f' = true /\ fl f' <> None /\
                  exit_code e = parse_status fl f' /\ (exit_code e = 1 \/ exit_code e = 2)%N) /\
  (* no model unless every file is fine *)
  (forall l, o = Model l ->
     (forall f, In f (freads s) -> ~ bad_collect (descs f)) /\
     (forall f, In f l -> ~ bad_collect (descs f) -> ~ bad_parse T (descs f))).
Proof.
  intros Hr Hq o. destruct (fault_fails_clean g fl maxd root s choice Hr Hq) as (H1 & H2 & H3 & H4 & H5).
  fold o in H1, H2, H3, H4, H5. split; [exact H1|]. split; [|split].
  - intros (f & Hin & Hb). destruct H2 as (e & He & Hst & f' & Hn & Hin' & Hc).
    { exists f. split; [exact Hin|apply collect_fault_bad, Hb]. }
    exists e, f'. repeat split; try assumption. apply collect_fault_bad, Hc.
  - intros l Hrt Hfl (f & Hin & Hb & Hnc). destruct (bad_parse_fault T _ Hb Hnc) as (k & Hk & Hpk).
    destruct (H3 l Hrt Hfl) as (e & f' & He & Hin' & Hpf & Hn & Hst).
    { exists f. split; [exact Hin|]. apply (parse_kind_fault f k); assumption. }
    exists e, f'. repeat split; try assumption.
    + unfold parse_fault, foreign_fault, body_fault in Hpf. destruct (fl f'); [discriminate|discriminate].
    + apply exit_code_nonzero.
  - intros l Hm. destruct (H5 l Hm) as [Hnb Hnp]. split.
    + intros f Hin Hb. apply Hnb. exists f. split; [exact Hin|apply collect_fault_bad, Hb].
    + intros f Hin Hnc Hb. destruct (bad_parse_fault T _ Hb Hnc) as (k & Hk & Hpk).
      pose proof (parse_kind_fault f k Hk Hpk) as Hpf. rewrite (Hnp f Hin) in Hpf. discriminate.
Qed.
End Closure.
