(* Correspondence glue for C05. One case is what the harness saw the REAL parse.Parser.Parse do:
     Lock gl maxd root b0 trace final
        lock-step: the gate reader blocked every ReadHashBranch and released one at a time.
        b0     = files blocked in the gate before the first release,
        trace  = (released file, files blocked in the gate once every goroutine had come to rest), in order,
        final  = the processed-file order Parse handed to parseSpecs (operation summary).
     Free gl maxd root final
        free-running: reads completed after random delays; only the final order is compared, and
        only for inputs on which the theorems say it cannot depend on the schedule.
   The model replays the same releases (`release` = one FinishRead step followed by all enabled
   entry steps, i.e. a schedule of Collect.step) and must agree on every blocked set, on the read
   log and on the final order. *)
From Coq Require Import List NArith Arith Bool.
Import ListNotations.
Require Import Verif.Base.Harness Verif.Imports.Rules Verif.Imports.Collect.

Inductive c05_case :=
| Lock (gl:list (idx * list idx)) (maxd:nat) (root:idx) (b0:list idx) (trace:list (idx * list idx)) (final:list idx)
| Free (gl:list (idx * list idx)) (maxd:nat) (root:idx) (final:list idx).

Definition set_eqb (a b:list idx) : bool :=
  Nat.eqb (length a) (length b) && forallb (fun x => mem x b) a && forallb (fun x => mem x a) b.

Fixpoint replay (r:rules) (g:graph) (maxd:nat) (s:state) (tr:list (idx * list idx)) : option state :=
  match tr with
  | [] => Some s
  | (f, b) :: tr' =>
      match release r g maxd s f with
      | None => None
      | Some s' => if set_eqb (blocked s') b then replay r g maxd s' tr' else None
      end
  end.

Definition fifo_fuel (gl:list (idx * list idx)) : nat :=
  4 + 2 * fold_right (fun p a => length (snd p) + a) 0 gl.

Definition c05_ok (r:rules) (c:c05_case) : bool :=
  match c with
  | Lock gl maxd root b0 tr final =>
      let g := graph_of gl in
      let s0 := settled r g maxd (init root) in
      set_eqb (blocked s0) b0 &&
      match replay r g maxd s0 tr with
      | None => false
      | Some s => quiescent s
                  && option_eqb (list_eqb N.eqb) (flatten r (flatten_fuel s) (claimed s) [] root) (Some final)
                  && list_eqb N.eqb (reads s) (map fst tr)
      end
  | Free gl maxd root final =>
      let g := graph_of gl in
      let s := run_fifo r g maxd (fifo_fuel gl) (init root) in
      quiescent s && option_eqb (list_eqb N.eqb) (flatten r (flatten_fuel s) (claimed s) [] root) (Some final)
  end.
