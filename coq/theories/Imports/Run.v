(* Correspondence glue for C05. One case is what the harness saw the REAL parse.Parser.Parse do:
     Lock gl maxd root b0 trace final
        lock-step: the gate reader blocked every ReadHashBranch and released one at a time.
        b0     = files blocked in the gate before the first release,
        trace  = (released file, files blocked in the gate once every goroutine had come to rest), in order,
        final  = the processed-file order Parse handed to parseSpecs (operation summary).
     Free gl maxd root final
        free-running: reads completed after random delays; only the final order is compared, and
        only for inputs on which the theorems say it cannot depend on the schedule.
   The model replays the same releases (`release` = one FinishRead step followed by all enabled
   entry steps, i.e. a schedule of Collect.step) and must agree on every blocked set, on the read
   log and on the final order. *)
From Coq Require Import String Ascii List NArith Arith Bool.
Import ListNotations.
Require Import Verif.Base.Harness Verif.Imports.Rules Verif.Imports.Collect Verif.Imports.Paths Verif.Imports.Names
               Verif.Imports.NameTables Verif.Imports.History Verif.Imports.Versions.
Local Open Scope list_scope.

(* one operation of a history on ONE parser value, as the harness performed and observed it *)
Inductive hist_op :=
| CSet (maxd:nat) (summary nocheck noparse:bool)
| CParse (gl:list (idx * list idx)) (root:idx) (b0:list idx) (trace:list (idx * list idx)) (final:list idx).

Inductive c05_case :=
| Lock (gl:list (idx * list idx)) (maxd:nat) (root:idx) (b0:list idx) (trace:list (idx * list idx)) (final:list idx)
| Free (gl:list (idx * list idx)) (maxd:nat) (root:idx) (final:list idx)
(* name level: the files by key with the path texts of their import lines, the resource given to Parse; the lock-step
   observations by file id (= position in `files`); `asked` = for every completed read, in order, the file, the NAME
   the reader was asked for and the version (branch) it returned *)
| NLock (files:list (string * list string)) (resource:string) (maxd:nat) (b0:list idx) (trace:list (idx * list idx))
        (final:list idx) (asked:list (idx * string * string))
(* Set / Parse / Set / Parse ... on one parser; the depth limit of each Parse is the model's, not an observation *)
| Hist (ops:list hist_op)
(* versions and app names: the import lines as (path text, text after `as`); no depth limit; `err` = Parse failed with
   "imported as different appnames / versions" *)
| NErr (files:list (string * list (string * string))) (resource:string) (nocheck:bool) (b0:list idx)
       (trace:list (idx * list idx)) (asked:list (idx * string * string)) (err:bool).

Definition set_eqb (a b:list idx) : bool :=
  Nat.eqb (length a) (length b) && forallb (fun x => mem x b) a && forallb (fun x => mem x a) b.

Fixpoint replay (r:rules) (g:graph) (maxd:nat) (s:state) (tr:list (idx * list idx)) : option state :=
  match tr with
  | [] => Some s
  | (f, b) :: tr' =>
      match release r g maxd s f with
      | None => None
      | Some s' => if set_eqb (blocked s') b then replay r g maxd s' tr' else None
      end
  end.

Definition fifo_fuel (gl:list (idx * list idx)) : nat :=
  4 + 2 * fold_right (fun p a => length (snd p) + a) 0 gl.

(* the lock-step comparison from a given start state; returns the final state *)
Definition lock_from (r:rules) (g:graph) (maxd:nat) (st:state) (root:idx) (b0:list idx) (tr:list (idx * list idx))
                     (final:list idx) : option state :=
  let s0 := settled r g maxd st in
  if set_eqb (blocked s0) b0 then
    match replay r g maxd s0 tr with
    | None => None
    | Some s => if quiescent s
                   && option_eqb (list_eqb N.eqb) (flatten r (flatten_fuel s) (claimed s) [] root) (Some final)
                   && list_eqb N.eqb (reads s) (map fst tr)
                then Some s else None
    end
  else None.
Definition lock_ok r g maxd root b0 tr final : bool :=
  match lock_from r g maxd (init root) root b0 tr final with Some _ => true | None => false end.

(* ---- names ---- *)
Definition nfiles_of (files:list (string * list string)) : list nfile :=
  map (fun p => {| nf_key := b (fst p); nf_imports := map b (snd p) |}) files.

(* the name asked for file i is one that an import line of a file that was read resolves to (which of several
   spellings of one file wins the claim is the scheduler's choice; the observation settles it) *)
Definition name_explained (fs:list nfile) (res:bytes) (asked:list (idx * bytes * bytes)) (i:idx) (name:bytes) : bool :=
  existsb (fun a => match a with (j, _, verj) =>
      match nth_error fs (N.to_nat j) with
      | None => false
      | Some f => existsb (fun raw => N.eqb (resolve fs res j raw) i
                                       && beq (local_read_name (import_name (base_of fs res j) verj raw)) name)
                          (nf_imports f)
      end end) asked.

Definition names_ok (fs:list nfile) (res:bytes) (asked:list (idx * bytes * bytes)) : bool :=
  match asked with
  | [] => false
  | (i0, n0, _) :: rest =>
      N.eqb i0 (root_idx fs res) && beq n0 (local_read_name (resource_name res)) &&
      forallb (fun a => match a with (i, name, _) => name_explained fs res asked i name end) rest
  end &&
  (* every name that was asked for has the index of the file it was answered with *)
  forallb (fun a => match a with (i, name, _) =>
      match nth_error fs (N.to_nat i) with Some f => beq (nindex name) (nindex (nf_key f)) | None => false end end) asked.

(* ---- histories ---- *)
Fixpoint hist_ok (r:rules) (hr:hrules) (p:parser) (ops:list hist_op) : bool :=
  match ops with
  | [] => true
  | CSet maxd su nc np :: rest =>
      hist_ok r hr (do_set hr p {| s_maxd := maxd; s_summary := su; s_nocheck := nc; s_noparse := np |}) rest
  | CParse gl root b0 tr final :: rest =>
      match lock_from r (graph_of gl) (s_maxd (p_settings p)) (start hr p root) root b0 tr final with
      | None => false
      | Some st => hist_ok r hr {| p_settings := p_settings p; p_retrieved := claimed st |} rest
      end
  end.

(* ---- versions / app names ---- *)
Definition ver_returned (asked:list (idx * bytes * bytes)) (i:idx) : bytes :=
  match find (fun a => N.eqb (fst (fst a)) i) asked with Some a => snd a | None => [] end.

Definition tgraph_of (files:list (string * list (string * string))) (fs:list nfile) (res:bytes)
                     (asked:list (idx * bytes * bytes)) : tgraph :=
  fun i => match nth_error files (N.to_nat i) with
           | None => []
           | Some f => map (fun ra => (resolve fs res i (b (fst ra)),
                                       {| g_app := b (snd ra);
                                          g_ver := ver_of (import_name (base_of fs res i) (ver_returned asked i) (b (fst ra))) |}))
                           (snd f)
           end.

Fixpoint treplay (r:rules) (nocheck:bool) (tg:tgraph) (s:tstate) (tr:list (idx * list idx)) : option tstate :=
  match tr with
  | [] => Some s
  | (f, bl) :: tr' =>
      match trelease r nocheck tg 0 s f with
      | None => None
      | Some s' => if set_eqb (blocked (t_st s')) bl then treplay r nocheck tg s' tr' else None
      end
  end.

Definition nerr_ok (r:rules) (files:list (string * list (string * string))) (resource:string) (nocheck:bool)
                   (b0:list idx) (tr:list (idx * list idx)) (asked:list (idx * string * string)) (err:bool) : bool :=
  let fs := nfiles_of (map (fun f => (fst f, map fst (snd f))) files) in
  let res := b resource in
  let askedb := map (fun a => match a with (i, n, v) => (i, b n, b v) end) asked in
  let tg := tgraph_of files fs res askedb in
  let s0 := tsettled r nocheck tg 0 (tinit (root_idx fs res) {| g_app := []; g_ver := ver_of (resource_name res) |}) in
  set_eqb (blocked (t_st s0)) b0 &&
  match treplay r nocheck tg s0 tr with
  | None => false
  | Some s => quiescent (t_st s) && Bool.eqb (t_err s) err && list_eqb N.eqb (reads (t_st s)) (map fst tr)
  end &&
  names_ok fs res askedb.

Definition c05_ok_with (r:rules) (nr:name_rules) (c:c05_case) : bool :=
  match c with
  | Lock gl maxd root b0 tr final => lock_ok r (graph_of gl) maxd root b0 tr final
  | Free gl maxd root final =>
      let g := graph_of gl in
      let s := run_fifo r g maxd (fifo_fuel gl) (init root) in
      quiescent s && option_eqb (list_eqb N.eqb) (flatten r (flatten_fuel s) (claimed s) [] root) (Some final)
  | NLock files resource maxd b0 tr final asked =>
      let fs := nfiles_of files in
      let res := b resource in
      lock_ok r (ngraph fs res) maxd (root_idx fs res) b0 tr final
      && names_ok fs res (map (fun a => match a with (i, n, v) => (i, b n, b v) end) asked)
      && list_eqb N.eqb (map (fun a => fst (fst a)) asked) (map fst tr)
  | Hist ops => hist_ok r (hrules_of nr) new_parser ops
  | NErr files resource nocheck b0 tr asked err => nerr_ok r files resource nocheck b0 tr asked err
  end.

(* kept for the callers of the first rounds: cases without names or histories *)
Definition c05_ok (r:rules) (c:c05_case) : bool := c05_ok_with r expected_name_rules c.
