(* Histories on one parser value: every Parse gives what a NEW parser gives that was Set once, to the settings of the
   latest Set before that Parse (the zero Settings if there was none) - whatever was compiled before, with whatever
   limits and schedules. Proved for the rules the model was written for (Set replaces, the retrieved map is fresh);
   Current.v restates it for the regenerated table. *)
From Coq Require Import String List NArith Arith Bool.
Import ListNotations.
Require Import Verif.Base.Harness Verif.Imports.Rules Verif.Imports.Collect Verif.Imports.NameTables Verif.Imports.History.

Notation R := expected_rules.
Notation HR := expected_hrules.

Lemma hrules_expected : hrules_of expected_name_rules = expected_hrules.
Proof. reflexivity. Qed.

Lemma start_fresh p root : start HR p root = init root.
Proof. reflexivity. Qed.

Lemma parse_run_fresh g p root sched : parse_run R HR g p root sched = run R g (s_maxd (p_settings p)) root sched.
Proof. unfold parse_run, run. rewrite start_fresh. reflexivity. Qed.

Definition spec_outcome (x:settings * graph * idx * list nat) : outcome :=
  match x with (s, g, root, sched) => result R g (s_maxd s) root sched end.

Lemma fold_hstep ops : forall p outs,
  snd (fold_left (hstep R HR) ops (p, outs)) = outs ++ map spec_outcome (with_latest (p_settings p) ops).
Proof.
  induction ops as [|o ops IH]; intros p outs; cbn [fold_left with_latest map].
  - rewrite app_nil_r. reflexivity.
  - destruct o as [s|g root sched]; cbn [hstep].
    + rewrite IH. reflexivity.
    + rewrite IH. cbn [p_settings map]. rewrite <- app_assoc. cbn [app].
      unfold spec_outcome at 2, result. rewrite parse_run_fresh. reflexivity.
Qed.

(* THE THEOREM: the i-th Parse of any history = `result` (a run of the collector from its initial state, then the
   flatten) under the depth limit of the latest Set *)
Theorem parse_depends_on_latest_settings ops :
  run_history R HR ops = map spec_outcome (with_latest zero_settings ops).
Proof. unfold run_history. rewrite fold_hstep. reflexivity. Qed.

(* ... in particular a history and the one-Set-one-Parse history of a new parser agree on their last Parse *)
Corollary last_parse_as_fresh ops s g root sched :
  run_history R HR (ops ++ [HSet s; HParse g root sched]) =
  run_history R HR ops ++ run_history R HR [HSet s; HParse g root sched].
Proof.
  rewrite !parse_depends_on_latest_settings.
  assert (H : forall cur l, with_latest cur (l ++ [HSet s; HParse g root sched]) = with_latest cur l ++ [(s, g, root, sched)]).
  { intros cur l. revert cur. induction l as [|o l IH]; intros cur; [reflexivity|].
    destruct o; cbn [app with_latest]; rewrite IH; reflexivity. }
  rewrite H, map_app. reflexivity.
Qed.

(* a Set that omits the depth (MaxImportDepth 0) after a limited compilation: the next Parse is unlimited *)
Corollary limit_then_omitted g root n s1 s2 su nc np :
  run_history R HR [HSet {| s_maxd := n; s_summary := su; s_nocheck := nc; s_noparse := np |}; HParse g root s1;
                    HSet {| s_maxd := 0; s_summary := su; s_nocheck := nc; s_noparse := np |}; HParse g root s2]
  = [result R g n root s1; result R g 0 root s2].
Proof. rewrite parse_depends_on_latest_settings. reflexivity. Qed.

(* non-vacuity, and what the model would show if the retrieved map outlived the call (a TEST by vm_compute): the
   depth witness compiled with limit 2, then without a limit, on one parser *)
Definition g_hist : graph := graph_of [(0,[1;2]); (1,[4]); (2,[3]); (3,[4]); (4,[5]); (5,[])]%N.
Definition lim2 := {| s_maxd := 2; s_summary := true; s_nocheck := false; s_noparse := true |}.
Definition lim0 := {| s_maxd := 0; s_summary := true; s_nocheck := false; s_noparse := true |}.
Example history_nonvacuous :
  run_history R HR [HSet lim2; HParse g_hist 0%N (repeat 0 40); HSet lim0; HParse g_hist 0%N (repeat 0 40)]
    = [(true, Some [0;1;2]%N); (true, Some [0;1;4;5;2;3]%N)] /\
  run_history R {| set_replaces := true; retrieved_fresh := false |}
              [HSet lim2; HParse g_hist 0%N (repeat 0 40); HSet lim0; HParse g_hist 0%N (repeat 0 40)]
    = [(true, Some [0;1;2]%N); (true, Some [0;1;2]%N)] /\
  run_history R {| set_replaces := false; retrieved_fresh := true |}
              [HSet lim2; HParse g_hist 0%N (repeat 0 40); HSet lim0; HParse g_hist 0%N (repeat 0 40)]
    = [(true, Some [0;1;4;5;2;3]%N); (true, Some [0;1;4;5;2;3]%N)].
Proof. vm_compute. repeat split. Qed.
