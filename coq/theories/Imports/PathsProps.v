(* Proofs about Paths.v: what path.Clean identifies and what it keeps apart.
     clean p = render (meaning p)                     the cleaned path is a function of the path's MEANING (rooted or
                                                      not, how many levels above the start, which names below)
     meaning (render r u ns) = (r, u, ns)             every well-formed meaning is the meaning of its own rendering, so
     clean (clean p) = clean p                        Clean is idempotent,
     clean p = clean q <-> meaning p = meaning q      two paths are cleaned to the same string exactly when they mean
                                                      the same place, and
     the meaning ignores empty elements, "." elements and a name followed by ".." (the norm_skip lemmas). *)
From Coq Require Import String Ascii List Bool Arith Lia.
Import ListNotations.
Require Import Verif.Imports.Paths.

Lemma beq_eq x : forall y, beq x y = true <-> x = y.
Proof.
  induction x as [|c x IH]; intros [|d y]; cbn [beq]; split; try reflexivity; try discriminate.
  - intros H. apply andb_true_iff in H as [H1 H2]. apply Ascii.eqb_eq in H1. apply IH in H2. congruence.
  - intros H. injection H as -> ->. rewrite Ascii.eqb_refl. apply IH. reflexivity.
Qed.
Lemma beq_refl x : beq x x = true.
Proof. apply beq_eq. reflexivity. Qed.
Lemma beq_neq x y : beq x y = false <-> x <> y.
Proof.
  split.
  - intros H E. apply beq_eq in E. congruence.
  - intros H. destruct (beq x y) eqn:E; [apply beq_eq in E; contradiction|reflexivity].
Qed.

Lemma has_app c x y : has c (x ++ y) = has c x || has c y.
Proof. induction x as [|d x IH]; [reflexivity|]. cbn [app has]. rewrite IH, orb_assoc. reflexivity. Qed.

(* ---- Split / Join ---- *)
Definition nosep (c:ascii) (x:bytes) : Prop := has c x = false.

Lemma splitc_nonnil c s : splitc c s <> [].
Proof. destruct s as [|d r]; cbn [splitc]; [discriminate|]. destruct (Ascii.eqb d c); [discriminate|]. destruct (splitc c r); discriminate. Qed.

Lemma splitc_app c x : forall r, nosep c x -> splitc c (x ++ r) = (x ++ hd [] (splitc c r)) :: tl (splitc c r).
Proof.
  induction x as [|d x IH]; intros r Hx.
  - cbn [app]. destruct (splitc c r) eqn:E; [exfalso; eapply splitc_nonnil; eassumption|reflexivity].
  - unfold nosep in Hx. cbn [has] in Hx. apply orb_false_iff in Hx as [Hd Hx].
    cbn [app splitc]. rewrite Hd, (IH r Hx). reflexivity.
Qed.

Lemma splitc_single c x : nosep c x -> splitc c x = [x].
Proof. intros H. rewrite <- (app_nil_r x) at 1. rewrite (splitc_app c x [] H). cbn. rewrite app_nil_r. reflexivity. Qed.

Lemma splitc_cons_sep c x r : nosep c x -> splitc c (x ++ c :: r) = x :: splitc c r.
Proof. intros H. rewrite (splitc_app c x _ H). cbn [splitc]. rewrite Ascii.eqb_refl. cbn. rewrite app_nil_r. reflexivity. Qed.

Lemma splitc_nosep c s : Forall (nosep c) (splitc c s).
Proof.
  induction s as [|d r IH]; cbn [splitc]; [constructor; [reflexivity|constructor]|].
  destruct (Ascii.eqb d c) eqn:E; [constructor; [reflexivity|exact IH]|].
  destruct (splitc c r) as [|x xs]; [constructor; [unfold nosep; cbn; rewrite E; reflexivity|constructor]|].
  inversion IH as [|? ? Hx Hxs]; subst. constructor; [|exact Hxs]. unfold nosep in *. cbn [has]. rewrite E, Hx. reflexivity.
Qed.

Lemma split_join c l : l <> [] -> Forall (nosep c) l -> splitc c (joinc c l) = l.
Proof.
  induction l as [|x l IH]; intros Hne Hl; [contradiction|]. inversion Hl as [|? ? Hx Hl']; subst.
  destruct l as [|y l']; cbn [joinc]; [apply splitc_single, Hx|].
  rewrite (splitc_cons_sep c x _ Hx). f_equal. apply IH; [discriminate|exact Hl'].
Qed.

Lemma splitc_has c d s x : In x (splitc c s) -> has d x = true -> has d s = true.
Proof.
  revert x. induction s as [|e r IH]; intros x Hin Hd; cbn [splitc] in Hin.
  - destruct Hin as [<-|[]]. discriminate.
  - cbn [has]. destruct (Ascii.eqb e c) eqn:E.
    + destruct Hin as [<-|Hin]; [discriminate|]. rewrite (IH x Hin Hd). apply orb_true_r.
    + destruct (splitc c r) as [|y ys] eqn:Es.
      * destruct Hin as [<-|[]]. cbn [has] in Hd. rewrite orb_false_r in Hd. rewrite Hd. reflexivity.
      * destruct Hin as [<-|Hin].
        -- cbn [has] in Hd. apply orb_true_iff in Hd as [Hd|Hd]; [rewrite Hd; reflexivity|].
           rewrite (IH y (or_introl eq_refl) Hd). apply orb_true_r.
        -- rewrite (IH x (or_intror Hin) Hd). apply orb_true_r.
Qed.

Lemma has_joinc c d l : has d (joinc c l) = true -> d = c \/ exists x, In x l /\ has d x = true.
Proof.
  induction l as [|x l IH]; cbn [joinc]; [discriminate|]. destruct l as [|y l'].
  - intros H. right. exists x. split; [left; reflexivity|exact H].
  - rewrite has_app. cbn [has]. intros H. apply orb_true_iff in H as [H|H]; [right; exists x; split; [left; reflexivity|exact H]|].
    apply orb_true_iff in H as [H|H]; [left; symmetry; apply Ascii.eqb_eq, H|].
    destruct (IH H) as [->|(z & Hz & Hd)]; [left; reflexivity|right; exists z; split; [right; exact Hz|exact Hd]].
Qed.

(* ---- names and well-formed meanings ---- *)
Definition is_name (x:bytes) : bool := negb (is_empty x) && negb (beq x [dot]) && negb (beq x dotdot) && negb (has sep x).
Definition names (l:list bytes) : Prop := Forall (fun x => is_name x = true) l.
Definition wf (m:bool * nat * list bytes) : Prop := match m with (r, u, ns) => names ns /\ (r = true -> u = 0) end.

Lemma is_name_spec x : is_name x = true <-> x <> [] /\ x <> [dot] /\ x <> dotdot /\ nosep sep x.
Proof.
  unfold is_name, nosep. rewrite !andb_true_iff, !negb_true_iff, !beq_neq. destruct x; cbn [is_empty]; intuition congruence.
Qed.

Lemma names_app a c : names (a ++ c) <-> names a /\ names c.
Proof. apply Forall_app. Qed.
Lemma names_rev a : names a -> names (rev a).
Proof. intros H. apply Forall_rev, H. Qed.
Lemma names_nosep l : names l -> Forall (nosep sep) l.
Proof. intros H. eapply Forall_impl; [|exact H]. intros x Hx. apply is_name_spec in Hx. tauto. Qed.

(* ---- norm_rev ---- *)
Lemma norm_rev_app r a : forall u st c, norm_rev r u st (a ++ c) = let (u', st') := norm_rev r u st a in norm_rev r u' st' c.
Proof.
  induction a as [|x a IH]; intros u st c; [reflexivity|]. cbn [app norm_rev].
  destruct (is_empty x || beq x [dot]); [apply IH|]. destruct (beq x dotdot); [|apply IH]. destruct st; apply IH.
Qed.

(* what the meaning ignores *)
Theorem norm_skip_empty r u st a c : norm_rev r u st (a ++ [] :: c) = norm_rev r u st (a ++ c).
Proof. rewrite !norm_rev_app. destruct (norm_rev r u st a). reflexivity. Qed.
Theorem norm_skip_dot r u st a c : norm_rev r u st (a ++ [dot] :: c) = norm_rev r u st (a ++ c).
Proof. rewrite !norm_rev_app. destruct (norm_rev r u st a). reflexivity. Qed.
Theorem norm_name_dotdot r u st a x c : is_name x = true -> norm_rev r u st (a ++ x :: dotdot :: c) = norm_rev r u st (a ++ c).
Proof.
  intros Hx. rewrite !norm_rev_app. destruct (norm_rev r u st a) as [u' st']. cbn [norm_rev].
  apply is_name_spec in Hx as (H1 & H2 & H3 & _).
  destruct x as [|ch x]; [contradiction|]. cbn [is_empty orb].
  apply beq_neq in H2, H3. rewrite H2, H3. cbn [beq dotdot]. reflexivity.
Qed.

Lemma norm_rev_wf r l : forall u st, Forall (nosep sep) l -> names st -> (r = true -> u = 0) ->
  names (snd (norm_rev r u st l)) /\ (r = true -> fst (norm_rev r u st l) = 0).
Proof.
  induction l as [|x l IH]; intros u st Hl Hst Hu; [split; assumption|].
  inversion Hl as [|? ? Hx Hl']; subst. cbn [norm_rev].
  destruct (is_empty x || beq x [dot]) eqn:E1; [apply IH; assumption|].
  destruct (beq x dotdot) eqn:E2.
  - destruct st as [|y st'].
    + apply IH; [assumption|constructor|]. intros ->. apply Hu. reflexivity.
    + apply IH; [assumption|inversion Hst; assumption|assumption].
  - apply IH; [assumption| |assumption]. constructor; [|exact Hst].
    apply orb_false_iff in E1 as [Ea Eb]. unfold is_name. rewrite Ea, Eb, E2, Hx. reflexivity.
Qed.

Lemma norm_rev_names r ns : forall u st, names ns -> norm_rev r u st ns = (u, rev ns ++ st).
Proof.
  induction ns as [|x ns IH]; intros u st H; [reflexivity|]. inversion H as [|? ? Hx H']; subst.
  cbn [norm_rev]. apply is_name_spec in Hx as (H1 & H2 & H3 & _). apply beq_neq in H2, H3.
  destruct x as [|ch x]; [contradiction|]. cbn [is_empty orb]. rewrite H2, H3.
  rewrite (IH u _ H'). cbn [rev]. rewrite <- app_assoc. reflexivity.
Qed.

Lemma norm_rev_ups k : forall u l, norm_rev false u [] (repeat dotdot k ++ l) = norm_rev false (k + u) [] l.
Proof.
  induction k as [|k IH]; intros u l; [reflexivity|]. cbn [repeat app norm_rev is_empty dotdot beq orb].
  rewrite Ascii.eqb_refl. cbn [andb]. rewrite IH. f_equal. lia.
Qed.

Lemma norm_rev_incl r l : forall u st x, In x (snd (norm_rev r u st l)) -> In x st \/ In x l.
Proof.
  induction l as [|y l IH]; intros u st x H; [left; exact H|]. cbn [norm_rev] in H.
  destruct (is_empty y || beq y [dot]).
  - destruct (IH _ _ _ H); [left; assumption|right; right; assumption].
  - destruct (beq y dotdot).
    + destruct st as [|z st'].
      * destruct (IH _ _ _ H) as [[]|]; right; right; assumption.
      * destruct (IH _ _ _ H) as [Hi|Hi]; [left; right; exact Hi|right; right; exact Hi].
    + destruct (IH _ _ _ H) as [[<-|Hi]|Hi]; [right; left; reflexivity|left; exact Hi|right; right; exact Hi].
Qed.

(* ---- render ---- *)
Lemma joinc_first c (x y:bytes) (l:list bytes) : joinc c (x :: y :: l) = x ++ c :: joinc c (y :: l).
Proof. reflexivity. Qed.

Lemma dotdot_nosep : nosep sep dotdot. Proof. reflexivity. Qed.

Lemma segs_nosep u ns : names ns -> Forall (nosep sep) (repeat dotdot u ++ ns).
Proof.
  intros H. apply Forall_app. split; [|apply names_nosep, H].
  induction u; cbn [repeat]; constructor; [apply dotdot_nosep|assumption].
Qed.

Lemma is_rooted_joinc (x:bytes) (l:list bytes) : x <> [] -> nosep sep x -> is_rooted (joinc sep (x :: l)) = false.
Proof.
  intros Hne Hx. destruct x as [|c x]; [contradiction|]. unfold nosep in Hx. cbn [has] in Hx.
  apply orb_false_iff in Hx as [Hc _]. destruct l; cbn [joinc app is_rooted]; exact Hc.
Qed.

Theorem meaning_render r u ns : wf (r, u, ns) -> meaning (render r u ns) = (r, u, ns).
Proof.
  intros [Hns Hu]. unfold render, meaning. cbv zeta. destruct r.
  - rewrite (Hu eq_refl). cbn [repeat app is_rooted]. rewrite Ascii.eqb_refl.
    change (sep :: joinc sep ns) with ([] ++ sep :: joinc sep ns). rewrite (splitc_cons_sep sep [] _ eq_refl).
    cbn [norm_rev is_empty orb]. destruct ns as [|x ns'].
    + reflexivity.
    + rewrite split_join; [|discriminate|apply names_nosep, Hns]. rewrite (norm_rev_names true _ 0 [] Hns), app_nil_r, rev_involutive. reflexivity.
  - destruct (repeat dotdot u ++ ns) as [|x l] eqn:E.
    + destruct u; [|discriminate]. cbn [repeat app] in E. subst ns. reflexivity.
    + assert (Hall : Forall (nosep sep) (x :: l)) by (rewrite <- E; apply segs_nosep, Hns).
      assert (Hx : x <> []).
      { destruct u; cbn [repeat app] in E.
        - subst ns. inversion Hns as [|? ? H1 _]; subst. apply is_name_spec in H1. tauto.
        - injection E as <- _. discriminate. }
      rewrite (is_rooted_joinc x l Hx (Forall_inv Hall)).
      rewrite split_join; [|discriminate|exact Hall]. rewrite <- E, norm_rev_ups, (norm_rev_names false _ _ [] Hns).
      rewrite app_nil_r, rev_involutive, Nat.add_0_r. reflexivity.
Qed.

Theorem meaning_wf p : wf (meaning p).
Proof.
  unfold meaning, wf. pose proof (norm_rev_wf (is_rooted p) (splitc sep p) 0 [] (splitc_nosep sep p) (Forall_nil _) (fun _ => eq_refl)) as [H1 H2].
  destruct (norm_rev (is_rooted p) 0 [] (splitc sep p)) as [u st]. cbn [fst snd] in *. split; [apply names_rev, H1|exact H2].
Qed.

Theorem clean_render_meaning p : clean p = match meaning p with (r, u, ns) => render r u ns end.
Proof. destruct p; reflexivity. Qed.

(* every well-formed meaning is a fixed point: a path that is already clean stays as it is *)
Theorem clean_fixed r u ns : wf (r, u, ns) -> clean (render r u ns) = render r u ns.
Proof. intros H. rewrite clean_render_meaning, (meaning_render r u ns H). reflexivity. Qed.

Theorem clean_idempotent p : clean (clean p) = clean p.
Proof.
  rewrite (clean_render_meaning p). pose proof (meaning_wf p) as H. destruct (meaning p) as [[r u] ns]. apply clean_fixed, H.
Qed.

Theorem meaning_clean p : meaning (clean p) = meaning p.
Proof.
  rewrite (clean_render_meaning p). pose proof (meaning_wf p) as H. destruct (meaning p) as [[r u] ns]. apply meaning_render, H.
Qed.

(* two paths are cleaned to the same string exactly when they mean the same place *)
Theorem clean_eq_iff_meaning p q : clean p = clean q <-> meaning p = meaning q.
Proof.
  split.
  - intros H. rewrite <- (meaning_clean p), <- (meaning_clean q), H. reflexivity.
  - intros H. rewrite !clean_render_meaning, H. reflexivity.
Qed.

(* distinct clean paths are distinct places: on clean paths Clean is the identity, hence injective *)
Corollary clean_injective_on_clean p q : clean p = p -> clean q = q -> clean p = clean q -> p = q.
Proof. intros Hp Hq H. rewrite Hp, Hq in H. exact H. Qed.

(* ---- the path-level form of the laws: an element "", "." or `name/..` inside a path does not matter ---- *)
Lemma is_rooted_segs (x y:bytes) (l:list bytes) : nosep sep x -> is_rooted (joinc sep (x :: y :: l)) = is_empty x.
Proof.
  intros Hx. rewrite joinc_first. destruct x as [|c x]; cbn [app is_rooted is_empty]; [apply Ascii.eqb_refl|].
  unfold nosep in Hx. cbn [has] in Hx. apply orb_false_iff in Hx as [Hc _]. exact Hc.
Qed.

Lemma meaning_of_segs (x y:bytes) (l:list bytes) : Forall (nosep sep) (x :: y :: l) ->
  meaning (joinc sep (x :: y :: l)) =
  (is_empty x, fst (norm_rev (is_empty x) 0 [] (x :: y :: l)), rev (snd (norm_rev (is_empty x) 0 [] (x :: y :: l)))).
Proof.
  intros H. unfold meaning. inversion H as [|? ? Hx _]; subst. rewrite (is_rooted_segs x y l Hx).
  rewrite split_join; [|discriminate|exact H]. destruct (norm_rev (is_empty x) 0 [] (x :: y :: l)). reflexivity.
Qed.

Theorem clean_same_place (x:bytes) (a c m:list bytes) :
  (m = [[]] \/ m = [[dot]] \/ exists n, is_name n = true /\ m = [n; dotdot]) ->
  Forall (nosep sep) (x :: a ++ c) -> c <> [] ->
  clean (joinc sep (x :: a ++ m ++ c)) = clean (joinc sep (x :: a ++ c)).
Proof.
  intros Hm Hall Hc. apply clean_eq_iff_meaning.
  assert (Hmn : Forall (nosep sep) m).
  { destruct Hm as [->|[->|(n & Hn & ->)]]; repeat constructor. apply is_name_spec in Hn. tauto. }
  assert (Hall' : Forall (nosep sep) (x :: a ++ m ++ c)).
  { inversion Hall as [|? ? Hx Hac]; subst. apply Forall_app in Hac as [Ha Hcc].
    constructor; [exact Hx|]. apply Forall_app. split; [exact Ha|]. apply Forall_app. split; assumption. }
  assert (E : forall r u st, norm_rev r u st (x :: a ++ m ++ c) = norm_rev r u st (x :: a ++ c)).
  { intros r u st.
    destruct Hm as [->|[->|(n & Hn & ->)]].
    - exact (norm_skip_empty r u st (x :: a) c).
    - exact (norm_skip_dot r u st (x :: a) c).
    - exact (norm_name_dotdot r u st (x :: a) n c Hn). }
  destruct c as [|c0 c']; [contradiction|].
  destruct (a ++ m ++ c0 :: c') as [|y1 l1] eqn:E1; [destruct a; [destruct Hm as [->|[->|(n & _ & ->)]]|]; discriminate|].
  destruct (a ++ c0 :: c') as [|y2 l2] eqn:E2; [destruct a; discriminate|].
  rewrite (meaning_of_segs x y1 l1 Hall'), (meaning_of_segs x y2 l2 Hall).
  rewrite E. reflexivity.
Qed.

(* ---- the characters of a cleaned path ---- *)
Lemma has_render d r u ns : has d (render r u ns) = true -> d = sep \/ d = dot \/ exists x, In x ns /\ has d x = true.
Proof.
  assert (J : has d (joinc sep (repeat dotdot u ++ ns)) = true -> d = sep \/ d = dot \/ exists x, In x ns /\ has d x = true).
  { intros H. destruct (has_joinc sep d _ H) as [->|(x & Hx & Hd)]; [left; reflexivity|].
    apply in_app_or in Hx as [Hx|Hx].
    - apply repeat_spec in Hx. subst x. cbn [has dotdot] in Hd. rewrite orb_false_r, orb_diag in Hd.
      right; left. symmetry. apply Ascii.eqb_eq, Hd.
    - right; right. exists x. split; assumption. }
  unfold render. destruct r.
  - cbn [has]. intros H. apply orb_true_iff in H as [H|H]; [left; symmetry; apply Ascii.eqb_eq, H|apply J, H].
  - destruct (repeat dotdot u ++ ns) eqn:E.
    + cbn [has]. rewrite orb_false_r. intros H. right; left. symmetry. apply Ascii.eqb_eq, H.
    + apply J.
Qed.

Theorem has_clean d p : has d (clean p) = true -> d = sep \/ d = dot \/ has d p = true.
Proof.
  rewrite clean_render_meaning. unfold meaning. destruct (norm_rev (is_rooted p) 0 [] (splitc sep p)) as [u st] eqn:E.
  intros H. destruct (has_render d _ _ _ H) as [->|[->|(x & Hx & Hd)]]; [tauto|tauto|]. right; right.
  apply in_rev in Hx. pose proof (norm_rev_incl (is_rooted p) (splitc sep p) 0 [] x) as Hi. rewrite E in Hi.
  destruct (Hi Hx) as [[]|Hs]. apply (splitc_has sep d p x Hs Hd).
Qed.

(* a cleaned path is never empty and never starts with two slashes *)
Lemma render_nonempty r u ns : wf (r, u, ns) -> render r u ns <> [].
Proof.
  intros [Hns _]. unfold render. destruct r; [discriminate|]. destruct (repeat dotdot u ++ ns) as [|x l] eqn:E; [discriminate|].
  assert (x <> []).
  { destruct u; cbn [repeat app] in E.
    - subst ns. inversion Hns as [|? ? H1 _]; subst. apply is_name_spec in H1. tauto.
    - injection E as <- _. discriminate. }
  destruct x; [contradiction|]. destruct l; discriminate.
Qed.
Theorem clean_nonempty p : clean p <> [].
Proof. rewrite clean_render_meaning. pose proof (meaning_wf p). destruct (meaning p) as [[r u] ns]. apply render_nonempty. assumption. Qed.

Theorem clean_no_double_slash p : prefix [sep; sep] (clean p) = false.
Proof.
  rewrite clean_render_meaning. pose proof (meaning_wf p) as Hwf. destruct (meaning p) as [[r u] ns]. destruct Hwf as [Hns Hu].
  unfold render. cbv zeta.
  destruct r.
  - rewrite (Hu eq_refl). cbn [repeat app]. destruct ns as [|x ns']; [reflexivity|].
    inversion Hns as [|? ? Hx _]; subst. apply is_name_spec in Hx as (H1 & _ & _ & H4).
    destruct x as [|c x]; [contradiction|]. unfold nosep in H4. cbn [has] in H4. apply orb_false_iff in H4 as [Hc _].
    destruct ns'; cbn [joinc app prefix]; rewrite Ascii.eqb_refl, Ascii.eqb_sym, Hc; reflexivity.
  - destruct (repeat dotdot u ++ ns) as [|x l] eqn:E; [reflexivity|].
    assert (Hall : Forall (nosep sep) (x :: l)) by (rewrite <- E; apply segs_nosep, Hns).
    assert (Hx : x <> []).
    { destruct u; cbn [repeat app] in E.
      - subst ns. inversion Hns as [|? ? H1 _]; subst. apply is_name_spec in H1. tauto.
      - injection E as <- _. discriminate. }
    pose proof (is_rooted_joinc x l Hx (Forall_inv Hall)) as Hr.
    destruct (joinc sep (x :: l)) as [|c s]; [reflexivity|]. cbn [is_rooted] in Hr. cbn [prefix]. rewrite Ascii.eqb_sym, Hr. reflexivity.
Qed.

(* "./" in front of a relative path changes nothing *)
Theorem clean_dot_slash p : is_rooted p = false -> clean (dot :: sep :: p) = clean p.
Proof.
  intros Hr. apply clean_eq_iff_meaning. unfold meaning. cbn [is_rooted]. change (Ascii.eqb dot sep) with false. rewrite Hr.
  change (dot :: sep :: p) with ([dot] ++ sep :: p). rewrite (splitc_cons_sep sep [dot] p eq_refl). reflexivity.
Qed.

(* examples of the distinctions of the property statement (a TEST by vm_compute) *)
Example clean_keeps_apart :
  clean (b ".shared/t.sysl") <> clean (b "shared/t.sysl") /\ clean (b "../x.sysl") <> clean (b "x.sysl") /\
  clean (b ".x.sysl") <> clean (b "x.sysl") /\ clean (b "d/../x.sysl") = clean (b "./x.sysl") /\
  clean (b "a//b/./c/../d") = b "a/b/d" /\ clean (b "/../a") = b "/a" /\ clean (b "") = b ".".
Proof. vm_compute. repeat split; discriminate. Qed.
