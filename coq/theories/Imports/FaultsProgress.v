(* "Never a hang" as a theorem about the fault model (Faults.v): for a finite import graph, WHATEVER the fault
   assignment and the depth limit, every schedule of at least fstep_bound choices ends with no goroutine left.

   Two parts:
   - no deadlock: in every reachable state with goroutines left, one of them can run. The only places the model's
     goroutines block are the read (always completes when chosen) and g.Wait(); a goroutine in g.Wait() always
     has a child that is still there (well-formedness WF below: ids are unique and fresh, a child's id is larger
     than its parent's, every waiting task has a child in the list) - so the goroutine with the largest id is
     never waiting. That collectSpecs of the CURRENT source blocks nowhere else (no channel operation, select,
     semaphore, second lock, limited group) is Rules.collect_blocks_only_in_read_and_wait, regenerated.
   - a measure that every step lowers: 1 per goroutine at its entry or waiting, 2 + #imports per reading
     goroutine, 3 + #imports per file of the universe not yet claimed. *)
From Coq Require Import List NArith Arith Bool Lia.
Import ListNotations.
Require Import Verif.Imports.Rules Verif.Imports.Collect Verif.Imports.CollectProps Verif.Imports.TermProps
               Verif.Imports.Faults Verif.Imports.FaultsProps.

(* ---------- well-formed task lists ---------- *)
Definition child_of (pid:nat) (c:ftask) : bool := match fpar c with Some q => Nat.eqb q pid | None => false end.
Definition waiting (t:ftask) : bool := match fph t with FWaiting _ => true | _ => false end.

Record WFl (next:nat) (l:list ftask) : Prop := {
  wf_fresh : forall t, In t l -> fid t < next;
  wf_nodup : NoDup (map fid l);
  wf_order : forall c p, In c l -> fpar c = Some p -> p < fid c
}.
(* every waiting task, except possibly the one with id `ex`, has a child in the list *)
Definition kids_ok (ex:option nat) (l:list ftask) : Prop :=
  forall t, In t l -> waiting t = true -> Some (fid t) <> ex -> has_child (fid t) l = true.

Lemma has_child_spec pid l : has_child pid l = true <-> exists c, In c l /\ fpar c = Some pid.
Proof.
  unfold has_child. rewrite existsb_exists. split; intros (c & Hin & H); exists c; split; auto.
  - destruct (fpar c) as [q|]; [apply Nat.eqb_eq in H; congruence|discriminate].
  - rewrite H. apply Nat.eqb_refl.
Qed.

Lemma nodup_mid_notin (a b:list ftask) t : NoDup (map fid (a ++ t :: b)) ->
  NoDup (map fid (a ++ b)) /\ forall x, In x (a ++ b) -> fid x <> fid t.
Proof.
  rewrite !map_app. cbn [map]. intros H. split.
  - eapply NoDup_remove_1, H.
  - intros x Hx Heq. apply NoDup_remove_2 in H. apply H. rewrite <- map_app, <- Heq. apply in_map, Hx.
Qed.

Lemma WFl_remove next a t b : WFl next (a ++ t :: b) -> WFl next (a ++ b).
Proof.
  intros [F N O]. constructor.
  - intros x Hx. apply F, in_mid. right. exact Hx.
  - apply (nodup_mid_notin a b t N).
  - intros c p Hc. apply O, in_mid. right. exact Hc.
Qed.

Lemma WFl_rephase next a t b ph : WFl next (a ++ t :: b) -> WFl next (a ++ with_phase t ph :: b).
Proof.
  intros [F N O]. constructor.
  - intros x Hx. apply in_mid in Hx. destruct Hx as [->|Hx]; [apply (F t), in_mid; left; reflexivity|apply F, in_mid; right; exact Hx].
  - rewrite map_app in *. cbn [map] in *. exact N.
  - intros c p Hc. apply in_mid in Hc. destruct Hc as [->|Hc]; [apply (O t), in_mid; left; reflexivity|apply O, in_mid; right; exact Hc].
Qed.

Lemma NoDup_app_intro {A} (l1 l2:list A) : NoDup l1 -> NoDup l2 -> (forall x, In x l1 -> In x l2 -> False) -> NoDup (l1 ++ l2).
Proof.
  induction l1 as [|a l1 IH]; intros H1 H2 Hd; [exact H2|]. inversion H1 as [|a' l' Ha Hl]; subst. cbn. constructor.
  - rewrite in_app_iff. intros [H|H]; [exact (Ha H)|apply (Hd a); [left; reflexivity|exact H]].
  - apply IH; [exact Hl|exact H2|]. intros x Hx. apply Hd. right. exact Hx.
Qed.

Lemma take_id_spec i l a x b : take_id i l = Some (a, x, b) -> l = a ++ x :: b /\ fid x = i.
Proof. intros H. apply take_first_spec in H. destruct H as [-> E]. apply Nat.eqb_eq in E. auto. Qed.

Lemma take_id_none i l : take_id i l = None -> forall x, In x l -> fid x <> i.
Proof.
  unfold take_id. induction l as [|t r IH]; intros H x Hx; [destruct Hx|]. cbn [take_first] in H.
  destruct (Nat.eqb_spec (fid t) i) as [E|E]; [discriminate|].
  destruct (take_first _ r) as [[[a y] b]|] eqn:Hr; [discriminate|].
  destruct Hx as [<-|Hx]; [exact E|apply (IH eq_refl x Hx)].
Qed.

(* ---------- deliver keeps the list well-formed and gives every waiting task a child ---------- *)
Lemma deliver_wf next fuel : forall p r ts rt, length ts <= fuel -> WFl next ts -> kids_ok p ts ->
  WFl next (fst (deliver fuel p r ts rt)) /\ kids_ok None (fst (deliver fuel p r ts rt)).
Proof.
  induction fuel as [|k IH]; intros p r ts rt Hlen W K.
  all: assert (Hfull : (forall x, In x ts -> waiting x = true -> Some (fid x) <> p) -> kids_ok None ts)
         by (intros Hq t Hin Hw _; apply K; [exact Hin|exact Hw|apply Hq; assumption]).
  all: destruct p as [pid|]; cbn [deliver fst]; [|split; [exact W|exact K]].
  all: destruct (take_id pid ts) as [[[a pt] b]|] eqn:Hid;
       [|split; [exact W|apply Hfull; intros x Hx _ [= E]; exact (take_id_none _ _ Hid x Hx E)]].
  all: apply take_id_spec in Hid; destruct Hid as [-> Hpid].
  all: destruct (nodup_mid_notin a b pt (wf_nodup _ _ W)) as [_ Hother].
  all: destruct (fph pt) as [| |e] eqn:Hph.
  (* the parent is not waiting (unreachable): nothing changes, and it is the only task with that id *)
  1,2,4,5: cbn [fst]; split; [exact W|]; apply Hfull; intros x Hx Hw [= E];
       apply in_mid in Hx; destruct Hx as [->|Hx]; [unfold waiting in Hw; rewrite Hph in Hw; discriminate|];
       apply (Hother x Hx); congruence.
  all: set (e' := match e with Some _ => e | None => r end).
  all: destruct (has_child pid (a ++ b)) eqn:Hhc; cbn [fst].
  (* other children are left: the parent keeps waiting *)
  1,3: split; [apply WFl_rephase, W|];
       intros t Hin Hw _; apply in_mid in Hin; apply has_child_spec;
       destruct Hin as [->|Hin];
       [ cbn [with_phase fid]; rewrite Hpid; apply has_child_spec in Hhc; destruct Hhc as (c & Hc & Hcp);
         exists c; split; [apply in_mid; right; exact Hc|exact Hcp]
       | assert (Hne : Some (fid t) <> Some pid) by (intros [= E]; apply (Hother t Hin); congruence);
         assert (Hc := K t (proj2 (in_mid t pt a b) (or_intror Hin)) Hw Hne);
         apply has_child_spec in Hc; destruct Hc as (c & Hc & Hcp); apply in_mid in Hc;
         destruct Hc as [->|Hc];
         [exists (with_phase pt (FWaiting e')); split; [apply in_mid; left; reflexivity|exact Hcp]
         |exists c; split; [apply in_mid; right; exact Hc|exact Hcp]] ].
  (* fuel 0 with a non-empty list: excluded by the length hypothesis *)
  1: rewrite app_length in Hlen; cbn [length] in Hlen; lia.
  (* the last child returned: the parent returns to ITS parent *)
  apply IH.
  - rewrite app_length in *. cbn [length] in Hlen. lia.
  - eapply WFl_remove, W.
  - intros t Hin Hw Hne. apply has_child_spec.
    assert (Hne' : Some (fid t) <> Some pid) by (intros [= E]; apply (Hother t Hin); congruence).
    assert (Hc := K t (proj2 (in_mid t pt a b) (or_intror Hin)) Hw Hne').
    apply has_child_spec in Hc. destruct Hc as (c & Hc & Hcp). apply in_mid in Hc.
    destruct Hc as [->|Hc]; [congruence|exists c; auto].
Qed.

Lemma deliver_sub fuel : forall p r ts rt x, In x (fst (deliver fuel p r ts rt)) ->
  exists y, In y ts /\ fid y = fid x /\ ff y = ff x /\ fpar y = fpar x /\ (runnable x = true -> y = x).
Proof.
  induction fuel as [|k IH]; intros p r ts rt x.
  all: assert (Hsame : In x ts -> exists y, In y ts /\ fid y = fid x /\ ff y = ff x /\ fpar y = fpar x /\ (runnable x = true -> y = x))
         by (intros H; exists x; auto).
  all: destruct p as [pid|]; cbn [deliver fst]; [|exact Hsame].
  all: destruct (take_id pid ts) as [[[a pt] b]|] eqn:Hid; [|exact Hsame].
  all: apply take_id_spec in Hid; destruct Hid as [-> Hpid].
  all: destruct (fph pt) as [| |e] eqn:Hph; [exact Hsame|exact Hsame|].
  all: destruct (has_child pid (a ++ b)); cbn [fst].
  1,3: intros Hx; apply in_mid in Hx; destruct Hx as [->|Hx];
       [exists pt; split; [apply in_mid; left; reflexivity|cbn; repeat split; discriminate]
       |exists x; split; [apply in_mid; right; exact Hx|auto]].
  1: intros Hx; exists x; split; [apply in_mid; right; exact Hx|auto].
  intros Hx. destruct (IH _ _ _ _ _ Hx) as (y & Hy & H). exists y. split; [apply in_mid; right; exact Hy|exact H].
Qed.

(* ---------- the invariant over runs ---------- *)
Section Progress.
Variable g : graph.
Variable fl : faults.
Variable maxd : nat.
Variable root : idx.
Variable univ : list idx.
Hypothesis Hroot : In root univ.
Hypothesis Hclosed : forall f k, In f univ -> In k (g f) -> In k univ.

Record WF (s:fstate) : Prop := {
  wf_l : WFl (fnext s) (ftasks s);
  wf_kids : kids_ok None (ftasks s);
  wf_univ : forall t, In t (ftasks s) -> In (ff t) univ
}.

Lemma wf_init : WF (finit root).
Proof.
  constructor; cbn [finit ftasks fnext].
  - constructor.
    + intros t [<-|[]]. cbn. lia.
    + cbn. constructor; [intros []|constructor].
    + intros c p [<-|[]]. discriminate.
  - intros t [<-|[]]. discriminate.
  - intros t [<-|[]]. exact Hroot.
Qed.

Lemma wf_finish s a t b r cl rd : WF s -> ftasks s = a ++ t :: b -> runnable t = true ->
  WF (finish s (a ++ b) t r cl rd).
Proof.
  intros [W K U] Hs Hrun. rewrite Hs in *.
  assert (Hk : kids_ok (fpar t) (a ++ b)).
  { intros x Hin Hw Hne. apply has_child_spec.
    assert (Hc := K x (proj2 (in_mid x t a b) (or_intror Hin)) Hw ltac:(discriminate)).
    apply has_child_spec in Hc. destruct Hc as (c & Hc & Hcp). apply in_mid in Hc.
    destruct Hc as [->|Hc]; [congruence|exists c; auto]. }
  destruct (deliver_wf (fnext s) (length (a ++ b)) (fpar t) r (a ++ b) (froot s) (le_n _) (WFl_remove _ _ _ _ W) Hk) as [W' K'].
  constructor; cbn [finish ftasks fnext]; [exact W'|exact K'|].
  intros x Hx. destruct (deliver_sub _ _ _ _ _ _ Hx) as (y & Hy & _ & Hf & _). rewrite <- Hf.
  apply U, in_mid. right. exact Hy.
Qed.

Lemma spawn_props par d next kids x : In x (spawn par d next kids) ->
  next <= fid x < next + length kids /\ fpar x = Some par /\ fph x = FEntry /\ In (ff x) kids.
Proof.
  revert next. induction kids as [|k ks IH]; intros next H; [destruct H|].
  destruct H as [<-|H]; [cbn; repeat split; try lia; left; reflexivity|].
  destruct (IH _ H) as (A & B & C & D). cbn [length]. repeat split; try lia; try assumption. right. exact D.
Qed.
Lemma spawn_nodup par d kids : forall next, NoDup (map fid (spawn par d next kids)).
Proof.
  induction kids as [|k ks IH]; intros next; [constructor|]. cbn [spawn map fid]. constructor; [|apply IH].
  intros Hin. apply in_map_iff in Hin. destruct Hin as (x & Hx & Hin). apply spawn_props in Hin. lia.
Qed.

Lemma wf_step_on s a t b : WF s -> ftasks s = a ++ t :: b -> runnable t = true -> WF (fstep_on R g fl maxd s (a, t, b)).
Proof.
  intros I Hs Hrun. cbn [fstep_on]. destruct (fph t) as [| |e] eqn:Hph; [| |exact I].
  - assert (Hdone : forall cl rd, WF (finish s (a ++ b) t None cl rd)) by (intros; apply wf_finish; assumption).
    destruct (cut R maxd (fdepth t)); [apply Hdone|]. destruct (lookup (ff t) (fcl s)); [apply Hdone|].
    destruct I as [W K U]. rewrite Hs in *. constructor; cbn [ftasks fnext].
    + apply WFl_rephase, W.
    + intros x Hin Hw _. apply in_mid in Hin. destruct Hin as [->|Hin]; [discriminate|].
      assert (Hc := K x (proj2 (in_mid x t a b) (or_intror Hin)) Hw ltac:(discriminate)).
      apply has_child_spec in Hc. destruct Hc as (c & Hc & Hcp). apply has_child_spec. apply in_mid in Hc.
      destruct Hc as [->|Hc]; [eexists; split; [apply in_mid; left; reflexivity|exact Hcp]|exists c; split; [apply in_mid; right; exact Hc|exact Hcp]].
    + intros x Hin. apply in_mid in Hin. destruct Hin as [->|Hin]; [apply (U t), in_mid; left; reflexivity|apply U, in_mid; right; exact Hin].
  - destruct (collect_fault fl (ff t)); [apply wf_finish; assumption|].
    destruct (g (ff t)) as [|k ks] eqn:Hg; [apply wf_finish; assumption|].
    destruct I as [W K U]. rewrite Hs in *.
    set (t' := with_phase t (FWaiting None)). set (sp := spawn (fid t) (S (fdepth t)) (fnext s) (k :: ks)).
    assert (Ht_in : In t (a ++ t :: b)) by (apply in_mid; left; reflexivity).
    assert (Hmem : forall x, In x (a ++ t' :: b ++ sp) <-> In x (a ++ t' :: b) \/ In x sp).
    { intros x. rewrite !in_app_iff. cbn [In]. rewrite in_app_iff. tauto. }
    pose proof (WFl_rephase _ a t b (FWaiting None) W) as W1. fold t' in W1.
    constructor; cbn [ftasks fnext].
    + constructor.
      * intros x Hx. apply Hmem in Hx. destruct Hx as [Hx|Hx]; [pose proof (wf_fresh _ _ W1 x Hx); lia|].
        apply spawn_props in Hx. lia.
      * replace (a ++ t' :: b ++ sp) with ((a ++ t' :: b) ++ sp) by (rewrite <- app_assoc; reflexivity).
        rewrite map_app. apply NoDup_app_intro; [apply (wf_nodup _ _ W1)|apply spawn_nodup|].
        intros i Hi1 Hi2. apply in_map_iff in Hi1. destruct Hi1 as (x & <- & Hx). apply in_map_iff in Hi2.
        destruct Hi2 as (y & Hy & Hyin). apply spawn_props in Hyin. pose proof (wf_fresh _ _ W1 x Hx). lia.
      * intros c p Hc Hp. apply Hmem in Hc. destruct Hc as [Hc|Hc]; [apply (wf_order _ _ W1 c p Hc Hp)|].
        apply spawn_props in Hc. destruct Hc as (Hid & Hpar & _). rewrite Hpar in Hp. injection Hp as <-.
        pose proof (wf_fresh _ _ W t Ht_in). lia.
    + intros x Hin Hw _. apply has_child_spec. apply Hmem in Hin. destruct Hin as [Hin|Hin].
      * apply in_mid in Hin. destruct Hin as [->|Hin].
        -- exists {| fid := fnext s; ff := k; fdepth := S (fdepth t); fpar := Some (fid t); fph := FEntry |}.
           split; [apply Hmem; right; left; reflexivity|reflexivity].
        -- assert (Hc := K x (proj2 (in_mid x t a b) (or_intror Hin)) Hw ltac:(discriminate)).
           apply has_child_spec in Hc. destruct Hc as (c & Hc & Hcp). apply in_mid in Hc.
           destruct Hc as [->|Hc]; [exists t'; split; [apply Hmem; left; apply in_mid; left; reflexivity|exact Hcp]
                                   |exists c; split; [apply Hmem; left; apply in_mid; right; exact Hc|exact Hcp]].
      * apply spawn_props in Hin. destruct Hin as (_ & _ & Hp & _). unfold waiting in Hw. rewrite Hp in Hw. discriminate.
    + intros x Hin. apply Hmem in Hin. destruct Hin as [Hin|Hin].
      * apply in_mid in Hin. destruct Hin as [->|Hin]; [apply (U t Ht_in)|apply U, in_mid; right; exact Hin].
      * apply spawn_props in Hin. destruct Hin as (_ & _ & _ & Hk). eapply Hclosed; [apply (U t Ht_in)|rewrite Hg; exact Hk].
Qed.

(* ---------- no deadlock ---------- *)
Lemma max_id (l:list ftask) : l <> [] -> exists t, In t l /\ forall x, In x l -> fid x <= fid t.
Proof.
  induction l as [|t r IH]; [congruence|]. intros _. destruct r as [|t2 r'].
  - exists t. split; [left; reflexivity|intros x [<-|[]]; lia].
  - destruct IH as (m & Hm & Hmax); [discriminate|].
    destruct (Nat.le_gt_cases (fid m) (fid t)) as [Hle|Hgt].
    + exists t. split; [left; reflexivity|]. intros x [<-|Hx]; [lia|]. specialize (Hmax x Hx). lia.
    + exists m. split; [right; exact Hm|]. intros x [<-|Hx]; [lia|apply Hmax, Hx].
Qed.

Theorem no_deadlock s : WF s -> ftasks s <> [] -> exists t, In t (ftasks s) /\ runnable t = true.
Proof.
  intros [W K _] Hne. destruct (max_id _ Hne) as (t & Hin & Hmax). exists t. split; [exact Hin|].
  destruct (runnable t) eqn:Hr; [reflexivity|exfalso].
  assert (Hw : waiting t = true) by (unfold runnable in Hr; unfold waiting; destruct (fph t); congruence).
  assert (Hc := K t Hin Hw ltac:(discriminate)). apply has_child_spec in Hc. destruct Hc as (c & Hc & Hcp).
  pose proof (wf_order _ _ W c (fid t) Hc Hcp). specialize (Hmax c Hc). lia.
Qed.

(* every reachable state (any interleaving) is well-formed, hence never deadlocked *)
Lemma wf_reachable s : reachable g fl maxd root s -> WF s.
Proof.
  induction 1 as [|s a t b _ IH Hs]; [apply wf_init|].
  destruct (runnable t) eqn:Hr; [apply wf_step_on; assumption|].
  cbn [fstep_on]. unfold runnable in Hr. destruct (fph t); try discriminate. exact IH.
Qed.

Theorem reachable_no_deadlock s : reachable g fl maxd root s -> ftasks s <> [] ->
  exists t, In t (ftasks s) /\ runnable t = true.
Proof. intros H. apply no_deadlock, wf_reachable, H. Qed.

Lemma take_runnable_some l : forall k, k < length (filter runnable l) -> exists sp, take_runnable k l = Some sp.
Proof.
  induction l as [|t r IH]; intros k Hk; [cbn in Hk; lia|]. cbn [take_runnable filter] in *.
  destruct (runnable t).
  - destruct k as [|k']; [eexists; reflexivity|]. cbn [length] in Hk.
    destruct (IH k') as ([[a x] b] & ->); [lia|]. eexists. reflexivity.
  - destruct (IH k Hk) as ([[a x] b] & ->). eexists. reflexivity.
Qed.

(* ---------- the measure ---------- *)
Definition ftw (t:ftask) : nat := match fph t with FEntry => 1 | FReading => 2 + length (g (ff t)) | FWaiting _ => 1 end.
Fixpoint ftsum (l:list ftask) : nat := match l with [] => 0 | t :: r => ftw t + ftsum r end.
Fixpoint fuw (l:list idx) (m:cmap) : nat :=
  match l with [] => 0 | f :: r => (match lookup f m with None => 3 + length (g f) | Some _ => 0 end) + fuw r m end.
Definition fphi (s:fstate) : nat := ftsum (ftasks s) + fuw univ (fcl s).
Definition fstep_bound : nat := 1 + fold_right (fun f a => 3 + length (g f) + a) 0 univ.

Lemma ftsum_app l1 l2 : ftsum (l1 ++ l2) = ftsum l1 + ftsum l2.
Proof. induction l1 as [|t l IH]; [reflexivity|]. cbn [app ftsum]. rewrite IH. lia. Qed.

Lemma fuw_update_le l f e m : fuw l (update f e m) <= fuw l m.
Proof.
  induction l as [|x l IH]; [apply le_n|]. cbn [fuw]. destruct (N.eq_dec x f) as [->|Hn].
  - rewrite lookup_update_eq. destruct (lookup f m); lia.
  - rewrite (lookup_update_neq f x e m Hn). lia.
Qed.
Lemma fuw_update_new l f e m : lookup f m = None -> In f l -> fuw l (update f e m) + (3 + length (g f)) <= fuw l m.
Proof.
  intros Hl. induction l as [|x l IH]; intros Hin; [destruct Hin|]. cbn [fuw].
  destruct (N.eq_dec x f) as [->|Hn].
  - rewrite lookup_update_eq, Hl. pose proof (fuw_update_le l f e m). lia.
  - rewrite (lookup_update_neq f x e m Hn). destruct Hin as [->|Hin]; [congruence|]. specialize (IH Hin). lia.
Qed.

Lemma ftsum_entries par d next ks : ftsum (spawn par d next ks) = length ks.
Proof. revert next. induction ks as [|k ks IH]; intros next; [reflexivity|]. cbn [spawn ftsum length]. rewrite IH. reflexivity. Qed.

Lemma deliver_ftsum fuel : forall p r ts rt, ftsum (fst (deliver fuel p r ts rt)) <= ftsum ts.
Proof.
  induction fuel as [|k IH]; intros p r ts rt.
  all: destruct p as [pid|]; cbn [deliver fst]; [|apply le_n].
  all: destruct (take_id pid ts) as [[[a pt] b]|] eqn:Hid; [|apply le_n].
  all: apply take_id_spec in Hid; destruct Hid as [-> _].
  all: destruct (fph pt) as [| |e] eqn:Hph; [apply le_n|apply le_n|].
  all: destruct (has_child pid (a ++ b)); cbn [fst].
  1,3: rewrite !ftsum_app; cbn [ftsum]; unfold ftw; cbn [with_phase fph]; rewrite Hph; lia.
  1: rewrite !ftsum_app; cbn [ftsum]; lia.
  etransitivity; [apply IH|]. rewrite !ftsum_app. cbn [ftsum]. lia.
Qed.

Lemma fphi_step_on s a t b : WF s -> ftasks s = a ++ t :: b -> runnable t = true ->
  fphi (fstep_on R g fl maxd s (a, t, b)) < fphi s.
Proof.
  intros [W K U] Hs Hrun. unfold fphi. rewrite Hs.
  assert (Hsum : ftsum (a ++ t :: b) = ftsum (a ++ b) + ftw t) by (rewrite !ftsum_app; cbn [ftsum]; lia).
  assert (Hfin : forall r cl rd, fuw univ cl <= fuw univ (fcl s) ->
            ftsum (ftasks (finish s (a ++ b) t r cl rd)) + fuw univ (fcl (finish s (a ++ b) t r cl rd)) < ftsum (a ++ t :: b) + fuw univ (fcl s)).
  { intros r cl rd Hle. cbn [finish ftasks fcl]. pose proof (deliver_ftsum (length (a ++ b)) (fpar t) r (a ++ b) (froot s)).
    rewrite Hsum. assert (1 <= ftw t) by (unfold ftw; destruct (fph t); lia). lia. }
  cbn [fstep_on]. destruct (fph t) as [| |e] eqn:Hph; [| |unfold runnable in Hrun; rewrite Hph in Hrun; discriminate].
  - destruct (cut R maxd (fdepth t)); [apply Hfin, le_n|].
    destruct (lookup (ff t) (fcl s)) eqn:Hl; [apply Hfin, le_n|].
    cbn [ftasks fcl claim_before_read R]. rewrite Hsum, !ftsum_app. cbn [ftsum]. unfold ftw. cbn [with_phase fph ff]. rewrite Hph.
    assert (Hin : In (ff t) univ) by (apply U; rewrite Hs; apply in_mid; left; reflexivity).
    pose proof (fuw_update_new univ (ff t) {| eimports := None; edepth := fdepth t |} (fcl s) Hl Hin).
    rewrite ftsum_app in *. lia.
  - destruct (collect_fault fl (ff t)).
    + apply Hfin. destruct (fl (ff t)) as [[]|]; try apply le_n. apply fuw_update_le.
    + destruct (g (ff t)) as [|k ks] eqn:Hg; [apply Hfin, fuw_update_le|].
      cbn [ftasks fcl]. rewrite Hsum.
      replace (a ++ with_phase t (FWaiting None) :: b ++ spawn (fid t) (S (fdepth t)) (fnext s) (k :: ks))
        with ((a ++ with_phase t (FWaiting None) :: b) ++ spawn (fid t) (S (fdepth t)) (fnext s) (k :: ks))
        by (rewrite <- app_assoc; reflexivity).
      rewrite ftsum_app, ftsum_entries, !ftsum_app. cbn [ftsum]. unfold ftw. cbn [with_phase fph ff]. rewrite Hph, Hg.
      pose proof (fuw_update_le univ (ff t) {| eimports := Some (k :: ks); edepth := fdepth t |} (fcl s)).
      cbn [length] in *. lia.
Qed.

(* ---------- every schedule terminates ---------- *)
Lemma fstep_progress s c : WF s -> ftasks s <> [] ->
  WF (fstep R g fl maxd s c) /\ fphi (fstep R g fl maxd s c) < fphi s.
Proof.
  intros I Hne. destruct (no_deadlock s I Hne) as (t & Hin & Hr). unfold fstep.
  assert (Hpos : 0 < length (filter runnable (ftasks s))).
  { assert (In t (filter runnable (ftasks s))) by (apply filter_In; auto).
    destruct (filter runnable (ftasks s)); [destruct H|cbn; lia]. }
  destruct (length (filter runnable (ftasks s))) as [|n] eqn:Hn; [lia|].
  destruct (take_runnable_some (ftasks s) (c mod S n)) as ([[a x] b] & Hsp).
  { rewrite Hn. apply Nat.mod_upper_bound. lia. }
  rewrite Hsp. apply take_runnable_spec in Hsp. destruct Hsp as [Hs Hrx].
  split; [apply wf_step_on; assumption|apply fphi_step_on; assumption].
Qed.

Lemma fstep_idle s c : ftasks s = [] -> fstep R g fl maxd s c = s.
Proof. intros H. unfold fstep. rewrite H. reflexivity. Qed.

Lemma frun_bound sched : forall s, WF s ->
  ftasks (fold_left (fstep R g fl maxd) sched s) = [] \/
  fphi (fold_left (fstep R g fl maxd) sched s) + length sched <= fphi s.
Proof.
  induction sched as [|c cs IH]; intros s I; [right; cbn; lia|]. cbn [fold_left length].
  destruct (ftasks s) as [|t0 ts] eqn:Ht.
  - left. rewrite (fstep_idle s c Ht). clear IH. induction cs as [|c' cs' IH']; [exact Ht|].
    cbn [fold_left]. rewrite (fstep_idle s c' Ht). exact IH'.
  - assert (Hne : ftasks s <> []) by (rewrite Ht; discriminate).
    destruct (fstep_progress s c I Hne) as [I' Hlt]. destruct (IH _ I') as [Hq|Hb]; [left; exact Hq|right; lia].
Qed.

Lemma fphi_init : fphi (finit root) = fstep_bound.
Proof.
  unfold fphi, fstep_bound, finit. cbn [ftasks fcl ftsum ftw fph]. rewrite Nat.add_0_r. f_equal. clear Hroot Hclosed.
  induction univ as [|x l IH]; [reflexivity|]. cbn [fuw fold_right lookup find]. rewrite IH. reflexivity.
Qed.

(* NEVER A HANG: whatever fails, every schedule of at least fstep_bound choices ends with no goroutine left *)
Theorem faults_terminate sched : fstep_bound <= length sched -> ftasks (frun R g fl maxd root sched) = [].
Proof.
  intros Hlen. unfold frun. destruct (frun_bound sched (finit root) wf_init) as [Hq|Hb]; [exact Hq|].
  rewrite fphi_init in Hb. set (s := fold_left (fstep R g fl maxd) sched (finit root)) in *.
  destruct (ftasks s) as [|t ts] eqn:Ht; [reflexivity|exfalso].
  assert (1 <= fphi s) by (unfold fphi; rewrite Ht; cbn [ftsum]; unfold ftw; destruct (fph t); lia). lia.
Qed.
End Progress.
