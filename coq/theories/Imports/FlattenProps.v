(* Proofs about flattenSpecs (Collect.flatten) and about the processed-file order Parse hands to
   parseSpecs (Collect.result), for the rules the model was transliterated from.

   Generic part (any graph g, any `present` predicate) about Collect.dfs, the depth-first preorder:
     dfs_fuel_mono     more fuel never changes a defined result
     dfs_enough        fuel above the number of present files not yet listed is always enough
     dfs_nodup         nothing is listed twice
     dfs_closed        every newly listed file is present and all its present imports are listed
     dfs_ext           the result only depends on g / present on the files that can be reached
   Link:
     flatten_is_dfs    flatten over the retrieved map = dfs over (imports recorded in the map, has an entry)
   Results (every schedule, every graph):
     flatten_total                 flattenSpecs terminates on every quiescent state (fuel suffices)
     result_determined_by_domain   two complete runs that retrieved the same set of files produce the same order
     closure_unlimited_result      no limit: the order is defined, duplicate-free, lists exactly the reachable
                                   files, and IS the depth-first preorder of the import graph (text alone)
     closure_unlimited_independent no limit: two complete schedules give the same order
     closure_depth_unique_result   limit n, every file at one depth: the order lists exactly the files nearer
                                   than n, and two complete schedules give the same order
     closure_depth_partial_result  limit n, any graph: duplicate-free, only files nearer than n, contains every
                                   file all of whose paths have one length < n, and is the depth-first preorder
                                   of the graph restricted to the files that were retrieved *)
From Coq Require Import List NArith Arith Bool Lia.
Import ListNotations.
Require Import Verif.Imports.Rules Verif.Imports.Collect Verif.Imports.CollectProps.

Lemma mem_In f l : mem f l = true <-> In f l.
Proof.
  unfold mem. rewrite existsb_exists. split.
  - intros (x & Hx & He). apply N.eqb_eq in He. subst. exact Hx.
  - intros H. exists f. split; [exact H|apply N.eqb_refl].
Qed.
Lemma mem_false f l : mem f l = false <-> ~ In f l.
Proof. rewrite <- mem_In. destruct (mem f l); split; congruence. Qed.

(* ================= generic depth-first preorder ================= *)
Section Dfs.
Variable g : graph.
Variable present : idx -> bool.

Definition dstep (k:nat) : option (list idx) -> idx -> option (list idx) :=
  fun a c => match a with None => None | Some a' => dfs k g present a' c end.

Lemma dfs_S k acc f : dfs (S k) g present acc f =
  if mem f acc then Some acc else
  if present f then fold_left (dstep k) (g f) (Some (acc ++ [f])) else Some acc.
Proof. reflexivity. Qed.

Lemma fold_none k l : fold_left (dstep k) l None = None.
Proof. induction l as [|c l IH]; [reflexivity|exact IH]. Qed.

Lemma fold_cons k c l a : fold_left (dstep k) (c :: l) (Some a) = fold_left (dstep k) l (dfs k g present a c).
Proof. reflexivity. Qed.

(* ---- more fuel never changes a defined result ---- *)
Lemma dfs_fuel_S k : forall acc f r, dfs k g present acc f = Some r -> dfs (S k) g present acc f = Some r.
Proof.
  induction k as [|k IH]; intros acc f r H; [discriminate|].
  rewrite dfs_S in H. rewrite dfs_S.
  destruct (mem f acc); [exact H|]. destruct (present f); [|exact H].
  revert H. generalize (acc ++ [f]). generalize (g f). clear acc f.
  induction l as [|c l IHl]; intros a H; [exact H|].
  rewrite fold_cons in *. destruct (dfs k g present a c) as [a1|] eqn:Hc.
  - rewrite (IH _ _ _ Hc). apply IHl, H.
  - rewrite fold_none in H. discriminate.
Qed.

Lemma dfs_fuel_mono k k' acc f r : k <= k' -> dfs k g present acc f = Some r -> dfs k' g present acc f = Some r.
Proof. induction 1 as [|k' _ IH]; intros H; [exact H|]. apply dfs_fuel_S, IH, H. Qed.

(* ---- shape of the result: acc is kept, new files are appended once ---- *)
Lemma dfs_incl_nodup k : forall acc f r, dfs k g present acc f = Some r ->
  incl acc r /\ (NoDup acc -> NoDup r).
Proof.
  induction k as [|k IH]; intros acc f r H; [discriminate|].
  rewrite dfs_S in H. destruct (mem f acc) eqn:Hm.
  { injection H as <-. split; [apply incl_refl|auto]. }
  destruct (present f).
  2:{ injection H as <-. split; [apply incl_refl|auto]. }
  assert (Hfold : forall l a r, fold_left (dstep k) l (Some a) = Some r -> incl a r /\ (NoDup a -> NoDup r)).
  { induction l as [|c l IHl]; intros a r0 Hf.
    - injection Hf as <-. split; [apply incl_refl|auto].
    - rewrite fold_cons in Hf. destruct (dfs k g present a c) as [a1|] eqn:Hc; [|rewrite fold_none in Hf; discriminate].
      destruct (IH _ _ _ Hc) as [I1 N1]. destruct (IHl _ _ Hf) as [I2 N2].
      split; [eapply incl_tran; eassumption|auto]. }
  destruct (Hfold _ _ _ H) as [I N]. split.
  - eapply incl_tran; [|exact I]. apply incl_appl, incl_refl.
  - intros Hnd. apply N. apply NoDup_app_one; [exact Hnd|]. apply mem_false, Hm.
Qed.

(* ---- every newly listed file is present, and all its present imports are listed ---- *)
Definition closedin (x:idx) (r:list idx) : Prop :=
  present x = true /\ forall c, In c (g x) -> present c = true -> In c r.
Lemma closedin_mono x r r' : incl r r' -> closedin x r -> closedin x r'.
Proof. intros Hi [Hp Hc]. split; [exact Hp|]. intros c Hin Hpc. apply Hi, Hc; assumption. Qed.

Lemma dfs_closed k : forall acc f r, dfs k g present acc f = Some r ->
  (present f = true -> In f r) /\ forall x, In x r -> In x acc \/ closedin x r.
Proof.
  induction k as [|k IH]; intros acc f r H; [discriminate|].
  rewrite dfs_S in H. destruct (mem f acc) eqn:Hm.
  { injection H as <-. split; [intros _; apply mem_In, Hm|auto]. }
  destruct (present f) eqn:Hp.
  2:{ injection H as <-. split; [discriminate|auto]. }
  assert (Hfold : forall l a r, fold_left (dstep k) l (Some a) = Some r ->
            incl a r /\ (forall c, In c l -> present c = true -> In c r) /\ forall x, In x r -> In x a \/ closedin x r).
  { induction l as [|c l IHl]; intros a r0 Hf.
    - injection Hf as <-. split; [apply incl_refl|]. split; [intros c []|auto].
    - rewrite fold_cons in Hf. destruct (dfs k g present a c) as [a1|] eqn:Hc; [|rewrite fold_none in Hf; discriminate].
      destruct (IH _ _ _ Hc) as [Hc1 Hc2]. destruct (dfs_incl_nodup _ _ _ _ Hc) as [I1 _].
      destruct (IHl _ _ Hf) as (I2 & Hl & Hx). split; [eapply incl_tran; eassumption|]. split.
      + intros c' [<-|Hin] Hpc; [apply I2, Hc1, Hpc|apply Hl; assumption].
      + intros x Hin. destruct (Hx x Hin) as [Ha1|Hcl]; [|right; exact Hcl].
        destruct (Hc2 x Ha1) as [Ha|Hcl]; [left; exact Ha|right; eapply closedin_mono; eassumption]. }
  destruct (Hfold _ _ _ H) as (I & Hl & Hx). split.
  - intros _. apply I, in_app_iff. right. left. reflexivity.
  - intros x Hin. destruct (Hx x Hin) as [Ha|Hcl]; [|right; exact Hcl].
    apply in_app_iff in Ha. destruct Ha as [Ha|[<-|[]]]; [left; exact Ha|].
    right. split; [exact Hp|exact Hl].
Qed.

(* ---- enough fuel: more than the number of present files not yet listed ---- *)
Section Fuel.
Variable univ : list idx.
Hypothesis Huniv : forall f, present f = true -> In f univ.

Definition miss (acc:list idx) : nat := length (filter (fun x => negb (mem x acc)) univ).

Lemma filter_len_le {A} (p q:A -> bool) l : (forall x, p x = true -> q x = true) ->
  length (filter p l) <= length (filter q l).
Proof.
  intros H. induction l as [|x l IH]; [apply le_n|]. cbn [filter].
  destruct (p x) eqn:Hp; [rewrite (H x Hp); cbn; lia|]. destruct (q x); cbn; lia.
Qed.

Lemma miss_mono acc acc' : incl acc acc' -> miss acc' <= miss acc.
Proof.
  intros Hi. apply filter_len_le. intros x Hx. apply negb_true_iff in Hx. apply negb_true_iff.
  apply mem_false. apply mem_false in Hx. intros Hin. apply Hx, Hi, Hin.
Qed.

Lemma miss_add acc f : In f univ -> mem f acc = false -> miss (acc ++ [f]) < miss acc.
Proof.
  intros Hin Hm. unfold miss. clear Huniv. induction univ as [|x l IH]; [destruct Hin|].
  cbn [filter]. destruct Hin as [->|Hin].
  - rewrite Hm. assert (mem f (acc ++ [f]) = true) as -> by (apply mem_In, in_app_iff; right; left; reflexivity).
    cbn [negb length].
    assert (length (filter (fun x => negb (mem x (acc ++ [f]))) l) <= length (filter (fun x => negb (mem x acc)) l)).
    { apply filter_len_le. intros x Hx. apply negb_true_iff in Hx. apply negb_true_iff.
      apply mem_false. apply mem_false in Hx. intros Hi. apply Hx, in_app_iff. left. exact Hi. }
    lia.
  - specialize (IH Hin).
    destruct (mem x acc) eqn:Hxa.
    + assert (mem x (acc ++ [f]) = true) as -> by (apply mem_In, in_app_iff; left; apply mem_In, Hxa). exact IH.
    + destruct (mem x (acc ++ [f])); cbn [negb length]; lia.
Qed.

Lemma dfs_enough k : forall acc f, miss acc < k -> exists r, dfs k g present acc f = Some r.
Proof.
  induction k as [|k IH]; intros acc f Hlt; [lia|].
  rewrite dfs_S. destruct (mem f acc) eqn:Hm; [eexists; reflexivity|].
  destruct (present f) eqn:Hp; [|eexists; reflexivity].
  pose proof (miss_add acc f (Huniv f Hp) Hm) as Hadd.
  assert (Hfold : forall l a, miss a < k -> exists r, fold_left (dstep k) l (Some a) = Some r).
  { induction l as [|c l IHl]; intros a Ha; [eexists; reflexivity|].
    rewrite fold_cons. destruct (IH a c Ha) as (a1 & Hc). rewrite Hc.
    apply IHl. destruct (dfs_incl_nodup _ _ _ _ Hc) as [I1 _]. pose proof (miss_mono _ _ I1). lia. }
  apply Hfold. lia.
Qed.
End Fuel.
End Dfs.

(* ---- the result only depends on g / present on the files that can be visited ---- *)
Lemma dfs_ext g present g' present' (Pd:idx -> Prop) :
  (forall x, Pd x -> present x = present' x /\ (present x = true -> g x = g' x /\ forall c, In c (g x) -> Pd c)) ->
  forall k acc f, Pd f -> dfs k g present acc f = dfs k g' present' acc f.
Proof.
  intros H. induction k as [|k IH]; intros acc f Hf; [reflexivity|].
  rewrite !dfs_S. destruct (mem f acc); [reflexivity|].
  destruct (H f Hf) as [Hp Hg]. rewrite <- Hp. destruct (present f); [|reflexivity].
  destruct (Hg eq_refl) as [Hgf Hkids]. rewrite <- Hgf.
  generalize (Some (acc ++ [f])). revert Hkids. generalize (g f).
  induction l as [|c l IHl]; intros Hk a; [reflexivity|]. cbn [fold_left].
  assert (dstep g present k a c = dstep g' present' k a c) as ->.
  { destruct a as [a|]; [|reflexivity]. cbn [dstep]. apply IH, Hk. left. reflexivity. }
  apply IHl. intros c' Hc'. apply Hk. right. exact Hc'.
Qed.

(* ================= flattenSpecs = dfs over the retrieved map ================= *)
Definition kids_of (m:cmap) (f:idx) : list idx :=
  match lookup f m with Some e => match eimports e with Some l => l | None => [] end | None => [] end.
Definition present_of (m:cmap) (f:idx) : bool := match lookup f m with Some _ => true | None => false end.

Lemma flatten_is_dfs m k : forall acc f, flatten R k m acc f = dfs k (kids_of m) (present_of m) acc f.
Proof.
  induction k as [|k IH]; intros acc f; [reflexivity|].
  rewrite dfs_S. cbn [flatten]. destruct (mem f acc); [reflexivity|].
  unfold present_of, kids_of. destruct (lookup f m) as [e|]; [|reflexivity].
  cbn [in_order flatten_order R]. generalize (Some (acc ++ [f])).
  generalize (match eimports e with Some l => l | None => [] end).
  induction l as [|c l IHl]; intros a; [reflexivity|]. cbn [fold_left].
  assert ((match a with None => None | Some a' => flatten R k m a' c end) = dstep (kids_of m) (present_of m) k a c) as ->.
  { destruct a; [apply IH|reflexivity]. }
  apply IHl.
Qed.

Lemma present_in_keys m f : present_of m f = true -> In f (map fst m).
Proof. unfold present_of. destruct (lookup f m) eqn:H; [intros _; eapply lookup_in_keys, H|discriminate]. Qed.

Lemma miss_nil univ : miss univ [] = length univ.
Proof. unfold miss. induction univ as [|x l IH]; [reflexivity|]. cbn [filter mem existsb negb length]. f_equal. exact IH. Qed.

(* flattenSpecs always terminates: the fuel given by flatten_fuel is never exhausted *)
Lemma flatten_total_map m root : exists l, flatten R (2 + length m) m [] root = Some l.
Proof.
  rewrite flatten_is_dfs. apply (dfs_enough _ _ (map fst m) (present_in_keys m)).
  rewrite miss_nil, map_length. lia.
Qed.

(* ================= results at quiescence ================= *)
Section Result.
Variable g : graph.
Variable root : idx.
Variable maxd : nat.

Definition final (sched:list nat) := snd (result R g maxd root sched).
Definition got (sched:list nat) (f:idx) : Prop := lookup f (claimed (run R g maxd root sched)) <> None.

Theorem flatten_total sched : exists l, final sched = Some l.
Proof. unfold final, result. cbn [snd]. apply flatten_total_map. Qed.

(* on the files that were retrieved the map is the graph *)
Lemma map_is_graph sched : quiescent (run R g maxd root sched) = true ->
  let m := claimed (run R g maxd root sched) in
  forall f, present_of m f = true -> kids_of m f = g f.
Proof.
  intros Hq m f Hp. unfold present_of in Hp. unfold kids_of.
  destruct (lookup f m) as [e|] eqn:He; [|discriminate].
  rewrite (collect_map g root maxd sched Hq f e He). reflexivity.
Qed.

(* the order is the depth-first preorder of the import graph restricted to the files that were retrieved *)
Theorem result_is_dfs sched : quiescent (run R g maxd root sched) = true ->
  let m := claimed (run R g maxd root sched) in
  forall k, dfs k (kids_of m) (present_of m) [] root = dfs k g (present_of m) [] root.
Proof.
  intros Hq m k. apply (dfs_ext _ _ _ _ (fun _ => True)); [|exact I].
  intros x _. split; [reflexivity|]. intros Hp. split; [apply (map_is_graph sched Hq x Hp)|auto].
Qed.

Theorem result_determined_by_domain s1 s2 :
  quiescent (run R g maxd root s1) = true -> quiescent (run R g maxd root s2) = true ->
  (forall f, got s1 f <-> got s2 f) -> final s1 = final s2.
Proof.
  intros Hq1 Hq2 Hdom.
  destruct (flatten_total s1) as (l1 & H1). destruct (flatten_total s2) as (l2 & H2).
  rewrite H1, H2. unfold final, result in H1, H2. cbn [snd] in H1, H2.
  rewrite flatten_is_dfs, (result_is_dfs s1 Hq1) in H1. rewrite flatten_is_dfs, (result_is_dfs s2 Hq2) in H2.
  set (m1 := claimed (run R g maxd root s1)) in *. set (m2 := claimed (run R g maxd root s2)) in *.
  set (k := Nat.max (flatten_fuel (run R g maxd root s1)) (flatten_fuel (run R g maxd root s2))).
  apply (dfs_fuel_mono _ _ _ k) in H1; [|apply Nat.le_max_l]. apply (dfs_fuel_mono _ _ _ k) in H2; [|apply Nat.le_max_r].
  assert (Heq : dfs k g (present_of m1) [] root = dfs k g (present_of m2) [] root).
  { apply (dfs_ext _ _ _ _ (fun _ => True)); [|exact I]. intros x _. split; [|auto].
    unfold present_of. specialize (Hdom x). unfold got in Hdom. fold m1 m2 in Hdom.
    destruct (lookup x m1), (lookup x m2); try reflexivity; exfalso.
    - assert (Some e <> None) as Hs by discriminate. apply Hdom in Hs. congruence.
    - assert (Some e <> None) as Hs by discriminate. apply Hdom in Hs. congruence. }
  congruence.
Qed.

(* what is always true of the order, with or without a limit *)
Theorem result_shape sched l : quiescent (run R g maxd root sched) = true -> final sched = Some l ->
  NoDup l /\ In root l /\
  (forall f, In f l -> got sched f) /\
  (forall f k, In f l -> In k (g f) -> got sched k -> In k l).
Proof.
  intros Hq Hl. unfold final, result in Hl. cbn [snd] in Hl. rewrite flatten_is_dfs in Hl.
  set (m := claimed (run R g maxd root sched)) in *.
  destruct (dfs_incl_nodup _ _ _ _ _ _ Hl) as [_ Hnd]. destruct (dfs_closed _ _ _ _ _ _ Hl) as [Hroot Hcl].
  assert (Hpres : forall f, present_of m f = true <-> got sched f).
  { intros f. unfold present_of, got. fold m. destruct (lookup f m); split; congruence. }
  split; [apply Hnd; constructor|]. split; [apply Hroot, Hpres, (root_claimed g root maxd sched Hq)|]. split.
  - intros f Hin. destruct (Hcl f Hin) as [[]|[Hp _]]. apply Hpres, Hp.
  - intros f k Hin Hk Hgot. destruct (Hcl f Hin) as [[]|[Hp Hc]]. apply Hc; [|apply Hpres, Hgot].
    unfold m. rewrite (map_is_graph sched Hq f Hp). exact Hk.
Qed.
End Result.

(* ---------------- no depth limit ---------------- *)
Theorem closure_unlimited_result g root sched : quiescent (run R g 0 root sched) = true ->
  exists l, final g root 0 sched = Some l /\ NoDup l /\ (forall f, In f l <-> reach g root f) /\
    (exists fuel, dfs fuel g (fun _ => true) [] root = Some l) /\
    (forall fuel l', dfs fuel g (fun _ => true) [] root = Some l' -> l' = l).
Proof.
  intros Hq. destruct (flatten_total g root 0 sched) as (l & Hl). exists l. split; [exact Hl|].
  destruct (result_shape g root 0 sched l Hq Hl) as (Hnd & Hroot & Hgot & Hclosed).
  pose proof (closure_unlimited g root sched Hq) as Hcu. cbn zeta in Hcu.
  assert (Hreach_got : forall f, reach g root f -> got g root 0 sched f).
  { intros f Hr. apply Hcu in Hr. destruct Hr as (e & He & _). unfold got. rewrite He. discriminate. }
  split; [exact Hnd|]. split.
  - intros f. split.
    + intros Hin. specialize (Hgot f Hin). unfold got in Hgot.
      destruct (lookup f (claimed (run R g 0 root sched))) as [e|] eqn:He; [|congruence].
      apply Hcu. exists e. split; [exact He|]. apply (collect_map g root 0 sched Hq f e He).
    + intros (d & Hw). induction Hw as [|f d k Hw IH Hk]; [exact Hroot|].
      apply (Hclosed f k IH Hk). apply Hreach_got. exists (S d). eapply walk_step; eassumption.
  - (* the pure depth-first preorder of the graph *)
    set (m := claimed (run R g 0 root sched)).
    assert (Hpure : forall k, dfs k (kids_of m) (present_of m) [] root = dfs k g (fun _ => true) [] root).
    { intros k. apply (dfs_ext _ _ _ _ (reach g root)); [|exists 0; apply walk_root].
      intros x Hx. assert (Hp : present_of m x = true).
      { specialize (Hreach_got x Hx). unfold got in Hreach_got. unfold present_of. fold m in Hreach_got.
        destruct (lookup x m); congruence. }
      split; [exact Hp|]. intros _. split; [apply (map_is_graph g root 0 sched Hq x Hp)|].
      intros c Hc. unfold m in Hc. rewrite (map_is_graph g root 0 sched Hq x Hp) in Hc.
      destruct Hx as (d & Hw). exists (S d). eapply walk_step; eassumption. }
    unfold final, result in Hl. cbn [snd] in Hl. rewrite flatten_is_dfs in Hl. fold m in Hl. rewrite Hpure in Hl.
    split; [eexists; exact Hl|].
    intros fuel l' Hl'.
    set (k := Nat.max fuel (flatten_fuel (run R g 0 root sched))).
    apply (dfs_fuel_mono _ _ _ k) in Hl'; [|apply Nat.le_max_l]. apply (dfs_fuel_mono _ _ _ k) in Hl; [|apply Nat.le_max_r].
    congruence.
Qed.

Theorem closure_unlimited_independent g root s1 s2 :
  quiescent (run R g 0 root s1) = true -> quiescent (run R g 0 root s2) = true ->
  final g root 0 s1 = final g root 0 s2.
Proof.
  intros Hq1 Hq2. apply result_determined_by_domain; [exact Hq1|exact Hq2|].
  intros f. pose proof (closure_unlimited g root s1 Hq1 f) as H1. pose proof (closure_unlimited g root s2 Hq2 f) as H2.
  cbn zeta in H1, H2. unfold got. split; intros Hn.
  - destruct (lookup f (claimed (run R g 0 root s1))) as [e|] eqn:He; [|congruence].
    assert (reach g root f) as Hr by (apply H1; exists e; split; [reflexivity|apply (collect_map g root 0 s1 Hq1 f e He)]).
    apply H2 in Hr. destruct Hr as (e' & -> & _). discriminate.
  - destruct (lookup f (claimed (run R g 0 root s2))) as [e|] eqn:He; [|congruence].
    assert (reach g root f) as Hr by (apply H2; exists e; split; [reflexivity|apply (collect_map g root 0 s2 Hq2 f e He)]).
    apply H1 in Hr. destruct Hr as (e' & -> & _). discriminate.
Qed.

(* ---------------- with a limit, every file at one depth only ---------------- *)
Definition nearer g root maxd f : Prop := exists d, walk g root f d /\ d < maxd.

Theorem closure_depth_unique_result g root maxd sched : quiescent (run R g maxd root sched) = true -> 0 < maxd ->
  (forall f d d', walk g root f d -> walk g root f d' -> d = d') ->
  exists l, final g root maxd sched = Some l /\ NoDup l /\ forall f, In f l <-> nearer g root maxd f.
Proof.
  intros Hq Hpos Hu. destruct (flatten_total g root maxd sched) as (l & Hl). exists l. split; [exact Hl|].
  destruct (result_shape g root maxd sched l Hq Hl) as (Hnd & Hroot & Hgot & Hclosed).
  pose proof (closure_depth_unique g root maxd sched Hq Hpos Hu) as Hcd. cbn zeta in Hcd.
  split; [exact Hnd|]. intros f. split.
  - intros Hin. apply Hcd, Hgot, Hin.
  - intros (d & Hw & Hlt). induction Hw as [|f d k Hw IH Hk]; [exact Hroot|].
    apply (Hclosed f k); [apply IH; lia|exact Hk|]. apply Hcd. exists (S d). split; [eapply walk_step; eassumption|exact Hlt].
Qed.

Theorem closure_depth_unique_independent g root maxd s1 s2 :
  quiescent (run R g maxd root s1) = true -> quiescent (run R g maxd root s2) = true -> 0 < maxd ->
  (forall f d d', walk g root f d -> walk g root f d' -> d = d') ->
  final g root maxd s1 = final g root maxd s2.
Proof.
  intros Hq1 Hq2 Hpos Hu. apply result_determined_by_domain; [exact Hq1|exact Hq2|].
  intros f. unfold got. rewrite (closure_depth_unique g root maxd s1 Hq1 Hpos Hu f).
  rewrite (closure_depth_unique g root maxd s2 Hq2 Hpos Hu f). reflexivity.
Qed.

(* ---------------- with a limit, any graph: the part of the property that does hold ---------------- *)
Theorem closure_depth_partial_result g root maxd sched : quiescent (run R g maxd root sched) = true -> 0 < maxd ->
  exists l, final g root maxd sched = Some l /\ NoDup l /\
    (forall f, In f l -> nearer g root maxd f) /\
    (forall f d, walk g root f d -> d < maxd -> (forall d', walk g root f d' -> d' = d) -> In f l) /\
    (forall f k, In f l -> In k (g f) -> got g root maxd sched k -> In k l).
Proof.
  intros Hq Hpos. destruct (flatten_total g root maxd sched) as (l & Hl). exists l. split; [exact Hl|].
  destruct (result_shape g root maxd sched l Hq Hl) as (Hnd & Hroot & Hgot & Hclosed).
  split; [exact Hnd|]. split; [|split; [|exact Hclosed]].
  - intros f Hin. destruct (depth_sound g root maxd sched Hq f (Hgot f Hin)) as (d & Hw & [Hz|Hlt]); [lia|].
    exists d. auto.
  - intros f d Hw. induction Hw as [|f d k Hw IH Hk]; intros Hlt Hu; [exact Hroot|].
    assert (Hu' : forall d', walk g root f d' -> d' = d).
    { intros d' Hw'. assert (S d' = S d) by (apply Hu; eapply walk_step; eassumption). lia. }
    apply (Hclosed f k); [apply IH; [lia|exact Hu']|exact Hk|].
    destruct (depth_complete_unique_depth g root maxd sched Hq k (S d)) as (e & He & _).
    + eapply walk_step; eassumption.
    + right. exact Hlt.
    + exact Hu.
    + unfold got. rewrite He. discriminate.
Qed.
