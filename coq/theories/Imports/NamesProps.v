(* Proofs about Names.v.
     nindex_local_import      the index of a file imported by a local file IS the cleaned path of (directory of the
                              importer, or the project root for a rooted import) / (import text with its extension):
                              the "./" that EnterImport_stmt puts in front of url-like names and the @version the
                              reader's answer adds do not reach the index
     same_file_same_index     hence two import lines (anywhere in the closure) name the same index exactly when their
     / distinct_files_...     paths MEAN the same place (Paths.meaning: ignoring "", ".", name/..), and different places
                              get different indices
     index_unnormalised_refuted   without the normalisation step (the code before fixes/C05-2) that is false
     spellings_one_node, same_text_both_included   on the import graph of a set of files *)
From Coq Require Import String Ascii List Bool Arith NArith Lia.
Import ListNotations.
Require Import Verif.Imports.Rules Verif.Imports.Collect Verif.Imports.CollectProps Verif.Imports.FlattenProps
               Verif.Imports.Paths Verif.Imports.PathsProps Verif.Imports.Names.

Notation R := expected_rules.

(* ---- fileNameToIndex: backslashes, version ---- *)
Lemma replace_plain x : has bsl x = false -> replace_bs_b x = x.
Proof.
  induction x as [|c x IH]; [reflexivity|]. cbn [has replace_bs_b]. intros H. apply orb_false_iff in H as [H1 H2].
  rewrite H1, (IH H2). reflexivity.
Qed.
Lemma replace_app x y : replace_bs_b (x ++ y) = replace_bs_b x ++ replace_bs_b y.
Proof. induction x as [|c x IH]; [reflexivity|]. cbn [app replace_bs_b]. rewrite IH. reflexivity. Qed.
Lemma cut_no_at x : has at_c x = false -> cut_at_b x = x.
Proof.
  induction x as [|c x IH]; [reflexivity|]. cbn [has cut_at_b]. intros H. apply orb_false_iff in H as [H1 H2].
  rewrite H1, (IH H2). reflexivity.
Qed.
Lemma cut_app_at x v : has at_c x = false -> cut_at_b (x ++ at_c :: v) = x.
Proof.
  induction x as [|c x IH]; intros H.
  - cbn [app cut_at_b]. rewrite Ascii.eqb_refl. reflexivity.
  - cbn [has] in H. apply orb_false_iff in H as [H1 H2]. cbn [app cut_at_b]. rewrite H1, (IH H2). reflexivity.
Qed.

(* the part of a name fileNameToIndex looks at: a version suffix and its spelling do not matter *)
Lemma index_core x v : has at_c x = false -> has bsl x = false ->
  cut_at_b (replace_bs_b (x ++ at_c :: v)) = x /\ cut_at_b (replace_bs_b x) = x.
Proof.
  intros Ha Hb. rewrite replace_app, (replace_plain x Hb). cbn [replace_bs_b].
  change (Ascii.eqb at_c bsl) with false. cbn iota. rewrite (cut_app_at x _ Ha), (cut_no_at x Ha). split; reflexivity.
Qed.

Lemma looks_remote_not_rooted f : looks_remote f = true -> prefix [sep; sep] f = false -> is_rooted f = false.
Proof.
  intros Hl Hp. destruct f as [|c r]; [reflexivity|]. cbn [is_rooted]. destruct (Ascii.eqb c sep) eqn:E; [|reflexivity].
  apply Ascii.eqb_eq in E. subst c. unfold looks_remote in Hl. rewrite Hp in Hl. cbn [orb] in Hl.
  unfold match_repo, match_host in Hl. cbn [span] in Hl.
  change (is_word sep || Ascii.eqb sep dot) with false in Hl. cbn in Hl. discriminate.
Qed.

Section LocalImport.
Variables base ver raw : bytes.
Let fn := ensure_ext raw.
Let base' := if is_rooted fn then [dot] else base.
Hypothesis Hlocal_base : is_remote_import base = false.
Hypothesis Hlocal_fn : is_remote_import fn = false.
Hypothesis Hbase_ne : base <> [].
Hypothesis Hfn_ne : fn <> [].
Hypothesis Hat : has at_c base = false /\ has at_c fn = false.
Hypothesis Hbs : has bsl base = false /\ has bsl fn = false.

Let f := clean (base' ++ sep :: fn).

Lemma join_is_clean : join2 base' fn = f.
Proof.
  unfold join2, f. assert (base' <> []) by (unfold base'; destruct (is_rooted fn); [discriminate|exact Hbase_ne]).
  destruct base'; [contradiction|]. destruct fn; [contradiction|]. reflexivity.
Qed.

Lemma f_plain c : c <> sep -> c <> dot -> has c base = false -> has c fn = false -> has c f = false.
Proof.
  intros H1 H2 Hb Hf. destruct (has c f) eqn:E; [|reflexivity]. apply has_clean in E as [->|[->|E]]; try contradiction.
  rewrite has_app in E. cbn [has] in E. assert (has c base' = false).
  { unfold base'. destruct (is_rooted fn); [|exact Hb]. cbn [has]. destruct (Ascii.eqb dot c) eqn:Ed; [apply Ascii.eqb_eq in Ed; congruence|reflexivity]. }
  rewrite H, Hf in E. destruct (Ascii.eqb sep c) eqn:Es; [apply Ascii.eqb_eq in Es; congruence|discriminate].
Qed.

Let name0 := if beq base' [dot] && negb (first_is_dot f) && looks_remote f then dot :: sep :: f else f.

Lemma import_name_local :
  import_name base ver raw = if negb (has at_c name0) && negb (is_empty ver) then name0 ++ at_c :: ver else name0.
Proof.
  unfold import_name, name0. fold fn. rewrite Hlocal_fn, Hlocal_base. rewrite <- join_is_clean. reflexivity.
Qed.

(* THE INDEX of an import written in a local file *)
Theorem nindex_local_import : nindex (import_name base ver raw) = f.
Proof.
  destruct Hat as [Hab Haf]. destruct Hbs as [Hbb Hbf].
  assert (Fa : has at_c f = false) by (apply f_plain; [discriminate|discriminate|assumption|assumption]).
  assert (Fb : has bsl f = false) by (apply f_plain; [discriminate|discriminate|assumption|assumption]).
  assert (Fp : prefix [sep; sep] f = false) by apply clean_no_double_slash.
  assert (Fc : clean f = f) by apply clean_idempotent.
  rewrite import_name_local.
  assert (N : has at_c name0 = false /\ has bsl name0 = false /\ is_remote_import name0 = false /\ clean name0 = f).
  { unfold name0. destruct (beq base' [dot] && negb (first_is_dot f) && looks_remote f) eqn:C.
    - apply andb_true_iff in C as [_ C]. cbn [has]. rewrite Fa, Fb. repeat split; try reflexivity.
      rewrite clean_dot_slash; [exact Fc|]. apply looks_remote_not_rooted; assumption.
    - repeat split; assumption. }
  destruct N as (Na & Nb & Nr & Nc). rewrite Na. cbn [negb andb].
  unfold nindex. destruct (negb (is_empty ver)).
  - destruct (index_core name0 ver Na Nb) as [-> _]. unfold is_remote_import in Nr |- *. rewrite Nr. exact Nc.
  - destruct (index_core name0 [] Na Nb) as [_ ->]. unfold is_remote_import in Nr |- *. rewrite Nr. exact Nc.
Qed.
End LocalImport.

(* the hypotheses of nindex_local_import for one import line *)
Definition local_ok (base raw:bytes) : Prop :=
  is_remote_import base = false /\ is_remote_import (ensure_ext raw) = false /\ base <> [] /\ ensure_ext raw <> [] /\
  (has at_c base = false /\ has at_c (ensure_ext raw) = false) /\ (has bsl base = false /\ has bsl (ensure_ext raw) = false).

(* the path an import line means, from the project root *)
Definition import_path (base raw:bytes) : bytes :=
  (if is_rooted (ensure_ext raw) then [dot] else base) ++ sep :: ensure_ext raw.

Theorem index_is_clean_path base ver raw : local_ok base raw ->
  nindex (import_name base ver raw) = clean (import_path base raw).
Proof. intros (H1 & H2 & H3 & H4 & H5 & H6). apply nindex_local_import; assumption. Qed.

(* two spellings that name the same file get the same index; two that name different files, different indices *)
Theorem same_index_iff_same_place base1 ver1 raw1 base2 ver2 raw2 : local_ok base1 raw1 -> local_ok base2 raw2 ->
  (nindex (import_name base1 ver1 raw1) = nindex (import_name base2 ver2 raw2)
   <-> meaning (import_path base1 raw1) = meaning (import_path base2 raw2)).
Proof. intros H1 H2. rewrite (index_is_clean_path _ _ _ H1), (index_is_clean_path _ _ _ H2). apply clean_eq_iff_meaning. Qed.

(* ... the version the reader answered with never matters *)
Corollary index_ignores_version base ver ver' raw : local_ok base raw ->
  nindex (import_name base ver raw) = nindex (import_name base ver' raw).
Proof. intros H. rewrite !(index_is_clean_path _ _ _ H). reflexivity. Qed.

(* non-vacuity of local_ok, and the spellings of the property statement (a TEST by vm_compute for the concrete values) *)
Example local_ok_examples :
  local_ok (b ".") (b "h.co/o/r/t") /\ local_ok (b "h.co/o/r") (b "t") /\ local_ok (b "d") (b "../x") /\ local_ok (b "d") (b "/.shared/t.sysl").
Proof. repeat split; try reflexivity; discriminate. Qed.

Example index_examples_names :
  nindex (import_name (b ".") [] (b "h.co/o/r/t")) = b "h.co/o/r/t.sysl" /\
  import_name (b ".") [] (b "h.co/o/r/t") = b "./h.co/o/r/t.sysl" /\
  nindex (import_name (b "h.co/o/r") [] (b "t")) = b "h.co/o/r/t.sysl" /\
  nindex (import_name (b "d") (b "v9") (b "../x")) = b "x.sysl" /\ nindex (import_name (b "d") [] (b "x")) = b "d/x.sysl" /\
  nindex (import_name (b ".") [] (b ".shared/t")) = b ".shared/t.sysl" /\ nindex (import_name (b ".") [] (b "shared/t")) = b "shared/t.sysl" /\
  nindex (b "./root.sysl") = nindex (b "root.sysl") /\
  nindex (import_name (b "//h.co/o/r/d") (b "main") (b "../x")) = b "//h.co/o/r/x.sysl" /\
  nindex (import_name (b "//h.co/o/r/d") (b "main") (b "/x")) = nindex (b "//h.co/o/r/x.sysl@v2").
Proof. vm_compute. repeat split. Qed.

(* REFUTED for the index as it was before fixes/C05-2: one file, two indices *)
Theorem index_unnormalised_refuted :
  exists base1 raw1 base2 raw2, local_ok base1 raw1 /\ local_ok base2 raw2 /\
    meaning (import_path base1 raw1) = meaning (import_path base2 raw2) /\
    nindex_unnormalised (import_name base1 [] raw1) <> nindex_unnormalised (import_name base2 [] raw2).
Proof.
  exists (b "."), (b "h.co/o/r/t"), (b "h.co/o/r"), (b "t").
  split; [repeat split; try reflexivity; discriminate|]. split; [repeat split; try reflexivity; discriminate|].
  split; [vm_compute; reflexivity|vm_compute; discriminate].
Qed.

(* ---- the import graph of a set of files ---- *)
Lemma intern_from_key files : forall n ix, In ix (map nf_key files) ->
  exists k f, intern_from n files ix = (n + N.of_nat k)%N /\ nth_error files k = Some f /\ nf_key f = ix.
Proof.
  induction files as [|f0 files IH]; intros n ix Hin; [destruct Hin|]. cbn [intern_from].
  destruct (beq (nf_key f0) ix) eqn:E.
  - exists 0, f0. rewrite N.add_0_r. apply beq_eq in E. auto.
  - destruct Hin as [H|Hin]; [cbn in H; apply beq_neq in E; congruence|].
    destruct (IH (N.succ n) ix Hin) as (k & f & H1 & H2 & H3). exists (S k), f. split; [rewrite H1; lia|auto].
Qed.

Lemma intern_from_ge files : forall n ix, (n <= intern_from n files ix)%N.
Proof.
  induction files as [|f0 files IH]; intros n ix; cbn [intern_from]; [lia|].
  destruct (beq (nf_key f0) ix); [lia|]. specialize (IH (N.succ n) ix). lia.
Qed.

(* an existing file is named by its own key only *)
Lemma intern_inj files a c : In a (map nf_key files) -> intern files a = intern files c -> a = c.
Proof.
  unfold intern. generalize 0%N. induction files as [|f0 files IH]; intros n Hin H; [destruct Hin|].
  cbn [intern_from] in H. destruct (beq (nf_key f0) a) eqn:Ea, (beq (nf_key f0) c) eqn:Ec.
  - apply beq_eq in Ea, Ec. congruence.
  - pose proof (intern_from_ge files (N.succ n) c). lia.
  - pose proof (intern_from_ge files (N.succ n) a). lia.
  - destruct Hin as [Hk|Hin]; [cbn in Hk; apply beq_neq in Ea; congruence|]. apply (IH (N.succ n) Hin H).
Qed.

Section Graph.
Variable files : list nfile.
Variable resource : bytes.
Let g := ngraph files resource.
Let root := root_idx files resource.

Lemma import_edge i f raw : nth_error files (N.to_nat i) = Some f -> In raw (nf_imports f) ->
  In (resolve files resource i raw) (g i).
Proof. intros Hf Hr. unfold g, ngraph. rewrite Hf. apply in_map, Hr. Qed.

(* spellings: import lines - in whatever files, however spelled - that have the same index are ONE node of the graph;
   by claim_once that node is read once, by the closure theorems it is listed once *)
Theorem spellings_one_node i j raw1 raw2 :
  nindex (import_name (base_of files resource i) [] raw1) = nindex (import_name (base_of files resource j) [] raw2) ->
  resolve files resource i raw1 = resolve files resource j raw2.
Proof. intros H. unfold resolve. rewrite H. reflexivity. Qed.

Theorem spellings_claimed_once maxd sched : let s := run R g maxd root sched in
  quiescent s = true -> NoDup (reads s) /\ forall l, final g root maxd sched = Some l -> NoDup l.
Proof.
  intros s Hq. split; [apply (claim_once g root maxd sched Hq)|].
  intros l Hl. apply (result_shape g root maxd sched l Hq Hl).
Qed.

(* THE SAME IMPORT TEXT in two files of the closure: both of the files it means there are in the result, under every
   schedule; and they are two different files whenever the two resolved indices differ and name existing files *)
Theorem same_text_both_included sched i j fi fj raw l :
  quiescent (run R g 0 root sched) = true -> final g root 0 sched = Some l ->
  reach g root i -> reach g root j ->
  nth_error files (N.to_nat i) = Some fi -> nth_error files (N.to_nat j) = Some fj ->
  In raw (nf_imports fi) -> In raw (nf_imports fj) ->
  In (resolve files resource i raw) l /\ In (resolve files resource j raw) l /\
  (In (nindex (import_name (base_of files resource i) [] raw)) (map nf_key files) ->
   nindex (import_name (base_of files resource i) [] raw) <> nindex (import_name (base_of files resource j) [] raw) ->
   resolve files resource i raw <> resolve files resource j raw).
Proof.
  intros Hq Hl (di & Hwi) (dj & Hwj) Hfi Hfj Hri Hrj.
  destruct (closure_unlimited_result g root sched Hq) as (l' & Hl' & _ & Hin & _).
  rewrite Hl in Hl'. injection Hl' as <-.
  split; [|split].
  - apply Hin. exists (S di). eapply walk_step; [exact Hwi|]. apply (import_edge i fi raw Hfi Hri).
  - apply Hin. exists (S dj). eapply walk_step; [exact Hwj|]. apply (import_edge j fj raw Hfj Hrj).
  - intros Hk Hne Heq. apply Hne. unfold resolve in Heq. apply (intern_inj files _ _ Hk Heq).
Qed.
End Graph.

(* non-vacuity: a/x.sysl and b/y.sysl both say `import common` (a TEST by vm_compute for the concrete values) *)
Definition fs_common : list nfile :=
  [ {| nf_key := b "root.sysl"; nf_imports := [b "a/x"; b "b/y"] |};
    {| nf_key := b "a/x.sysl"; nf_imports := [b "common"] |};
    {| nf_key := b "b/y.sysl"; nf_imports := [b "common"] |};
    {| nf_key := b "a/common.sysl"; nf_imports := [] |};
    {| nf_key := b "b/common.sysl"; nf_imports := [] |} ].
Example same_text_nonvacuous :
  resolve fs_common (b "root") 1%N (b "common") = 3%N /\ resolve fs_common (b "root") 2%N (b "common") = 4%N /\
  result R (ngraph fs_common (b "root")) 0 (root_idx fs_common (b "root")) (repeat 0 30) = (true, Some [0;1;3;2;4]%N) /\
  result R (ngraph fs_common (b "root")) 0 (root_idx fs_common (b "root")) ([0;0;1;1] ++ repeat 0 30) = (true, Some [0;1;3;2;4]%N).
Proof. vm_compute. repeat split. Qed.
