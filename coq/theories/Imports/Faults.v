(* MODEL for C06: pkg/parse/parse.go collectSpecs WITH its error paths and the join (errgroup.Wait), then
   flattenSpecs and the two stages of parseSpecs, under injected faults. Definitions only.

   A goroutine running collectSpecs is a task with an id and the id of the task that spawned it:
     FEntry    about to take the mutex             (depth test, claim-or-return)
     FReading  its ReadHashBranch is in flight
     FWaiting e     in g.Wait() (over when none of its children is left), e = the first non-nil error a child
                    returned so far (errgroup keeps the first one)
   One scheduler choice runs one runnable task (FEntry / FReading) to its next yield point. A task that
   returns hands its result to its parent's errgroup at once; a parent whose last child returned returns
   itself (wrapping the error: "error reading <parent>: <err>"), and so on upwards (`deliver`).

   Faults (what the harness injects into a file):
     ReadErr         ReadHashBranch fails            -> ImportError `error reading "f": ...`        (collection)
     ImportSyntax    the import lines do not parse   -> ParseError  `f has syntax errors`            (collection; wrapped
                                                        into ImportErrors by every importing ancestor)
     BodySyntax      syntax error / truncation below the imports -> ParseError `f has syntax errors` (parseSpecs, in file order)
     ForeignDetect   foreign file of no detectable format -> plain error `error detecting input file format for f`
     ForeignConvert  foreign file that fails conversion   -> ParseError `f has unknown format: ...`
     ForeignAmbiguous foreign file with two format signatures -> plain error `input file format for f could be one of {..}`
     ForeignJson     a .json file that is not JSON            -> plain error `error converting spec to yaml for: f`
                     (all four in the parallel first stage of parseSpecs; the first goroutine to fail wins)
     PbDecode        a compiled model (.pb / .pb.json / .textpb) that does not decode: the error is kept in stage 1
                     and reported in stage 2, in file order -> plain error `error parsing f: ...`
     PbMerge         a compiled model that decodes but cannot be merged into the module built so far (mergo.Merge
                     fails or panics: a name with values of different Go types on the two sides): reported in stage 2,
                     in file order -> plain error `error merging f: ...` (second pass; fixes/C06-4, C06-5)
   Which class a file of a given name and content falls into is computed by the dispatch model Imports/Foreign.v. *)
From Coq Require Import List NArith Arith Bool.
Import ListNotations.
Require Import Verif.Imports.Rules Verif.Imports.Collect.

Inductive fault := ReadErr | ImportSyntax | BodySyntax | ForeignDetect | ForeignConvert | ForeignAmbiguous | ForeignJson | PbDecode | PbMerge.
Definition faults := idx -> option fault.

Inductive err :=
| EReadFail (f:idx)          (* syslutil.Exitf(ImportError, "error reading f: <reader's error>") *)
| ESyntax (f:idx)            (* syslutil.Exitf(ParseError, "f has syntax errors") *)
| EWrap (parent:idx) (e:err) (* syslutil.Exitf(ImportError, "error reading parent: <e>") after g.Wait() *)
| EDetect (f:idx)            (* plain error from detectFileType *)
| EConvert (f:idx)           (* syslutil.Exitf(ParseError, "f has unknown format: ...") *)
| EAmbiguous (f:idx)         (* plain error from detectFileType: two signatures match *)
| EJson (f:idx)              (* plain error from detectFileType: yaml.JSONToYAML failed *)
| EPbDecode (f:idx)          (* fmt.Errorf("error parsing f: %w", <decoder's error>) in stage 2 *)
| EMerge (f:idx).            (* fmt.Errorf("error merging f: %w", <mergo's error or recovered panic>) in stage 2 *)

(* cmd/sysl main2: syslutil.Exit carries its code, any other error is 1 *)
Definition exit_code (e:err) : N :=
  match e with EReadFail _ => 1 | ESyntax _ => 2 | EWrap _ _ => 1 | EDetect _ => 1 | EConvert _ => 2
             | EAmbiguous _ => 1 | EJson _ => 1 | EPbDecode _ => 1 | EMerge _ => 1 end%N.

Fixpoint names (e:err) (f:idx) : bool :=
  match e with
  | EReadFail x | ESyntax x | EDetect x | EConvert x | EAmbiguous x | EJson x | EPbDecode x | EMerge x => N.eqb x f
  | EWrap p e' => N.eqb p f || names e' f
  end.

Definition collect_fault (fl:faults) (f:idx) : bool :=
  match fl f with Some ReadErr | Some ImportSyntax => true | _ => false end.
Definition foreign_fault (fl:faults) (f:idx) : bool :=
  match fl f with Some ForeignDetect | Some ForeignConvert | Some ForeignAmbiguous | Some ForeignJson => true | _ => false end.
(* what the second stage of parseSpecs reports, in file order: a syntax error of the (converted) text, or the
   decoding error of a compiled model that the first stage kept, or the failure of merging a decoded one *)
Definition body_fault (fl:faults) (f:idx) : bool :=
  match fl f with Some BodySyntax | Some PbDecode | Some PbMerge => true | _ => false end.
Definition parse_fault (fl:faults) (f:idx) : bool := foreign_fault fl f || body_fault fl f.

Inductive fphase := FEntry | FReading | FWaiting (first:option err).
Record ftask := { fid : nat; ff : idx; fdepth : nat; fpar : option nat; fph : fphase }.

Record fstate := {
  fcl : cmap;                         (* retrieved.l *)
  ftasks : list ftask;
  fnext : nat;                        (* fresh task id *)
  froot : option (option err);        (* what the outermost collectSpecs returned, once it has *)
  freads : list idx                   (* log of completed reads *)
}.

Definition finit (root:idx) : fstate :=
  {| fcl := []; ftasks := [{| fid := 0; ff := root; fdepth := 0; fpar := None; fph := FEntry |}];
     fnext := 1; froot := None; freads := [] |}.

Definition runnable (t:ftask) : bool := match fph t with FEntry | FReading => true | FWaiting _ => false end.

(* a task picked out of the list: (tasks before it, the task, tasks after it) *)
Definition split := (list ftask * ftask * list ftask)%type.
Definition consl (t:ftask) (o:option split) : option split :=
  match o with Some (a, x, b) => Some (t :: a, x, b) | None => None end.
(* the first task satisfying p *)
Fixpoint take_first (p:ftask -> bool) (l:list ftask) : option split :=
  match l with
  | [] => None
  | t :: r => if p t then Some ([], t, r) else consl t (take_first p r)
  end.
(* the k-th runnable task *)
Fixpoint take_runnable (k:nat) (l:list ftask) : option split :=
  match l with
  | [] => None
  | t :: r => if runnable t
              then match k with 0 => Some ([], t, r) | S k' => consl t (take_runnable k' r) end
              else consl t (take_runnable k r)
  end.
Definition take_id (i:nat) (l:list ftask) : option split := take_first (fun t => Nat.eqb (fid t) i) l.

Definition with_phase (t:ftask) (ph:fphase) : ftask :=
  {| fid := fid t; ff := ff t; fdepth := fdepth t; fpar := fpar t; fph := ph |}.

(* the outermost call returns once; an error is never lost (overwriting is unreachable in a run and only
   keeps the function total) *)
Definition set_root (old:option (option err)) (r:option err) : option (option err) :=
  match old, r with
  | Some (Some e), _ => Some (Some e)
  | _, Some e => Some (Some e)
  | _, None => Some None
  end.

(* g.Wait() of task pid is over when no goroutine it started is left (the WaitGroup counter is the number of
   children that have not returned) *)
Definition has_child (pid:nat) (l:list ftask) : bool :=
  existsb (fun c => match fpar c with Some q => Nat.eqb q pid | None => false end) l.

(* the result r of a returning task goes to the errgroup of task p (None: it was the outermost call) *)
Fixpoint deliver (fuel:nat) (p:option nat) (r:option err) (tasks:list ftask) (root:option (option err))
  : list ftask * option (option err) :=
  match p with
  | None => (tasks, set_root root r)
  | Some pid =>
    match take_id pid tasks with
    | None => (tasks, set_root root r)                       (* unreachable: a parent outlives its children *)
    | Some (a, pt, b) =>
      match fph pt with
      | FWaiting e =>
          let e' := match e with Some _ => e | None => r end in   (* errgroup: the first error wins *)
          if has_child pid (a ++ b)
          then (a ++ with_phase pt (FWaiting e') :: b, root)      (* other children are still running *)
          else                                                    (* the last child: g.Wait() returns *)
              let res := match e' with Some x => Some (EWrap (ff pt) x) | None => None end in
              match fuel with
              | 0 => (a ++ b, set_root root res)                  (* unreachable with fuel >= number of tasks *)
              | S k => deliver k (fpar pt) res (a ++ b) root
              end
      | _ => (tasks, set_root root r)                             (* unreachable *)
      end
    end
  end.

(* task t (already taken out of the list, `rest` = the others) returns r *)
Definition finish (s:fstate) (rest:list ftask) (t:ftask) (r:option err) (cl:cmap) (rd:list idx) : fstate :=
  let d := deliver (length rest) (fpar t) r rest (froot s) in
  {| fcl := cl; ftasks := fst d; fnext := fnext s; froot := snd d; freads := rd |}.

Fixpoint spawn (par:nat) (d:nat) (next:nat) (kids:list idx) : list ftask :=
  match kids with
  | [] => []
  | k :: ks => {| fid := next; ff := k; fdepth := d; fpar := Some par; fph := FEntry |} :: spawn par d (S next) ks
  end.

Definition collect_err (fl:faults) (f:idx) : err :=
  match fl f with Some ImportSyntax => ESyntax f | _ => EReadFail f end.

(* the picked task runs to its next yield point *)
Definition fstep_on (r:rules) (g:graph) (fl:faults) (maxd:nat) (s:fstate) (sp:split) : fstate :=
  let '(a, t, b) := sp in
  match fph t with
  | FEntry =>
      if cut r maxd (fdepth t) then finish s (a ++ b) t None (fcl s) (freads s)
      else match lookup (ff t) (fcl s) with
           | Some _ => finish s (a ++ b) t None (fcl s) (freads s)
           | None =>
               {| fcl := if claim_before_read r
                         then update (ff t) {| eimports := None; edepth := fdepth t |} (fcl s) else fcl s;
                  ftasks := a ++ with_phase t FReading :: b;
                  fnext := fnext s; froot := froot s; freads := freads s |}
           end
  | FReading =>
      let rd := freads s ++ [ff t] in
      if collect_fault fl (ff t)
      then (* the read fails, or the import lines do not parse: collectSpecs returns the error *)
        finish s (a ++ b) t (Some (collect_err fl (ff t)))
               (match fl (ff t) with
                | Some ImportSyntax => update (ff t) {| eimports := Some []; edepth := fdepth t |} (fcl s)
                | _ => fcl s end) rd
      else
        let kids := g (ff t) in
        let cl := update (ff t) {| eimports := Some kids; edepth := fdepth t |} (fcl s) in
        match kids with
        | [] => finish s (a ++ b) t None cl rd                       (* importsInput.Len() == 0: return nil *)
        | _ =>
            {| fcl := cl;
               ftasks := a ++ with_phase t (FWaiting None) :: b ++ spawn (fid t) (S (fdepth t)) (fnext s) kids;
               fnext := fnext s + length kids; froot := froot s; freads := rd |}
        end
  | FWaiting _ => s
  end.

(* one scheduler choice: runnable task number c (mod the number of runnable tasks) *)
Definition fstep (r:rules) (g:graph) (fl:faults) (maxd:nat) (s:fstate) (c:nat) : fstate :=
  match length (filter runnable (ftasks s)) with
  | 0 => s
  | n => match take_runnable (Nat.modulo c n) (ftasks s) with
         | Some sp => fstep_on r g fl maxd s sp
         | None => s
         end
  end.

Definition frun r g fl maxd root (sched:list nat) : fstate := fold_left (fstep r g fl maxd) sched (finit root).
Definition fquiescent (s:fstate) : bool := match ftasks s with [] => true | _ => false end.

(* ---- Parse after the collection ---- *)
Inductive outcome :=
| Model (order:list idx)      (* a module, built from these files in this order *)
| Error (e:err)               (* (nil, err) *)
| Stuck.                      (* the outermost collectSpecs never returned / flatten ran out of fuel: shown impossible *)

Definition foreign_err (fl:faults) (f:idx) : err :=
  match fl f with
  | Some ForeignConvert => EConvert f | Some ForeignAmbiguous => EAmbiguous f | Some ForeignJson => EJson f
  | _ => EDetect f end.
Definition body_err (fl:faults) (f:idx) : err :=
  match fl f with Some PbDecode => EPbDecode f | Some PbMerge => EMerge f | _ => ESyntax f end.

(* parseSpecs: stage 1 converts every foreign file in its own goroutine, g.Wait() returns the first
   error (`choice` = which of the failing conversions returns first); stage 2 parses the files in order *)
Definition parse_specs (fl:faults) (choice:nat) (l:list idx) : outcome :=
  match filter (foreign_fault fl) l with
  | x :: xs => match nth_error (x :: xs) (Nat.modulo choice (length (x :: xs))) with
               | Some f => Error (foreign_err fl f)
               | None => Error (foreign_err fl x)
               end
  | [] => match find (body_fault fl) l with
          | Some f => Error (body_err fl f)
          | None => Model l
          end
  end.

Definition foutcome (r:rules) (fl:faults) (root:idx) (choice:nat) (s:fstate) : outcome :=
  match froot s with
  | None => Stuck
  | Some (Some e) => Error e
  | Some None =>
      match flatten r (2 + length (fcl s)) (fcl s) [] root with
      | None => Stuck
      | Some l => parse_specs fl choice l
      end
  end.

(* ---- the schedules the harness drives (as Collect.release): complete one read, then let every
        goroutine that is not blocked in a read run on ---- *)
Definition f_is_entry (t:ftask) : bool := match fph t with FEntry => true | _ => false end.
Definition f_is_reading (f:idx) (t:ftask) : bool := match fph t with FReading => N.eqb (ff t) f | _ => false end.

Fixpoint fsettle (r:rules) (g:graph) (fl:faults) (maxd:nat) (fuel:nat) (s:fstate) : fstate :=
  match fuel with
  | 0 => s
  | S k => match take_first f_is_entry (ftasks s) with
           | None => s
           | Some sp => fsettle r g fl maxd k (fstep_on r g fl maxd s sp)
           end
  end.
Definition fsettled r g fl maxd s := fsettle r g fl maxd (length (ftasks s)) s.

Definition frelease (r:rules) (g:graph) (fl:faults) (maxd:nat) (s:fstate) (f:idx) : option fstate :=
  match take_first (f_is_reading f) (ftasks s) with
  | None => None
  | Some sp => Some (fsettled r g fl maxd (fstep_on r g fl maxd s sp))
  end.

Definition fblocked (s:fstate) : list idx :=
  map ff (filter (fun t => match fph t with FReading => true | _ => false end) (ftasks s)).
