(* What the table translator `ImportRules` reads off pkg/parse/parse.go (collectSpecs, flattenSpecs,
   fileNameToIndex) and pkg/parse/utils.go (cleanImportFilename): statement order and guard shape,
   never line numbers. The record type lives here (hand-written); its current value is regenerated
   into Gen/ImportRules.v on every run. `expected_rules` is what the model of Collect.v was
   transliterated from and what the theorems of CollectProps.v are proved for; `Current.v` holds
   the obligation `Gen.ImportRules.rules = expected_rules`. *)
From Coq Require Import List Bool NArith.
Import ListNotations.

(* collectSpecs: `currentImportDepth >= maxImportDepth` *)
Inductive depth_test := CutGe | CutGt | CutUnknown.
(* flattenSpecs: direction of the loop over fi.imports *)
Inductive flatten_dir := Forward | Reverse | DirUnknown.
(* fileNameToIndex: the string operations applied, in order *)
Inductive index_op := ReplaceBackslash | CutAtVersion | IndexUnknown.

Record rules := {
  depth_guard_first : bool;          (* the depth test is the first statement of collectSpecs (before the claim) and returns nil *)
  depth_needs_positive_max : bool;   (* it is guarded by `maxImportDepth > 0 &&` *)
  depth_cut : depth_test;
  claim_under_mutex : bool;          (* lookup-or-return and insert both lie between one Lock and the next top-level Unlock *)
  claim_before_read : bool;          (* the insert into retrieved.l precedes reader.ReadHashBranch *)
  imports_recorded_before_fanout : bool; (* fi.imports = children precedes the g.Go loop *)
  fanout_one_per_child : bool;       (* for _, c := range children { g.Go(... collectSpecs(.., c, ..) ...) } *)
  child_depth_plus_one : bool;       (* the recursive call passes currentImportDepth+1 *)
  wait_and_propagate : bool;         (* err = g.Wait(); a non-nil err is returned *)
  flatten_dedup_by_index : bool;     (* flattenSpecs returns at once when an element of specs has the same index *)
  flatten_preorder : bool;           (* the file is appended before its imports are visited *)
  flatten_order : flatten_dir;
  index_ops : list index_op;
  collect_blocks_only_in_read_and_wait : bool; (* collectSpecs (closures included) has no channel send/receive, select,
                                        go statement, second Lock, semaphore Acquire, SetLimit/TryGo, Cond/WaitGroup wait: the only
                                        places a goroutine of the collection can block are the reader call and g.Wait() *)
  extract_separators : list N;       (* ... and which characters (codes) may follow the keyword `import` for a line to
                                        count as an import statement: the lexer's WS is [ \t]+ *)
  extract_every_import_line : bool   (* extractImports: the scan loop over the lines has the single statement
                                        `if <line starts with the keyword and a separator> { write line; write '\n' }` - no break, return or else *)
}.

Definition expected_rules : rules := {|
  depth_guard_first := true;
  depth_needs_positive_max := true;
  depth_cut := CutGe;
  claim_under_mutex := true;
  claim_before_read := true;
  imports_recorded_before_fanout := true;
  fanout_one_per_child := true;
  child_depth_plus_one := true;
  wait_and_propagate := true;
  flatten_dedup_by_index := true;
  flatten_preorder := true;
  flatten_order := Forward;
  index_ops := [ReplaceBackslash; CutAtVersion];
  extract_every_import_line := true;
  collect_blocks_only_in_read_and_wait := true;
  extract_separators := [9; 32]%N
|}.
