(* index_canonical: fileNameToIndex identifies spellings that differ by slash direction or by a version
   suffix, and nothing else (it is the identity on names without `\` and `@`, so two such names share an
   index only when they are equal). *)
From Coq Require Import String Ascii List Bool.
Import ListNotations.
Require Import Verif.Imports.Rules Verif.Imports.Index.
Local Open Scope string_scope.

Notation R := expected_rules.

Lemma index_unfold s : index_of R s = cut_at (replace_bs s).
Proof. reflexivity. Qed.

Fixpoint has (c:ascii) (s:string) : bool :=
  match s with EmptyString => false | String d r => Ascii.eqb d c || has c r end.

(* two spellings that differ only in the direction of some slashes *)
Inductive slash_eq : string -> string -> Prop :=
| se_nil : slash_eq "" ""
| se_same c r r' : slash_eq r r' -> slash_eq (String c r) (String c r')
| se_flip1 r r' : slash_eq r r' -> slash_eq (String backslash r) (String slash r')
| se_flip2 r r' : slash_eq r r' -> slash_eq (String slash r) (String backslash r').

Lemma replace_slash_eq s s' : slash_eq s s' -> replace_bs s = replace_bs s'.
Proof. induction 1 as [|c r r' _ IH|r r' _ IH|r r' _ IH]; cbn; rewrite ?IH; reflexivity. Qed.

Theorem index_slash_direction s s' : slash_eq s s' -> index_of R s = index_of R s'.
Proof. intros H. rewrite !index_unfold, (replace_slash_eq _ _ H). reflexivity. Qed.

Lemma replace_app a b : replace_bs (a ++ b) = replace_bs a ++ replace_bs b.
Proof. induction a as [|c a IH]; [reflexivity|]. cbn. rewrite IH. reflexivity. Qed.

Lemma has_replace_at s : has at_sign (replace_bs s) = has at_sign s.
Proof.
  induction s as [|c s IH]; [reflexivity|]. cbn [replace_bs has]. rewrite IH.
  destruct (Ascii.eqb_spec c backslash) as [->|_]; reflexivity.
Qed.

Lemma cut_no_at s : has at_sign s = false -> cut_at s = s.
Proof.
  induction s as [|c s IH]; [reflexivity|]. cbn [has cut_at]. intros H. apply orb_false_iff in H.
  destruct H as [H1 H2]. rewrite H1, (IH H2). reflexivity.
Qed.

Lemma cut_app_at a v : has at_sign a = false -> cut_at (a ++ String at_sign v) = a.
Proof.
  induction a as [|c a IH]; intros H.
  - cbn [append cut_at]. rewrite Ascii.eqb_refl. reflexivity.
  - cbn [has] in H. apply orb_false_iff in H. destruct H as [H1 H2]. cbn [append cut_at]. rewrite H1, (IH H2). reflexivity.
Qed.

(* a version suffix does not change the index: "only use a single version of each file" *)
Theorem index_version name v : has at_sign name = false ->
  index_of R (name ++ String at_sign v) = index_of R name.
Proof.
  intros H. rewrite !index_unfold, replace_app. cbn [replace_bs]. cbn.
  rewrite cut_app_at by (rewrite has_replace_at; exact H).
  rewrite cut_no_at by (rewrite has_replace_at; exact H). reflexivity.
Qed.

(* ... and nothing else: on names without `\` and `@` the index is the name itself *)
Lemma replace_plain s : has backslash s = false -> replace_bs s = s.
Proof.
  induction s as [|c s IH]; [reflexivity|]. cbn [has replace_bs]. intros H. apply orb_false_iff in H.
  destruct H as [H1 H2]. rewrite H1, (IH H2). reflexivity.
Qed.

Theorem index_plain s : has backslash s = false -> has at_sign s = false -> index_of R s = s.
Proof. intros Hb Ha. rewrite index_unfold, (replace_plain s Hb). apply cut_no_at, Ha. Qed.

Theorem index_distinguishes s s' :
  has backslash s = false -> has at_sign s = false -> has backslash s' = false -> has at_sign s' = false ->
  index_of R s = index_of R s' -> s = s'.
Proof. intros A B C D H. rewrite (index_plain s A B), (index_plain s' C D) in H. exact H. Qed.

Theorem index_idempotent s : index_of R (index_of R s) = index_of R s.
Proof.
  rewrite !index_unfold. set (t := cut_at (replace_bs s)).
  assert (Hb : has backslash t = false).
  { unfold t. induction s as [|c s IH]; [reflexivity|]. cbn [replace_bs cut_at].
    destruct (Ascii.eqb_spec c backslash) as [->|Hn].
    - cbn. exact IH.
    - destruct (Ascii.eqb c at_sign); [reflexivity|]. cbn [has]. rewrite IH.
      destruct (Ascii.eqb_spec c backslash); [contradiction|reflexivity]. }
  assert (Ha : has at_sign t = false).
  { unfold t. generalize (replace_bs s). induction s0 as [|c s0 IH]; [reflexivity|]. cbn [cut_at].
    destruct (Ascii.eqb c at_sign) eqn:E; [reflexivity|]. cbn [has]. rewrite E, IH. reflexivity. }
  rewrite (replace_plain t Hb). apply cut_no_at, Ha.
Qed.

(* non-vacuity / the spellings of the property statement *)
Example index_examples :
  index_of R "//github.com/org/repo/dir/file.sysl@v1.2.3" = "//github.com/org/repo/dir/file.sysl" /\
  index_of R (String "d" (String backslash "root.sysl")) = "d/root.sysl" /\
  index_of R "deps/a.sysl" = "deps/a.sysl".
Proof. vm_compute. repeat split. Qed.
