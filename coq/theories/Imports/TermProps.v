(* Termination of the import collection ("cycles end"): for a finite import graph every schedule that is
   long enough ends in a quiescent state, whatever it chooses - cycles, self-imports and diamonds included,
   with or without a depth limit. The bound is 1 + sum over the files of (2 + number of import lines).

   Measure: every goroutine about to claim weighs 1, every goroutine reading file f weighs 1 + |imports f|,
   every file of the (finite, import-closed) universe that has not been claimed weighs 2 + |imports f|.
   Each step of a non-quiescent state lowers the total:
     depth cut / already claimed : the goroutine ends                         -1
     claim f                     : -1 (entry) -(2+|g f|) (f claimed) +(1+|g f|) (reader)   = -2
     read of f completes         : -(1+|g f|) + |g f| new goroutines          -1           *)
From Coq Require Import List NArith Arith Bool Lia.
Import ListNotations.
Require Import Verif.Imports.Rules Verif.Imports.Collect Verif.Imports.CollectProps.

Definition tw (g:graph) (t:task) : nat := match tp t with AtEntry => 1 | Reading => 1 + length (g (tf t)) end.
Fixpoint tsum (g:graph) (l:list task) : nat := match l with [] => 0 | t :: r => tw g t + tsum g r end.
Fixpoint uw (g:graph) (l:list idx) (m:cmap) : nat :=
  match l with [] => 0 | f :: r => (match lookup f m with None => 2 + length (g f) | Some _ => 0 end) + uw g r m end.
Definition phi (g:graph) (univ:list idx) (s:state) : nat := tsum g (tasks s) + uw g univ (claimed s).
Definition step_bound (g:graph) (univ:list idx) : nat := 1 + fold_right (fun f a => 2 + length (g f) + a) 0 univ.

Lemma tsum_app g l1 l2 : tsum g (l1 ++ l2) = tsum g l1 + tsum g l2.
Proof. induction l1 as [|t l IH]; [reflexivity|]. cbn [app tsum]. rewrite IH. lia. Qed.

Lemma tsum_entries g d ks : tsum g (map (fun k => {| tf := k; td := d; tp := AtEntry |}) ks) = length ks.
Proof. induction ks as [|k ks IH]; [reflexivity|]. cbn [map tsum length tw tp]. rewrite IH. reflexivity. Qed.

Lemma uw_update_le g l f e m : uw g l (update f e m) <= uw g l m.
Proof.
  induction l as [|x l IH]; [apply le_n|]. cbn [uw].
  destruct (N.eq_dec x f) as [->|Hn].
  - rewrite lookup_update_eq. destruct (lookup f m); lia.
  - rewrite (lookup_update_neq f x e m Hn). lia.
Qed.

Lemma uw_update_new g l f e m : lookup f m = None -> In f l ->
  uw g l (update f e m) + (2 + length (g f)) <= uw g l m.
Proof.
  intros Hl. induction l as [|x l IH]; intros Hin; [destruct Hin|].
  cbn [uw].
  destruct (N.eq_dec x f) as [->|Hn].
  - rewrite lookup_update_eq, Hl. pose proof (uw_update_le g l f e m). lia.
  - rewrite (lookup_update_neq f x e m Hn). destruct Hin as [->|Hin]; [congruence|]. specialize (IH Hin). lia.
Qed.

Lemma uw_update_claimed g l f e m : lookup f m <> None -> uw g l (update f e m) = uw g l m.
Proof.
  intros Hl. induction l as [|x l IH]; [reflexivity|].
  cbn [uw]. rewrite IH.
  destruct (N.eq_dec x f) as [->|Hn].
  - rewrite lookup_update_eq. destruct (lookup f m); [reflexivity|congruence].
  - rewrite (lookup_update_neq f x e m Hn). reflexivity.
Qed.

Section Term.
Variable g : graph.
Variable root : idx.
Variable maxd : nat.
Variable univ : list idx.
Hypothesis Hroot : In root univ.
Hypothesis Hclosed : forall f k, In f univ -> In k (g f) -> In k univ.

Lemma walk_univ f d : walk g root f d -> In f univ.
Proof. induction 1 as [|f d k _ IH Hk]; [exact Hroot|eapply Hclosed; eassumption]. Qed.

Lemma phi_step s c : Inv g root maxd s -> tasks s <> [] -> phi g univ (step R g maxd s c) < phi g univ s.
Proof.
  intros I Hne. destruct (step_cases g maxd s c Hne) as (l1 & t & l2 & Hsplit & Hcase).
  assert (Hin_t : In t (tasks s)) by (rewrite Hsplit; apply in_app_mid; left; reflexivity).
  assert (Hsum : tsum g (tasks s) = tsum g (l1 ++ l2) + tw g t).
  { rewrite Hsplit, !tsum_app. cbn [tsum]. lia. }
  unfold phi. rewrite Hsum.
  destruct Hcase as [(Hp & _ & ->) | [(Hp & _ & _ & ->) | [(Hp & _ & Hl & ->) | (Hp & ->)]]]; cbn [tasks claimed].
  - unfold tw. rewrite Hp. lia.
  - unfold tw. rewrite Hp. lia.
  - rewrite tsum_app. cbn [tsum]. unfold tw. rewrite Hp. cbn [tp tf].
    pose proof (uw_update_new g univ (tf t) {| eimports := None; edepth := td t |} (claimed s) Hl
                  (walk_univ _ _ (inv_task_walk g root maxd s I t Hin_t))). lia.
  - rewrite tsum_app, tsum_entries. unfold tw. rewrite Hp.
    destruct (inv_reading_unread g root maxd s I t Hin_t Hp) as (e & He & _).
    rewrite uw_update_claimed by (rewrite He; discriminate). lia.
Qed.

Lemma step_quiescent s c : tasks s = [] -> step R g maxd s c = s.
Proof. intros H. unfold step. rewrite H. reflexivity. Qed.

Lemma fold_quiescent sched s : tasks s = [] -> fold_left (step R g maxd) sched s = s.
Proof. intros H. induction sched as [|c cs IH]; [reflexivity|]. cbn [fold_left]. rewrite (step_quiescent s c H). exact IH. Qed.

Lemma run_bound sched : forall s, Inv g root maxd s ->
  quiescent (fold_left (step R g maxd) sched s) = true \/
  phi g univ (fold_left (step R g maxd) sched s) + length sched <= phi g univ s.
Proof.
  induction sched as [|c cs IH]; intros s I; [right; cbn; lia|].
  cbn [fold_left length]. destruct (tasks s) as [|t0 ts] eqn:Ht.
  - left. rewrite (step_quiescent s c Ht), (fold_quiescent cs s Ht). unfold quiescent. rewrite Ht. reflexivity.
  - assert (Hne : tasks s <> []) by (rewrite Ht; discriminate).
    pose proof (phi_step s c I Hne) as Hlt.
    destruct (IH _ (inv_step g root maxd s c I)) as [Hq|Hb]; [left; exact Hq|right; lia].
Qed.

Lemma phi_init : phi g univ (init root) = step_bound g univ.
Proof.
  unfold phi, step_bound, init. cbn [tasks claimed tsum tw tp]. rewrite Nat.add_0_r. f_equal. clear Hroot Hclosed.
  induction univ as [|x l IH]; [reflexivity|]. cbn [uw fold_right lookup find]. rewrite IH. reflexivity.
Qed.

(* every schedule of at least step_bound choices ends with no goroutine left, whatever it chooses *)
Theorem collect_terminates sched : step_bound g univ <= length sched ->
  quiescent (run R g maxd root sched) = true.
Proof.
  intros Hlen. unfold run. destruct (run_bound sched (init root) (inv_init g root maxd)) as [Hq|Hb]; [exact Hq|].
  rewrite phi_init in Hb. set (s := fold_left (step R g maxd) sched (init root)) in *.
  unfold quiescent. destruct (tasks s) as [|t ts] eqn:Ht; [reflexivity|exfalso].
  assert (1 <= phi g univ s).
  { unfold phi. rewrite Ht. cbn [tsum]. unfold tw. destruct (tp t); lia. }
  lia.
Qed.

(* and a quiescent state stays as it is: the result does not depend on how much longer the schedule is *)
Theorem quiescent_stable sched more : quiescent (run R g maxd root sched) = true ->
  run R g maxd root (sched ++ more) = run R g maxd root sched.
Proof.
  intros Hq. unfold run. rewrite fold_left_app. apply fold_quiescent, quiescent_tasks, Hq.
Qed.
End Term.
