(* Proofs about the fault model (Faults.v), for every graph, fault assignment, depth limit and schedule.

   reachable        the states of all runs: any interleaving of the goroutines (fstep with any choice, and
                    the release-and-settle schedules the harness drives are special cases)
   Invariant        every error held anywhere (in an errgroup, or returned by the outermost call) names a
                    file that was read and carries a collection fault; the outermost call is still running
                    or has returned; once a read hit a collection fault an error is held somewhere (errors are
                    never dropped: errgroup keeps the first, g.Wait() hands it up wrapped)
   fault_fails_clean  at quiescence: the outcome is never Stuck; a collection fault on a file that was read, or
                    a parse fault on a processed file, makes the outcome an Error that names such a file, with
                    exit status 1 or 2 (2 exactly when the outermost error is a ParseError); an Error always
                    names an injected fault; a Model is returned only if no fault was hit. *)
From Coq Require Import List NArith Arith Bool Lia.
Import ListNotations.
Require Import Verif.Imports.Rules Verif.Imports.Collect Verif.Imports.CollectProps Verif.Imports.FlattenProps
               Verif.Imports.Faults.

(* ---------- picking tasks ---------- *)
Lemma consl_spec t o a x b : consl t o = Some (a, x, b) -> exists a', a = t :: a' /\ o = Some (a', x, b).
Proof. destruct o as [[[a' x'] b']|]; cbn; [|discriminate]. intros [= <- <- <-]. eauto. Qed.

Lemma take_first_spec p l a x b : take_first p l = Some (a, x, b) -> l = a ++ x :: b /\ p x = true.
Proof.
  revert a. induction l as [|t r IH]; intros a H; [discriminate|]. cbn [take_first] in H.
  destruct (p t) eqn:Hp.
  - injection H as <- <- <-. split; [reflexivity|exact Hp].
  - apply consl_spec in H. destruct H as (a' & -> & H). destruct (IH _ H) as [-> Hx]. split; [reflexivity|exact Hx].
Qed.

Lemma take_runnable_spec l : forall k a x b, take_runnable k l = Some (a, x, b) -> l = a ++ x :: b /\ runnable x = true.
Proof.
  induction l as [|t r IH]; intros k a x b H; [discriminate|]. cbn [take_runnable] in H.
  destruct (runnable t) eqn:Hr.
  - destruct k as [|k'].
    + injection H as <- <- <-. split; [reflexivity|exact Hr].
    + apply consl_spec in H. destruct H as (a' & -> & H). destruct (IH _ _ _ _ H) as [-> Hx]. split; [reflexivity|exact Hx].
  - apply consl_spec in H. destruct H as (a' & -> & H). destruct (IH _ _ _ _ H) as [-> Hx]. split; [reflexivity|exact Hx].
Qed.

Lemma in_mid {A} (x t:A) l1 l2 : In x (l1 ++ t :: l2) <-> x = t \/ In x (l1 ++ l2).
Proof. rewrite !in_app_iff. cbn. intuition congruence. Qed.

(* ---------- what is held where ---------- *)
Definition terr (t:ftask) : option err := match fph t with FWaiting (Some e) => Some e | _ => None end.
Definition alive (ts:list ftask) (rt:option (option err)) : Prop :=
  (exists t, In t ts /\ terr t <> None) \/ exists e, rt = Some (Some e).
Definition errs_ok (P:err -> Prop) (ts:list ftask) (rt:option (option err)) : Prop :=
  (forall t e, In t ts -> terr t = Some e -> P e) /\ (forall e, rt = Some (Some e) -> P e).
Definition has_root (ts:list ftask) (rt:option (option err)) : Prop :=
  (exists t, In t ts /\ fpar t = None) \/ rt <> None.

Lemma set_root_alive old r : (exists e, old = Some (Some e)) \/ r <> None -> exists e, set_root old r = Some (Some e).
Proof.
  intros [(e & ->)|Hr]; [cbn; eauto|]. destruct r as [e|]; [|congruence].
  destruct old as [[e0|]|]; cbn; eauto.
Qed.
Lemma set_root_ok (P:err -> Prop) old r :
  (forall e, old = Some (Some e) -> P e) -> (forall e, r = Some e -> P e) -> forall e, set_root old r = Some (Some e) -> P e.
Proof. intros Ho Hr e. destruct old as [[e0|]|], r as [e1|]; cbn; intros [= <-]; auto. Qed.
Lemma set_root_some old r : set_root old r <> None.
Proof. destruct old as [[e0|]|], r as [e1|]; cbn; discriminate. Qed.

Lemma deliver_alive fuel : forall p r ts rt, alive ts rt \/ r <> None ->
  alive (fst (deliver fuel p r ts rt)) (snd (deliver fuel p r ts rt)).
Proof.
  induction fuel as [|k IH]; intros p r ts rt H.
  all: assert (Hroot : alive ts (set_root rt r)).
  1,3: destruct H as [[Ht|He]|Hr]; [left; exact Ht|right; apply set_root_alive; left; exact He|right; apply set_root_alive; right; exact Hr].
  all: destruct p as [pid|]; cbn [deliver]; [|exact Hroot].
  all: destruct (take_id pid ts) as [[[a pt] b]|] eqn:Hid; [|exact Hroot].
  all: apply take_first_spec in Hid; destruct Hid as [-> _].
  all: destruct (fph pt) as [| |e] eqn:Hph; [exact Hroot|exact Hroot|].
  all: set (e' := match e with Some _ => e | None => r end).
  all: assert (Hpt : terr pt = e) by (unfold terr; rewrite Hph; destruct e; reflexivity).
  (* what is known: an error among the other tasks, at the root, or e' is an error *)
  all: assert (Hcases : alive (a ++ b) rt \/ e' <> None).
  1,3: destruct H as [[(x & Hx & Hxe)|He]|Hr];
       [apply in_mid in Hx; destruct Hx as [->|Hx];
          [right; unfold e'; rewrite Hpt in Hxe; destruct e; [discriminate|congruence]|left; left; eauto]
       |left; right; exact He
       |right; unfold e'; destruct e; [discriminate|exact Hr]].
  all: destruct (has_child pid (a ++ b)).
  (* not the last child: the parent keeps waiting, holding e' *)
  1,3: cbn [fst snd]; destruct Hcases as [[(x & Hx & Hxe)|He]|He'];
       [left; exists x; split; [apply in_mid; right; exact Hx|exact Hxe]
       |right; exact He
       |left; exists (with_phase pt (FWaiting e')); split; [apply in_mid; left; reflexivity|];
        unfold terr, with_phase; cbn [fph]; destruct e'; [discriminate|congruence]].
  (* fuel 0 *)
  1: cbn [fst snd]; destruct Hcases as [[Ht|He]|He'];
       [left; exact Ht|right; apply set_root_alive; left; exact He
       |right; apply set_root_alive; right; destruct e'; [discriminate|congruence]].
  apply IH; destruct Hcases as [Ha|He']; [left; exact Ha|right; destruct e'; [discriminate|congruence]].
Qed.

Lemma deliver_ok (P:err -> Prop) (Pw : forall p e, P e -> P (EWrap p e)) fuel : forall p r ts rt,
  errs_ok P ts rt -> (forall e, r = Some e -> P e) ->
  errs_ok P (fst (deliver fuel p r ts rt)) (snd (deliver fuel p r ts rt)).
Proof.
  induction fuel as [|k IH]; intros p r ts rt [Ht Hrt] Hr.
  all: assert (Hroot : errs_ok P ts (set_root rt r)) by (split; [exact Ht|apply set_root_ok; assumption]).
  all: destruct p as [pid|]; cbn [deliver]; [|exact Hroot].
  all: destruct (take_id pid ts) as [[[a pt] b]|] eqn:Hid; [|exact Hroot].
  all: apply take_first_spec in Hid; destruct Hid as [-> _].
  all: destruct (fph pt) as [| |e] eqn:Hph; [exact Hroot|exact Hroot|].
  all: set (e' := match e with Some _ => e | None => r end).
  all: assert (Hpt : terr pt = e) by (unfold terr; rewrite Hph; destruct e; reflexivity).
  all: assert (He' : forall x, e' = Some x -> P x)
        by (intros x Hx; unfold e' in Hx; destruct e as [e0|]; [injection Hx as <-; apply (Ht pt e0); [apply in_mid; left; reflexivity|exact Hpt]|apply Hr, Hx]).
  all: assert (Hrest : errs_ok P (a ++ b) rt)
        by (split; [intros t e0 Hin; apply Ht, in_mid; right; exact Hin|exact Hrt]).
  all: assert (Hres : forall x, match e' with Some y => Some (EWrap (ff pt) y) | None => None end = Some x -> P x)
        by (intros x Hx; destruct e' as [y|]; [injection Hx as <-; apply Pw, He'; reflexivity|discriminate]).
  all: destruct (has_child pid (a ++ b)).
  1,3: cbn [fst snd]; split; [|exact Hrt];
       intros t e0 Hin Hte; apply in_mid in Hin; destruct Hin as [->|Hin]; [|apply (proj1 Hrest t e0 Hin Hte)];
       unfold terr, with_phase in Hte; cbn [fph] in Hte; apply He'; destruct e'; [exact Hte|discriminate].
  1: cbn [fst snd]; split; [apply Hrest|apply set_root_ok; [apply Hrest|exact Hres]].
  apply IH; [exact Hrest|exact Hres].
Qed.

Lemma deliver_root fuel : forall p r ts rt, has_root ts rt \/ p = None ->
  has_root (fst (deliver fuel p r ts rt)) (snd (deliver fuel p r ts rt)).
Proof.
  induction fuel as [|k IH]; intros p r ts rt H.
  all: assert (Hroot : has_root ts (set_root rt r)) by (right; apply set_root_some).
  all: destruct p as [pid|]; cbn [deliver]; [|exact Hroot].
  all: destruct H as [H|H]; [|discriminate].
  all: destruct (take_id pid ts) as [[[a pt] b]|] eqn:Hid; [|exact Hroot].
  all: apply take_first_spec in Hid; destruct Hid as [-> _].
  all: destruct (fph pt) as [| |e] eqn:Hph; [exact Hroot|exact Hroot|].
  all: assert (Hcases : has_root (a ++ b) rt \/ fpar pt = None)
        by (destruct H as [(x & Hx & Hp)|Hrt]; [apply in_mid in Hx; destruct Hx as [->|Hx]; [right; exact Hp|left; left; eauto]|left; right; exact Hrt]).
  all: destruct (has_child pid (a ++ b)).
  1,3: cbn [fst snd]; destruct Hcases as [[(x & Hx & Hp)|Hrt]|Hp];
       [left; exists x; split; [apply in_mid; right; exact Hx|exact Hp]|right; exact Hrt
       |left; eexists; split; [apply in_mid; left; reflexivity|exact Hp]].
  1: cbn [fst snd]; right; apply set_root_some.
  apply IH; exact Hcases.
Qed.

Lemma spawn_in par d next kids x : In x (spawn par d next kids) -> fph x = FEntry /\ fpar x = Some par.
Proof.
  revert next. induction kids as [|k ks IH]; intros next H; [destruct H|].
  destruct H as [<-|H]; [split; reflexivity|apply (IH _ H)].
Qed.

(* ================= the invariant ================= *)
Section Faults.
Variable g : graph.
Variable fl : faults.
Variable maxd : nat.
Variable root : idx.

Definition err_ok (rd:list idx) (e:err) : Prop :=
  exists f, names e f = true /\ In f rd /\ collect_fault fl f = true.
Definition bad_read (s:fstate) : Prop := exists f, In f (freads s) /\ collect_fault fl f = true.

Lemma err_ok_wrap rd p e : err_ok rd e -> err_ok rd (EWrap p e).
Proof. intros (f & Hn & Hi & Hc). exists f. split; [cbn [names]; rewrite Hn; apply orb_true_r|auto]. Qed.
Lemma err_ok_mono rd rd' e : incl rd rd' -> err_ok rd e -> err_ok rd' e.
Proof. intros Hi (f & Hn & Hin & Hc). exists f. auto. Qed.

Record FInv (s:fstate) : Prop := {
  finv_ok : errs_ok (err_ok (freads s)) (ftasks s) (froot s);
  finv_root : has_root (ftasks s) (froot s);
  finv_alive : bad_read s -> alive (ftasks s) (froot s)
}.

Lemma finv_init : FInv (finit root).
Proof.
  constructor; cbn [finit ftasks froot freads].
  - split; [intros t e [<-|[]]; discriminate|discriminate].
  - left. eexists. split; [left; reflexivity|reflexivity].
  - intros (f & [] & _).
Qed.

(* a task that holds no error returns r: the three parts of the invariant for the state after `finish` *)
Lemma finv_finish s a t b r cl rd :
  FInv s -> ftasks s = a ++ t :: b -> terr t = None -> incl (freads s) rd ->
  (forall e, r = Some e -> err_ok rd e) ->
  ((exists f, In f rd /\ collect_fault fl f = true) -> bad_read s \/ r <> None) ->
  FInv (finish s (a ++ b) t r cl rd).
Proof.
  intros I Hs Hte Hrd Hr Hbad. destruct I as [[Hok1 Hok2] Hroot Halive]. rewrite Hs in *.
  constructor; cbn [finish ftasks froot freads].
  - apply (deliver_ok _ (err_ok_wrap rd)); [|exact Hr]. split.
    + intros x e Hx Hxe. eapply err_ok_mono; [exact Hrd|]. apply (Hok1 x e); [apply in_mid; right; exact Hx|exact Hxe].
    + intros e He. eapply err_ok_mono; [exact Hrd|]. apply Hok2, He.
  - apply deliver_root. destruct Hroot as [(x & Hx & Hp)|Hrt]; [|left; right; exact Hrt].
    apply in_mid in Hx. destruct Hx as [->|Hx]; [right; exact Hp|left; left; eauto].
  - intros Hb. apply deliver_alive. destruct (Hbad Hb) as [Hb'|Hr']; [|right; exact Hr'].
    left. destruct (Halive Hb') as [(x & Hx & Hxe)|He]; [|right; exact He].
    apply in_mid in Hx. destruct Hx as [->|Hx]; [congruence|left; eauto].
Qed.

Lemma finv_step_on s a t b : FInv s -> ftasks s = a ++ t :: b -> FInv (fstep_on R g fl maxd s (a, t, b)).
Proof.
  intros I Hs. cbn [fstep_on]. destruct (fph t) as [| |e] eqn:Hph; [| |exact I].
  - (* at the entry *)
    assert (Hte : terr t = None) by (unfold terr; rewrite Hph; reflexivity).
    assert (Hdone : FInv (finish s (a ++ b) t None (fcl s) (freads s))).
    { apply finv_finish; [exact I|exact Hs|exact Hte|apply incl_refl|discriminate|intros H; left; exact H]. }
    destruct (cut R maxd (fdepth t)); [exact Hdone|]. destruct (lookup (ff t) (fcl s)); [exact Hdone|].
    destruct I as [[Hok1 Hok2] Hroot Halive]. rewrite Hs in *.
    constructor; cbn [ftasks froot freads].
    + split; [|exact Hok2]. intros x e0 Hx Hxe. apply in_mid in Hx. destruct Hx as [->|Hx]; [discriminate|].
      apply (Hok1 x e0); [apply in_mid; right; exact Hx|exact Hxe].
    + destruct Hroot as [(x & Hx & Hp)|Hrt]; [|right; exact Hrt]. left.
      apply in_mid in Hx. destruct Hx as [->|Hx]; [eexists; split; [apply in_mid; left; reflexivity|exact Hp]|].
      exists x. split; [apply in_mid; right; exact Hx|exact Hp].
    + intros Hb. destruct (Halive Hb) as [(x & Hx & Hxe)|He]; [|right; exact He]. left.
      apply in_mid in Hx. destruct Hx as [->|Hx]; [congruence|]. exists x. split; [apply in_mid; right; exact Hx|exact Hxe].
  - (* the read completes *)
    assert (Hte : terr t = None) by (unfold terr; rewrite Hph; reflexivity).
    assert (Hincl : incl (freads s) (freads s ++ [ff t])) by (apply incl_appl, incl_refl).
    destruct (collect_fault fl (ff t)) eqn:Hcf.
    + apply finv_finish; [exact I|exact Hs|exact Hte|exact Hincl| |intros _; right; discriminate].
      intros e0 [= <-]. exists (ff t). split; [|split; [apply in_app_iff; right; left; reflexivity|exact Hcf]].
      unfold collect_err. destruct (fl (ff t)) as [[]|]; cbn [names]; apply N.eqb_refl.
    + assert (Hbad : (exists f, In f (freads s ++ [ff t]) /\ collect_fault fl f = true) -> bad_read s).
      { intros (f & Hin & Hc). apply in_app_iff in Hin. destruct Hin as [Hin|[<-|[]]]; [exists f; auto|congruence]. }
      destruct (g (ff t)) as [|k ks] eqn:Hg.
      * apply finv_finish; [exact I|exact Hs|exact Hte|exact Hincl|discriminate|intros H; left; apply Hbad, H].
      * destruct I as [[Hok1 Hok2] Hroot Halive]. rewrite Hs in *.
        set (t' := with_phase t (FWaiting None)).
        set (sp := spawn (fid t) (S (fdepth t)) (fnext s) (k :: ks)).
        assert (Hin' : forall x, In x (a ++ t' :: b ++ sp) -> x = t' \/ In x (a ++ b) \/ In x sp).
        { intros x Hx. apply in_app_iff in Hx. destruct Hx as [Hx|[<-|Hx]]; [right; left; apply in_app_iff; auto|left; reflexivity|].
          apply in_app_iff in Hx. destruct Hx as [Hx|Hx]; [right; left; apply in_app_iff; auto|right; right; exact Hx]. }
        assert (Hkeep : forall x, In x (a ++ b) -> In x (a ++ t' :: b ++ sp)).
        { intros x Hx. apply in_app_iff in Hx. apply in_app_iff. destruct Hx as [Hx|Hx]; [left; exact Hx|right; right; apply in_app_iff; left; exact Hx]. }
        constructor; cbn [ftasks froot freads].
        -- split.
           ++ intros x e0 Hx Hxe. destruct (Hin' x Hx) as [->|[Hx'|Hx']].
              ** discriminate.
              ** eapply err_ok_mono; [exact Hincl|]. apply (Hok1 x e0); [apply in_mid; right; exact Hx'|exact Hxe].
              ** apply spawn_in in Hx'. destruct Hx' as [Hp _]. unfold terr in Hxe. rewrite Hp in Hxe. discriminate.
           ++ intros e0 He0. eapply err_ok_mono; [exact Hincl|]. apply Hok2, He0.
        -- destruct Hroot as [(x & Hx & Hp)|Hrt]; [|right; exact Hrt]. left.
           apply in_mid in Hx. destruct Hx as [->|Hx].
           ++ exists t'. split; [apply in_app_iff; right; left; reflexivity|exact Hp].
           ++ exists x. split; [apply Hkeep, Hx|exact Hp].
        -- intros Hb. destruct (Halive (Hbad Hb)) as [(x & Hx & Hxe)|He]; [|right; exact He]. left.
           apply in_mid in Hx. destruct Hx as [->|Hx]; [congruence|]. exists x. split; [apply Hkeep, Hx|exact Hxe].
Qed.

(* every interleaving *)
Inductive reachable : fstate -> Prop :=
| reach_init : reachable (finit root)
| reach_step s a t b : reachable s -> ftasks s = a ++ t :: b -> reachable (fstep_on R g fl maxd s (a, t, b)).

Lemma finv_reachable s : reachable s -> FInv s.
Proof. induction 1 as [|s a t b _ IH Hs]; [apply finv_init|apply finv_step_on; assumption]. Qed.

Lemma fstep_reachable s c : reachable s -> reachable (fstep R g fl maxd s c).
Proof.
  intros H. unfold fstep. destruct (length (filter runnable (ftasks s))) as [|n]; [exact H|].
  destruct (take_runnable (c mod S n) (ftasks s)) as [[[a t] b]|] eqn:Ht; [|exact H].
  apply take_runnable_spec in Ht. destruct Ht as [Hs _]. apply reach_step; assumption.
Qed.

Lemma frun_reachable sched : reachable (frun R g fl maxd root sched).
Proof.
  unfold frun. generalize reach_init. generalize (finit root).
  induction sched as [|c cs IH]; intros s H; cbn [fold_left]; [exact H|]. apply IH, fstep_reachable, H.
Qed.

Lemma fsettle_reachable fuel : forall s, reachable s -> reachable (fsettle R g fl maxd fuel s).
Proof.
  induction fuel as [|k IH]; intros s H; cbn [fsettle]; [exact H|].
  destruct (take_first f_is_entry (ftasks s)) as [[[a t] b]|] eqn:Ht; [|exact H].
  apply take_first_spec in Ht. destruct Ht as [Hs _]. apply IH, reach_step; assumption.
Qed.

Lemma frelease_reachable s f s' : reachable s -> frelease R g fl maxd s f = Some s' -> reachable s'.
Proof.
  intros H. unfold frelease. destruct (take_first (f_is_reading f) (ftasks s)) as [[[a t] b]|] eqn:Ht; [|discriminate].
  intros [= <-]. apply take_first_spec in Ht. destruct Ht as [Hs _]. apply fsettle_reachable, reach_step; assumption.
Qed.

Lemma exit_code_nonzero e : exit_code e = 1%N \/ exit_code e = 2%N.
Proof. destruct e; cbn; auto. Qed.

(* ================= the theorem ================= *)
Definition hit_collect (s:fstate) : Prop := bad_read s.
Definition parse_status (f:idx) : N :=
  match fl f with Some ForeignDetect | Some ForeignAmbiguous | Some ForeignJson | Some PbDecode | Some PbMerge => 1 | _ => 2 end%N.

Theorem fault_fails_clean s choice : reachable s -> ftasks s = [] ->
  let o := foutcome R fl root choice s in
  o <> Stuck /\
  (bad_read s -> exists e, o = Error e /\ (exit_code e = 1%N \/ exit_code e = 2%N) /\
                   exists f, names e f = true /\ In f (freads s) /\ collect_fault fl f = true) /\
  (forall l, froot s = Some None -> flatten R (2 + length (fcl s)) (fcl s) [] root = Some l ->
     (exists f, In f l /\ parse_fault fl f = true) ->
     exists e f, o = Error e /\ In f l /\ parse_fault fl f = true /\ names e f = true /\ exit_code e = parse_status f) /\
  (forall e, o = Error e -> exists f, names e f = true /\ fl f <> None) /\
  (forall l, o = Model l -> ~ bad_read s /\ forall f, In f l -> parse_fault fl f = false).
Proof.
  intros Hr Hq o. pose proof (finv_reachable s Hr) as [[_ Hok] Hroot Halive]. rewrite Hq in *.
  assert (Hrt : froot s <> None) by (destruct Hroot as [(x & [] & _)|H]; exact H).
  assert (Hbad : bad_read s -> exists e, froot s = Some (Some e)).
  { intros Hb. destruct (Halive Hb) as [(x & [] & _)|H]; exact H. }
  destruct (flatten_total_map (fcl s) root) as (l0 & Hl0).
  (* facts about parse_specs *)
  assert (Hps : forall l, (exists f, In f l /\ parse_fault fl f = true) ->
            exists e f, parse_specs fl choice l = Error e /\ In f l /\ parse_fault fl f = true /\ names e f = true /\ exit_code e = parse_status f).
  { intros l (f & Hin & Hpf). unfold parse_specs. destruct (filter (foreign_fault fl) l) as [|x xs] eqn:Hfil.
    - assert (Hbf : body_fault fl f = true).
      { unfold parse_fault in Hpf. apply orb_true_iff in Hpf. destruct Hpf as [Hff|Hb]; [|exact Hb].
        assert (In f (filter (foreign_fault fl) l)) by (apply filter_In; auto). rewrite Hfil in H. destruct H. }
      destruct (find (body_fault fl) l) as [f'|] eqn:Hfind.
      + apply find_some in Hfind. destruct Hfind as [Hin' Hb']. exists (body_err fl f'), f'.
        split; [reflexivity|]. split; [exact Hin'|]. split; [unfold parse_fault; rewrite Hb'; apply orb_true_r|].
        unfold parse_status, body_fault, body_err in *. destruct (fl f') as [[]|]; try discriminate; cbn; rewrite N.eqb_refl; auto.
      + pose proof (find_none _ _ Hfind f Hin). congruence.
    - assert (Hsel : exists f', In f' (x :: xs) /\
                 match nth_error (x :: xs) (choice mod length (x :: xs)) with Some f0 => Error (foreign_err fl f0) | None => Error (foreign_err fl x) end = Error (foreign_err fl f')).
      { destruct (nth_error (x :: xs) (choice mod length (x :: xs))) as [f0|] eqn:Hn.
        - exists f0. split; [eapply nth_error_In, Hn|reflexivity].
        - exists x. split; [left; reflexivity|reflexivity]. }
      destruct Hsel as (f' & Hf' & ->). rewrite <- Hfil in Hf'. apply filter_In in Hf'. destruct Hf' as [Hin' Hff].
      exists (foreign_err fl f'), f'. split; [reflexivity|]. split; [exact Hin'|].
      split; [unfold parse_fault; rewrite Hff; reflexivity|].
      unfold foreign_err, parse_status, foreign_fault in *. destruct (fl f') as [[]|]; try discriminate; cbn; rewrite N.eqb_refl; auto. }
  assert (Hps_err : forall l e, parse_specs fl choice l = Error e -> exists f, names e f = true /\ fl f <> None).
  { intros l e. unfold parse_specs. destruct (filter (foreign_fault fl) l) as [|x xs] eqn:Hfil.
    - destruct (find (body_fault fl) l) as [f'|] eqn:Hfind; [|discriminate]. intros [= <-].
      apply find_some in Hfind. destruct Hfind as [_ Hb]. exists f'.
      unfold body_fault, body_err in *. destruct (fl f') as [[]|]; try discriminate; cbn; rewrite N.eqb_refl; split; auto; discriminate.
    - assert (Hall : forall f0, In f0 (x :: xs) -> exists f, names (foreign_err fl f0) f = true /\ fl f <> None).
      { intros f0 Hin0. rewrite <- Hfil in Hin0. apply filter_In in Hin0. destruct Hin0 as [_ Hff]. exists f0.
        unfold foreign_err, foreign_fault in *. destruct (fl f0) as [[]|]; try discriminate; cbn; rewrite N.eqb_refl; split; auto; discriminate. }
      destruct (nth_error (x :: xs) (choice mod length (x :: xs))) as [f0|] eqn:Hn; intros [= <-].
      + apply Hall. eapply nth_error_In, Hn.
      + apply Hall. left. reflexivity. }
  assert (Hps_model : forall l l', parse_specs fl choice l = Model l' -> l' = l /\ forall f, In f l -> parse_fault fl f = false).
  { intros l l'. unfold parse_specs. destruct (filter (foreign_fault fl) l) as [|x xs] eqn:Hfil.
    - destruct (find (body_fault fl) l) eqn:Hfind; [discriminate|]. intros [= <-]. split; [reflexivity|].
      intros f Hin. unfold parse_fault. rewrite (find_none _ _ Hfind f Hin), orb_false_r.
      destruct (foreign_fault fl f) eqn:Hff; [|reflexivity].
      assert (In f (filter (foreign_fault fl) l)) by (apply filter_In; auto). rewrite Hfil in H. destruct H.
    - destruct (nth_error (x :: xs) (choice mod length (x :: xs))); discriminate. }
  unfold o, foutcome. destruct (froot s) as [[e|]|] eqn:Hfr; [| |congruence].
  - (* the collection failed *)
    destruct (Hok e eq_refl) as (f & Hn & Hin & Hc).
    split; [discriminate|]. split; [|split; [|split]].
    + intros _. exists e. split; [reflexivity|]. split; [apply exit_code_nonzero|]. exists f. auto.
    + intros l [=].
    + intros e0 [= <-]. exists f. split; [exact Hn|]. unfold collect_fault in Hc. destruct (fl f); [discriminate|discriminate].
    + intros l [=].
  - (* the collection succeeded *)
    rewrite Hl0. split; [|split; [|split; [|split]]].
    + destruct (parse_specs fl choice l0) eqn:Hp; try discriminate.
      unfold parse_specs in Hp. destruct (filter (foreign_fault fl) l0) as [|x xs].
      * destruct (find (body_fault fl) l0); discriminate.
      * destruct (nth_error (x :: xs) (choice mod length (x :: xs))); discriminate.
    + intros Hb. destruct (Hbad Hb) as (e & He). discriminate.
    + intros l _ Hl. injection Hl as <-. apply Hps.
    + apply Hps_err.
    + intros l Hm. destruct (Hps_model _ _ Hm) as [-> Hnone]. split; [|exact Hnone].
      intros Hb. destruct (Hbad Hb) as (e & He). discriminate.
Qed.
End Faults.

(* ---------------- non-vacuity: quiescent runs with faults exist; the first error wins ---------------- *)
(* 0 -> 1,2 ; 1 -> 3 ; 2 -> 3 ; 3 unreadable *)
Definition g_f : graph := graph_of [(0,[1;2]); (1,[3]); (2,[3]); (3,[])]%N.
Definition fl_read3 : faults := fun f => if N.eqb f 3 then Some ReadErr else None.
Example fault_run_a :
  let s := frun R g_f fl_read3 0 0%N (repeat 0 20) in
  fquiescent s = true /\ foutcome R fl_read3 0%N 0 s = Error (EWrap 0 (EWrap 1 (EReadFail 3)))%N.
Proof. vm_compute. split; reflexivity. Qed.
(* the other parent claims 3 first: the error travels through 2 *)
Example fault_run_b :
  let s := frun R g_f fl_read3 0 0%N ([0;0;1;1;0;0] ++ repeat 0 20) in
  fquiescent s = true /\ foutcome R fl_read3 0%N 0 s = Error (EWrap 0 (EWrap 2 (EReadFail 3)))%N.
Proof. vm_compute. split; reflexivity. Qed.
Definition fl_body2 : faults := fun f => if N.eqb f 2 then Some BodySyntax else None.
Example fault_run_c :
  let s := frun R g_f fl_body2 0 0%N (repeat 0 20) in
  fquiescent s = true /\ foutcome R fl_body2 0%N 0 s = Error (ESyntax 2)%N /\
  foutcome R (fun _ => None) 0%N 0 (frun R g_f (fun _ => None) 0 0%N (repeat 0 20)) = Model [0;1;3;2]%N.
Proof. vm_compute. repeat split. Qed.
