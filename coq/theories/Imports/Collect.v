(* MODEL of pkg/parse/parse.go collectSpecs + flattenSpecs as a transition system.
   Definitions only (executable under vm_compute); proofs are in CollectProps.v / FlattenProps.v.

   Files are canonical indices (what fileNameToIndex returns; the harness owns the id <-> name
   table, Index.v models the canonicalisation itself). The import graph gives, for every file,
   the indices its `import` lines resolve to, in textual order.

   A goroutine running collectSpecs(source = f, currentImportDepth = d) is a task. It has two
   yield points: the mutex-protected claim at its entry, and the completion of its read. One
   scheduler choice `step` runs one task from its current yield point to the next:

     AtEntry  : if maxImportDepth > 0 && d >= maxImportDepth  -> return nil        (task ends)
                lock; if retrieved.l[f] exists -> unlock; return nil               (task ends)
                retrieved.l[f] = fi; unlock; ... ReadHashBranch                    (task now Reading)
     Reading  : the read completes: fi.imports = children (ALL textual imports, whatever
                the depth), one goroutine per child at depth d+1 (AtEntry); the task itself
                then only waits in g.Wait() and returns - that join changes nothing in
                retrieved.l and is not represented (the harness observes that Parse returns only
                after every read has been released).

   Which parts of that control flow are read from the current source is in Rules.v. *)
From Coq Require Import List NArith Arith Bool.
Import ListNotations.
Require Import Verif.Imports.Rules.

Definition idx := N.
Definition graph := idx -> list idx.          (* textual import order, canonical indices *)

Inductive phase := AtEntry | Reading.
Record task := { tf : idx; td : nat; tp : phase }.

(* retrieved.l : index |-> fileInfo. eimports = None: claimed, content not yet there. edepth is
   ghost state (the depth of the goroutine that claimed), not stored by the Go code. *)
Record entry := { eimports : option (list idx); edepth : nat }.
Definition cmap := list (idx * entry).
Record state := { claimed : cmap; tasks : list task; reads : list idx (* log of completed reads *) }.

Definition lookup (i:idx) (m:cmap) : option entry :=
  match find (fun p => N.eqb (fst p) i) m with Some p => Some (snd p) | None => None end.
Fixpoint update (i:idx) (e:entry) (m:cmap) : cmap :=
  match m with [] => [(i,e)] | (j,x)::t => if N.eqb i j then (i,e)::t else (j,x)::update i e t end.

Definition init (root:idx) : state :=
  {| claimed := []; tasks := [{| tf := root; td := 0; tp := AtEntry |}]; reads := [] |}.

Fixpoint remove_nth {A} (n:nat) (l:list A) : list A :=
  match n, l with _, [] => [] | 0, _::t => t | S k, x::t => x :: remove_nth k t end.

(* if maxImportDepth > 0 && currentImportDepth >= maxImportDepth { return nil } *)
Definition cut (r:rules) (maxd d:nat) : bool :=
  (if depth_needs_positive_max r then Nat.ltb 0 maxd else true) &&
  match depth_cut r with CutGe => Nat.leb maxd d | CutGt => Nat.ltb maxd d | CutUnknown => false end.

(* one scheduler choice: runnable task number c (mod the number of tasks) runs to its next yield point *)
Definition step (r:rules) (g:graph) (maxd:nat) (s:state) (c:nat) : state :=
  match tasks s with
  | [] => s
  | _ =>
    let n := Nat.modulo c (length (tasks s)) in
    match nth_error (tasks s) n with
    | None => s
    | Some t =>
      let rest := remove_nth n (tasks s) in
      match tp t with
      | AtEntry =>
          if cut r maxd (td t) then {| claimed := claimed s; tasks := rest; reads := reads s |}
          else match lookup (tf t) (claimed s) with
               | Some _ => {| claimed := claimed s; tasks := rest; reads := reads s |}   (* already claimed *)
               | None =>
                   {| claimed := if claim_before_read r
                                 then update (tf t) {| eimports := None; edepth := td t |} (claimed s)
                                 else claimed s;
                      tasks := rest ++ [{| tf := tf t; td := td t; tp := Reading |}];
                      reads := reads s |}
               end
      | Reading =>
          let kids := g (tf t) in
          {| claimed := update (tf t) {| eimports := Some kids; edepth := td t |} (claimed s);
             tasks := rest ++ map (fun k => {| tf := k; td := S (td t); tp := AtEntry |}) kids;
             reads := reads s ++ [tf t] |}
      end
    end
  end.

Definition run r g maxd root (sched:list nat) : state := fold_left (step r g maxd) sched (init root).
Definition quiescent (s:state) : bool := match tasks s with [] => true | _ => false end.

(* ---- flattenSpecs ----
   func flattenSpecs(specs, filename, retrieved):
     if some element of specs has the same index: return
     fi, found := retrieved.l[index]; if found { specs = append(specs, fi.src); for v in fi.imports: flattenSpecs(specs, v, retrieved) }
   None = the fuel ran out (Go: unbounded recursion); FlattenProps.flatten_fuel shows
   fuel > number of map entries + 1 is always enough. *)
Definition mem (f:idx) (l:list idx) : bool := existsb (N.eqb f) l.
Definition in_order (r:rules) (l:list idx) : list idx :=
  match flatten_order r with Forward => l | Reverse => rev l | DirUnknown => [] end.

Fixpoint flatten (r:rules) (fuel:nat) (m:cmap) (acc:list idx) (f:idx) : option (list idx) :=
  match fuel with
  | 0 => None
  | S k =>
    if mem f acc then Some acc else
    match lookup f m with
    | None => Some acc       (* "if it wasn't found it must have been ignored due to depth" *)
    | Some e =>
        fold_left (fun a c => match a with None => None | Some a' => flatten r k m a' c end)
                  (in_order r (match eimports e with Some l => l | None => [] end))
                  (Some (acc ++ [f]))
    end
  end.

Definition flatten_fuel (s:state) : nat := 2 + length (claimed s).
(* what Parse hands to parseSpecs: the processed-file order *)
Definition result r g maxd root sched : bool * option (list idx) :=
  let s := run r g maxd root sched in (quiescent s, flatten r (flatten_fuel s) (claimed s) [] root).

(* ---- specification: depth-first preorder over the graph itself, restricted to `present` ---- *)
Fixpoint dfs (fuel:nat) (g:graph) (present:idx -> bool) (acc:list idx) (f:idx) : option (list idx) :=
  match fuel with
  | 0 => None
  | S k =>
    if mem f acc then Some acc else
    if present f
    then fold_left (fun a c => match a with None => None | Some a' => dfs k g present a' c end)
                   (g f) (Some (acc ++ [f]))
    else Some acc
  end.
Definition closure_spec (fuel:nat) (g:graph) (present:idx -> bool) (root:idx) := dfs fuel g present [] root.

(* ---- the schedules the harness drives: release one blocked read, let every goroutine that is
        not blocked in a read run on until all are (claims are then serialised) ---- *)
Fixpoint find_index {A} (p:A -> bool) (l:list A) : option nat :=
  match l with
  | [] => None
  | x :: t => if p x then Some 0 else match find_index p t with Some i => Some (S i) | None => None end
  end.
Definition is_entry (t:task) : bool := match tp t with AtEntry => true | Reading => false end.
Definition is_reading (f:idx) (t:task) : bool := match tp t with Reading => N.eqb (tf t) f | AtEntry => false end.

Fixpoint settle (r:rules) (g:graph) (maxd:nat) (fuel:nat) (s:state) : state :=
  match fuel with
  | 0 => s
  | S k => match find_index is_entry (tasks s) with
           | None => s
           | Some i => settle r g maxd k (step r g maxd s i)
           end
  end.
Definition settled r g maxd s := settle r g maxd (length (tasks s)) s.

Definition release (r:rules) (g:graph) (maxd:nat) (s:state) (f:idx) : option state :=
  match find_index (is_reading f) (tasks s) with
  | None => None
  | Some i => Some (settled r g maxd (step r g maxd s i))
  end.

(* files whose read is in flight (blocked in the harness's gate) *)
Definition blocked (s:state) : list idx :=
  map tf (filter (fun t => match tp t with Reading => true | AtEntry => false end) (tasks s)).

(* oldest-first schedule until nothing is left to run (used for free-running comparisons) *)
Fixpoint run_fifo (r:rules) (g:graph) (maxd:nat) (fuel:nat) (s:state) : state :=
  match fuel with
  | 0 => s
  | S k => if quiescent s then s else run_fifo r g maxd k (step r g maxd s 0)
  end.

(* graphs in case files are association lists *)
Definition graph_of (l:list (idx * list idx)) : graph :=
  fun i => match find (fun p => N.eqb (fst p) i) l with Some p => snd p | None => [] end.
