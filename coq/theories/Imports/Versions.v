(* MODEL of the branch of collectSpecs that a SECOND claimer of a file takes (NameTables.second_claim_shape):
     if !p.NoDifferentVersionCheck {
        appname1/2 := strings.ReplaceAll(.., " :: ", "::");  different -> ImportError "imported as different appnames"
        ver1/2 := what follows the first '@' of the two file names, master / main / develop counting as none;
                                                              different -> ImportError "imported as different versions" }
   on top of Collect.step: every goroutine carries the TAG (app name, version) of the import line that started it, the
   retrieved map remembers the tag of the claimer. Nothing is cancelled by such an error (errgroup without context): the
   collection runs on, Parse fails at the end. `t_err` = some goroutine returned such an error.
   Definitions only; proofs in VersionsProps.v. *)
From Coq Require Import String Ascii List Bool Arith NArith.
Import ListNotations.
Require Import Verif.Imports.Rules Verif.Imports.Collect Verif.Imports.Paths.

Record tag := { g_app : bytes; g_ver : bytes }.

(* strings.ReplaceAll(s, " :: ", "::") *)
Fixpoint norm_app (s:bytes) : bytes :=
  match s with
  | c1 :: ((c2 :: c3 :: c4 :: r) as r1) =>
      if Ascii.eqb c1 " "%char && Ascii.eqb c2 ":"%char && Ascii.eqb c3 ":"%char && Ascii.eqb c4 " "%char
      then ":"%char :: ":"%char :: norm_app r else c1 :: norm_app r1
  | c :: r => c :: norm_app r
  | [] => []
  end.
(* filename[strings.Index(filename, "@")+1:], "" without '@' *)
Fixpoint ver_of (name:bytes) : bytes :=
  match name with [] => [] | c :: r => if Ascii.eqb c at_c then r else ver_of r end.
Definition norm_ver (v:bytes) : bytes :=
  if beq v (b "master") || beq v (b "main") || beq v (b "develop") then [] else v.

Definition tag_key (t:tag) : bytes * bytes := (norm_app (g_app t), norm_ver (g_ver t)).
Definition same_tag (t1 t2:tag) : bool :=
  beq (fst (tag_key t1)) (fst (tag_key t2)) && beq (snd (tag_key t1)) (snd (tag_key t2)).

Definition tgraph := idx -> list (idx * tag).     (* import lines in textual order: target, tag *)
Definition erase_graph (tg:tgraph) : graph := fun f => map fst (tg f).

Record ttask := { tt : task; ttag : tag }.
Record tstate := { t_st : state; t_tags : list tag (* of the tasks of t_st, same order *);
                   t_claimer : list (idx * tag); t_err : bool }.

Definition tlookup (i:idx) (m:list (idx * tag)) : option tag :=
  match find (fun p => N.eqb (fst p) i) m with Some p => Some (snd p) | None => None end.

Definition tinit (root:idx) (roottag:tag) : tstate :=
  {| t_st := init root; t_tags := [roottag]; t_claimer := []; t_err := false |}.

(* one scheduler choice; the state part is Collect.step itself, the tags follow the tasks *)
Definition tstep (r:rules) (nocheck:bool) (tg:tgraph) (maxd:nat) (s:tstate) (c:nat) : tstate :=
  let st := t_st s in
  match tasks st with
  | [] => s
  | _ =>
    let n := Nat.modulo c (length (tasks st)) in
    match nth_error (tasks st) n, nth_error (t_tags s) n with
    | Some t, Some tgt =>
      let rest := remove_nth n (t_tags s) in
      let st' := step r (erase_graph tg) maxd st c in
      match tp t with
      | AtEntry =>
          if cut r maxd (td t) then {| t_st := st'; t_tags := rest; t_claimer := t_claimer s; t_err := t_err s |}
          else match lookup (tf t) (claimed st) with
               | Some _ =>
                   let clash := match tlookup (tf t) (t_claimer s) with
                                | Some t0 => negb nocheck && negb (same_tag t0 tgt)
                                | None => false
                                end in
                   {| t_st := st'; t_tags := rest; t_claimer := t_claimer s; t_err := t_err s || clash |}
               | None =>
                   {| t_st := st'; t_tags := rest ++ [tgt];
                      t_claimer := if claim_before_read r then t_claimer s ++ [(tf t, tgt)] else t_claimer s;
                      t_err := t_err s |}
               end
      | Reading =>
          {| t_st := st'; t_tags := rest ++ map snd (tg (tf t));
             t_claimer := if claim_before_read r then t_claimer s else t_claimer s ++ [(tf t, tgt)];
             t_err := t_err s |}
      end
    | _, _ => s
    end
  end.

Definition trun r nocheck tg maxd root roottag (sched:list nat) : tstate :=
  fold_left (tstep r nocheck tg maxd) sched (tinit root roottag).

(* the lock-step schedules of Collect.settle / release, with tags *)
Fixpoint tsettle r nocheck tg maxd (fuel:nat) (s:tstate) : tstate :=
  match fuel with
  | 0 => s
  | S k => match find_index is_entry (tasks (t_st s)) with
           | None => s
           | Some i => tsettle r nocheck tg maxd k (tstep r nocheck tg maxd s i)
           end
  end.
Definition tsettled r nocheck tg maxd s := tsettle r nocheck tg maxd (length (tasks (t_st s))) s.
Definition trelease r nocheck tg maxd (s:tstate) (f:idx) : option tstate :=
  match find_index (is_reading f) (tasks (t_st s)) with
  | None => None
  | Some i => Some (tsettled r nocheck tg maxd (tstep r nocheck tg maxd s i))
  end.
