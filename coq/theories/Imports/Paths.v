(* MODEL of the Go path functions the import collector builds file names with, over byte strings (`list ascii`);
   nothing is pre-split, the functions see the '/' and '@' bytes themselves. Definitions only (executable under
   vm_compute); proofs are in PathsProps.v.

     strings.Split / strings.Join            splitc / joinc
     path.Clean (= filepath.Clean on Unix)   clean        as its specification: split at '/', drop "" and ".", let ".."
                                                          cancel the element before it, keep leading ".." of a relative
                                                          path, drop them at the root; "" and an empty result are "."
     path.Join / filepath.Join               join2        Clean(a + "/" + b), empty elements ignored
     path.Dir / filepath.Dir                 dir          Clean(everything up to and including the last '/')
     filepath.Ext(p) == ""                   ext_empty    no '.' in the last element
     regexp `^(//(\w+\.)+\w+(/[\w-]+){2})`   repo_root    syslutil.GetRemoteRepoRoot
     regexp `^((\w+\.)+(\w)+(/[\w-]+){2})((/[\w.-]+)+)(@([\w./-]+))?$`  looks_remote   remotefs.RemoteFs.IsRemote
   The two regular expressions have no ambiguity that back-tracking could exploit (every repetition is over a
   character class that excludes the character the next item starts with), so a maximal-munch scan decides them.
   `clean` is the specification of path.Clean, not its lazy-buffer loop (that loop is transliterated in
   Chroot/Bytes.v for C18); it is tied to the code by the correspondence, which compares every name the real parser
   asks its reader for with the name computed here. *)
From Coq Require Import String Ascii List Bool Arith.
Import ListNotations.

Definition bytes := list ascii.
Definition b (s:string) : bytes := list_ascii_of_string s.

Definition sep : ascii := "/"%char.
Definition dot : ascii := "."%char.
Definition at_c : ascii := "@"%char.
Definition bsl : ascii := Ascii.ascii_of_nat 92.

Fixpoint beq (x y:bytes) : bool :=
  match x, y with
  | [], [] => true
  | c :: x', d :: y' => Ascii.eqb c d && beq x' y'
  | _, _ => false
  end.
Definition is_empty (x:bytes) : bool := match x with [] => true | _ :: _ => false end.
Fixpoint has (c:ascii) (s:bytes) : bool := match s with [] => false | d :: r => Ascii.eqb d c || has c r end.
Fixpoint prefix (p s:bytes) : bool :=
  match p, s with
  | [], _ => true
  | c :: p', d :: s' => Ascii.eqb c d && prefix p' s'
  | _ :: _, [] => false
  end.

(* strings.Split(s, c) *)
Fixpoint splitc (c:ascii) (s:bytes) : list bytes :=
  match s with
  | [] => [[]]
  | d :: r => if Ascii.eqb d c then [] :: splitc c r
              else match splitc c r with
                   | [] => [[d]]
                   | x :: xs => (d :: x) :: xs
                   end
  end.
(* strings.Join(l, c) *)
Fixpoint joinc (c:ascii) (l:list bytes) : bytes :=
  match l with
  | [] => []
  | x :: r => match r with [] => x | _ :: _ => x ++ c :: joinc c r end
  end.

Definition dotdot : bytes := [dot; dot].

(* ---- path.Clean ---- *)
(* the element stack (innermost first) and the number of leading ".." of a relative path *)
Fixpoint norm_rev (rooted:bool) (ups:nat) (st:list bytes) (l:list bytes) : nat * list bytes :=
  match l with
  | [] => (ups, st)
  | x :: r =>
      if is_empty x || beq x [dot] then norm_rev rooted ups st r
      else if beq x dotdot then
        match st with
        | _ :: st' => norm_rev rooted ups st' r
        | [] => norm_rev rooted (if rooted then ups else S ups) [] r
        end
      else norm_rev rooted ups (x :: st) r
  end.
Definition is_rooted (p:bytes) : bool := match p with c :: _ => Ascii.eqb c sep | [] => false end.
Definition render (rooted:bool) (ups:nat) (names:list bytes) : bytes :=
  let segs := repeat dotdot ups ++ names in
  if rooted then sep :: joinc sep segs
  else match segs with [] => [dot] | _ :: _ => joinc sep segs end.
(* what a path MEANS: rooted or not, how far above its starting point, which names below *)
Definition meaning (p:bytes) : bool * nat * list bytes :=
  let r := is_rooted p in let (u, st) := norm_rev r 0 [] (splitc sep p) in (r, u, rev st).
Definition clean (p:bytes) : bytes :=
  match p with
  | [] => [dot]
  | _ :: _ => match meaning p with (r, u, names) => render r u names end
  end.

(* path.Join(a, b) / filepath.Join(a, b) *)
Definition join2 (a c:bytes) : bytes :=
  if is_empty a then (if is_empty c then [] else clean c)
  else if is_empty c then clean a else clean (a ++ sep :: c).

(* path[:i+1] for the last '/' at i *)
Fixpoint dir_part (p:bytes) : bytes :=
  match p with
  | [] => []
  | c :: r => if has sep r then c :: dir_part r else if Ascii.eqb c sep then [sep] else []
  end.
Definition dir (p:bytes) : bytes := clean (dir_part p).

(* filepath.Ext(p) == "" *)
Definition ext_empty (p:bytes) : bool := negb (has dot (last (splitc sep p) [])).

(* ---- the regular expressions ---- *)
Definition in_range (lo hi:nat) (c:ascii) : bool := let n := nat_of_ascii c in Nat.leb lo n && Nat.leb n hi.
Definition is_word (c:ascii) : bool := in_range 48 57 c || in_range 65 90 c || in_range 97 122 c || Ascii.eqb c "_"%char.
Definition is_word_dash (c:ascii) : bool := is_word c || Ascii.eqb c "-"%char.
Definition is_word_dot_dash (c:ascii) : bool := is_word_dash c || Ascii.eqb c dot.
Definition is_ver_char (c:ascii) : bool := is_word_dot_dash c || Ascii.eqb c sep.

Fixpoint span (p:ascii -> bool) (s:bytes) : bytes * bytes :=
  match s with
  | [] => ([], [])
  | c :: r => if p c then let (a, r') := span p r in (c :: a, r') else ([], s)
  end.

(* (\w+\.)+\w+ : at least two non-empty words separated by single dots; returns (host, rest) *)
Definition match_host (s:bytes) : option (bytes * bytes) :=
  let (h, rest) := span (fun c => is_word c || Ascii.eqb c dot) s in
  let labels := splitc dot h in
  if Nat.leb 2 (length labels) && forallb (fun l => negb (is_empty l)) labels then Some (h, rest) else None.
(* /[\w-]+ *)
Definition match_seg (p:ascii -> bool) (s:bytes) : option (bytes * bytes) :=
  match s with
  | c :: r => if Ascii.eqb c sep then let (a, r') := span p r in if is_empty a then None else Some (sep :: a, r') else None
  | [] => None
  end.
(* (\w+\.)+\w+(/[\w-]+){2} *)
Definition match_repo (s:bytes) : option (bytes * bytes) :=
  match match_host s with
  | None => None
  | Some (h, r0) =>
      match match_seg is_word_dash r0 with
      | None => None
      | Some (s1, r1) =>
          match match_seg is_word_dash r1 with
          | None => None
          | Some (s2, r2) => Some (h ++ s1 ++ s2, r2)
          end
      end
  end.
(* syslutil.GetRemoteRepoRoot *)
Definition repo_root (p:bytes) : bytes :=
  match p with
  | c1 :: c2 :: r =>
      if Ascii.eqb c1 sep && Ascii.eqb c2 sep then
        match match_repo r with Some (m, _) => sep :: sep :: m | None => [dot] end
      else [dot]
  | _ => [dot]
  end.
(* ((/[\w.-]+)+)(@([\w./-]+))?$ *)
Fixpoint match_tail (fuel:nat) (seen:bool) (s:bytes) : bool :=
  match fuel with
  | 0 => false
  | S k =>
      match s with
      | [] => seen
      | c :: r =>
          if Ascii.eqb c at_c then seen && negb (is_empty r) && forallb is_ver_char r
          else match match_seg is_word_dot_dash s with
               | None => false
               | Some (_, r') => match_tail k true r'
               end
      end
  end.
(* remotefs.RemoteFs.IsRemote *)
Definition looks_remote (p:bytes) : bool :=
  prefix [sep; sep] p ||
  match match_repo p with
  | None => false
  | Some (_, r) => match_tail (S (length r)) false r
  end.
