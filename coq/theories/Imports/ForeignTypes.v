(* Types of the table Gen/FaultArms.v (translator translate/faultarms.go): how a file name selects a decoder of
   compiled models (pkg/pbutil/input.go fromPBContents), the importable formats (pkg/importer/formats.go) and the
   lists an `import` statement may resolve to (pkg/parse/parse.go detectFileType, pkg/importer/importer.go Formats). *)
From Coq Require Import String List.
Import ListNotations.

Inductive decoder := DecBinary | DecJson | DecText | DecOther.
(* the regular expressions of formats.go the model has a matcher for; anything else is SigUnknown *)
Inductive sigre := SigNone | SigOpenapi | SigSwagger | SigSchema | SigUnknown.
Record format := { fvar : string; fname : string; fsig : sigre; fexts : list string }.

Record tables := {
  t_pb : list (string * decoder);   (* arms of fromPBContents, in order: (suffix, decoder) *)
  t_pb_unknown_after : bool;        (* no arm matched: return nil, ErrUnknownExtension *)
  t_vars : list format;             (* every `var X = Format{..}` of formats.go *)
  t_all : list format;              (* importer.Formats, in order (what importer.Factory detects among) *)
  t_parser : list format            (* detectFileType's list, in order *)
}.
