(* For WHICH graphs the depth-limited result is independent of the schedule (the known finding narrowed).
   A file is SURE under the limit n when it is claimed whatever the completion order of the reads: the root is; an
   import k of a sure file f is, provided f cannot be claimed at a depth that puts k at or beyond the limit - every
   walk to f that is shorter than n is shorter than n-1. If every file nearer than n is sure, the result is exactly
   the files nearer than n in textual depth-first order, under every schedule. This covers every graph in which each
   file has one depth below the limit (so all of closure_depth_unique, and cyclic graphs too, whose longer walks lie
   beyond the limit) and graphs with files at several depths whose imports are all within the limit anyway. *)
From Coq Require Import List NArith Arith Bool Lia.
Import ListNotations.
Require Import Verif.Imports.Rules Verif.Imports.Collect Verif.Imports.CollectProps Verif.Imports.FlattenProps.

Notation R := expected_rules.

Section Sure.
Variable g : graph.
Variable root : idx.
Variable maxd : nat.

Inductive sure : idx -> Prop :=
| sure_root : sure root
| sure_step f k : sure f -> In k (g f) -> (forall d, walk g root f d -> d < maxd -> S d < maxd) -> sure k.

Lemma sure_reach f : sure f -> exists d, walk g root f d.
Proof.
  induction 1 as [|f k _ (d & Hw) Hk _]; [exists 0; apply walk_root|].
  exists (S d). eapply walk_step; eassumption.
Qed.

Theorem sure_claimed sched : quiescent (run R g maxd root sched) = true -> 0 < maxd ->
  forall f, sure f -> lookup f (claimed (run R g maxd root sched)) <> None.
Proof.
  intros Hq Hpos f Hs. induction Hs as [|f k _ IH Hk Hsafe].
  - apply (root_claimed g root maxd sched Hq).
  - destruct (lookup f (claimed (run R g maxd root sched))) as [e|] eqn:He; [|congruence].
    pose proof (inv_run g root maxd sched) as I.
    destruct (inv_claimed_walk g root maxd _ I f e He) as [Hw Hc].
    assert (Hlt : edepth e < maxd).
    { destruct (Nat.lt_ge_cases (edepth e) maxd) as [H|H]; [exact H|].
      assert (cut R maxd (edepth e) = true) by (apply cut_spec; lia). congruence. }
    destruct (depth_closed g root maxd sched Hq f e k He Hk) as [Hcut|Hcl]; [|exact Hcl].
    apply cut_spec in Hcut. specialize (Hsafe (edepth e) Hw Hlt). lia.
Qed.

Hypothesis all_sure : forall f, nearer g root maxd f -> sure f.

Theorem closure_depth_sure sched : quiescent (run R g maxd root sched) = true -> 0 < maxd ->
  forall f, lookup f (claimed (run R g maxd root sched)) <> None <-> nearer g root maxd f.
Proof.
  intros Hq Hpos f. split.
  - intros Hn. destruct (depth_sound g root maxd sched Hq f Hn) as (d & Hw & [Hz|Hlt]); [lia|]. exists d. auto.
  - intros Hn. apply (sure_claimed sched Hq Hpos), all_sure, Hn.
Qed.

Theorem closure_depth_sure_result sched : quiescent (run R g maxd root sched) = true -> 0 < maxd ->
  exists l, final g root maxd sched = Some l /\ NoDup l /\ (forall f, In f l <-> nearer g root maxd f) /\
    (forall fuel l', dfs fuel g (fun f => match lookup f (claimed (run R g maxd root sched)) with Some _ => true | None => false end) [] root = Some l' -> l' = l).
Proof.
  intros Hq Hpos. destruct (flatten_total g root maxd sched) as (l & Hl). exists l. split; [exact Hl|].
  destruct (result_shape g root maxd sched l Hq Hl) as (Hnd & Hroot & Hgot & Hclosed).
  pose proof (closure_depth_sure sched Hq Hpos) as Hcd.
  split; [exact Hnd|]. split.
  - intros f. split.
    + intros Hin. apply Hcd, Hgot, Hin.
    + intros (d & Hw & Hlt). induction Hw as [|f d k Hw IH Hk]; [exact Hroot|].
      apply (Hclosed f k); [apply IH; lia|exact Hk|]. apply Hcd. exists (S d). split; [eapply walk_step; eassumption|exact Hlt].
  - intros fuel l' Hl'. unfold final, result in Hl. cbn [snd] in Hl.
    rewrite flatten_is_dfs, (result_is_dfs g root maxd sched Hq) in Hl.
    set (k := Nat.max fuel (flatten_fuel (run R g maxd root sched))).
    apply (dfs_fuel_mono _ _ _ k) in Hl'; [|apply Nat.le_max_l]. apply (dfs_fuel_mono _ _ _ k) in Hl; [|apply Nat.le_max_r].
    unfold present_of in Hl. congruence.
Qed.

Theorem closure_depth_sure_independent s1 s2 :
  quiescent (run R g maxd root s1) = true -> quiescent (run R g maxd root s2) = true -> 0 < maxd ->
  final g root maxd s1 = final g root maxd s2.
Proof.
  intros Hq1 Hq2 Hpos. apply result_determined_by_domain; [exact Hq1|exact Hq2|].
  intros f. unfold got. rewrite (closure_depth_sure s1 Hq1 Hpos f), (closure_depth_sure s2 Hq2 Hpos f). reflexivity.
Qed.
End Sure.

(* every file at one depth BELOW THE LIMIT (longer walks, e.g. round a cycle, do not count) => every nearer file is sure *)
Lemma unique_below_sure g root maxd :
  (forall f d d', walk g root f d -> walk g root f d' -> d < maxd -> d' < maxd -> d = d') ->
  forall f, nearer g root maxd f -> sure g root maxd f.
Proof.
  intros Hu f (d & Hw & Hlt). induction Hw as [|f d k Hw IH Hk]; [apply sure_root|].
  apply (sure_step g root maxd f k); [apply IH; lia|exact Hk|].
  intros d' Hw' Hlt'. assert (d' = d) by (apply (Hu f d' d Hw' Hw); lia). lia.
Qed.

(* the depth witness root->a,b; a->x; b->c; c->x; x->y: under the limit 5 every file is sure although x and y lie at
   two depths (2,3 and 3,4); under the limit 4 the file y is not, and the result does depend on the schedule
   (closure_depth_refuted) *)
Example witness_sure_at_5 : forall f, nearer g_witness 0%N 5 f -> sure g_witness 0%N 5 f.
Proof.
  assert (W : forall f d, walk g_witness 0%N f d ->
            (f = 0%N /\ d = 0) \/ (f = 1%N /\ d = 1) \/ (f = 2%N /\ d = 1) \/ (f = 3%N /\ d = 2) \/
            (f = 4%N /\ (d = 2 \/ d = 3)) \/ (f = 5%N /\ (d = 3 \/ d = 4))).
  { intros f d Hw. induction Hw as [|f d k Hw IH Hk]; [intuition lia|].
    destruct IH as [[-> ->]|[[-> ->]|[[-> ->]|[[-> ->]|[[-> [->| ->]]|[-> [->| ->]]]]]]]; vm_compute in Hk;
      repeat (destruct Hk as [<-|Hk]; [intuition lia|]); destruct Hk. }
  assert (s0 : sure g_witness 0%N 5 0%N) by apply sure_root.
  assert (safe : forall f, (f = 0%N \/ f = 1%N \/ f = 2%N \/ f = 3%N \/ f = 4%N) ->
            forall d, walk g_witness 0%N f d -> d < 5 -> S d < 5).
  { intros f Hf d Hw _. apply W in Hw. lia. }
  assert (s1 : sure g_witness 0%N 5 1%N) by (apply (sure_step _ _ _ 0%N); [exact s0|vm_compute; intuition lia|apply safe; intuition lia]).
  assert (s2 : sure g_witness 0%N 5 2%N) by (apply (sure_step _ _ _ 0%N); [exact s0|vm_compute; intuition lia|apply safe; intuition lia]).
  assert (s3 : sure g_witness 0%N 5 3%N) by (apply (sure_step _ _ _ 2%N); [exact s2|vm_compute; intuition lia|apply safe; intuition lia]).
  assert (s4 : sure g_witness 0%N 5 4%N) by (apply (sure_step _ _ _ 1%N); [exact s1|vm_compute; intuition lia|apply safe; intuition lia]).
  assert (s5 : sure g_witness 0%N 5 5%N) by (apply (sure_step _ _ _ 4%N); [exact s4|vm_compute; intuition lia|apply safe; intuition lia]).
  intros f (d & Hw & _). apply W in Hw.
  destruct Hw as [[-> _]|[[-> _]|[[-> _]|[[-> _]|[[-> _]|[-> _]]]]]]; assumption.
Qed.

(* a TEST (vm_compute): the two schedules that disagree under the limit 4 agree under the limit 5 *)
Example witness_limit5_agrees :
  result R g_witness 5 0%N sched_A = (true, Some [0;1;4;5;2;3]%N) /\
  result R g_witness 5 0%N sched_B = (true, Some [0;1;4;5;2;3]%N).
Proof. vm_compute. split; reflexivity. Qed.
