(* MODEL of a parse.Parser VALUE that is used for several compilations: Set, Parse, Set, Parse, ...
     func (p *Parser) Set(settings Settings) { p.Settings = settings }             replace, not merge
     Parse: retrieved := retrievedList{make(map...), sync.Mutex{}}                  a fresh map per call
            p.collectSpecs(ctx, newImportDef(resource), reader, &retrieved, p.MaxImportDepth, 0)
   What of this is read off the current source is `hrules_of` of the regenerated NameRules table: Set is the
   single assignment of the whole struct and nothing else in package parse writes a Settings field; the retrieved
   map is declared inside Parse. Where the source says otherwise the model follows it: a retrieved map that outlives
   the call (`retrieved_fresh = false`) is what the next Parse starts from.
   Definitions only; proofs in HistoryProps.v. *)
From Coq Require Import String List NArith Arith Bool.
Import ListNotations.
Require Import Verif.Base.Harness Verif.Imports.Rules Verif.Imports.Collect Verif.Imports.NameTables.
Local Open Scope string_scope.
Local Open Scope list_scope.

Record settings := { s_maxd : nat; s_summary : bool; s_nocheck : bool; s_noparse : bool }.
Definition zero_settings : settings := {| s_maxd := 0; s_summary := false; s_nocheck := false; s_noparse := false |}.

Record hrules := { set_replaces : bool; retrieved_fresh : bool }.
Definition expected_hrules : hrules := {| set_replaces := true; retrieved_fresh := true |}.

Definition hrules_of (nr:name_rules) : hrules :=
  {| set_replaces := list_eqb String.eqb (set_shape nr) ["p.Settings = settings"]
                     && list_eqb String.eqb (settings_writers nr) ["Parser.Set"];
     retrieved_fresh := existsb (String.eqb "retrieved := retrievedList{make(map[retrievedListIndex]*fileInfo), sync.Mutex{}}")
                                (parse_collect_shape nr)
                        && existsb (String.eqb "flattenSpecs(&specs, resource, &retrieved)") (parse_collect_shape nr) |}.

(* the parser value: its settings, and the retrieved map of its last Parse (reachable from the parser only if the
   source keeps it there) *)
Record parser := { p_settings : settings; p_retrieved : cmap }.
Definition new_parser : parser := {| p_settings := zero_settings; p_retrieved := [] |}.

Inductive hop :=
| HSet (s:settings)
| HParse (g:graph) (root:idx) (sched:list nat).

Definition do_set (hr:hrules) (p:parser) (s:settings) : parser :=
  if set_replaces hr then {| p_settings := s; p_retrieved := p_retrieved p |} else p.

(* the state collectSpecs starts from *)
Definition start (hr:hrules) (p:parser) (root:idx) : state :=
  {| claimed := if retrieved_fresh hr then [] else p_retrieved p;
     tasks := [{| tf := root; td := 0; tp := AtEntry |}]; reads := [] |}.

Definition parse_run (r:rules) (hr:hrules) (g:graph) (p:parser) (root:idx) (sched:list nat) : state :=
  fold_left (step r g (s_maxd (p_settings p))) sched (start hr p root).

Definition outcome := (bool * option (list idx))%type.     (* as Collect.result: quiescent?, processed order *)

Definition hstep (r:rules) (hr:hrules) (acc:parser * list outcome) (o:hop) : parser * list outcome :=
  let (p, outs) := acc in
  match o with
  | HSet s => (do_set hr p s, outs)
  | HParse g root sched =>
      let st := parse_run r hr g p root sched in
      ({| p_settings := p_settings p; p_retrieved := claimed st |},
       outs ++ [(quiescent st, flatten r (flatten_fuel st) (claimed st) [] root)])
  end.

(* the results of the Parse calls of a history on one parser, in order *)
Definition run_history (r:rules) (hr:hrules) (ops:list hop) : list outcome :=
  snd (fold_left (hstep r hr) ops (new_parser, [])).

(* specification: every Parse paired with the settings of the latest Set before it *)
Fixpoint with_latest (cur:settings) (ops:list hop) : list (settings * graph * idx * list nat) :=
  match ops with
  | [] => []
  | HSet s :: r => with_latest s r
  | HParse g root sched :: r => (cur, g, root, sched) :: with_latest cur r
  end.
