(* Proofs about the collection model (Collect.v) for the rules the model was transliterated from
   (Rules.expected_rules), for EVERY schedule, every graph (cycles, diamonds, self-imports, repeated
   imports) and every depth limit.

   Main results (all at quiescence = no goroutine left to run):
     collect_map        the retrieved map holds, for every claimed file, exactly its own textual imports
     claim_once         every claimed file was read exactly once (the read log has no duplicates)
     closure_unlimited  maxd = 0: claimed = reachable, whatever the schedule
     depth_sound        maxd > 0: every claimed file has a path from the root shorter than maxd
     depth_complete_unique_depth
                        maxd > 0: every file ALL of whose paths from the root have one length d < maxd is claimed
     depth_closed       the claimed set is closed under imports up to the depth at which each file was
                        claimed (prefix-closed)
     closure_depth_refuted
                        the full statement (result independent of the schedule) is FALSE for maxd > 0:
                        graph root->a,b; a->x; b->c; c->x; x->y, maxd = 4, two schedules, two results *)
From Coq Require Import List NArith Arith Bool Lia.
Import ListNotations.
Require Import Verif.Imports.Rules Verif.Imports.Collect.

Notation R := expected_rules.

(* ---------- assoc-map lemmas ---------- *)
Lemma lookup_update_eq i e m : lookup i (update i e m) = Some e.
Proof.
  induction m as [|[j x] t IH]; unfold lookup in *; cbn [update find fst snd].
  - rewrite N.eqb_refl. reflexivity.
  - destruct (N.eqb_spec i j) as [->|Hne]; cbn [find fst snd].
    + rewrite N.eqb_refl. reflexivity.
    + destruct (N.eqb_spec j i) as [->|_]; [congruence|]. exact IH.
Qed.

Lemma lookup_update_neq i k e m : k <> i -> lookup k (update i e m) = lookup k m.
Proof.
  intros Hne. induction m as [|[j x] t IH]; unfold lookup in *; cbn [update find fst snd].
  - destruct (N.eqb_spec i k) as [->|_]; [congruence|reflexivity].
  - destruct (N.eqb_spec i j) as [->|Hij]; cbn [find fst snd].
    + destruct (N.eqb_spec j k) as [->|_]; [congruence|reflexivity].
    + destruct (N.eqb_spec j k); [reflexivity|exact IH].
Qed.

Lemma lookup_in_keys i e m : lookup i m = Some e -> In i (map fst m).
Proof.
  unfold lookup. destruct (find (fun p => N.eqb (fst p) i) m) as [p|] eqn:Hf; [|discriminate].
  intros _. apply find_some in Hf. destruct Hf as [Hin Heq]. apply N.eqb_eq in Heq. subst i.
  apply in_map, Hin.
Qed.

(* ---------- picking a task ---------- *)
Lemma nth_split {A} (l:list A) n t : nth_error l n = Some t ->
  exists l1 l2, l = l1 ++ t :: l2 /\ remove_nth n l = l1 ++ l2.
Proof.
  revert n; induction l as [|x l IH]; intros [|n] H; cbn in H; try discriminate.
  - injection H as ->. exists [], l. split; reflexivity.
  - destruct (IH n H) as (l1 & l2 & -> & Hr). exists (x::l1), l2. cbn. rewrite Hr. split; reflexivity.
Qed.

Lemma in_app_mid {A} (x t:A) l1 l2 : In x (l1 ++ t :: l2) <-> x = t \/ In x (l1 ++ l2).
Proof. rewrite !in_app_iff. cbn. intuition congruence. Qed.

Lemma NoDup_app_one {A} (l:list A) x : NoDup l -> ~ In x l -> NoDup (l ++ [x]).
Proof.
  induction l as [|a l IH]; intros Hnd Hni; cbn.
  - constructor; [intros []|constructor].
  - inversion Hnd as [|a' l' Ha Hl]; subst. constructor.
    + rewrite in_app_iff. cbn. intros [H|[H|[]]]; [exact (Ha H)|subst; apply Hni; left; reflexivity].
    + apply IH; [exact Hl|intros H; apply Hni; right; exact H].
Qed.

Lemma cut_spec maxd d : cut R maxd d = true <-> 0 < maxd /\ maxd <= d.
Proof.
  unfold cut. cbn [depth_needs_positive_max depth_cut R].
  rewrite andb_true_iff, Nat.ltb_lt, Nat.leb_le. reflexivity.
Qed.
Lemma cut_depth0 maxd : cut R maxd 0 = false.
Proof. destruct (cut R maxd 0) eqn:H; [|reflexivity]. apply cut_spec in H. lia. Qed.
Lemma cut_unlimited d : cut R 0 d = false.
Proof. destruct (cut R 0 d) eqn:H; [|reflexivity]. apply cut_spec in H. lia. Qed.

Section Collect.
Variable g : graph.
Variable root : idx.
Variable maxd : nat.

(* a path of d import steps from the root *)
Inductive walk : idx -> nat -> Prop :=
| walk_root : walk root 0
| walk_step f d k : walk f d -> In k (g f) -> walk k (S d).
Definition reach (f:idx) : Prop := exists d, walk f d.

Definition rd (f:idx) (t:task) : bool := match tp t with Reading => N.eqb (tf t) f | AtEntry => false end.
Definition nreading f (l:list task) := length (filter (rd f) l).

Record Inv (s:state) : Prop := {
  inv_claimed_walk : forall f e, lookup f (claimed s) = Some e -> walk f (edepth e) /\ cut R maxd (edepth e) = false;
  inv_task_walk : forall t, In t (tasks s) -> walk (tf t) (td t);
  inv_reading_unread : forall t, In t (tasks s) -> tp t = Reading ->
      exists e, lookup (tf t) (claimed s) = Some e /\ eimports e = None /\ edepth e = td t;
  inv_unread_reading : forall f e, lookup f (claimed s) = Some e -> eimports e = None ->
      exists t, In t (tasks s) /\ tf t = f /\ tp t = Reading;
  inv_read_closed : forall f e kids, lookup f (claimed s) = Some e -> eimports e = Some kids ->
      kids = g f /\ forall k, In k kids ->
        cut R maxd (S (edepth e)) = true \/ lookup k (claimed s) <> None \/
        exists t, In t (tasks s) /\ tf t = k /\ tp t = AtEntry /\ td t = S (edepth e);
  inv_root : lookup root (claimed s) <> None \/ exists t, In t (tasks s) /\ tf t = root /\ tp t = AtEntry /\ td t = 0;
  inv_one_reader : forall f, nreading f (tasks s) <= 1;
  inv_reads_nodup : NoDup (reads s);
  inv_reads : forall f, In f (reads s) <-> exists e, lookup f (claimed s) = Some e /\ eimports e <> None
}.

Lemma nreading_app f l1 l2 : nreading f (l1 ++ l2) = nreading f l1 + nreading f l2.
Proof. unfold nreading. rewrite filter_app, app_length. reflexivity. Qed.
Lemma nreading_cons f t l : nreading f (t :: l) = (if rd f t then 1 else 0) + nreading f l.
Proof. unfold nreading. cbn [filter]. destruct (rd f t); reflexivity. Qed.
Lemma nreading_pos f t l : In t l -> tp t = Reading -> tf t = f -> 1 <= nreading f l.
Proof.
  induction l as [|x l IH]; intros Hin Hp Hf; [destruct Hin|].
  rewrite nreading_cons. destruct Hin as [->|Hin].
  - unfold rd. rewrite Hp, Hf, N.eqb_refl. lia.
  - specialize (IH Hin Hp Hf). lia.
Qed.
Lemma nreading_atentry f (ks:list idx) d :
  nreading f (map (fun k => {| tf := k; td := d; tp := AtEntry |}) ks) = 0.
Proof. induction ks as [|k ks IH]; [reflexivity|]. cbn [map]. rewrite nreading_cons. cbn. exact IH. Qed.

Lemma inv_init : Inv (init root).
Proof.
  constructor; cbn [init claimed tasks reads]; intros.
  - discriminate.
  - destruct H as [<-|[]]. apply walk_root.
  - destruct H as [<-|[]]. discriminate.
  - discriminate.
  - discriminate.
  - right. eexists. split; [left; reflexivity|repeat split].
  - cbn. lia.
  - constructor.
  - split; [intros []|intros (e & He & _); discriminate].
Qed.

(* relational presentation of one scheduler step *)
Lemma step_cases s c : tasks s <> [] ->
  exists l1 t l2, tasks s = l1 ++ t :: l2 /\
   ( (tp t = AtEntry /\ cut R maxd (td t) = true /\
        step R g maxd s c = {| claimed := claimed s; tasks := l1 ++ l2; reads := reads s |})
  \/ (tp t = AtEntry /\ cut R maxd (td t) = false /\ lookup (tf t) (claimed s) <> None /\
        step R g maxd s c = {| claimed := claimed s; tasks := l1 ++ l2; reads := reads s |})
  \/ (tp t = AtEntry /\ cut R maxd (td t) = false /\ lookup (tf t) (claimed s) = None /\
        step R g maxd s c = {| claimed := update (tf t) {| eimports := None; edepth := td t |} (claimed s);
                               tasks := (l1 ++ l2) ++ [{| tf := tf t; td := td t; tp := Reading |}];
                               reads := reads s |})
  \/ (tp t = Reading /\
        step R g maxd s c = {| claimed := update (tf t) {| eimports := Some (g (tf t)); edepth := td t |} (claimed s);
                               tasks := (l1 ++ l2) ++ map (fun k => {| tf := k; td := S (td t); tp := AtEntry |}) (g (tf t));
                               reads := reads s ++ [tf t] |}) ).
Proof.
  intros Hne. unfold step. destruct (tasks s) as [|t0 ts] eqn:Ht; [congruence|].
  set (n := c mod length (t0 :: ts)).
  assert (Hn : n < length (t0::ts)) by (apply Nat.mod_upper_bound; cbn; lia).
  destruct (nth_error (t0::ts) n) as [t|] eqn:Hnth; [|apply nth_error_None in Hnth; lia].
  destruct (nth_split _ _ _ Hnth) as (l1 & l2 & Hsplit & Hrem).
  exists l1, t, l2. split; [exact Hsplit|]. rewrite Hrem.
  destruct (tp t) eqn:Hp.
  - destruct (cut R maxd (td t)) eqn:Hc.
    + left. repeat split.
    + destruct (lookup (tf t) (claimed s)) eqn:Hl.
      * right; left. repeat split. discriminate.
      * right; right; left. repeat split.
  - right; right; right. split; reflexivity.
Qed.

Lemma inv_step s c : Inv s -> Inv (step R g maxd s c).
Proof.
  intros I. destruct (tasks s) as [|t0 ts] eqn:Hts.
  { unfold step. rewrite Hts. exact I. }
  assert (Hne : tasks s <> []) by (rewrite Hts; discriminate).
  clear Hts t0 ts.
  destruct (step_cases s c Hne) as (l1 & t & l2 & Hsplit & Hcase).
  assert (Hin_t : In t (tasks s)) by (rewrite Hsplit; apply in_app_mid; left; reflexivity).
  assert (Hrest : forall x, In x (l1 ++ l2) -> In x (tasks s))
    by (intros x Hx; rewrite Hsplit; apply in_app_mid; right; exact Hx).
  assert (Hback : forall x, In x (tasks s) -> x = t \/ In x (l1 ++ l2))
    by (intros x Hx; rewrite Hsplit in Hx; apply in_app_mid in Hx; exact Hx).
  assert (Hcount : forall f, nreading f (tasks s) = (if rd f t then 1 else 0) + nreading f (l1 ++ l2)).
  { intros f. rewrite Hsplit, !nreading_app, nreading_cons. lia. }
  (* the two "task simply ends" cases share one proof: the removed entry task is never needed as a witness *)
  assert (Hdrop : tp t = AtEntry -> (cut R maxd (td t) = true \/ lookup (tf t) (claimed s) <> None) ->
                  Inv {| claimed := claimed s; tasks := l1 ++ l2; reads := reads s |}).
  { intros Hp Hwhy. constructor; cbn [claimed tasks reads].
    + apply I.
    + intros x Hx. apply I, Hrest, Hx.
    + intros x Hx Hr. apply (inv_reading_unread s I); [apply Hrest, Hx|exact Hr].
    + intros f e Hf Hu. destruct (inv_unread_reading s I f e Hf Hu) as (x & Hx & Hfx & Hpx).
      exists x. split; [|split; assumption].
      destruct (Hback x Hx) as [->|Hx']; [congruence|exact Hx'].
    + intros f e kids Hf He. destruct (inv_read_closed s I f e kids Hf He) as [Hk Hall]. split; [exact Hk|].
      intros k Hkin. destruct (Hall k Hkin) as [Hc|[Hc|(x & Hx & Hfx & Hpx & Hdx)]]; [left; exact Hc|right; left; exact Hc|].
      destruct (Hback x Hx) as [->|Hx'].
      * destruct Hwhy as [Hcut|Hl]; [left; rewrite <- Hdx; exact Hcut|right; left; rewrite <- Hfx; exact Hl].
      * right; right. exists x. auto.
    + destruct (inv_root s I) as [Hc|(x & Hx & Hfx & Hpx & Hdx)]; [left; exact Hc|].
      destruct (Hback x Hx) as [->|Hx'].
      * destruct Hwhy as [Hcut|Hl]; [rewrite Hdx, cut_depth0 in Hcut; discriminate|left; rewrite <- Hfx; exact Hl].
      * right. exists x. auto.
    + intros f. pose proof (inv_one_reader s I f) as H1. rewrite Hcount in H1. lia.
    + apply I.
    + apply I. }
  destruct Hcase as [(Hp & Hc & ->) | [(Hp & Hc & Hl & ->) | [(Hp & Hc & Hl & ->) | (Hp & ->)]]].
  - apply Hdrop; [exact Hp|left; exact Hc].
  - apply Hdrop; [exact Hp|right; exact Hl].
  - (* first arrival: claim, then go and read *)
    set (nt := {| tf := tf t; td := td t; tp := Reading |}).
    set (ne := {| eimports := None; edepth := td t |}).
    constructor; cbn [claimed tasks reads].
    + intros f e Hf. destruct (N.eq_dec f (tf t)) as [->|Hn].
      * rewrite lookup_update_eq in Hf. injection Hf as <-. cbn [ne edepth].
        split; [apply (inv_task_walk s I t Hin_t)|exact Hc].
      * rewrite lookup_update_neq in Hf by exact Hn. apply (inv_claimed_walk s I f e Hf).
    + intros x Hx. apply in_app_iff in Hx. destruct Hx as [Hx|[<-|[]]].
      * apply I, Hrest, Hx.
      * apply (inv_task_walk s I t Hin_t).
    + intros x Hx Hr. apply in_app_iff in Hx. destruct Hx as [Hx|[<-|[]]].
      * destruct (inv_reading_unread s I x (Hrest x Hx) Hr) as (e & He & Hu & Hd).
        exists e. split; [|split; assumption]. rewrite lookup_update_neq; [exact He|].
        intros Heq. rewrite Heq in He. congruence.
      * exists ne. split; [apply lookup_update_eq|split; reflexivity].
    + intros f e Hf Hu. destruct (N.eq_dec f (tf t)) as [->|Hn].
      * exists nt. split; [apply in_app_iff; right; left; reflexivity|split; reflexivity].
      * rewrite lookup_update_neq in Hf by exact Hn.
        destruct (inv_unread_reading s I f e Hf Hu) as (x & Hx & Hfx & Hpx).
        exists x. split; [|split; assumption]. apply in_app_iff. left.
        destruct (Hback x Hx) as [->|Hx']; [congruence|exact Hx'].
    + intros f e kids Hf He. destruct (N.eq_dec f (tf t)) as [->|Hn].
      * rewrite lookup_update_eq in Hf. injection Hf as <-. discriminate.
      * rewrite lookup_update_neq in Hf by exact Hn.
        destruct (inv_read_closed s I f e kids Hf He) as [Hk Hall]. split; [exact Hk|].
        intros k Hkin. destruct (N.eq_dec k (tf t)) as [->|Hnk].
        { right; left. rewrite lookup_update_eq. discriminate. }
        rewrite lookup_update_neq by exact Hnk.
        destruct (Hall k Hkin) as [Hcc|[Hcc|(x & Hx & Hfx & Hpx & Hdx)]]; [left; exact Hcc|right; left; exact Hcc|].
        destruct (Hback x Hx) as [->|Hx']; [congruence|].
        right; right. exists x. split; [apply in_app_iff; left; exact Hx'|auto].
    + destruct (N.eq_dec root (tf t)) as [Hr|Hnr].
      * left. rewrite Hr, lookup_update_eq. discriminate.
      * rewrite lookup_update_neq by exact Hnr.
        destruct (inv_root s I) as [Hcc|(x & Hx & Hfx & Hpx & Hdx)]; [left; exact Hcc|].
        destruct (Hback x Hx) as [->|Hx']; [congruence|].
        right. exists x. split; [apply in_app_iff; left; exact Hx'|auto].
    + intros f. rewrite nreading_app, nreading_cons. cbn [nreading filter length].
      pose proof (inv_one_reader s I f) as H1. rewrite Hcount in H1.
      assert (Hrt : rd f t = false) by (unfold rd; rewrite Hp; reflexivity). rewrite Hrt in H1.
      unfold rd at 1. cbn [nt tp tf]. destruct (N.eqb_spec (tf t) f) as [<-|_]; [|lia].
      (* no reader of tf t can exist: it would make tf t claimed *)
      destruct (nreading (tf t) (l1 ++ l2)) eqn:Hz; [lia|]. exfalso.
      assert (exists x, In x (l1 ++ l2) /\ rd (tf t) x = true) as (x & Hx & Hrx).
      { unfold nreading in Hz. destruct (filter (rd (tf t)) (l1 ++ l2)) as [|x r] eqn:Hfil; [discriminate|].
        exists x. apply filter_In. rewrite Hfil. left. reflexivity. }
      unfold rd in Hrx. destruct (tp x) eqn:Hpx; [discriminate|]. apply N.eqb_eq in Hrx.
      destruct (inv_reading_unread s I x (Hrest x Hx) Hpx) as (e & He & _). congruence.
    + apply I.
    + intros f. rewrite (inv_reads s I f). destruct (N.eq_dec f (tf t)) as [->|Hn].
      * rewrite lookup_update_eq, Hl. split; intros (e & He & Hi); [discriminate|].
        injection He as <-. cbn in Hi. congruence.
      * rewrite lookup_update_neq by exact Hn. reflexivity.
  - (* the read completes: record imports, fan out one goroutine per import *)
    set (kids := g (tf t)).
    set (ne := {| eimports := Some kids; edepth := td t |}).
    set (nts := map (fun k => {| tf := k; td := S (td t); tp := AtEntry |}) kids).
    assert (Hnts : forall x, In x nts <-> exists k, In k kids /\ x = {| tf := k; td := S (td t); tp := AtEntry |}).
    { intros x. unfold nts. rewrite in_map_iff. split; intros (k & A & B); exists k; auto. }
    assert (Hnoother : forall x, In x (l1 ++ l2) -> tp x = Reading -> tf x <> tf t).
    { intros x Hx Hpx Heq. pose proof (inv_one_reader s I (tf t)) as H1. rewrite Hcount in H1.
      assert (rd (tf t) t = true) by (unfold rd; rewrite Hp; apply N.eqb_refl). rewrite H in H1.
      pose proof (nreading_pos (tf t) x (l1 ++ l2) Hx Hpx Heq). lia. }
    destruct (inv_reading_unread s I t Hin_t Hp) as (e0 & He0 & Hu0 & Hd0).
    constructor; cbn [claimed tasks reads].
    + intros f e Hf. destruct (N.eq_dec f (tf t)) as [->|Hn].
      * rewrite lookup_update_eq in Hf. injection Hf as <-. cbn [ne edepth].
        split; [apply (inv_task_walk s I t Hin_t)|].
        rewrite <- Hd0. apply (inv_claimed_walk s I (tf t) e0 He0).
      * rewrite lookup_update_neq in Hf by exact Hn. apply (inv_claimed_walk s I f e Hf).
    + intros x Hx. apply in_app_iff in Hx. destruct Hx as [Hx|Hx].
      * apply I, Hrest, Hx.
      * apply Hnts in Hx. destruct Hx as (k & Hk & ->). cbn [tf td].
        eapply walk_step; [apply (inv_task_walk s I t Hin_t)|exact Hk].
    + intros x Hx Hr. apply in_app_iff in Hx. destruct Hx as [Hx|Hx].
      * destruct (inv_reading_unread s I x (Hrest x Hx) Hr) as (e & He & Hu & Hd).
        exists e. split; [|split; assumption]. rewrite lookup_update_neq; [exact He|].
        apply Hnoother; assumption.
      * apply Hnts in Hx. destruct Hx as (k & _ & ->). discriminate.
    + intros f e Hf Hu. destruct (N.eq_dec f (tf t)) as [->|Hn].
      * rewrite lookup_update_eq in Hf. injection Hf as <-. discriminate.
      * rewrite lookup_update_neq in Hf by exact Hn.
        destruct (inv_unread_reading s I f e Hf Hu) as (x & Hx & Hfx & Hpx).
        exists x. split; [|split; assumption]. apply in_app_iff. left.
        destruct (Hback x Hx) as [->|Hx']; [congruence|exact Hx'].
    + intros f e ks Hf He. destruct (N.eq_dec f (tf t)) as [->|Hn].
      * rewrite lookup_update_eq in Hf. injection Hf as <-. cbn [ne eimports] in He. injection He as <-.
        split; [reflexivity|]. intros k Hk. right; right.
        exists {| tf := k; td := S (td t); tp := AtEntry |}. split; [|repeat split].
        apply in_app_iff. right. apply Hnts. exists k. auto.
      * rewrite lookup_update_neq in Hf by exact Hn.
        destruct (inv_read_closed s I f e ks Hf He) as [Hk Hall]. split; [exact Hk|].
        intros k Hkin. destruct (N.eq_dec k (tf t)) as [->|Hnk].
        { right; left. rewrite lookup_update_eq. discriminate. }
        rewrite lookup_update_neq by exact Hnk.
        destruct (Hall k Hkin) as [Hc|[Hc|(x & Hx & Hfx & Hpx & Hdx)]]; [left; exact Hc|right; left; exact Hc|].
        destruct (Hback x Hx) as [->|Hx']; [congruence|].
        right; right. exists x. split; [apply in_app_iff; left; exact Hx'|auto].
    + destruct (N.eq_dec root (tf t)) as [Hr|Hnr].
      * left. rewrite Hr, lookup_update_eq. discriminate.
      * rewrite lookup_update_neq by exact Hnr.
        destruct (inv_root s I) as [Hc|(x & Hx & Hfx & Hpx & Hdx)]; [left; exact Hc|].
        destruct (Hback x Hx) as [->|Hx']; [congruence|].
        right. exists x. split; [apply in_app_iff; left; exact Hx'|auto].
    + intros f. rewrite nreading_app. unfold nts. rewrite nreading_atentry.
      pose proof (inv_one_reader s I f) as H1. rewrite Hcount in H1. lia.
    + (* the read log stays duplicate-free: tf t was claimed but unread *)
      apply NoDup_app_one; [apply I|].
      intros Hin. apply (inv_reads s I) in Hin. destruct Hin as (e & He & Hi). congruence.
    + intros f. rewrite in_app_iff, (inv_reads s I f). cbn [In]. destruct (N.eq_dec f (tf t)) as [->|Hn].
      * rewrite lookup_update_eq. split; [intros _; exists ne; split; [reflexivity|discriminate]|intros _; right; left; reflexivity].
      * rewrite lookup_update_neq by exact Hn. split; [intros [H|[H|[]]]; [exact H|congruence]|intros H; left; exact H].
Qed.

Lemma inv_run sched : Inv (run R g maxd root sched).
Proof.
  unfold run. generalize inv_init. generalize (init root).
  induction sched as [|c cs IH]; intros s I; cbn [fold_left]; [exact I|].
  apply IH, inv_step, I.
Qed.

Lemma quiescent_tasks s : quiescent s = true -> tasks s = [].
Proof. unfold quiescent. destruct (tasks s); [reflexivity|discriminate]. Qed.

(* ---------- what holds when every goroutine has ended, whatever the schedule ---------- *)
Section Quiescent.
Variable sched : list nat.
Let s := run R g maxd root sched.
Hypothesis Hq : quiescent s = true.

(* every entry of the retrieved map holds the file's own imports, all of them, in textual order *)
Theorem collect_map f e : lookup f (claimed s) = Some e -> eimports e = Some (g f).
Proof.
  pose proof (inv_run sched) as I. fold s in I. pose proof (quiescent_tasks s Hq) as Ht.
  intros He. destruct (eimports e) as [ks|] eqn:Hk.
  - destruct (inv_read_closed s I f e ks He Hk) as [-> _]. reflexivity.
  - destruct (inv_unread_reading s I f e He Hk) as (x & Hx & _). rewrite Ht in Hx. destruct Hx.
Qed.

(* each claimed file was read exactly once; nothing else was read *)
Theorem claim_once : NoDup (reads s) /\ forall f, In f (reads s) <-> lookup f (claimed s) <> None.
Proof.
  pose proof (inv_run sched) as I. fold s in I. split; [apply I|].
  intros f. rewrite (inv_reads s I f). split.
  - intros (e & He & _). congruence.
  - intros Hn. destruct (lookup f (claimed s)) as [e|] eqn:He; [|congruence].
    exists e. split; [reflexivity|]. rewrite (collect_map f e He). discriminate.
Qed.

Theorem root_claimed : lookup root (claimed s) <> None.
Proof.
  pose proof (inv_run sched) as I. fold s in I. pose proof (quiescent_tasks s Hq) as Ht.
  destruct (inv_root s I) as [Hc|(x & Hx & _)]; [exact Hc|rewrite Ht in Hx; destruct Hx].
Qed.

(* prefix-closed: an import of a claimed file is claimed unless the depth at which the importer
   happened to be claimed puts it at or beyond the limit *)
Theorem depth_closed f e k : lookup f (claimed s) = Some e -> In k (g f) ->
  cut R maxd (S (edepth e)) = true \/ lookup k (claimed s) <> None.
Proof.
  pose proof (inv_run sched) as I. fold s in I. pose proof (quiescent_tasks s Hq) as Ht.
  intros He Hk. destruct (inv_read_closed s I f e (g f) He (collect_map f e He)) as [_ Hall].
  destruct (Hall k Hk) as [Hc|[Hc|(x & Hx & _)]]; [left; exact Hc|right; exact Hc|rewrite Ht in Hx; destruct Hx].
Qed.

(* nothing outside the depth-limited closure is ever claimed *)
Theorem depth_sound f : lookup f (claimed s) <> None -> exists d, walk f d /\ (maxd = 0 \/ d < maxd).
Proof.
  pose proof (inv_run sched) as I. fold s in I.
  intros Hn. destruct (lookup f (claimed s)) as [e|] eqn:He; [|congruence].
  destruct (inv_claimed_walk s I f e He) as [Hw Hc]. exists (edepth e). split; [exact Hw|].
  destruct (Nat.eq_dec maxd 0) as [->|Hnz]; [left; reflexivity|right].
  destruct (Nat.lt_ge_cases (edepth e) maxd) as [Hlt|Hge]; [exact Hlt|].
  assert (cut R maxd (edepth e) = true) by (apply cut_spec; lia). congruence.
Qed.

(* every file all of whose paths from the root have the same length d (d within the limit) is claimed *)
Theorem depth_complete_unique_depth f d :
  walk f d -> (maxd = 0 \/ d < maxd) -> (forall d', walk f d' -> d' = d) ->
  exists e, lookup f (claimed s) = Some e /\ edepth e = d.
Proof.
  pose proof (inv_run sched) as I. fold s in I.
  intros Hw. induction Hw as [|f d k Hw IH Hk]; intros Hlim Hu.
  - pose proof root_claimed as Hr. destruct (lookup root (claimed s)) as [e|] eqn:He; [|congruence].
    exists e. split; [reflexivity|]. apply Hu, (inv_claimed_walk s I root e He).
  - destruct IH as (e & He & Hd).
    + destruct Hlim as [->|Hlt]; [left; reflexivity|right; lia].
    + intros d' Hw'. assert (S d' = S d) by (apply Hu; eapply walk_step; eassumption). lia.
    + destruct (depth_closed f e k He Hk) as [Hc|Hc].
      * apply cut_spec in Hc. rewrite Hd in Hc. lia.
      * destruct (lookup k (claimed s)) as [e'|] eqn:He'; [|congruence].
        exists e'. split; [reflexivity|]. apply Hu, (inv_claimed_walk s I k e' He').
Qed.
End Quiescent.
End Collect.

(* THE RESULT without a depth limit: at quiescence the retrieved map is exactly the reachable files,
   each with its own import list, whatever the schedule was. *)
Theorem closure_unlimited g root sched : let s := run R g 0 root sched in
  quiescent s = true ->
  forall f, (reach g root f <-> exists e, lookup f (claimed s) = Some e /\ eimports e = Some (g f)).
Proof.
  intros s Hq f. split.
  - intros (d & Hw). induction Hw as [|f d k Hw IH Hk].
    + pose proof (root_claimed g root 0 sched Hq) as Hr. fold s in Hr.
      destruct (lookup root (claimed s)) as [e|] eqn:He; [|congruence].
      exists e. split; [reflexivity|]. apply (collect_map g root 0 sched Hq root e He).
    + destruct IH as (e & He & _).
      destruct (depth_closed g root 0 sched Hq f e k He Hk) as [Hc|Hc]; [rewrite cut_unlimited in Hc; discriminate|].
      fold s in Hc. destruct (lookup k (claimed s)) as [e'|] eqn:He'; [|congruence].
      exists e'. split; [reflexivity|]. apply (collect_map g root 0 sched Hq k e' He').
  - intros (e & He & _). destruct (depth_sound g root 0 sched Hq f) as (d & Hw & _).
    + fold s. congruence.
    + exists d. exact Hw.
Qed.

(* with a limit and every file at one depth only (trees, layered DAGs): exactly the files nearer than the limit *)
Theorem closure_depth_unique g root maxd sched : let s := run R g maxd root sched in
  quiescent s = true -> 0 < maxd ->
  (forall f d d', walk g root f d -> walk g root f d' -> d = d') ->
  forall f, (lookup f (claimed s) <> None <-> exists d, walk g root f d /\ d < maxd).
Proof.
  intros s Hq Hpos Hu f. split.
  - intros Hn. destruct (depth_sound g root maxd sched Hq f Hn) as (d & Hw & [Hz|Hlt]); [lia|]. exists d. auto.
  - intros (d & Hw & Hlt).
    destruct (depth_complete_unique_depth g root maxd sched Hq f d Hw (or_intror Hlt)) as (e & He & _).
    + intros d' Hw'. apply (Hu f d' d Hw' Hw).
    + fold s in He. rewrite He. discriminate.
Qed.

(* ---------- the depth-limited closure is NOT schedule independent ---------- *)
(* 0=root 1=a 2=b 3=c 4=x 5=y ; root->a,b ; a->x ; b->c ; c->x ; x->y *)
Definition g_witness : graph := graph_of [(0,[1;2]); (1,[4]); (2,[3]); (3,[4]); (4,[5]); (5,[])]%N.
(* A: always the oldest runnable goroutine;  B: the b/c branch is faster, x is claimed through c at depth 3 *)
Definition sched_A : list nat := repeat 0 40.
Definition sched_B : list nat := [0;0; 1;1; 1;1; 1;1] ++ repeat 0 40.

Theorem closure_depth_refuted :
  exists g maxd root s1 s2,
    fst (result R g maxd root s1) = true /\ fst (result R g maxd root s2) = true /\
    snd (result R g maxd root s1) = Some [0;1;4;5;2;3]%N /\
    snd (result R g maxd root s2) = Some [0;1;4;2;3]%N.
Proof. exists g_witness, 4, 0%N, sched_A, sched_B. vm_compute. repeat split. Qed.

(* ... while the same two schedules agree without the limit *)
Example witness_unlimited_agrees :
  result R g_witness 0 0%N sched_A = result R g_witness 0 0%N sched_B /\
  snd (result R g_witness 0 0%N sched_A) = Some [0;1;4;5;2;3]%N.
Proof. vm_compute. split; reflexivity. Qed.
