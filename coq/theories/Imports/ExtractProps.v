(* extractImports follows every import statement of a file whatever the layout of the import section: blank
   lines, white-space-only lines and comment lines (at column 0 or indented), before, between or after the
   import lines, change nothing. *)
From Coq Require Import String Ascii List Bool NArith.
Import ListNotations.
Require Import Verif.Imports.Rules Verif.Imports.Extract.
Local Open Scope string_scope.

Notation R := expected_rules.

Lemma extract_filter ls : extract R ls = filter (is_import R) ls.
Proof. reflexivity. Qed.

Lemma layout_not_import l : is_layout l = true -> is_import R l = false.
Proof.
  destruct l as [|c r]; [reflexivity|]. cbn [is_layout]. unfold is_import. cbn [String.prefix].
  destruct (Ascii.ascii_dec c "i") as [->|Hn]; [cbn; discriminate|].
  intros _. destruct (Ascii.ascii_dec "i" c) as [E|_]; [congruence|reflexivity].
Qed.

(* the statement forms of the lexer: keyword + space, keyword + TAB; the keyword alone or glued to a name is none *)
Example import_forms :
  is_import R "import a" = true /\ is_import R (String.append "import" (String (Ascii.ascii_of_nat 9) "a")) = true /\
  is_import R "import" = false /\ is_import R "importer:" = false /\ is_import R "  import a" = false.
Proof. vm_compute. repeat split. Qed.

(* dropping (or adding) a layout line anywhere does not change what is extracted *)
Theorem extract_ignores_layout a l b : is_layout l = true -> extract R (a ++ l :: b) = extract R (a ++ b).
Proof.
  intros H. rewrite !extract_filter, !filter_app. cbn [filter]. rewrite (layout_not_import l H). reflexivity.
Qed.

(* exactly the import lines, in textual order: nothing is lost, nothing invented, the rest of the file
   (which has no line starting with `import `) does not matter *)
Theorem extract_exact sec body :
  Forall (fun l => is_import R l = false) body ->
  extract R (sec ++ body) = filter (is_import R) sec /\
  (forall l, In l (extract R (sec ++ body)) <-> In l sec /\ is_import R l = true).
Proof.
  intros Hb. assert (Hf : filter (is_import R) body = []).
  { induction Hb as [|x l Hx _ IH]; [reflexivity|]. cbn [filter]. rewrite Hx. exact IH. }
  rewrite extract_filter, filter_app, Hf, app_nil_r. split; [reflexivity|]. intros l. apply filter_In.
Qed.

(* an import section made of import lines and layout lines only: every import line is extracted *)
Theorem extract_section sec : Forall (fun l => is_import R l = true \/ is_layout l = true) sec ->
  forall l, In l sec -> is_layout l = false -> In l (extract R sec).
Proof.
  intros Hs l Hin Hl. rewrite extract_filter. apply filter_In. split; [exact Hin|].
  rewrite Forall_forall in Hs. destruct (Hs l Hin) as [H|H]; [exact H|congruence].
Qed.

Example extract_example :
  extract R ["# header"; "import a"; ""; "   "; "    # indented"; "import b  "; "App:"; "    ..."]
  = ["import a"; "import b  "].
Proof. vm_compute. reflexivity. Qed.
