(* What the table translator `NameRules` (translate/namerules.go) reads off the source about
     (a) the state a parse.Parser carries from one call to the next: the fields of Settings, the body of
         Parser.Set, every function of package parse that writes a Settings field, and the statements of
         Parse up to the flattenSpecs call (the retrieved map is a fresh local of every Parse, the depth limit is
         read from the parser when the collection starts);
     (b) the construction of the NAME of an imported file: EnterImport_stmt up to `newImportDef`, importDir,
         newImportDef, localReadName, fileNameToIndex, cleanImportFilename, syslutil.IsRemoteImport /
         GetRemoteRepoRoot / repoRegexp, the version of golden-retriever (RemoteFs.IsRemote), the part of
         collectSpecs between the read and `fi.imports = children` (which name is asked of the reader, which
         version is handed to the import pre-parse) and parseImports (base directory, version);
     (c) the branch of collectSpecs taken by a second claimer (different app names / different versions).
   Statement texts (go/printer, white space normalised), keyed by function and role. The record type lives here;
   its current value is regenerated into Gen/NameRules.v on every run. `expected_name_rules` is what
   Paths.v / Names.v / History.v / Versions.v were transliterated from; Current.v holds the obligation
   `current_name_rules = expected_name_rules`. *)
From Coq Require Import String List.
Import ListNotations.
Local Open Scope string_scope.

Record name_rules := {
  settings_fields : list string;
  set_shape : list string;
  settings_writers : list string;
  parse_collect_shape : list string;
  sysl_ext : string;
  index_shape : list string;
  clean_import_filename_shape : list string;
  local_read_name_shape : list string;
  parse_imports_shape : list string;
  second_claim_shape : list string;
  collect_read_shape : list string;
  new_import_def_shape : list string;
  import_name_shape : list string;
  import_dir_shape : list string;
  is_remote_import_shape : list string;
  repo_regexp : string;
  remote_repo_root_shape : list string;
  retriever_version : string
}.

Definition expected_name_rules : name_rules := {|
  settings_fields := ["MaxImportDepth";
     "OperationSummary";
     "NoDifferentVersionCheck";
     "NoParsing"];
  set_shape := ["p.Settings = settings"];
  settings_writers := ["Parser.Set"];
  parse_collect_shape := ["if p.AssignTypes == nil || len(p.AssignTypes) > 0 { p.AssignTypes = map[string]TypeData{} }";
     "if p.LetTypes == nil || len(p.LetTypes) > 0 { p.LetTypes = map[string]TypeData{} }";
     "if p.Messages == nil || len(p.Messages) > 0 { p.Messages = map[string][]msg.Msg{} }";
     "listener := NewTreeShapeListener()";
     "listener.lint()";
     "if filepath.Ext(resource) == """" { resource += syslExt }";
     "retrieved := retrievedList{make(map[retrievedListIndex]*fileInfo), sync.Mutex{}}";
     "if err := p.collectSpecs( context.Background(), newImportDef(resource), reader, &retrieved, p.MaxImportDepth, 0, ); err != nil { return nil, err }";
     "specs := []srcInput{}";
     "flattenSpecs(&specs, resource, &retrieved)"];
  sysl_ext := ".sysl";
  index_shape := ["ret := cleanImportFilename(filename)";
     "i := strings.Index(ret, ""@"")";
     "if i > -1 { ret = ret[:i] }";
     "if syslutil.IsRemoteImport(ret) { ret = ""/"" + path.Clean(ret) } else { ret = path.Clean(ret) }";
     "return retrievedListIndex(ret)"];
  clean_import_filename_shape := ["return strings.ReplaceAll(filename, `\`, `/`)"];
  local_read_name_shape := ["if syslutil.IsRemoteImport(filename) || filename == """" || filename[0] == '.' || filename[0] == '/' { return filename }";
     "if (&remotefs.RemoteFs{}).IsRemote(filename) { return ""./"" + filename }";
     "return filename"];
  parse_imports_shape := ["listener := NewTreeShapeListener()";
     "listener.lint()";
     "fsinput := &fsFileStream{antlr.NewInputStream(input), parent.filename}";
     "listener.sc = src";
     "listener.base = importDir(parent.filename)";
     "tree, err := parseString(parent.filename, fsinput)";
     "if err != nil { return nil, err }";
     "if err := walkTree(listener, tree, parent.filename); err != nil { return nil, err }";
     "return listener.imports, nil"];
  second_claim_shape := ["retrieved.mutex.Unlock()";
     "if !p.NoDifferentVersionCheck { appname1 := strings.ReplaceAll(fi.src.src.appname, "" :: "", ""::"") appname2 := strings.ReplaceAll(source.appname, "" :: "", ""::"") if appname1 != appname2 { return syslutil.Exitf(ImportError, fmt.Sprintf( ""%#v imported as different appnames: '%v' and '%v'"", filenameIndex, appname1, appname2, )) } ver1 := """" i := strings.Index(fi.src.src.filename, ""@"") if i > -1 { ver1 = fi.src.src.filename[i+1:] } ver2 := """" i = strings.Index(source.filename, ""@"") if i > -1 { ver2 = source.filename[i+1:] } switch ver1 { case ""master"", ""main"", ""develop"": ver1 = """" } switch ver2 { case ""master"", ""main"", ""develop"": ver2 = """" } if ver1 != ver2 { return syslutil.Exitf(ImportError, fmt.Sprintf( ""%#v imported as different versions: '%v' and '%v'"", filenameIndex, ver1, ver2, )) } }";
     "return nil"];
  collect_read_shape := ["content, hash, branch, err := reader.ReadHashBranch(ctx, localReadName(source.filename))";
     "if err != nil { return syslutil.Exitf(ImportError, fmt.Sprintf( ""error reading %#v: \n%v\n"", source.filename, err, )) }";
     "fi.src.input = string(content)";
     "importsInput := extractImports(source.filename, content)";
     "if importsInput.Len() == 0 { return nil }";
     "version := branch";
     "if version == """" { version = hash.String() }";
     "children, err := parseImports(source, sourceCtxHelper{source.filename, version}, importsInput.String())";
     "if err != nil { return err }";
     "fi.imports = children"];
  new_import_def_shape := ["if os.PathSeparator != '/' { filename = strings.ReplaceAll(filename, string(os.PathSeparator), ""/"") }";
     "return importDef{filename: filename}"];
  import_name_shape := ["raw := strings.TrimSpace(ctx.IMPORT_PATH().GetText())";
     "filename := raw";
     "parts := strings.Split(filename, ""@"")";
     "namePos := len(parts) - 2";
     "if namePos < 0 { namePos = 0 }";
     "if filepath.Ext(parts[namePos]) == """" { parts[namePos] += syslExt }";
     "filename = strings.Join(parts, ""@"")";
     "if !syslutil.IsRemoteImport(filename) { base := s.base if strings.HasPrefix(filename, ""/"") { if syslutil.IsRemoteImport(s.base) { base = syslutil.GetRemoteRepoRoot(s.base) } else { base = ""."" } } if syslutil.IsRemoteImport(s.base) { filename = ""/"" + path.Join(base, filename) } else { filename = filepath.Join(base, filename) if os.PathSeparator != '/' { filename = strings.ReplaceAll(filename, string(os.PathSeparator), ""/"") } if base == ""."" && filename[:1] != ""."" && (&remotefs.RemoteFs{}).IsRemote(filename) { filename = ""./"" + filename } } if !strings.Contains(filename, ""@"") && s.sc.version != """" { filename += ""@"" + s.sc.version } }";
     "id := newImportDef(filename)"];
  import_dir_shape := ["if syslutil.IsRemoteImport(filename) { return ""/"" + path.Dir(strings.Split(filename, ""@"")[0]) }";
     "return filepath.Dir(filename)"];
  is_remote_import_shape := ["return strings.HasPrefix(path, ""//"")"];
  repo_regexp := "^(//(\w+\.)+\w+(/[\w-]+){2})";
  remote_repo_root_shape := ["re, err := regexp.Compile(repoRegexp)";
     "if err != nil { return ""."" }";
     "m := re.FindStringSubmatch(path)";
     "if m == nil { return ""."" }";
     "return m[1]"];
  retriever_version := "v0.43.0"
|}.
