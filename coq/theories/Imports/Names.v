(* MODEL of the construction of file NAMES in the import collector, transliterated over byte strings from
     pkg/parse/listener_impl.go  EnterImport_stmt (up to `id := newImportDef(filename)`), newImportDef (Unix: identity)
     pkg/parse/utils.go          importDir, cleanImportFilename
     pkg/parse/parse.go          Parse (`if filepath.Ext(resource) == "" { resource += syslExt }`), localReadName,
                                 fileNameToIndex (with the normalisation step of fixes/C05-2)
     pkg/syslutil/helpers.go     IsRemoteImport, GetRemoteRepoRoot
   and, on top of it, the import GRAPH of a set of files: which file every import line of every file means.
   The statement texts this was transliterated from are in NameTables.expected_name_rules (obligation in
   Current.v). Definitions only; proofs in NamesProps.v.

   Inputs that are not modelled: the text of the IMPORT_PATH token is taken as given (the lexer's business; it cannot
   contain blanks, so strings.TrimSpace is the identity on it); os.PathSeparator is '/'. *)
From Coq Require Import String Ascii List Bool Arith NArith.
Import ListNotations.
Require Import Verif.Imports.Paths Verif.Imports.Collect.

Definition sysl_ext_b : bytes := b ".sysl".

(* syslutil.IsRemoteImport *)
Definition is_remote_import (p:bytes) : bool := prefix [sep; sep] p.

Fixpoint map_nth {A} (n:nat) (f:A -> A) (l:list A) : list A :=
  match l, n with
  | [], _ => []
  | x :: r, 0 => f x :: r
  | x :: r, S k => x :: map_nth k f r
  end.

(* parts := strings.Split(filename, "@"); namePos := len(parts) - 2; if namePos < 0 { namePos = 0 }
   if filepath.Ext(parts[namePos]) == "" { parts[namePos] += syslExt }; filename = strings.Join(parts, "@") *)
Definition ensure_ext (raw:bytes) : bytes :=
  let parts := splitc at_c raw in
  joinc at_c (map_nth (length parts - 2) (fun x => if ext_empty x then x ++ sysl_ext_b else x) parts).

Definition first_is_dot (p:bytes) : bool := match p with c :: _ => Ascii.eqb c dot | [] => false end.

(* EnterImport_stmt: the name of the imported file. base = listener.base (importDir of the importing file's name),
   ver = listener.sc.version (the branch, else the hash, the reader returned for the importing file) *)
Definition import_name (base ver raw:bytes) : bytes :=
  let filename := ensure_ext raw in
  if is_remote_import filename then filename else
  let base' := if is_rooted filename
               then (if is_remote_import base then repo_root base else [dot])
               else base in
  let filename :=
    if is_remote_import base then sep :: join2 base' filename
    else let f := join2 base' filename in
         if beq base' [dot] && negb (first_is_dot f) && looks_remote f then dot :: sep :: f else f in
  if negb (has at_c filename) && negb (is_empty ver) then filename ++ at_c :: ver else filename.

(* importDir *)
Definition import_dir (filename:bytes) : bytes :=
  if is_remote_import filename then sep :: dir (hd [] (splitc at_c filename)) else dir filename.

(* Parse: the root resource *)
Definition resource_name (resource:bytes) : bytes := if ext_empty resource then resource ++ sysl_ext_b else resource.

(* localReadName: what the reader is asked for *)
Definition local_read_name (filename:bytes) : bytes :=
  if is_remote_import filename || is_empty filename || first_is_dot filename || is_rooted filename then filename
  else if looks_remote filename then dot :: sep :: filename else filename.

(* fileNameToIndex *)
Fixpoint replace_bs_b (s:bytes) : bytes :=
  match s with [] => [] | c :: r => (if Ascii.eqb c bsl then sep else c) :: replace_bs_b r end.
Fixpoint cut_at_b (s:bytes) : bytes :=
  match s with [] => [] | c :: r => if Ascii.eqb c at_c then [] else c :: cut_at_b r end.
Definition nindex (filename:bytes) : bytes :=
  let ret := cut_at_b (replace_bs_b filename) in
  if is_remote_import ret then sep :: clean ret else clean ret.
(* ... and as it was before fixes/C05-2 (no normalisation): kept for the refutation *)
Definition nindex_unnormalised (filename:bytes) : bytes := cut_at_b (replace_bs_b filename).

(* ---- the import graph of a set of files ----
   A file is known by its KEY (its path from the project root, or //host/org/repo/path for a remote file: what
   fileNameToIndex makes of every spelling of it) and lists the path texts of its import statements in order. *)
Record nfile := { nf_key : bytes; nf_imports : list bytes }.

Fixpoint intern_from (n:N) (files:list nfile) (ix:bytes) : N :=
  match files with
  | [] => n
  | f :: r => if beq (nf_key f) ix then n else intern_from (N.succ n) r ix
  end.
(* the id of the file an index names; the number of files = "no such file" *)
Definition intern (files:list nfile) (ix:bytes) : N := intern_from 0%N files ix.

Definition root_idx (files:list nfile) (resource:bytes) : N := intern files (nindex (resource_name resource)).

(* the name under which file i is claimed, as far as importDir can tell: the root is claimed under the spelling
   Parse was given, every other file under a name EnterImport_stmt built (its directory is that of the key) *)
Definition base_of (files:list nfile) (resource:bytes) (i:N) : bytes :=
  if N.eqb i (root_idx files resource) then import_dir (resource_name resource)
  else match nth_error files (N.to_nat i) with Some f => import_dir (nf_key f) | None => [dot] end.

(* what the import line `raw` written in file i MEANS: the id of the file it resolves to *)
Definition resolve (files:list nfile) (resource:bytes) (i:N) (raw:bytes) : N :=
  intern files (nindex (import_name (base_of files resource i) [] raw)).

Definition ngraph (files:list nfile) (resource:bytes) : graph :=
  fun i => match nth_error files (N.to_nat i) with
           | Some f => map (resolve files resource i) (nf_imports f)
           | None => []
           end.
