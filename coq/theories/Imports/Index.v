(* MODEL of pkg/parse/parse.go fileNameToIndex (with pkg/parse/utils.go cleanImportFilename): the canonical
   index under which a file is claimed, as string operations applied in the order the translator found
   them in the source (Rules.index_ops):
       ret := strings.ReplaceAll(filename, `\`, `/`)          ReplaceBackslash
       if i := strings.Index(ret, "@"); i > -1 { ret = ret[:i] }   CutAtVersion
   Definitions only; proofs in IndexProps.v. *)
From Coq Require Import String Ascii List Bool.
Import ListNotations.
Require Import Verif.Imports.Rules.
Local Open Scope string_scope.

Definition backslash : ascii := Ascii.ascii_of_nat 92.
Definition slash : ascii := Ascii.ascii_of_nat 47.
Definition at_sign : ascii := Ascii.ascii_of_nat 64.

Fixpoint replace_bs (s:string) : string :=
  match s with
  | EmptyString => EmptyString
  | String c r => String (if Ascii.eqb c backslash then slash else c) (replace_bs r)
  end.

Fixpoint cut_at (s:string) : string :=
  match s with
  | EmptyString => EmptyString
  | String c r => if Ascii.eqb c at_sign then EmptyString else String c (cut_at r)
  end.

Definition apply_op (s:string) (o:index_op) : string :=
  match o with ReplaceBackslash => replace_bs s | CutAtVersion => cut_at s | IndexUnknown => s end.

Definition index_of (r:rules) (s:string) : string := fold_left apply_op (index_ops r) s.
