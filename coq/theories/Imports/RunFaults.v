(* Correspondence glue for C06. One case is what the harness saw the REAL parse.Parser.Parse do under
   injected faults, in lock-step: the gate reader blocked every ReadHashBranch and released one at a time
   (a release of a file with a read fault delivers the error at that point).
     FLock gl fl maxd root b0 trace obs
        b0    = files blocked before the first release
        trace = (released file, files blocked once every goroutine had come to rest), in order
        obs   = OModel order  : Parse returned a module; order = the processed files
                OError e code : Parse returned (nil, err); e = the error text read back as a chain
                                (error reading "a": error reading "b": <base>), code = the exit status
   The model replays the same releases through Faults.frelease and must agree on every blocked set, on the
   read log and on the outcome (for the concurrent first stage of parseSpecs: for some choice of which
   failing conversion returns first). *)
From Coq Require Import String Ascii List NArith Arith Bool.
Import ListNotations.
Require Import Verif.Base.Harness Verif.Imports.Rules Verif.Imports.Collect Verif.Imports.Faults
               Verif.Imports.ForeignTypes Verif.Imports.Foreign.

Inductive c06_obs := OModel (l:list idx) | OError (e:err) (code:N).
(* FLockD: as FLock, but the fault of each file is not given: it is COMPUTED by the dispatch model (Foreign.v) from the
            file's description (name, content, JSON->YAML result, `as` name, readable, payload class)
   FGuess:  importer.GuessFileType called directly (parser = detectFileType's list, else importer.Formats)
   FPb:     pbutil.FromPBByteContents probed with contents only one decoder accepts: which decoder the name selects *)
Inductive g_obs := GoOk (name:string) | GoDetect | GoAmbiguous (names:list string) | GoJson.
Inductive c06_case :=
| FLock (gl:list (idx * list idx)) (fl:list (idx * fault)) (maxd:nat) (root:idx) (b0:list idx)
        (trace:list (idx * list idx)) (o:c06_obs)
| FLockD (gl:list (idx * list idx)) (ds:list (idx * fdesc)) (maxd:nat) (root:idx) (b0:list idx)
        (trace:list (idx * list idx)) (o:c06_obs)
| FGuess (parser:bool) (path content:string) (yaml:option string) (o:g_obs)
| FPb (path:string) (o:option decoder).

(* content given as byte codes (when it is not printable text) *)
Definition B (l:list N) : string := string_of_list_ascii (map ascii_of_N l).
Definition D (p c:string) (y:option string) (app rd imp:bool) (pay:payload) : fdesc :=
  {| d_path := p; d_content := c; d_yaml := y; d_app := app; d_read := rd; d_imports_ok := imp; d_pay := pay |}.
Definition descs_of (l:list (idx * fdesc)) : idx -> fdesc :=
  fun f => match find (fun p => N.eqb (fst p) f) l with
           | Some p => snd p
           | None => D "?.sysl" "" None false true true PayOk
           end.

Definition faults_of (l:list (idx * fault)) : faults :=
  fun f => match find (fun p => N.eqb (fst p) f) l with Some p => Some (snd p) | None => None end.

Definition set_eqb (a b:list idx) : bool :=
  Nat.eqb (length a) (length b) && forallb (fun x => mem x b) a && forallb (fun x => mem x a) b.

Fixpoint err_eqb (a b:err) : bool :=
  match a, b with
  | EReadFail x, EReadFail y | ESyntax x, ESyntax y | EDetect x, EDetect y | EConvert x, EConvert y
  | EAmbiguous x, EAmbiguous y | EJson x, EJson y | EPbDecode x, EPbDecode y | EMerge x, EMerge y => N.eqb x y
  | EWrap p x, EWrap q y => N.eqb p q && err_eqb x y
  | _, _ => false
  end.

Definition obs_matches (o:outcome) (obs:c06_obs) : bool :=
  match o, obs with
  | Model l, OModel l' => list_eqb N.eqb l l'
  | Error e, OError e' c => err_eqb e e' && N.eqb c (exit_code e)
  | _, _ => false
  end.

Fixpoint freplay (r:rules) (g:graph) (fl:faults) (maxd:nat) (s:fstate) (tr:list (idx * list idx)) : option fstate :=
  match tr with
  | [] => Some s
  | (f, b) :: tr' =>
      match frelease r g fl maxd s f with
      | None => None
      | Some s' => if set_eqb (fblocked s') b then freplay r g fl maxd s' tr' else None
      end
  end.

Definition lock_ok (r:rules) (gl:list (idx * list idx)) (fl:faults) (maxd:nat) (root:idx) (b0:list idx)
                   (tr:list (idx * list idx)) (obs:c06_obs) : bool :=
  let g := graph_of gl in
  let s0 := fsettled r g fl maxd (finit root) in
  set_eqb (fblocked s0) b0 &&
  match freplay r g fl maxd s0 tr with
  | None => false
  | Some s => fquiescent s
              && list_eqb N.eqb (freads s) (map fst tr)
              && existsb (fun ch => obs_matches (foutcome r fl root ch s) obs) (seq 0 (S (length gl)))
  end.

Definition decoder_eqb (a b:decoder) : bool :=
  match a, b with DecBinary, DecBinary | DecJson, DecJson | DecText, DecText | DecOther, DecOther => true | _, _ => false end.
Definition guess_matches (g:guess_res) (o:g_obs) : bool :=
  match g, o with
  | GOk f, GoOk n => String.eqb (fname f) n
  | GDetect, GoDetect | GJsonErr, GoJson => true
  | GAmbiguous l, GoAmbiguous l' => list_eqb String.eqb l l'
  | _, _ => false
  end.

Definition c06_ok (r:rules) (T:tables) (c:c06_case) : bool :=
  match c with
  | FLock gl fll maxd root b0 tr obs => lock_ok r gl (faults_of fll) maxd root b0 tr obs
  | FLockD gl ds maxd root b0 tr obs => lock_ok r gl (faults_from T (descs_of ds)) maxd root b0 tr obs
  | FGuess parser path content yaml o =>
      guess_matches (guess (if parser then t_parser T else t_all T) path content yaml) o
  | FPb path o =>
      match pb_dispatch (t_pb T) path, o with
      | Some a, Some b => decoder_eqb a b
      | None, None => t_pb_unknown_after T
      | _, _ => false
      end
  end.
