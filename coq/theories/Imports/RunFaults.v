(* Correspondence glue for C06. One case is what the harness saw the REAL parse.Parser.Parse do under
   injected faults, in lock-step: the gate reader blocked every ReadHashBranch and released one at a time
   (a release of a file with a read fault delivers the error at that point).
     FLock gl fl maxd root b0 trace obs
        b0    = files blocked before the first release
        trace = (released file, files blocked once every goroutine had come to rest), in order
        obs   = OModel order  : Parse returned a module; order = the processed files
                OError e code : Parse returned (nil, err); e = the error text read back as a chain
                                (error reading "a": error reading "b": <base>), code = the exit status
   The model replays the same releases through Faults.frelease and must agree on every blocked set, on the
   read log and on the outcome (for the concurrent first stage of parseSpecs: for some choice of which
   failing conversion returns first). *)
From Coq Require Import List NArith Arith Bool.
Import ListNotations.
Require Import Verif.Base.Harness Verif.Imports.Rules Verif.Imports.Collect Verif.Imports.Faults.

Inductive c06_obs := OModel (l:list idx) | OError (e:err) (code:N).
Inductive c06_case :=
| FLock (gl:list (idx * list idx)) (fl:list (idx * fault)) (maxd:nat) (root:idx) (b0:list idx)
        (trace:list (idx * list idx)) (o:c06_obs).

Definition faults_of (l:list (idx * fault)) : faults :=
  fun f => match find (fun p => N.eqb (fst p) f) l with Some p => Some (snd p) | None => None end.

Definition set_eqb (a b:list idx) : bool :=
  Nat.eqb (length a) (length b) && forallb (fun x => mem x b) a && forallb (fun x => mem x a) b.

Fixpoint err_eqb (a b:err) : bool :=
  match a, b with
  | EReadFail x, EReadFail y | ESyntax x, ESyntax y | EDetect x, EDetect y | EConvert x, EConvert y => N.eqb x y
  | EWrap p x, EWrap q y => N.eqb p q && err_eqb x y
  | _, _ => false
  end.

Definition obs_matches (o:outcome) (obs:c06_obs) : bool :=
  match o, obs with
  | Model l, OModel l' => list_eqb N.eqb l l'
  | Error e, OError e' c => err_eqb e e' && N.eqb c (exit_code e)
  | _, _ => false
  end.

Fixpoint freplay (r:rules) (g:graph) (fl:faults) (maxd:nat) (s:fstate) (tr:list (idx * list idx)) : option fstate :=
  match tr with
  | [] => Some s
  | (f, b) :: tr' =>
      match frelease r g fl maxd s f with
      | None => None
      | Some s' => if set_eqb (fblocked s') b then freplay r g fl maxd s' tr' else None
      end
  end.

Definition c06_ok (r:rules) (c:c06_case) : bool :=
  match c with
  | FLock gl fll maxd root b0 tr obs =>
      let g := graph_of gl in
      let fl := faults_of fll in
      let s0 := fsettled r g fl maxd (finit root) in
      set_eqb (fblocked s0) b0 &&
      match freplay r g fl maxd s0 tr with
      | None => false
      | Some s => fquiescent s
                  && list_eqb N.eqb (freads s) (map fst tr)
                  && existsb (fun ch => obs_matches (foutcome r fl root ch s) obs) (seq 0 (S (length gl)))
      end
  end.
