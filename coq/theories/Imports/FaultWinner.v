(* C06, second pass of round 3: WHICH error of several wins. Proofs about Imports/Faults.v parse_specs / foutcome, for
   every fault assignment, file list and choice (no bounds):

     collection beats parse      an error returned by the outermost collectSpecs is the outcome, whatever the files hold
                                 for the parse stage and whatever `choice` is
     stage 1 beats stage 2       if a processed file has a conversion fault (detect / ambiguous / json / convert) the
                                 outcome is the conversion error of SUCH a file - never a syntax / decoding / merge error -,
                                 and every such file is reported under some choice (the first goroutine to fail wins:
                                 free among them, not beyond them)
     stage 2 is in file order    without a conversion fault the outcome does not depend on `choice` and is the error of
                                 the FIRST file of the processing order with a body fault (syntax, kept decoding error,
                                 merge failure); a module iff there is none *)
From Coq Require Import List NArith Arith Bool Lia.
Import ListNotations.
Require Import Verif.Imports.Rules Verif.Imports.Collect Verif.Imports.Faults.

Section Winner.
Variable fl : faults.

Definition conv_faulty (l:list idx) : list idx := filter (foreign_fault fl) l.

Lemma stage1_winner choice l : conv_faulty l <> [] ->
  exists f, In f l /\ foreign_fault fl f = true /\ parse_specs fl choice l = Error (foreign_err fl f).
Proof.
  unfold parse_specs, conv_faulty. intros H. destruct (filter (foreign_fault fl) l) as [|x xs] eqn:E; [congruence|].
  destruct (nth_error (x :: xs) (choice mod length (x :: xs))) as [f|] eqn:Hn.
  - assert (Hin : In f (x :: xs)) by (eapply nth_error_In; exact Hn).
    rewrite <- E in Hin. apply filter_In in Hin. destruct Hin as [H1 H2]. exists f. auto.
  - assert (Hin : In x (filter (foreign_fault fl) l)) by (rewrite E; left; reflexivity).
    apply filter_In in Hin. destruct Hin as [H1 H2]. exists x. auto.
Qed.

Lemma stage1_any_may_win l f : In f l -> foreign_fault fl f = true ->
  exists choice, parse_specs fl choice l = Error (foreign_err fl f).
Proof.
  intros Hin Hf. assert (Hin' : In f (filter (foreign_fault fl) l)) by (apply filter_In; auto).
  apply In_nth_error in Hin'. destruct Hin' as [n Hn]. exists n. unfold parse_specs.
  destruct (filter (foreign_fault fl) l) as [|x xs] eqn:E; [destruct n; discriminate|].
  assert (Hlt : n < length (x :: xs)) by (apply nth_error_Some; congruence).
  rewrite (Nat.mod_small _ _ Hlt), Hn. reflexivity.
Qed.

Lemma find_first {A} (p:A -> bool) a f b :
  (forall x, In x a -> p x = false) -> p f = true -> find p (a ++ f :: b) = Some f.
Proof.
  induction a as [|h t IH]; cbn [app find]; intros Ha Hf; [rewrite Hf; reflexivity|].
  rewrite (Ha h (or_introl eq_refl)). apply IH; [|exact Hf]. intros x Hx. apply Ha. right. exact Hx.
Qed.

Lemma find_none_all {A} (p:A -> bool) l : (forall x, In x l -> p x = false) -> find p l = None.
Proof.
  induction l as [|h t IH]; cbn [find]; intros H; [reflexivity|].
  rewrite (H h (or_introl eq_refl)). apply IH. intros x Hx. apply H. right. exact Hx.
Qed.

Lemma stage2_first choice l a f b : conv_faulty l = [] -> l = a ++ f :: b ->
  (forall x, In x a -> body_fault fl x = false) -> body_fault fl f = true ->
  parse_specs fl choice l = Error (body_err fl f).
Proof.
  unfold parse_specs, conv_faulty. intros H -> Ha Hf. rewrite H, (find_first _ a f b Ha Hf). reflexivity.
Qed.

Lemma stage2_choice_free c1 c2 l : conv_faulty l = [] -> parse_specs fl c1 l = parse_specs fl c2 l.
Proof. unfold parse_specs, conv_faulty. intros ->. reflexivity. Qed.

Lemma stage2_none choice l : conv_faulty l = [] -> (forall f, In f l -> body_fault fl f = false) ->
  parse_specs fl choice l = Model l.
Proof. unfold parse_specs, conv_faulty. intros -> H. rewrite (find_none_all _ l H). reflexivity. Qed.

(* the whole Parse *)
Theorem outcome_winner (r:rules) (root:idx) (s:fstate) :
  (forall e, froot s = Some (Some e) -> forall choice, foutcome r fl root choice s = Error e) /\
  (forall l, froot s = Some None -> flatten r (2 + length (fcl s)) (fcl s) [] root = Some l ->
     (conv_faulty l <> [] ->
        (forall choice, exists f, In f l /\ foreign_fault fl f = true /\
                                  foutcome r fl root choice s = Error (foreign_err fl f)) /\
        (forall f, In f l -> foreign_fault fl f = true ->
                   exists choice, foutcome r fl root choice s = Error (foreign_err fl f))) /\
     (conv_faulty l = [] ->
        (forall c1 c2, foutcome r fl root c1 s = foutcome r fl root c2 s) /\
        (forall a f b choice, l = a ++ f :: b -> (forall x, In x a -> body_fault fl x = false) -> body_fault fl f = true ->
                              foutcome r fl root choice s = Error (body_err fl f)) /\
        ((forall f, In f l -> body_fault fl f = false) -> forall choice, foutcome r fl root choice s = Model l))).
Proof.
  split.
  - intros e He choice. unfold foutcome. rewrite He. reflexivity.
  - intros l Hr Hl. unfold foutcome. rewrite Hr, Hl. split.
    + intros Hne. split.
      * intros choice. apply stage1_winner, Hne.
      * intros f Hin Hf. apply stage1_any_may_win; assumption.
    + intros He. split; [|split].
      * intros c1 c2. apply stage2_choice_free, He.
      * intros a f b choice Hsplit Ha Hf. apply (stage2_first choice l a f b); assumption.
      * intros Hn choice. apply stage2_none; assumption.
Qed.

(* a conversion error is never a stage-2 error and vice versa: the classes of errors are disjoint *)
Definition is_conv_err (e:err) : bool :=
  match e with EDetect _ | EConvert _ | EAmbiguous _ | EJson _ => true | _ => false end.
Lemma foreign_err_conv f : is_conv_err (foreign_err fl f) = true.
Proof. unfold foreign_err. destruct (fl f) as [[]|]; reflexivity. Qed.
Lemma body_err_not_conv f : is_conv_err (body_err fl f) = false.
Proof. unfold body_err. destruct (fl f) as [[]|]; reflexivity. Qed.

Corollary stage1_beats_stage2 choice l e : conv_faulty l <> [] -> parse_specs fl choice l = Error e -> is_conv_err e = true.
Proof.
  intros Hne He. destruct (stage1_winner choice l Hne) as (f & _ & _ & Hf). rewrite Hf in He. injection He as <-.
  apply foreign_err_conv.
Qed.
End Winner.

(* non-vacuity (vm_compute: a test): files 1 and 3 fail conversion, 2 has a syntax error: either 1 or 3 is reported,
   depending on the choice, never 2; without them 2 is reported under every choice; a merge failure in 1 is reported
   before a decoding error in 2 *)
Definition fl_w (f:idx) : option fault :=
  if N.eqb f 1 then Some ForeignDetect else if N.eqb f 2 then Some BodySyntax else if N.eqb f 3 then Some ForeignConvert else None.
Definition fl_w2 (f:idx) : option fault :=
  if N.eqb f 1 then Some PbMerge else if N.eqb f 2 then Some PbDecode else None.
Example winner_examples :
  conv_faulty fl_w [0;1;2;3;4]%N = [1;3]%N /\
  parse_specs fl_w 0 [0;1;2;3;4]%N = Error (EDetect 1%N) /\ parse_specs fl_w 1 [0;1;2;3;4]%N = Error (EConvert 3%N) /\
  parse_specs fl_w 7 [0;2;4]%N = Error (ESyntax 2%N) /\
  parse_specs fl_w2 5 [0;1;2]%N = Error (EMerge 1%N) /\ exit_code (EMerge 1%N) = 1%N /\
  parse_specs fl_w2 5 [0;2;1]%N = Error (EPbDecode 2%N).
Proof. vm_compute. repeat split. Qed.
