(* Proofs about Versions.v.
     tstep_erase              forgetting the tags, the tagged collector IS Collect.step (every theorem about claims, reads and
                              the result carries over: the error branch changes nothing in the retrieved map)
     consistent_no_error      if every import line of a file carries the tag of that file (same app name up to " :: ", same
                              version up to master / main / develop), no schedule produces a different-version /
                              different-appname error
     conflict_two_schedules   (a TEST by vm_compute) a file imported @v1 and @v2: an error under both completion orders,
                              with a different claimer - which of the two versions is compiled depends on the schedule,
                              that an error is reported does not *)
From Coq Require Import String Ascii List Bool Arith NArith Lia.
Import ListNotations.
Require Import Verif.Imports.Rules Verif.Imports.Collect Verif.Imports.CollectProps Verif.Imports.Paths Verif.Imports.PathsProps
               Verif.Imports.Versions.

Notation R := expected_rules.

Lemma same_tag_refl t : same_tag t t = true.
Proof. unfold same_tag. rewrite !beq_refl. reflexivity. Qed.
Lemma same_tag_eq t1 t2 : same_tag t1 t2 = true <-> tag_key t1 = tag_key t2.
Proof.
  unfold same_tag. rewrite andb_true_iff, !beq_eq. destruct (tag_key t1), (tag_key t2). cbn [fst snd].
  split; [intros [-> ->]; reflexivity|intros H; injection H; auto].
Qed.
Lemma same_tag_trans_sym t0 t1 t2 : same_tag t0 t1 = true -> same_tag t0 t2 = true -> same_tag t1 t2 = true.
Proof. rewrite !same_tag_eq. congruence. Qed.

Lemma nth_split2 {A B} (P:A -> B -> Prop) l m : Forall2 P l m -> forall n t, nth_error l n = Some t ->
  exists l1 l2 u m1 m2, l = l1 ++ t :: l2 /\ nth_error m n = Some u /\
    remove_nth n l = l1 ++ l2 /\ remove_nth n m = m1 ++ m2 /\ Forall2 P l1 m1 /\ P t u /\ Forall2 P l2 m2.
Proof.
  induction 1 as [|x y l m Hxy Hlm IH]; intros [|n] t Hn; cbn in Hn; try discriminate.
  - injection Hn as ->. exists [], l, y, [], m. repeat split; auto.
  - destruct (IH n t Hn) as (l1 & l2 & u & m1 & m2 & -> & H2 & H3 & H4 & H5 & H6 & H7).
    exists (x :: l1), l2, u, (y :: m1), m2. cbn [remove_nth nth_error app]. rewrite H3, H4. repeat split; auto.
Qed.

Section Tagged.
Variable tg : tgraph.
Variable maxd : nat.
Variable nocheck : bool.
Let g := erase_graph tg.

(* ---- erasure ---- *)
Lemma tstep_erase s c : length (t_tags s) = length (tasks (t_st s)) ->
  t_st (tstep R nocheck tg maxd s c) = step R g maxd (t_st s) c.
Proof.
  intros Hlen. unfold tstep. destruct (tasks (t_st s)) as [|t0 ts] eqn:Ht.
  - unfold step. rewrite Ht. reflexivity.
  - set (n := c mod length (t0 :: ts)).
    assert (Hn : n < length (t0 :: ts)) by (apply Nat.mod_upper_bound; cbn; lia).
    destruct (nth_error (t0 :: ts) n) as [t|] eqn:E1; [|apply nth_error_None in E1; lia].
    destruct (nth_error (t_tags s) n) as [u|] eqn:E2; [|apply nth_error_None in E2; rewrite Hlen in E2; lia].
    destruct (tp t); [|reflexivity]. destruct (cut R maxd (td t)); [reflexivity|].
    destruct (lookup (tf t) (claimed (t_st s))); reflexivity.
Qed.

(* ---- consistent tags: no error ---- *)
Variable tagof : idx -> tag.
Hypothesis consistent : forall f k t, In (k, t) (tg f) -> same_tag (tagof k) t = true.

Definition P (t:task) (u:tag) : Prop := same_tag (tagof (tf t)) u = true.
Record J (s:tstate) : Prop := {
  j_tasks : Forall2 P (tasks (t_st s)) (t_tags s);
  j_claim : forall f t0, tlookup f (t_claimer s) = Some t0 -> same_tag (tagof f) t0 = true;
  j_err : t_err s = false
}.

Lemma tlookup_app f m k u t0 : tlookup f (m ++ [(k, u)]) = Some t0 -> tlookup f m = Some t0 \/ (k = f /\ u = t0).
Proof.
  unfold tlookup. induction m as [|[a x] m IH]; cbn [app find fst snd].
  - destruct (N.eqb_spec k f); [intros H; injection H; auto|discriminate].
  - destruct (N.eqb a f); [auto|exact IH].
Qed.

Lemma kids_tags d l : (forall k t, In (k, t) l -> same_tag (tagof k) t = true) ->
  Forall2 P (map (fun k => {| tf := k; td := d; tp := AtEntry |}) (map fst l)) (map snd l).
Proof.
  induction l as [|[k t] l IH]; intros H; cbn [map]; constructor.
  - unfold P. cbn. apply (H k t). left. reflexivity.
  - apply IH. intros k' t' Hin. apply (H k' t'). right. exact Hin.
Qed.

Lemma J_step s c : J s -> J (tstep R nocheck tg maxd s c).
Proof.
  intros [Ht Hc He]. unfold tstep. destruct (tasks (t_st s)) as [|t0 ts] eqn:Htk; [constructor; rewrite ?Htk; assumption|].
  set (n := c mod length (t0 :: ts)).
  destruct (nth_error (t0 :: ts) n) as [t|] eqn:E1; [|constructor; rewrite ?Htk; assumption].
  destruct (nth_split2 P _ _ Ht n t E1) as (l1 & l2 & u & m1 & m2 & Hl & E2 & Hr1 & Hr2 & F1 & Ptu & F2).
  rewrite E2.
  pose proof (Forall2_app F1 F2) as F12.
  assert (Hstep := eq_refl (step R g maxd (t_st s) c)). unfold step at 2 in Hstep. rewrite Htk in Hstep.
  fold n in Hstep. rewrite E1, Hr1 in Hstep. rewrite Hr2.
  destruct (tp t) eqn:Hp.
  - destruct (cut R maxd (td t)) eqn:Hcut.
    + constructor; cbn [t_st t_tags t_claimer t_err]; [fold g; rewrite Hstep; exact F12|exact Hc|exact He].
    + destruct (lookup (tf t) (claimed (t_st s))) eqn:Hl'.
      * constructor; cbn [t_st t_tags t_claimer t_err]; [fold g; rewrite Hstep; exact F12|exact Hc|].
        rewrite He. cbn [orb]. destruct (tlookup (tf t) (t_claimer s)) as [t1|] eqn:Hcl; [|reflexivity].
        specialize (Hc _ _ Hcl). unfold P in Ptu. rewrite (same_tag_trans_sym _ _ _ Hc Ptu). apply andb_false_r.
      * constructor; cbn [t_st t_tags t_claimer t_err claim_before_read expected_rules].
        -- fold g. rewrite Hstep. cbn [tasks]. apply Forall2_app; [exact F12|]. constructor; [exact Ptu|constructor].
        -- intros f t1 Hf. apply tlookup_app in Hf as [Hf|[<- <-]]; [apply (Hc _ _ Hf)|exact Ptu].
        -- exact He.
  - constructor; cbn [t_st t_tags t_claimer t_err claim_before_read expected_rules].
    + fold g. rewrite Hstep. cbn [tasks]. apply Forall2_app; [exact F12|]. unfold g, erase_graph.
      apply kids_tags. intros k t' Hin. apply (consistent (tf t) k t' Hin).
    + exact Hc.
    + exact He.
Qed.

Theorem consistent_no_error root roottag sched : same_tag (tagof root) roottag = true ->
  t_err (trun R nocheck tg maxd root roottag sched) = false.
Proof.
  intros Hr. unfold trun.
  assert (J0 : J (tinit root roottag)).
  { constructor; cbn; [constructor; [exact Hr|constructor]|discriminate|reflexivity]. }
  revert J0. generalize (tinit root roottag). induction sched as [|c cs IH]; intros s Js; cbn [fold_left]; [apply Js|].
  apply IH, J_step, Js.
Qed.
End Tagged.

(* erasure along a whole run *)
Theorem trun_erase tg maxd nocheck root roottag sched :
  t_st (trun R nocheck tg maxd root roottag sched) = run R (erase_graph tg) maxd root sched /\
  length (t_tags (trun R nocheck tg maxd root roottag sched)) = length (tasks (t_st (trun R nocheck tg maxd root roottag sched))).
Proof.
  unfold trun, run.
  assert (H0 : t_st (tinit root roottag) = init root /\ length (t_tags (tinit root roottag)) = length (tasks (t_st (tinit root roottag)))) by (split; reflexivity).
  revert H0. generalize (tinit root roottag) (init root).
  induction sched as [|c cs IH]; intros s s0 [H1 H2]; cbn [fold_left]; [split; assumption|].
  apply IH. split; [rewrite (tstep_erase tg maxd nocheck s c H2), H1; reflexivity|].
  (* the tags stay parallel to the tasks *)
  clear IH. unfold tstep. destruct (tasks (t_st s)) as [|t0 ts] eqn:Htk; [rewrite Htk; exact H2|].
  set (n := c mod length (t0 :: ts)).
  assert (Hn : n < length (t0 :: ts)) by (apply Nat.mod_upper_bound; cbn; lia).
  destruct (nth_error (t0 :: ts) n) as [t|] eqn:E1; [|apply nth_error_None in E1; lia].
  destruct (nth_error (t_tags s) n) as [u|] eqn:E2; [|apply nth_error_None in E2; rewrite H2 in E2; lia].
  assert (Hstep := eq_refl (step R (erase_graph tg) maxd (t_st s) c)). unfold step at 2 in Hstep. rewrite Htk in Hstep.
  fold n in Hstep. rewrite E1 in Hstep.
  assert (Hrem : forall A (l:list A) k, k < length l -> length (remove_nth k l) = length l - 1).
  { intros A l. induction l as [|x l IHl]; intros [|k] Hk; cbn in *; try lia. rewrite IHl; lia. }
  assert (L : length (remove_nth n (t_tags s)) = length (remove_nth n (t0 :: ts))).
  { rewrite !Hrem; [rewrite H2; reflexivity|exact Hn|rewrite H2; exact Hn]. }
  destruct (tp t) eqn:Hp.
  - destruct (cut R maxd (td t)); cbn [t_st t_tags]; [rewrite Hstep; exact L|].
    destruct (lookup (tf t) (claimed (t_st s))); cbn [t_st t_tags]; rewrite Hstep; cbn [tasks]; [exact L|].
    rewrite !app_length, L. reflexivity.
  - cbn [t_st t_tags]. rewrite Hstep. cbn [tasks]. rewrite !app_length, !map_length, L. unfold erase_graph. rewrite map_length. reflexivity.
Qed.

(* a TEST by vm_compute: root imports x@v1 (line 1) and a (line 2); a imports x@v2. Both completion orders report an
   error; the claimer of x differs *)
Definition tg_conflict : tgraph := fun f =>
  if N.eqb f 0 then [(2%N, {| g_app := []; g_ver := b "v1" |}); (1%N, {| g_app := []; g_ver := [] |})]
  else if N.eqb f 1 then [(2%N, {| g_app := []; g_ver := b "v2" |})] else [].
Example conflict_two_schedules :
  let s1 := trun R false tg_conflict 0 0%N {| g_app := []; g_ver := [] |} (repeat 0 20) in
  let s2 := trun R false tg_conflict 0 0%N {| g_app := []; g_ver := [] |} ([0;0;1;1;1] ++ repeat 0 20) in
  t_err s1 = true /\ t_err s2 = true /\
  option_map g_ver (tlookup 2%N (t_claimer s1)) = Some (b "v1") /\ option_map g_ver (tlookup 2%N (t_claimer s2)) = Some (b "v2") /\
  t_err (trun R true tg_conflict 0 0%N {| g_app := []; g_ver := [] |} (repeat 0 20)) = false.
Proof. vm_compute. repeat split. Qed.

Example same_tag_examples :
  same_tag {| g_app := b "A :: B"; g_ver := b "master" |} {| g_app := b "A::B"; g_ver := [] |} = true /\
  same_tag {| g_app := []; g_ver := b "main" |} {| g_app := []; g_ver := b "develop" |} = true /\
  same_tag {| g_app := []; g_ver := b "v1" |} {| g_app := []; g_ver := [] |} = false /\
  same_tag {| g_app := b "X"; g_ver := [] |} {| g_app := []; g_ver := [] |} = false /\
  ver_of (b "//h.co/o/r/x.sysl@feature/y") = b "feature/y".
Proof. vm_compute. repeat split. Qed.

(* non-vacuity of the hypotheses of consistent_no_error: x imported @master by the root and @main by a, as `A :: B` and
   as `A::B` - the tags differ as strings, agree as tags; both schedules end without an error *)
Definition tg_agree : tgraph := fun f =>
  if N.eqb f 0 then [(2%N, {| g_app := b "A :: B"; g_ver := b "master" |}); (1%N, {| g_app := []; g_ver := [] |})]
  else if N.eqb f 1 then [(2%N, {| g_app := b "A::B"; g_ver := b "main" |})] else [].
Definition tagof_agree (f:idx) : tag := if N.eqb f 2 then {| g_app := b "A::B"; g_ver := [] |} else {| g_app := []; g_ver := [] |}.
Example consistent_nonvacuous :
  (forall f k t, In (k, t) (tg_agree f) -> same_tag (tagof_agree k) t = true) /\
  same_tag (tagof_agree 0%N) {| g_app := []; g_ver := [] |} = true /\
  t_err (trun R false tg_agree 0 0%N {| g_app := []; g_ver := [] |} ([0;0;1;1;1] ++ repeat 0 20)) = false /\
  reads (t_st (trun R false tg_agree 0 0%N {| g_app := []; g_ver := [] |} ([0;0;1;1;1] ++ repeat 0 20))) = [0;1;2]%N.
Proof.
  split; [|vm_compute; repeat split].
  intros f k t H. unfold tg_agree in H. destruct (N.eqb f 0); [|destruct (N.eqb f 1)]; cbn in H.
  - destruct H as [H|[H|[]]]; injection H as <- <-; reflexivity.
  - destruct H as [H|[]]; injection H as <- <-; reflexivity.
  - destruct H.
Qed.
