(* C06 obligations against the CURRENT source, and the theorems of FaultsProps restated for the model
   instantiated with the regenerated tables. *)
From Coq Require Import List NArith Arith Bool ZArith.
Import ListNotations.
Require Import Verif.Imports.Rules Verif.Imports.Collect Verif.Imports.Faults Verif.Imports.FaultsProps Verif.Imports.FaultsProgress
               Verif.Gen.ImportRules Verif.Gen.Guards Verif.Total.Pipeline.

Lemma rules_current_c06 : current_rules = expected_rules.
Proof. reflexivity. Qed.

Lemma guards_current_c06 :
  err_parse_propagated guards = true /\ err_collect_propagated guards = true /\ exit_uses_code guards = true /\
  parse_error_code guards = 2%Z /\ import_error_code guards = 1%Z /\ default_exit_code guards = 1%Z.
Proof. repeat split; reflexivity. Qed.

Definition reachable_cur g fl maxd root s := reachable g fl maxd root s.

Theorem fault_fails_clean_current g fl maxd root s choice :
  reachable_cur g fl maxd root s -> ftasks s = [] ->
  let o := foutcome current_rules fl root choice s in
  o <> Stuck /\
  (bad_read fl s -> exists e, o = Error e /\ (exit_code e = 1%N \/ exit_code e = 2%N) /\
                   exists f, names e f = true /\ In f (freads s) /\ collect_fault fl f = true) /\
  (forall l, froot s = Some None -> flatten current_rules (2 + length (fcl s)) (fcl s) [] root = Some l ->
     (exists f, In f l /\ parse_fault fl f = true) ->
     exists e f, o = Error e /\ In f l /\ parse_fault fl f = true /\ names e f = true /\ exit_code e = parse_status fl f) /\
  (forall e, o = Error e -> exists f, names e f = true /\ fl f <> None) /\
  (forall l, o = Model l -> ~ bad_read fl s /\ forall f, In f l -> parse_fault fl f = false).
Proof. rewrite rules_current_c06. exact (fault_fails_clean g fl maxd root s choice). Qed.

Theorem frun_reachable_current g fl maxd root sched :
  reachable_cur g fl maxd root (frun current_rules g fl maxd root sched).
Proof. rewrite rules_current_c06. exact (frun_reachable g fl maxd root sched). Qed.

Theorem error_chain_examples_current :
  (let s := frun current_rules g_f fl_read3 0 0%N (repeat 0 20) in
   fquiescent s = true /\ foutcome current_rules fl_read3 0%N 0 s = Error (EWrap 0 (EWrap 1 (EReadFail 3)))%N) /\
  (let s := frun current_rules g_f fl_read3 0 0%N ([0;0;1;1;0;0] ++ repeat 0 20) in
   fquiescent s = true /\ foutcome current_rules fl_read3 0%N 0 s = Error (EWrap 0 (EWrap 2 (EReadFail 3)))%N).
Proof. rewrite rules_current_c06. split; [exact fault_run_a|exact fault_run_b]. Qed.

(* never a hang: whatever the faults, every long enough schedule ends with no goroutine left (the table says
   that collectSpecs of the current source blocks only in the read and in g.Wait(), as the model does) *)
Theorem faults_terminate_current g fl maxd root univ sched :
  In root univ -> (forall f k, In f univ -> In k (g f) -> In k univ) ->
  fstep_bound g univ <= length sched -> ftasks (frun current_rules g fl maxd root sched) = [].
Proof. rewrite rules_current_c06. intros Hr Hc. exact (faults_terminate g fl maxd root univ Hr Hc sched). Qed.

Theorem no_deadlock_current g fl maxd root univ s :
  In root univ -> (forall f k, In f univ -> In k (g f) -> In k univ) ->
  reachable_cur g fl maxd root s -> ftasks s <> [] -> exists t, In t (ftasks s) /\ runnable t = true.
Proof. intros Hr Hc. exact (reachable_no_deadlock g fl maxd root univ Hr Hc s). Qed.

(* non-vacuity: five of six imports of the root fail to read, one healthy file with an import of its own is
   still to be read afterwards; bound 30 *)
Definition g_wide : graph := graph_of [(0,[1;2;3;4;5;6]); (6,[7]); (7,[])]%N.
Definition fl_wide : faults := fun f => if (N.leb 1 f && N.leb f 5)%bool then Some ReadErr else None.
Example wide_faults_terminate :
  fstep_bound g_wide [0;1;2;3;4;5;6;7]%N = 32 /\
  (let s := frun expected_rules g_wide fl_wide 0 0%N (repeat 0 32) in
   ftasks s = [] /\ foutcome expected_rules fl_wide 0%N 0 s = Error (EWrap 0 (EReadFail 1))%N) /\
  (let s := frun expected_rules g_wide fl_wide 0 0%N (repeat 6 32) in
   ftasks s = [] /\ exists e, foutcome expected_rules fl_wide 0%N 0 s = Error e).
Proof. vm_compute. repeat split. eexists. reflexivity. Qed.
