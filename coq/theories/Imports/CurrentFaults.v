(* C06 obligations against the CURRENT source, and the theorems of FaultsProps restated for the model
   instantiated with the regenerated tables. *)
From Coq Require Import List NArith Arith Bool ZArith.
Import ListNotations.
Require Import Verif.Imports.Rules Verif.Imports.Collect Verif.Imports.Faults Verif.Imports.FaultsProps
               Verif.Gen.ImportRules Verif.Gen.Guards Verif.Total.Pipeline.

Lemma rules_current_c06 : current_rules = expected_rules.
Proof. reflexivity. Qed.

Lemma guards_current_c06 :
  err_parse_propagated guards = true /\ err_collect_propagated guards = true /\ exit_uses_code guards = true /\
  parse_error_code guards = 2%Z /\ import_error_code guards = 1%Z /\ default_exit_code guards = 1%Z.
Proof. repeat split; reflexivity. Qed.

Definition reachable_cur g fl maxd root s := reachable g fl maxd root s.

Theorem fault_fails_clean_current g fl maxd root s choice :
  reachable_cur g fl maxd root s -> ftasks s = [] ->
  let o := foutcome current_rules fl root choice s in
  o <> Stuck /\
  (bad_read fl s -> exists e, o = Error e /\ (exit_code e = 1%N \/ exit_code e = 2%N) /\
                   exists f, names e f = true /\ In f (freads s) /\ collect_fault fl f = true) /\
  (forall l, froot s = Some None -> flatten current_rules (2 + length (fcl s)) (fcl s) [] root = Some l ->
     (exists f, In f l /\ parse_fault fl f = true) ->
     exists e f, o = Error e /\ In f l /\ parse_fault fl f = true /\ names e f = true /\ exit_code e = parse_status fl f) /\
  (forall e, o = Error e -> exists f, names e f = true /\ fl f <> None) /\
  (forall l, o = Model l -> ~ bad_read fl s /\ forall f, In f l -> parse_fault fl f = false).
Proof. rewrite rules_current_c06. exact (fault_fails_clean g fl maxd root s choice). Qed.

Theorem frun_reachable_current g fl maxd root sched :
  reachable_cur g fl maxd root (frun current_rules g fl maxd root sched).
Proof. rewrite rules_current_c06. exact (frun_reachable g fl maxd root sched). Qed.

Theorem error_chain_examples_current :
  (let s := frun current_rules g_f fl_read3 0 0%N (repeat 0 20) in
   fquiescent s = true /\ foutcome current_rules fl_read3 0%N 0 s = Error (EWrap 0 (EWrap 1 (EReadFail 3)))%N) /\
  (let s := frun current_rules g_f fl_read3 0 0%N ([0;0;1;1;0;0] ++ repeat 0 20) in
   fquiescent s = true /\ foutcome current_rules fl_read3 0%N 0 s = Error (EWrap 0 (EWrap 2 (EReadFail 3)))%N).
Proof. rewrite rules_current_c06. split; [exact fault_run_a|exact fault_run_b]. Qed.
