(* MODEL of pkg/parse/parse.go extractImports: the pre-scan that decides which import statements of a file are
   followed. The content is split into lines (bufio.ScanLines: at "\n", a trailing "\r" dropped - the harness
   owns that step); EVERY line that starts with the keyword `import` followed by a separator (space or TAB) is kept, wherever it stands; nothing
   else is looked at. Whether the source still has that shape is Rules.extract_every_import_line (regenerated). *)
From Coq Require Import String Ascii List Bool NArith.
Import ListNotations.
Require Import Verif.Imports.Rules.
Local Open Scope string_scope.

(* isImportLine: the keyword, then one of the separator characters the source compares with (regenerated:
   Rules.extract_separators; space and TAB, the lexer's WS) *)
Definition is_import (r:rules) (l:string) : bool :=
  String.prefix "import" l &&
  match String.get 6 l with
  | Some c => existsb (N.eqb (N_of_ascii c)) (extract_separators r)
  | None => false
  end.

Definition extract (r:rules) (lines:list string) : list string :=
  if extract_every_import_line r then filter (is_import r) lines else [].

(* the lines a writer may put between import statements *)
Definition is_space (c:ascii) : bool := Ascii.eqb c " " || Ascii.eqb c (Ascii.ascii_of_nat 9) || Ascii.eqb c (Ascii.ascii_of_nat 13).
Fixpoint is_layout (l:string) : bool :=     (* empty, white space only, or a comment at any indentation *)
  match l with
  | EmptyString => true
  | String c r => if is_space c then is_layout r else Ascii.eqb c "#"
  end.
