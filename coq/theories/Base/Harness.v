(* Shared by every correspondence file: indices of the cases on which model and implementation differ. *)
From Coq Require Import List NArith Bool.
Import ListNotations.

Definition mismatches {C:Type} (ok : C -> bool) (cases : list (N * C)) : list N :=
  map fst (filter (fun c => negb (ok (snd c))) cases).

Fixpoint list_eqb {A:Type} (eqb : A -> A -> bool) (x y:list A) : bool :=
  match x, y with
  | [], [] => true
  | a :: x', b :: y' => eqb a b && list_eqb eqb x' y'
  | _, _ => false
  end.

Definition option_eqb {A:Type} (eqb : A -> A -> bool) (x y:option A) : bool :=
  match x, y with
  | None, None => true
  | Some a, Some b => eqb a b
  | _, _ => false
  end.

Lemma list_eqb_eq {A} (eqb : A -> A -> bool) (H : forall a b, eqb a b = true <-> a = b) :
  forall x y, list_eqb eqb x y = true <-> x = y.
Proof.
  induction x as [|a x IH]; destruct y as [|b y]; cbn; try (split; [discriminate|discriminate]); [split; reflexivity|].
  rewrite andb_true_iff, H, IH. split; [intros [-> ->]; reflexivity|intros [= -> ->]; split; reflexivity].
Qed.
