(* C04: obligations against the CURRENT source (Gen/MergeRules.v is regenerated from
   pkg/parse/listener_impl.go on every run).  Each lemma is closed by reflexivity over the generated table and
   stops checking when the source no longer has the shape the model Merge/Model.v transliterates. *)
From Coq Require Import String List Bool.
Import ListNotations.
Require Import Verif.Merge.Model Verif.Gen.MergeRules.
Local Open Scope string_scope.

(* ExitTable keeps the key fields contributed by earlier blocks of the table (the repaired code).
   On the code as found the table says PkReplace and this lemma fails: the theorems that need it
   (merge_partition_invariant with primary keys) are then reported as broken. *)
Lemma current_pk_mode : pk_mode = PkUnion.
Proof. reflexivity. Qed.

Lemma current_pk_only_nonempty : pk_only_nonempty = true.
Proof. reflexivity. Qed.

(* every whole-map assignment to an application's Types / Endpoints / Views in the listener sits under a nil
   test of that same map: re-entering an application never re-initialises what earlier blocks put there *)
Lemma current_lazy_maps_guarded : forallb (fun e => snd e) lazy_maps = true.
Proof. reflexivity. Qed.

Lemma current_lazy_maps :
  lazy_maps = [ ("EnterApp_decl", "Endpoints", true); ("EnterApp_decl", "Types", true);
                ("EnterApp_decl", "Views", true); ("EnterUnion", "Types", true) ].
Proof. reflexivity. Qed.

(* lookup-or-create: which entry assignments of the transliterated functions are guarded by absence; an alias, a
   union, an enum with items and the subscriber's endpoint REPLACE what is there (repl_step, sub_f), the publisher's
   application and event endpoint are created only when missing (subcall_f) *)
Lemma current_creates :
  creates = [ ("EnterAlias", "Types", Always);
              ("EnterEnum", "Types", Always);
              ("EnterEvent", "Endpoints", IfAbsent);
              ("EnterMethod_def", "Endpoints", IfAbsent);
              ("EnterName_with_attribs", "Apps", IfAbsent);
              ("EnterSimple_endpoint", "Endpoints", Always);      (* the `...` placeholder *)
              ("EnterSimple_endpoint", "Endpoints", IfAbsent);
              ("EnterSubscribe", "Apps", IfAbsent);
              ("EnterSubscribe", "Endpoints", Always);
              ("EnterSubscribe", "PublisherEndpoints", IfAbsent);
              ("EnterTable", "Types", IfAbsent);
              ("EnterTable", "Types", IfAbsent);
              ("EnterUnion", "Types", Always);
              ("ExitAlias", "Types", Always) ].
Proof. reflexivity. Qed.

(* the lists that grow when a declaration is met again are appended to, never rebuilt: parameters (ep_f), the
   mixin list (MX), the publisher's call statements (subcall_f), query parameters (method_f), statements of
   every scope (e_stmts e ++ body) *)
Lemma current_appends :
  appends = [ ("EnterSubscribe", "ep.Stmt");
              ("EnterTypes", "type1.Constraint");
              ("ExitMethod_def", "qparams");
              ("ExitMixin", "s.currentApp().Mixin2");
              ("ExitParams", "ep.Param");
              ("ExitParams", "params");
              ("ExitUnion", "oneof.Type");
              ("addToCurrentScope", "scope.Stmt"); ("addToCurrentScope", "scope.Stmt");
              ("addToCurrentScope", "scope.Stmt"); ("addToCurrentScope", "scope.Stmt");
              ("addToCurrentScope", "scope.Stmt"); ("addToCurrentScope", "scope.Stmt") ].
Proof. reflexivity. Qed.

(* addAttrWithPrecedence has the shape anno_f transliterates; a field met again is merged (field_step) *)
Lemma current_anno_rule : anno_rule = FirstNonEmptyWins.
Proof. reflexivity. Qed.
Lemma current_field_redecl : field_redecl = FieldMerged.
Proof. reflexivity. Qed.
