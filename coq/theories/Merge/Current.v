(* C04: obligations against the CURRENT source (Gen/MergeRules.v is regenerated from
   pkg/parse/listener_impl.go on every run).  Each lemma is closed by reflexivity over the generated table and
   stops checking when the source no longer has the shape the model Merge/Model.v transliterates. *)
From Coq Require Import String List Bool.
Import ListNotations.
Require Import Verif.Merge.Model Verif.Gen.MergeRules.
Local Open Scope string_scope.

(* ExitTable keeps the key fields contributed by earlier blocks of the table (the repaired code).
   On the code as found the table says PkReplace and this lemma fails: the theorems that need it
   (merge_partition_invariant with primary keys) are then reported as broken. *)
Lemma current_pk_mode : pk_mode = PkUnion.
Proof. reflexivity. Qed.

Lemma current_pk_only_nonempty : pk_only_nonempty = true.
Proof. reflexivity. Qed.

(* every whole-map assignment to an application's Types / Endpoints / Views in the listener sits under a nil
   test of that same map: re-entering an application never re-initialises what earlier blocks put there *)
Lemma current_lazy_maps_guarded : forallb (fun e => snd e) lazy_maps = true.
Proof. reflexivity. Qed.

Lemma current_lazy_maps :
  lazy_maps = [ ("EnterApp_decl", "Endpoints", true); ("EnterApp_decl", "Types", true);
                ("EnterApp_decl", "Views", true); ("EnterUnion", "Types", true) ].
Proof. reflexivity. Qed.

(* lookup-or-create: which entry assignments of the transliterated functions are guarded by absence; an alias, a
   union, an enum with items and the subscriber's endpoint REPLACE what is there (repl_step, sub_f), the publisher's
   application and event endpoint are created only when missing (subcall_f) *)
Lemma current_creates :
  creates = [ ("EnterAlias", "Types", Always);
              ("EnterEnum", "Types", Always);
              ("EnterEvent", "Endpoints", IfAbsent);
              ("EnterMethod_def", "Endpoints", IfAbsent);
              ("EnterName_with_attribs", "Apps", IfAbsent);
              ("EnterSimple_endpoint", "Endpoints", Always);      (* the `...` placeholder *)
              ("EnterSimple_endpoint", "Endpoints", IfAbsent);
              ("EnterSubscribe", "Apps", IfAbsent);
              ("EnterSubscribe", "Endpoints", Always);
              ("EnterSubscribe", "PublisherEndpoints", IfAbsent);
              ("EnterTable", "Types", IfAbsent);
              ("EnterTable", "Types", IfAbsent);
              ("EnterUnion", "Types", Always); ("EnterView", "Views", Always);
              ("ExitAlias", "Types", Always) ].
Proof. reflexivity. Qed.

(* the lists that grow when a declaration is met again are appended to, never rebuilt: parameters (ep_f), the
   mixin list (MX), the publisher's call statements (subcall_f), query parameters (method_f), statements of
   every scope (e_stmts e ++ body) *)
Lemma current_appends :
  appends = [ ("EnterSubscribe", "ep.Stmt");
              ("EnterTypes", "type1.Constraint");
              ("ExitMethod_def", "qparams");
              ("ExitMixin", "s.currentApp().Mixin2");
              ("ExitParams", "ep.Param");
              ("ExitParams", "params");
              ("ExitUnion", "oneof.Type");
              ("addToCurrentScope", "scope.Stmt"); ("addToCurrentScope", "scope.Stmt");
              ("addToCurrentScope", "scope.Stmt"); ("addToCurrentScope", "scope.Stmt");
              ("addToCurrentScope", "scope.Stmt"); ("addToCurrentScope", "scope.Stmt") ].
Proof. reflexivity. Qed.

(* addAttrWithPrecedence has the shape anno_f transliterates; a field met again is merged (field_step) *)
Lemma current_anno_rule : anno_rule = FirstNonEmptyWins.
Proof. reflexivity. Qed.
Lemma current_field_redecl : field_redecl = FieldMerged.
Proof. reflexivity. Qed.

(* round 3, second pass.  EnterEvent REPLACES the endpoint's attributes when the event line has some (event_f);
   EnterMethod_def starts from {patterns: [rest]}, merges the attribute maps of the enclosing paths outermost first
   (s.rest_attrs: pushed by EnterRest_endpoint, popped by ExitRest_endpoint, reset per application), then the method's
   own, then merges the result into the endpoint (rest_eps / method_f) *)
Lemma current_event_attrs :
  event_attrs = [ "ctx.Attribs_or_modifiers()!=nil&&ctx.Name_str()!=nil => ep.Attrs=s.makeAttributeArray(ctx.Attribs_or_modifiers().( *parser.Attribs_or_modifiersContext))" ].
Proof. reflexivity. Qed.

Lemma current_rest_inherit :
  rest_inherit = [ "for_,parentAttrs:=ranges.rest_attrs{mergeAttrs(parentAttrs,attrs)}";
                   "ifctx.Attribs_or_modifiers()!=nil{mergeAttrs(s.makeAttributeArray(ctx.Attribs_or_modifiers().( *parser.Attribs_or_modifiersContext)),attrs)}";
                   "ifrestEndpoint.Attrs==nil{restEndpoint.Attrs=attrs}else{mergeAttrs(attrs,restEndpoint.Attrs)}" ]
  /\ rest_attrs_stack = [ "EnterApp_decl: s.rest_attrs=[]map[string]*sysl.Attribute{}";
                          "EnterRest_endpoint: s.rest_attrs=append(s.rest_attrs,s.makeAttributeArray(attribs))";
                          "EnterRest_endpoint: s.rest_attrs=append(s.rest_attrs,attrs)";
                          "ExitRest_endpoint: s.rest_attrs=s.rest_attrs[:len(s.rest_attrs)-1]" ].
Proof. split; reflexivity. Qed.

(* a compiled module of the import closure is merged with mergo.Merge WITHOUT options (mergo_state: what the module
   built so far has stays, empty values are filled) - the only use of mergo in pkg/parse/parse.go *)
Lemma current_pb_merges : pb_merges = [ "parseSpecs: mergo.Merge(listener.module,v.syslProtoImport)" ].
Proof. reflexivity. Qed.
