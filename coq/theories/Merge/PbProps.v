(* C04: compiled modules (.pb / .pb.json / .textpb) in the import closure - proofs about `mergo_state` and
   `denote_files_pb` of Merge/Model.v.

   parseSpecs merges a compiled module into the module built so far with mergo.Merge: what is there stays, what is
   missing is filled in.  Main fact (`mergo_replay`): when every cell the compiled file declares (application header,
   type + key, endpoint, mixin list) is FRESH in the module built so far - absent, resp. a header without long name
   and attributes, or the compiled file only re-opens the application with a bare header - merging the compiled
   module is the same as walking the file's blocks.  Then the headline theorem applies to layouts with compiled
   files (`merge_pb_partition_partial`).  Without freshness the statement is false (`merge_pb_refuted`): the key
   fields / mixins a compiled module adds to a table / application that already has some are dropped. *)
From Coq Require Import String List ZArith NArith Bool Permutation.
From stdpp Require Import gmap.
Import ListNotations.
Require Import Verif.Merge.Model Verif.Merge.MergeProps.

(* ------------------------------------------------------------------------------------------------ *)
(* 1. union_with (fun x y => Some (f x y)): dst wins the conflict through f                          *)
Section UW.
  Context `{Countable K} {A : Type} (f : A -> A -> A).
  Notation uw := (union_with (fun x y => Some (f x y))).

  Lemma uw_lookup (m1 m2 : gmap K A) k :
    uw m1 m2 !! k = match m1 !! k, m2 !! k with
                    | Some x, Some y => Some (f x y) | Some x, None => Some x | None, o => o end.
  Proof. rewrite lookup_union_with. destruct (m1 !! k), (m2 !! k); reflexivity. Qed.

  Lemma uw_empty_l (m : gmap K A) : uw ∅ m = m.
  Proof. apply map_eq. intros k. rewrite uw_lookup, lookup_empty. reflexivity. Qed.

  Lemma uw_empty_r (m : gmap K A) : uw m ∅ = m.
  Proof. apply map_eq. intros k. rewrite uw_lookup, lookup_empty. destruct (m !! k); reflexivity. Qed.

  Lemma uw_partial_alter_fresh g (m1 m2 : gmap K A) k : m1 !! k = None ->
    uw m1 (partial_alter g k m2) = partial_alter g k (uw m1 m2).
  Proof.
    intros Hk. apply map_eq. intros j. rewrite uw_lookup. destruct (decide (k = j)) as [<-|Hne].
    - rewrite !lookup_partial_alter, uw_lookup, Hk. reflexivity.
    - rewrite !lookup_partial_alter_ne by exact Hne. rewrite uw_lookup. reflexivity.
  Qed.

  Lemma uw_insert (m1 m2 : gmap K A) k v :
    uw m1 (<[k := v]> m2) = <[k := match m1 !! k with Some d => f d v | None => v end]> (uw m1 m2).
  Proof.
    apply map_eq. intros j. rewrite uw_lookup. destruct (decide (k = j)) as [<-|Hne].
    - rewrite !lookup_insert. destruct (m1 !! k); reflexivity.
    - rewrite !lookup_insert_ne by exact Hne. rewrite uw_lookup. reflexivity.
  Qed.
End UW.

(* ------------------------------------------------------------------------------------------------ *)
(* 2. merging into / from nothing                                                                    *)
Lemma mergo_attrs_empty_l a : mergo_attrs ∅ a = a.
Proof. apply uw_empty_l. Qed.

Lemma mergo_app_empty_l a : mergo_app empty_app a = a.
Proof. destruct a. unfold mergo_app, empty_app; cbn. rewrite !uw_empty_l. reflexivity. Qed.

Lemma mergo_app_empty_r a : mergo_app a empty_app = a.
Proof.
  destruct a as [l at0 ts es]. unfold mergo_app, empty_app, mergo_attrs; cbn. rewrite !uw_empty_r.
  destruct l; reflexivity.
Qed.

Lemma mergo_state_empty_r s : mergo_state s (∅, ∅) = s.
Proof. destruct s. unfold mergo_state, mergo_mod, mergo_pk; cbn. rewrite !uw_empty_r. reflexivity. Qed.

Lemma mergo_state_empty_l s : mergo_state (∅, ∅) s = s.
Proof. destruct s. unfold mergo_state, mergo_mod, mergo_pk; cbn. rewrite !uw_empty_l. reflexivity. Qed.

Lemma cur_app_mergo ms md an : cur_app (mergo_mod ms md) an = mergo_app (cur_app ms an) (cur_app md an).
Proof.
  unfold cur_app, mergo_mod. rewrite uw_lookup.
  destruct (ms !! an) as [a|], (md !! an) as [b|]; cbn.
  - reflexivity.
  - symmetry. apply mergo_app_empty_r.
  - symmetry. apply mergo_app_empty_l.
  - symmetry. apply mergo_app_empty_l.
Qed.

Lemma mergo_mod_insert ms md an x :
  mergo_mod ms (<[an := x]> md) = <[an := mergo_app (cur_app ms an) x]> (mergo_mod ms md).
Proof.
  unfold mergo_mod. rewrite uw_insert. unfold cur_app.
  destruct (ms !! an); cbn; [reflexivity|]. rewrite mergo_app_empty_l. reflexivity.
Qed.

(* ------------------------------------------------------------------------------------------------ *)
(* 3. an operation on a fresh cell commutes with the merge                                           *)
Definition fresh_op (s : state) (an : appname) (o : cellop) : Prop :=
  let ap := cur_app (fst s) an in
  match o with
  | OHead h => (a_long ap = None /\ a_attrs ap = ∅) \/ (forall l a, h l a = (l, a))
  | OType n _ => a_types ap !! n = None /\ snd s !! (an, n) = None
  | OEp k _ => a_eps ap !! k = None
  end.

Lemma mergo_apply_comm s an o d : fresh_op s an o ->
  mergo_state s (apply_op an o d) = apply_op an o (mergo_state s d).
Proof.
  destruct s as [ms ps], d as [md pd]. intros Hf.
  destruct o as [h|n g|k e]; unfold fresh_op in Hf; unfold apply_op, mergo_state; cbn [fst snd] in *;
    rewrite mergo_mod_insert, cur_app_mergo.
  - f_equal. f_equal.
    set (a_s := cur_app ms an) in *. set (a_d := cur_app md an).
    destruct Hf as [[Hl Ha]|Hid].
    + unfold mergo_app at 2 3 4 5; cbn [a_long a_attrs a_types a_eps]. rewrite Hl, Ha, mergo_attrs_empty_l. cbn [mergo_opt].
      unfold mergo_app; cbn [a_long a_attrs a_types a_eps]. rewrite Hl, Ha, mergo_attrs_empty_l. reflexivity.
    + rewrite !Hid. cbn [fst snd]. destruct a_d; reflexivity.
  - destruct Hf as [Ht Hp].
    assert (E1 : a_types (mergo_app (cur_app ms an) (cur_app md an)) !! n = a_types (cur_app md an) !! n).
    { unfold mergo_app; cbn [a_types]. rewrite uw_lookup, Ht. reflexivity. }
    assert (E2 : mergo_pk ps pd !! (an, n) = pd !! (an, n)).
    { unfold mergo_pk. rewrite uw_lookup, Hp. reflexivity. }
    rewrite E1, E2. f_equal.
    + f_equal. unfold mergo_app; cbn [a_long a_attrs a_types a_eps]. f_equal.
      apply uw_partial_alter_fresh, Ht.
    + unfold mergo_pk. apply uw_partial_alter_fresh, Hp.
  - f_equal. f_equal. unfold mergo_app; cbn [a_long a_attrs a_types a_eps]. f_equal.
    apply uw_partial_alter_fresh, Hf.
Qed.

Definition fresh_x (mode : pkmode) (s : state) (x : xatom) : Prop := fresh_op s (x_app x) (x_op mode x).

(* A declaration on a cell that is NOT fresh still goes through when what it compiles to on its own, merged into the
   cell the module has, is what the declaration does to that cell - and the compiled file has not touched the cell
   before (so "on its own" is what the compiled module holds). *)
Definition uwo {A} (f : A -> A -> A) (d s : option A) : option A := union_with (fun x y => Some (f x y)) d s.
Definition cell_merge (ts : option typeent) (ps : option (list name)) (r : option typeent * option (list name))
  : option typeent * option (list name) := (uwo mergo_type ts (fst r), uwo mergo_list ps (snd r)).

Definition merges_op (s : state) (an : appname) (o : cellop) : Prop :=
  let ap := cur_app (fst s) an in
  match o with
  | OHead _ => False
  | OType n g => cell_merge (a_types ap !! n) (snd s !! (an, n)) (g None None) = g (a_types ap !! n) (snd s !! (an, n))
  | OEp k e => uwo mergo_ep (a_eps ap !! k) (e None) = e (a_eps ap !! k)
  end.
Definition merges_x (mode : pkmode) (s : state) (x : xatom) : Prop := merges_op s (x_app x) (x_op mode x).

Definition cell_empty (d : state) (an : appname) (c : cellid) : Prop :=
  match c with
  | CHead => True
  | CType n => a_types (cur_app (fst d) an) !! n = None /\ snd d !! (an, n) = None
  | CEp k => a_eps (cur_app (fst d) an) !! k = None
  end.

Lemma uw_partial_alter_at `{Countable K} {A} (f : A -> A -> A) (m1 m2 : gmap K A) k v v' :
  uwo f (m1 !! k) v = v' ->
  union_with (fun x y => Some (f x y)) m1 (partial_alter (fun _ => v) k m2)
  = partial_alter (fun _ => v') k (union_with (fun x y => Some (f x y)) m1 m2).
Proof.
  intros Hv. apply map_eq. intros j. rewrite lookup_union_with. destruct (decide (k = j)) as [<-|Hne].
  - rewrite !lookup_partial_alter. exact Hv.
  - rewrite !lookup_partial_alter_ne by exact Hne. rewrite lookup_union_with. reflexivity.
Qed.

Lemma uw_partial_alter_fun `{Countable K} {A} (f : A -> A -> A) (m1 m2 : gmap K A) k (e : option A -> option A) :
  m2 !! k = None -> uwo f (m1 !! k) (e None) = e (m1 !! k) ->
  union_with (fun x y => Some (f x y)) m1 (partial_alter e k m2)
  = partial_alter e k (union_with (fun x y => Some (f x y)) m1 m2).
Proof.
  intros H2 Hv. apply map_eq. intros j. rewrite lookup_union_with. destruct (decide (k = j)) as [<-|Hne].
  - unfold uwo in Hv. rewrite !lookup_partial_alter, lookup_union_with, H2, Hv. destruct (m1 !! k); reflexivity.
  - rewrite !lookup_partial_alter_ne by exact Hne. rewrite lookup_union_with. reflexivity.
Qed.

Lemma mergo_apply_comm2 s an o d : merges_op s an o -> cell_empty d an (op_cell o) ->
  mergo_state s (apply_op an o d) = apply_op an o (mergo_state s d).
Proof.
  destruct s as [ms ps], d as [md pd]. intros Hm He.
  destruct o as [h|n g|k e]; unfold merges_op in Hm; unfold cell_empty in He; unfold apply_op, mergo_state;
    cbn [fst snd op_cell] in *; [destruct Hm| |]; rewrite mergo_mod_insert, cur_app_mergo.
  - destruct He as [Et Ep]. rewrite Et, Ep.
    assert (E1 : a_types (mergo_app (cur_app ms an) (cur_app md an)) !! n = a_types (cur_app ms an) !! n).
    { unfold mergo_app; cbn [a_types]. rewrite uw_lookup, Et. destruct (a_types (cur_app ms an) !! n); reflexivity. }
    assert (E2 : mergo_pk ps pd !! (an, n) = ps !! (an, n)).
    { unfold mergo_pk. rewrite uw_lookup, Ep. destruct (ps !! (an, n)); reflexivity. }
    rewrite E1, E2. unfold cell_merge in Hm.
    pose proof (f_equal fst Hm) as Hm1. pose proof (f_equal snd Hm) as Hm2. cbn [fst snd] in Hm1, Hm2. f_equal.
    + f_equal. unfold mergo_app; cbn [a_long a_attrs a_types a_eps]. f_equal.
      apply uw_partial_alter_at. exact Hm1.
    + unfold mergo_pk. apply uw_partial_alter_at. exact Hm2.
  - f_equal. f_equal. unfold mergo_app; cbn [a_long a_attrs a_types a_eps]. f_equal.
    apply uw_partial_alter_fun; assumption.
Qed.

(* a cell no declaration of the list is about is empty in what the list compiles to *)
Lemma cell_empty_init an c : cell_empty (∅, ∅) an c.
Proof.
  destruct c; cbn; [exact I| |]; unfold cur_app; rewrite ?lookup_empty; cbn; rewrite ?lookup_empty; auto.
Qed.

Lemma apply_other_cell an' o d an c : (an', op_cell o) <> (an, c) -> cell_empty d an c -> cell_empty (apply_op an' o d) an c.
Proof.
  destruct d as [md pd]. intros Hne He.
  destruct (decide (an' = an)) as [->|Han].
  - assert (Hc : op_cell o <> c) by congruence. clear Hne.
    destruct o as [h|n g|k e], c as [|n'|k']; cbn [op_cell] in Hc; unfold cell_empty, apply_op in *; cbn [fst snd] in *;
      rewrite ?cur_app_insert; cbn [a_types a_eps]; try exact I; try exact He; try congruence.
    + destruct He as [H1 H2]. split; [rewrite lookup_partial_alter_ne by congruence; exact H1|].
      rewrite lookup_partial_alter_ne by congruence. exact H2.
    + rewrite lookup_partial_alter_ne by congruence. exact He.
  - destruct o as [h|n g|k e], c as [|n'|k']; unfold cell_empty, apply_op in *; cbn [fst snd] in *;
      rewrite ?cur_app_insert_ne by exact Han; try exact I; try exact He.
    destruct He as [H1 H2]. split; [exact H1|]. rewrite lookup_partial_alter_ne by congruence. exact H2.
Qed.

Lemma untouched_cell_empty mode an c l : Forall (fun y => x_cell y <> (an, c)) l ->
  cell_empty (fold_left (xstep mode) l (∅, ∅)) an c.
Proof.
  induction l as [|x l IH] using rev_ind; intros Hf; [apply cell_empty_init|].
  apply Forall_app in Hf. destruct Hf as [Hl Hx]. inversion Hx as [|? ? Hx' _]; subst.
  rewrite fold_left_app. cbn [fold_left]. unfold xstep at 1. apply apply_other_cell; [|apply IH, Hl].
  rewrite op_cell_x. exact Hx'.
Qed.

(* every declaration of the compiled file: on a fresh cell, or the first one of the file on its cell and merging *)
Definition pb_content_ok (mode : pkmode) (s : state) (l : list xatom) : Prop :=
  forall l1 x l2, l = l1 ++ x :: l2 ->
    fresh_x mode s x \/ (merges_x mode s x /\ Forall (fun y => x_cell y <> x_cell x) l1).

Lemma fresh_content_ok mode s l : Forall (fresh_x mode s) l -> pb_content_ok mode s l.
Proof.
  intros Hf l1 x l2 ->. left. apply Forall_app in Hf. destruct Hf as [_ Hf]. inversion Hf; assumption.
Qed.

(* the same, checked from the left (for concrete lists) *)
Fixpoint content_ok_l (mode : pkmode) (s : state) (seen l : list xatom) : Prop :=
  match l with
  | [] => True
  | x :: r => (fresh_x mode s x \/ (merges_x mode s x /\ Forall (fun y => x_cell y <> x_cell x) seen))
              /\ content_ok_l mode s (seen ++ [x]) r
  end.

Lemma content_ok_l_sound mode s l : content_ok_l mode s [] l -> pb_content_ok mode s l.
Proof.
  assert (H : forall l seen, content_ok_l mode s seen l -> forall l1 x l2, l = l1 ++ x :: l2 ->
            fresh_x mode s x \/ (merges_x mode s x /\ Forall (fun y => x_cell y <> x_cell x) (seen ++ l1))).
  { clear l. induction l as [|y r IH]; intros seen Hok l1 x l2 E; [destruct l1; discriminate|].
    destruct Hok as [Hy Hr]. destruct l1 as [|z l1]; cbn in E; inversion E; subst.
    - rewrite app_nil_r. exact Hy.
    - replace (seen ++ z :: l1) with ((seen ++ [z]) ++ l1) by (rewrite <- app_assoc; reflexivity).
      eapply IH; [exact Hr|reflexivity]. }
  intros Hok l1 x l2 E. exact (H l [] Hok l1 x l2 E).
Qed.

(* merging the module a list of declarations compiles to = making the declarations on top of s *)
Theorem mergo_replay mode s l : pb_content_ok mode s l ->
  mergo_state s (fold_left (xstep mode) l (∅, ∅)) = fold_left (xstep mode) l s.
Proof.
  induction l as [|x l IH] using rev_ind; intros Hok.
  - cbn. apply mergo_state_empty_r.
  - assert (Hl : pb_content_ok mode s l).
    { intros l1 y l2 E. apply (Hok l1 y (l2 ++ [x])). rewrite E, <- app_assoc. reflexivity. }
    rewrite !fold_left_app. cbn [fold_left]. unfold xstep at 1 3.
    destruct (Hok l x [] eq_refl) as [Hx|[Hm Hu]].
    + rewrite mergo_apply_comm by exact Hx. rewrite IH by exact Hl. reflexivity.
    + rewrite mergo_apply_comm2; [rewrite IH by exact Hl; reflexivity|exact Hm|].
      rewrite op_cell_x. apply untouched_cell_empty. exact Hu.
Qed.

(* ------------------------------------------------------------------------------------------------ *)
(* 3b. declarations that merge into a cell the module already has                                    *)
(* a share of a record / table whose fields the module does not have yet, without header attributes and annotations
   (or the module's type has no attributes), and - for a table - the module has no key yet or the share brings no
   key field *)
Lemma type_share_merges mode s an table n a annos fs a0 fs0 :
  a_types (cur_app (fst s) an) !! n = Some (TRec table a0 fs0) ->
  (forall nm, In nm (names fs) -> fs0 !! nm = None) ->
  ((a = [] /\ annos = []) \/ a0 = ∅) ->
  (table = false \/ snd s !! (an, n) = None \/ key_fields fs (insert_fields fs ∅) = []) ->
  merges_x mode s (XType an table n a annos fs).
Proof.
  intros Ht Hfs Ha Hk. unfold merges_x, merges_op; cbn [x_app x_op]. rewrite Ht.
  unfold type_g, cell_merge; cbn [default from_option id fst snd tattrs uwo union_with option_union_with mergo_type].
  rewrite Bool.eqb_reflx.
  assert (Hat : mergo_attrs a0 (annos_step annos (tattrs_step a ∅)) = annos_step annos (tattrs_step a a0)).
  { destruct Ha as [[-> ->]| ->]; cbn; [apply uw_empty_r|apply mergo_attrs_empty_l]. }
  assert (Hf : union_with (fun x y => Some (mergo_field x y)) fs0 (insert_fields fs ∅) = insert_fields fs fs0).
  { apply map_eq. intros nm. rewrite uw_lookup.
    destruct (in_dec Pos.eq_dec nm (names fs)) as [Hin|Hnin].
    - rewrite (Hfs nm Hin). apply insert_fields_local. rewrite lookup_empty. symmetry. apply Hfs, Hin.
    - rewrite !insert_fields_notin by exact Hnin. rewrite lookup_empty. destruct (fs0 !! nm); reflexivity. }
  rewrite Hat, Hf. f_equal.
  assert (Hkf : key_fields fs (insert_fields fs ∅) = key_fields fs (insert_fields fs fs0)).
  { apply key_fields_own. intros nm Hin. rewrite lookup_empty. symmetry. apply Hfs, Hin. }
  destruct table; [|destruct (snd s !! (an, n)); reflexivity].
  rewrite <- Hkf. destruct Hk as [Hk|[Hk|Hk]]; [discriminate| |].
  - rewrite Hk. cbn. destruct (pk_update mode None _); reflexivity.
  - rewrite Hk. destruct (snd s !! (an, n)) as [l0|]; destruct mode; cbn; try reflexivity.
    unfold pk_union; cbn. destruct l0; reflexivity.
Qed.

(* a subscription whose event the module declares without statements (`<-> Evt: ...`): the call arrives *)
Lemma subcall_merges mode s pub evt caller key e :
  a_eps (cur_app (fst s) pub) !! ((None, [evt]) : epkey) = Some e -> e_stmts e = [] -> e_pubsub e = true ->
  merges_x mode s (XSubCall pub evt caller key).
Proof.
  intros He Hs Hp. unfold merges_x, merges_op; cbn [x_app x_op]. rewrite He.
  unfold subcall_f; cbn [default from_option id uwo union_with option_union_with new_ep e_pubsub e_rest e_source e_attrs e_params e_query e_url e_stmts].
  unfold mergo_ep; cbn [e_pubsub e_rest e_source e_attrs e_params e_query e_url e_stmts].
  rewrite Hs, Hp. cbn [mergo_list Datatypes.app orb]. unfold mergo_attrs. rewrite uw_empty_r.
  destruct e as [ps rs src at0 pa qu ur st]; cbn in *. subst.
  destruct src, pa, qu, ur, rs; reflexivity.
Qed.

(* ------------------------------------------------------------------------------------------------ *)
(* 4. files                                                                                          *)
Lemma fold_step_content mode l s : fold_left (step mode) l s = fold_left (xstep mode) (content l) s.
Proof. unfold content. revert s. apply fold_left_flat_map. intros; apply step_micro. Qed.

(* every compiled file, when its turn comes, declares fresh or merging cells only *)
Fixpoint pb_fresh (mode : pkmode) (files : list filedesc) (pbs order : list name) (s : state) : Prop :=
  match order with
  | [] => True
  | f :: r =>
      (in_names f pbs = true -> pb_content_ok mode s (bcontent (file_blocks files f)))
      /\ pb_fresh mode files pbs r (file_step mode files pbs s f)
  end.

Lemma blocks_in_order_cons files f r : blocks_in_order files (f :: r) = file_blocks files f ++ blocks_in_order files r.
Proof. reflexivity. Qed.

Lemma files_pb_fold mode files pbs order : forall s, pb_fresh mode files pbs order s ->
  fold_left (file_step mode files pbs) order s
  = fold_left (step mode) (flat_map atoms_of_block (blocks_in_order files order)) s.
Proof.
  induction order as [|f r IH]; intros s Hf; [reflexivity|].
  destruct Hf as [Hpb Hr]. cbn [fold_left]. rewrite (IH _ Hr).
  rewrite blocks_in_order_cons, flat_map_app, fold_left_app. f_equal.
  unfold file_step. destruct (in_names f pbs) eqn:E; [|reflexivity].
  rewrite denote_blocks_content, fold_step_content. apply mergo_replay, Hpb. reflexivity.
Qed.

(* PARTIAL (layouts with compiled files): if every compiled file declares fresh or merging cells only, the layout
   compiles as if all its files were Sysl text *)
Theorem merge_pb_fresh mode files pbs root :
  pb_fresh mode files pbs (flatten_order files root) (∅, ∅) ->
  denote_files_pb mode files pbs root = denote_files mode files root.
Proof. intros H. unfold denote_files_pb, denote_files, denote_blocks, denote_atoms. apply files_pb_fold, H. Qed.

(* no compiled file: nothing to ask *)
Lemma pb_fresh_nil mode files order : forall s, pb_fresh mode files [] order s.
Proof. induction order as [|f r IH]; intros s; cbn; [exact I|]. split; [discriminate|apply IH]. Qed.

Corollary denote_files_pb_nil mode files root : denote_files_pb mode files [] root = denote_files mode files root.
Proof. apply merge_pb_fresh, pb_fresh_nil. Qed.

Theorem merge_pb_partition_partial files pbs root joined :
  NoDup (map fst files) -> all_reached files root = true ->
  wf (bcontent joined) -> refines (bcontent joined) (bcontent (all_blocks files)) ->
  pb_fresh PkUnion files pbs (flatten_order files root) (∅, ∅) ->
  Req (denote_files_pb PkUnion files pbs root) (denote_blocks PkUnion joined).
Proof. intros Hnd Hall Hwf Href Hpb. rewrite merge_pb_fresh by exact Hpb. apply merge_partition_invariant; assumption. Qed.

(* ------------------------------------------------------------------------------------------------ *)
(* 5. witnesses                                                                                      *)
Local Open Scope positive_scope.

(* REFUTED without freshness.  Table T(a ~pk, b ~pk, c) with {a} in the root file and {b, c} in a compiled module
   (wit_files of MergeProps.v, file 21 compiled): the fields arrive, the key stays [a] - the module built so far
   has a non-empty PrimaryKey.AttrName and mergo keeps it.  Everything else agrees. *)
Theorem merge_pb_pk_refuted :
  exists files pbs root joined,
    NoDup (map fst files) /\ all_reached files root = true /\
    wf (bcontent joined) /\ refines (bcontent joined) (bcontent (all_blocks files)) /\
    fst (denote_files_pb PkUnion files pbs root) = fst (denote_blocks PkUnion joined) /\
    snd (denote_files_pb PkUnion files pbs root) !! (wit_app, 16) = Some [7] /\
    snd (denote_blocks PkUnion joined) !! (wit_app, 16) = Some [7; 8] /\
    ~ Req (denote_files_pb PkUnion files pbs root) (denote_blocks PkUnion joined).
Proof.
  exists wit_files, [21], 20, wit_joined.
  destruct wit_hyps as (H1 & H2 & H3 & H4). repeat (split; [assumption|]).
  split.
  { assert (E : bool_decide (fst (denote_files_pb PkUnion wit_files [21] 20) = fst (denote_blocks PkUnion wit_joined)) = true)
      by (vm_compute; reflexivity).
    apply bool_decide_eq_true_1 in E. exact E. }
  split; [vm_compute; reflexivity|]. split; [vm_compute; reflexivity|].
  intros [_ H]. specialize (H (wit_app, 16)). unfold oeq in H. vm_compute in H.
  apply Permutation_length in H. discriminate.
Qed.

(* the same for the mixin list: `-|> 36` in the root file, `-|> 37` in a compiled module: Mixin2 stays [36] *)
Definition wm_joined : list block := [B wit_app None [] [MX 36; MX 37]].
Definition wm_files : list filedesc :=
  [(20, ([21], [B wit_app None [] [MX 36]])); (21, ([], [B wit_app None [] [MX 37]]))].
Theorem merge_pb_mixin_refuted :
  refines (bcontent wm_joined) (bcontent (all_blocks wm_files)) /\ wf (bcontent wm_joined) /\
  snd (denote_files_pb PkUnion wm_files [21] 20) !! (wit_app, mixin_key) = Some [36] /\
  snd (denote_blocks PkUnion wm_joined) !! (wit_app, mixin_key) = Some [36; 37] /\
  Req (denote_files PkUnion wm_files 20) (denote_blocks PkUnion wm_joined) /\
  ~ Req (denote_files_pb PkUnion wm_files [21] 20) (denote_blocks PkUnion wm_joined).
Proof.
  assert (Hr : refines (bcontent wm_joined) (bcontent (all_blocks wm_files))).
  { cbn. eapply rf_trans; [apply (rf_reopen wit_app); eexists; split; [left; reflexivity|reflexivity]|].
    apply rf_perm. perm_solve. }
  assert (Hw : wf (bcontent wm_joined)).
  { split; [cbn; pairwise_all|cbn; repeat constructor]. }
  split; [exact Hr|]. split; [exact Hw|].
  split; [vm_compute; reflexivity|]. split; [vm_compute; reflexivity|]. split.
  - apply merge_partition_invariant; [cbn; nodup_names|reflexivity|exact Hw|exact Hr].
  - intros [_ H]. specialize (H (wit_app, mixin_key)). unfold oeq in H. vm_compute in H.
    apply Permutation_length in H. discriminate.
Qed.

(* NON-VACUITY of merge_pb_partition_partial: the specification w2_joined of MergeProps.v laid out as a root file
   (a type with annotation, two mixins, under a bare header) and a COMPILED file with the header (long name,
   attribute), an application annotation, an alias, a subscription, a REST path with attributes and the publisher
   with its event: every cell of the compiled file is fresh when its turn comes *)
Definition w3_files : list filedesc :=
  [(20, ([21], [B w2_app None [] [MX 36; MT false 34 [EN 54 55] [w2_anno] [w2_f1; w2_f2]; MX 37]]));
   (21, ([], [B w2_app (Some 32) [ET 33] [MA (52, VS 53); MAl 35 [] [] 10; MS 38 w2_pub 39 [] [] [SA 60]; MR w2_rest; MVw 75 [(72, VS 73)] 76];
              B w2_pub None [] [MV 39 [ET 33] [] []]]))].
Local Close Scope positive_scope.

Ltac fresh_one :=
  unfold fresh_x, fresh_op; cbn [x_app x_op];
  first [ left; split; vm_compute; reflexivity
        | right; intros; reflexivity
        | split; vm_compute; reflexivity
        | vm_compute; reflexivity ].

Lemma w3_hyps :
  NoDup (map fst w3_files) /\ all_reached w3_files 20%positive = true /\
  wf (bcontent w2_joined) /\ refines (bcontent w2_joined) (bcontent (all_blocks w3_files)) /\
  pb_fresh PkUnion w3_files [21%positive] (flatten_order w3_files 20%positive) (∅, ∅).
Proof.
  destruct w2_hyps as (_ & _ & Hw & _).
  split; [cbn; nodup_names|]. split; [reflexivity|]. split; [exact Hw|]. split.
  - cbn.
    eapply rf_trans; [apply (rf_reopen w2_app); eexists; split; [left; reflexivity|reflexivity]|].
    apply rf_perm. perm_solve.
  - vm_compute flatten_order. cbn [pb_fresh]. split; [intros H; vm_compute in H; discriminate H|].
    split; [|exact I]. intros _. apply fresh_content_ok.
    cbn [file_blocks file_lookup w3_files find fst snd Pos.eqb bcontent content flat_map atoms_of_block micro map
         b_app b_long b_attrs b_members Datatypes.app rest_eps w2_rest].
    repeat (lazymatch goal with |- Forall _ (_ :: _) => constructor; [fresh_one|] end). constructor.
Qed.

(* a table whose fields are split between Sysl text and a compiled module: {c} in the root file, the key fields
   {a ~pk, b ~pk} in the compiled file (the other way round is the refuted case above: key fields on both sides) *)
Definition w4_joined : list block := [B wit_app None [] [MT true 16%positive [] [] [wit_fc; wit_fa; wit_fb]]].
Definition w4_files : list filedesc :=
  [(20%positive, ([21%positive], [B wit_app None [] [MT true 16%positive [] [] [wit_fc]]]));
   (21%positive, ([], [B wit_app None [] [MT true 16%positive [] [] [wit_fa; wit_fb]]]))].

Lemma w4_hyps :
  NoDup (map fst w4_files) /\ all_reached w4_files 20%positive = true /\
  wf (bcontent w4_joined) /\ refines (bcontent w4_joined) (bcontent (all_blocks w4_files)) /\
  pb_fresh PkUnion w4_files [21%positive] (flatten_order w4_files 20%positive) (∅, ∅).
Proof.
  split; [cbn; nodup_names|]. split; [reflexivity|]. split; [|split].
  - split; [cbn; pairwise_all|]. cbn. constructor; [exact I|]. constructor; [|constructor].
    cbn. split; [nodup_names|split; [nodup_names|intros x []]].
  - cbn.
    eapply rf_trans; [apply rf_perm, perm_swap|].
    eapply rf_trans; [apply (rf_split wit_app true 16%positive [] [] [] [wit_fc] [wit_fa; wit_fb])|].
    eapply rf_trans; [apply (rf_reopen wit_app); eexists; split; [left; reflexivity|reflexivity]|].
    apply rf_perm. perm_solve.
  - vm_compute flatten_order. cbn [pb_fresh]. split; [intros H; vm_compute in H; discriminate H|].
    split; [|exact I]. intros _. apply content_ok_l_sound.
    cbn [file_blocks file_lookup w4_files find fst snd Pos.eqb bcontent content flat_map atoms_of_block micro map
         b_app b_long b_attrs b_members Datatypes.app content_ok_l].
    split; [left; fresh_one|]. split; [|exact I]. right. split.
    + eapply (type_share_merges PkUnion _ wit_app true 16%positive [] [] [wit_fa; wit_fb]).
      * vm_compute. reflexivity.
      * intros nm [<-|[<-|[]]]; vm_compute; reflexivity.
      * left. split; reflexivity.
      * right. left. vm_compute. reflexivity.
    + constructor; [|constructor]. discriminate.
Qed.

Example w4_agrees :
  Req (denote_files_pb PkUnion w4_files [21%positive] 20%positive) (denote_blocks PkUnion w4_joined)
  /\ snd (denote_files_pb PkUnion w4_files [21%positive] 20%positive) !! (wit_app, 16%positive) = Some [7%positive; 8%positive].
Proof.
  split; [|vm_compute; reflexivity].
  destruct w4_hyps as (H1 & H2 & H3 & H4 & H5). apply merge_pb_partition_partial; assumption.
Qed.

Example w3_agrees : Req (denote_files_pb PkUnion w3_files [21%positive] 20%positive) (denote_blocks PkUnion w2_joined).
Proof. destruct w3_hyps as (H1 & H2 & H3 & H4 & H5). apply merge_pb_partition_partial; assumption. Qed.
