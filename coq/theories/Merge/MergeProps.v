(* C04: proofs about Merge/Model.v.

   Plan.  Every step of the listener acts on ONE cell of the shared module - the header of an app (long name +
   attributes), one type of an app together with its primary key, or one endpoint of an app - and creates the
   app entry when it is missing.  Steps on different cells commute exactly; two shares of one type commute up to
   the order of the key list (PkUnion); a re-opening header without attributes is absorbed.  A layout is related
   to the joined form by `refines` (permute, split the fields of a type, add re-opening headers), and `refines`
   preserves the denotation. *)
From Coq Require Import String List ZArith NArith Bool Permutation.
From stdpp Require Import gmap.
Import ListNotations.
Require Import Verif.Merge.Model.

(* ------------------------------------------------------------------------------------------------ *)
(* 1. folding commuting steps over a permutation                                                     *)
Section FoldPerm.
  Context {S A : Type} (R : relation S) `{!Equivalence R} (stp : S -> A -> S) (indep : A -> A -> Prop).
  Hypothesis indep_sym : forall a b, indep a b -> indep b a.
  Hypothesis stp_proper : forall s s' a, R s s' -> R (stp s a) (stp s' a).
  Hypothesis stp_comm : forall s a b, indep a b -> R (stp (stp s a) b) (stp (stp s b) a).

  Inductive pairwise : list A -> Prop :=
  | pw_nil : pairwise []
  | pw_cons a l : Forall (indep a) l -> pairwise l -> pairwise (a :: l).

  Lemma pairwise_perm l l' : Permutation l l' -> pairwise l -> pairwise l'.
  Proof.
    induction 1 as [|x l l' Hp IH|x y l|l l' l'' _ IH1 _ IH2]; intros Hw.
    - exact Hw.
    - inversion Hw as [|? ? Hf Hl]; subst. constructor; [|auto].
      eapply Permutation_Forall; eassumption.
    - inversion Hw as [|? ? Hf Hl]; subst. inversion Hl as [|? ? Hf' Hl']; subst.
      inversion Hf as [|? ? Hyx Hfy]; subst.
      constructor; [constructor; [apply indep_sym; exact Hyx|exact Hf']|].
      constructor; assumption.
    - auto.
  Qed.

  Lemma fold_proper l : forall s s', R s s' -> R (fold_left stp l s) (fold_left stp l s').
  Proof. induction l as [|a l IH]; intros s s' H; cbn; [exact H|]. apply IH, stp_proper, H. Qed.

  Lemma fold_perm l l' : Permutation l l' -> pairwise l ->
    forall s s', R s s' -> R (fold_left stp l s) (fold_left stp l' s').
  Proof.
    induction 1 as [|x l l' Hp IH|x y l|l l' l'' Hp1 IH1 Hp2 IH2]; intros Hw s s' Hs; cbn.
    - exact Hs.
    - inversion Hw; subst. apply IH; [assumption|]. apply stp_proper, Hs.
    - inversion Hw as [|? ? Hf Hl]; subst. inversion Hf as [|? ? Hyx _]; subst.
      apply fold_proper. etransitivity; [apply stp_comm, Hyx|].
      apply stp_proper, stp_proper, Hs.
    - etransitivity; [apply IH1; [exact Hw|reflexivity]|].
      apply IH2; [eapply pairwise_perm; eassumption|exact Hs].
  Qed.
End FoldPerm.

(* ------------------------------------------------------------------------------------------------ *)
(* 2. cells                                                                                          *)
(* the lists kept next to the module (primary keys, mixins) are compared up to their order *)
Definition oeq (p p' : option (list name)) : Prop := Permutation (default [] p) (default [] p').
Definition Req (s s' : state) : Prop := fst s = fst s' /\ forall k, oeq (snd s !! k) (snd s' !! k).

Global Instance oeq_equiv : Equivalence oeq.
Proof.
  split.
  - intros p; unfold oeq; reflexivity.
  - intros p q H; unfold oeq in *; symmetry; exact H.
  - intros p q r H1 H2; unfold oeq in *; etransitivity; eassumption.
Qed.
Global Instance Req_equiv : Equivalence Req.
Proof.
  split.
  - intros s; split; [reflexivity|intros k; reflexivity].
  - intros s s' [H1 H2]; split; [auto|intros k; symmetry; apply H2].
  - intros s1 s2 s3 [H1 H2] [H3 H4]; split; [congruence|intros k; etransitivity; [apply H2|apply H4]].
Qed.

Inductive cellop :=
| OHead (h : option name -> attrs -> option name * attrs)
| OType (n : name) (g : option typeent -> option (list name) -> option typeent * option (list name))
| OEp (k : epkey) (e : option endpoint -> option endpoint).

Definition apply_op (an : appname) (o : cellop) (s : state) : state :=
  let ap := cur_app (fst s) an in
  match o with
  | OHead h =>
      let r := h (a_long ap) (a_attrs ap) in
      (<[an := App (fst r) (snd r) (a_types ap) (a_eps ap)]> (fst s), snd s)
  | OType n g =>
      let r := g (a_types ap !! n) (snd s !! (an, n)) in
      (<[an := App (a_long ap) (a_attrs ap) (partial_alter (fun _ => fst r) n (a_types ap)) (a_eps ap)]> (fst s),
       partial_alter (fun _ => snd r) (an, n) (snd s))
  | OEp k e =>
      (<[an := App (a_long ap) (a_attrs ap) (a_types ap) (partial_alter e k (a_eps ap))]> (fst s), snd s)
  end.

Definition good_op (o : cellop) : Prop :=
  match o with
  | OType _ g => forall t p p', oeq p p' -> fst (g t p) = fst (g t p') /\ oeq (snd (g t p)) (snd (g t p'))
  | _ => True
  end.

Lemma apply_proper an o s s' : good_op o -> Req s s' -> Req (apply_op an o s) (apply_op an o s').
Proof.
  destruct s as [m p], s' as [m' p']. intros Hg [Hm Hp]; cbn in Hm, Hp; subst m'.
  destruct o as [h|n g|k e]; cbn.
  - split; [reflexivity|exact Hp].
  - destruct (Hg (a_types (cur_app m an) !! n) _ _ (Hp (an, n))) as [H1 H2].
    split; cbn; [rewrite H1; reflexivity|].
    intros k. destruct (decide (k = (an, n))) as [->|Hne].
    + rewrite !lookup_partial_alter. exact H2.
    + rewrite !lookup_partial_alter_ne by congruence. apply Hp.
  - split; [reflexivity|exact Hp].
Qed.

Inductive cellid := CHead | CType (n : name) | CEp (k : epkey).
Global Instance cellid_eq_dec : EqDecision cellid.
Proof. solve_decision. Defined.
Definition op_cell (o : cellop) : cellid :=
  match o with OHead _ => CHead | OType n _ => CType n | OEp k _ => CEp k end.

Lemma cur_app_insert m an ap : cur_app (<[an := ap]> m) an = ap.
Proof. unfold cur_app. rewrite lookup_insert. reflexivity. Qed.
Lemma cur_app_insert_ne m an an' ap : an <> an' -> cur_app (<[an := ap]> m) an' = cur_app m an'.
Proof. intros H. unfold cur_app. rewrite lookup_insert_ne by exact H. reflexivity. Qed.

Lemma apply_comm_ne an1 o1 an2 o2 s :
  (an1, op_cell o1) <> (an2, op_cell o2) ->
  apply_op an1 o1 (apply_op an2 o2 s) = apply_op an2 o2 (apply_op an1 o1 s).
Proof.
  destruct s as [m p]. intros Hne.
  destruct (decide (an1 = an2)) as [->|Han].
  - assert (Hc : op_cell o1 <> op_cell o2) by congruence. clear Hne.
    destruct o1 as [h1|n1 g1|k1 e1], o2 as [h2|n2 g2|k2 e2]; cbn in Hc; try congruence;
      unfold apply_op; cbn [fst snd]; rewrite !cur_app_insert; cbn [a_long a_attrs a_types a_eps];
      rewrite !insert_insert.
    + reflexivity.
    + reflexivity.
    + reflexivity.
    + assert (Hn : n1 <> n2) by congruence.
      rewrite !lookup_partial_alter_ne by congruence.
      f_equal; [f_equal; f_equal|]; apply partial_alter_commute; congruence.
    + reflexivity.
    + reflexivity.
    + reflexivity.
    + assert (Hk : k1 <> k2) by congruence.
      f_equal. f_equal. f_equal. apply partial_alter_commute; congruence.
  - destruct o1 as [h1|n1 g1|k1 e1], o2 as [h2|n2 g2|k2 e2];
      unfold apply_op; cbn [fst snd];
      rewrite ?cur_app_insert_ne by congruence;
      rewrite ?lookup_partial_alter_ne by congruence;
      (apply pair_equal_spec; split;
       [apply insert_commute; congruence
       |try reflexivity; try (apply partial_alter_commute; congruence)]).
Qed.

(* two operations on the same cell, one after the other, are one operation *)
Definition seq_g (g1 g2 : option typeent -> option (list name) -> option typeent * option (list name)) :=
  fun t p => let r1 := g1 t p in g2 (fst r1) (snd r1).

Lemma apply_seq_type an n g1 g2 s :
  apply_op an (OType n g2) (apply_op an (OType n g1) s) = apply_op an (OType n (seq_g g1 g2)) s.
Proof.
  destruct s as [m p]. unfold apply_op; cbn [fst snd].
  rewrite cur_app_insert; cbn [a_long a_attrs a_types a_eps].
  rewrite !lookup_partial_alter, insert_insert.
  unfold seq_g. cbn zeta.
  rewrite <- !partial_alter_compose. reflexivity.
Qed.

Lemma apply_ext_type an n g g' s :
  (forall t p, fst (g t p) = fst (g' t p) /\ oeq (snd (g t p)) (snd (g' t p))) ->
  Req (apply_op an (OType n g) s) (apply_op an (OType n g') s).
Proof.
  intros H. destruct s as [m p]. unfold apply_op; cbn [fst snd].
  destruct (H (a_types (cur_app m an) !! n) (p !! (an, n))) as [H1 H2].
  split; cbn [fst snd]; [rewrite H1; reflexivity|].
  intros k. destruct (decide (k = (an, n))) as [->|Hne].
  - rewrite !lookup_partial_alter. exact H2.
  - rewrite !lookup_partial_alter_ne by congruence. reflexivity.
Qed.

Lemma apply_seq_ep an k e1 e2 s :
  apply_op an (OEp k e2) (apply_op an (OEp k e1) s) = apply_op an (OEp k (fun e0 => e2 (e1 e0))) s.
Proof.
  destruct s as [m p]. unfold apply_op; cbn [fst snd].
  rewrite cur_app_insert; cbn [a_long a_attrs a_types a_eps]. rewrite insert_insert.
  rewrite <- partial_alter_compose. reflexivity.
Qed.

Lemma apply_ext_ep an k e e' s : (forall e0, e e0 = e' e0) -> apply_op an (OEp k e) s = apply_op an (OEp k e') s.
Proof.
  intros H. destruct s as [m p]. unfold apply_op; cbn [fst snd].
  f_equal. f_equal. f_equal. apply partial_alter_ext. intros x _. apply H.
Qed.

Lemma apply_seq_head an h1 h2 s :
  apply_op an (OHead h2) (apply_op an (OHead h1) s)
  = apply_op an (OHead (fun l a => let r := h1 l a in h2 (fst r) (snd r))) s.
Proof.
  destruct s as [m p]. unfold apply_op; cbn [fst snd].
  rewrite cur_app_insert; cbn [a_long a_attrs a_types a_eps]. rewrite insert_insert. reflexivity.
Qed.

Lemma apply_ext_head an h h' s : (forall l a, h l a = h' l a) -> apply_op an (OHead h) s = apply_op an (OHead h') s.
Proof. intros H. destruct s as [m p]. unfold apply_op; cbn [fst snd]. rewrite H. reflexivity. Qed.

(* ------------------------------------------------------------------------------------------------ *)
(* 3. the listener's steps as cell operations                                                        *)
Inductive xatom :=
| XHead (an : appname) (long : option name) (a : list entry)
| XAnno (an : appname) (x : anno)
| XType (an : appname) (table : bool) (n : name) (a : list entry) (annos : list anno) (fs : list fielddecl)
| XRepl (an : appname) (n : name) (t : option typeent)
| XEp (an : appname) (n : name) (a : list entry) (annos : list anno) (params : list name) (body : list stmt)
| XEvent (an : appname) (n : name) (a : list entry) (params : list name) (body : list stmt)
| XMeth (an : appname) (x : epkey * list name * methoddecl)
| XSub (an : appname) (key : name) (pub : appname) (a : list entry) (annos : list anno) (body : list stmt)
| XSubCall (pub : appname) (evt : name) (caller : appname) (key : name)
| XMixin (an : appname) (x : name)
| XDots (an : appname).

Definition x_app (x : xatom) : appname :=
  match x with
  | XHead an _ _ | XAnno an _ | XType an _ _ _ _ _ | XRepl an _ _ | XEp an _ _ _ _ _ | XEvent an _ _ _ _
  | XMeth an _ | XSub an _ _ _ _ _ | XSubCall an _ _ _ | XMixin an _ | XDots an => an
  end.

Definition repl_g (t : option typeent) (t0 : option typeent) (p : option (list name)) :=
  match t with None => (t0, p) | Some t' => (Some t', None) end.
Definition mixin_g (x : name) (t0 : option typeent) (p : option (list name)) : option typeent * option (list name) :=
  (t0, Some (default [] p ++ [x])).

Definition x_op (mode : pkmode) (x : xatom) : cellop :=
  match x with
  | XHead _ long a => OHead (head_f long a)
  | XAnno _ x => OHead (fun l at0 => (l, anno_step x at0))
  | XType _ table n a annos fs => OType n (type_g mode table a annos fs)
  | XRepl _ n t => OType n (repl_g t)
  | XEp _ n a annos params body => OEp (None, [n]) (ep_f a annos params body)
  | XEvent _ n a params body => OEp (None, [n]) (event_f a params body)
  | XMeth _ (k, u, m) => OEp k (method_f u m)
  | XSub _ key pub a annos body => OEp (None, [key]) (sub_f pub a annos body)
  | XSubCall _ evt caller key => OEp (None, [evt]) (subcall_f caller key)
  | XMixin _ x => OType mixin_key (mixin_g x)
  | XDots _ => OEp (None, [dots_name]) (fun _ => Some (new_ep false false))
  end.

Definition xstep (mode : pkmode) (s : state) (x : xatom) : state := apply_op (x_app x) (x_op mode x) s.

Definition micro (x : atom) : list xatom :=
  match x with
  | AHead an long a => [XHead an long a]
  | AMem an (MT table n a annos fs) => [XType an table n a annos fs]
  | AMem an (ME n a annos items) => [XRepl an n (enum_ent a annos items)]
  | AMem an (MAl n a annos ty) => [XRepl an n (alias_ent a annos ty)]
  | AMem an (MU n a alts) => [XRepl an n (union_ent a alts)]
  | AMem an (MVw n annos sg) => [XRepl an n (view_ent annos sg)]
  | AMem an (MP n a annos params body) => [XEp an n a annos params body]
  | AMem an (MV n a params body) => [XEvent an n a params body]
  | AMem an (MR r) => XHead an None [] :: map (XMeth an) (rest_eps [] [] [] r)
  | AMem an (MX x) => [XMixin an x]
  | AMem an (MS key pub evt a annos body) => [XSub an key pub a annos body; XSubCall pub evt an key]
  | AMem an (MA x) => [XAnno an x]
  | AMem an MW => [XDots an]
  end.

Lemma app_eta ap : App (a_long ap) (a_attrs ap) (a_types ap) (a_eps ap) = ap.
Proof. destruct ap; reflexivity. Qed.

Lemma meth_fold mode an l : forall ap m p,
  fold_left (xstep mode) (map (XMeth an) l) (<[an := ap]> m, p)
  = (<[an := fold_left (fun ap x => method_step x ap) l ap]> m, p).
Proof.
  induction l as [|[[k u] md] l IH]; intros ap m p; cbn [map fold_left]; [reflexivity|].
  unfold xstep at 2, apply_op; cbn [x_app x_op fst snd].
  rewrite cur_app_insert, insert_insert. rewrite IH. reflexivity.
Qed.

Lemma repl_step_op an n t m p :
  (<[an := fst (repl_step an n t (cur_app m an) p)]> m, snd (repl_step an n t (cur_app m an) p))
  = apply_op an (OType n (repl_g t)) (m, p).
Proof.
  unfold repl_step, apply_op, repl_g; cbn [fst snd]. destruct t as [t'|]; cbn [fst snd].
  - reflexivity.
  - rewrite !partial_alter_self, app_eta. reflexivity.
Qed.

Lemma step_micro mode s x : step mode s x = fold_left (xstep mode) (micro x) s.
Proof.
  destruct s as [m p]. destruct x as [an long a|an mem]; [reflexivity|].
  destruct mem as [table n a annos fs|n a annos items|n a annos ty|n a alts|n a annos params body|n a params body|r|x
                  |n annos sg|key pub evt a annos body|x|]; cbn [micro fold_left].
  - reflexivity.
  - unfold step, member_step; cbn [fst snd]. apply repl_step_op.
  - unfold step, member_step; cbn [fst snd]. apply repl_step_op.
  - unfold step, member_step; cbn [fst snd]. apply repl_step_op.
  - reflexivity.
  - reflexivity.
  - (* REST tree *)
    unfold step, member_step; cbn [fst snd].
    unfold xstep at 2, apply_op; cbn [x_app x_op head_f hattrs_step fst snd]. rewrite app_eta.
    rewrite meth_fold. reflexivity.
  - (* mixin *)
    unfold step, member_step, xstep, apply_op; cbn [x_app x_op fst snd]. unfold mixin_g; cbn [fst snd].
    rewrite partial_alter_self, app_eta. f_equal.
    apply partial_alter_ext. intros y <-. reflexivity.
  - unfold step, member_step; cbn [fst snd]. apply repl_step_op.
  - reflexivity.
  - reflexivity.
  - reflexivity.
Qed.

Definition content (l : list atom) : list xatom := flat_map micro l.

Lemma fold_left_flat_map {S A B} (f : S -> B -> S) (g : A -> list B) (h : S -> A -> S) :
  (forall s a, h s a = fold_left f (g a) s) ->
  forall l s, fold_left h l s = fold_left f (flat_map g l) s.
Proof.
  intros H l. induction l as [|a l IH]; intros s; cbn; [reflexivity|].
  rewrite fold_left_app, <- H. apply IH.
Qed.

Lemma denote_atoms_content mode l : denote_atoms mode l = fold_left (xstep mode) (content l) (∅, ∅).
Proof. unfold denote_atoms, content. apply fold_left_flat_map. intros; apply step_micro. Qed.
(* ------------------------------------------------------------------------------------------------ *)
(* 4. bookkeeping: key lists, fields, attributes; the facts about two shares of one type             *)
Lemma in_names_In x l : in_names x l = true <-> In x l.
Proof.
  unfold in_names. rewrite existsb_exists. split.
  - intros [y [Hy He]]. apply Pos.eqb_eq in He. subst. exact Hy.
  - intros H. exists x. split; [exact H|apply Pos.eqb_refl].
Qed.

Lemma in_names_perm x l l' : Permutation l l' -> in_names x l = in_names x l'.
Proof.
  intros H. destruct (in_names x l) eqn:E, (in_names x l') eqn:E'; try reflexivity.
  - apply in_names_In in E. apply (Permutation_in _ H) in E. apply in_names_In in E. congruence.
  - apply in_names_In in E'. apply (Permutation_in _ (Permutation_sym H)) in E'. apply in_names_In in E'. congruence.
Qed.

Lemma pk_union_prefix new : forall old, exists l, pk_union old new = old ++ l.
Proof.
  induction new as [|x new IH]; intros old; cbn.
  - exists []. rewrite app_nil_r. reflexivity.
  - unfold pk_union in *. cbn. unfold pk_add at 2. destruct (in_names x old).
    + apply IH.
    + destruct (IH (old ++ [x])) as [l Hl]. exists ([x] ++ l). rewrite Hl, <- app_assoc. reflexivity.
Qed.

Lemma pk_union_in new : forall old x, In x (pk_union old new) <-> In x old \/ In x new.
Proof.
  induction new as [|y new IH]; intros old x; cbn.
  - tauto.
  - unfold pk_union in *. cbn. rewrite IH. unfold pk_add. destruct (in_names y old) eqn:E.
    + apply in_names_In in E. split; [tauto|]. intros [H|[->|H]]; auto.
    + rewrite in_app_iff. cbn. tauto.
Qed.

Lemma pk_union_app old k1 k2 : pk_union old (k1 ++ k2) = pk_union (pk_union old k1) k2.
Proof. unfold pk_union. apply fold_left_app. Qed.

Lemma pk_union_nil_inv old new : pk_union old new = [] -> old = [].
Proof. destruct (pk_union_prefix new old) as [l ->]. intros H. apply app_eq_nil in H. tauto. Qed.

Lemma pk_add_perm p p' x : Permutation p p' -> Permutation (pk_add p x) (pk_add p' x).
Proof.
  intros H. unfold pk_add. rewrite (in_names_perm x p p' H). destruct (in_names x p'); [exact H|].
  apply Permutation_app; [exact H|reflexivity].
Qed.

Lemma pk_add_swap p x y : Permutation (pk_add (pk_add p x) y) (pk_add (pk_add p y) x).
Proof.
  unfold pk_add.
  destruct (in_names x p) eqn:Ex, (in_names y p) eqn:Ey; rewrite ?Ex, ?Ey; try reflexivity.
  - assert (E : in_names x (p ++ [y]) = true) by (apply in_names_In, in_or_app; left; apply in_names_In, Ex).
    rewrite E. reflexivity.
  - assert (E : in_names y (p ++ [x]) = true) by (apply in_names_In, in_or_app; left; apply in_names_In, Ey).
    rewrite E. reflexivity.
  - destruct (Pos.eq_dec x y) as [->|Hne].
    + reflexivity.
    + assert (E1 : in_names y (p ++ [x]) = false).
      { destruct (in_names y (p ++ [x])) eqn:E; [|reflexivity]. apply in_names_In, in_app_or in E.
        destruct E as [E|[E|[]]]; [apply in_names_In in E; congruence|congruence]. }
      assert (E2 : in_names x (p ++ [y]) = false).
      { destruct (in_names x (p ++ [y])) eqn:E; [|reflexivity]. apply in_names_In, in_app_or in E.
        destruct E as [E|[E|[]]]; [apply in_names_In in E; congruence|congruence]. }
      rewrite E1, E2, <- !app_assoc. apply Permutation_app; [reflexivity|apply perm_swap].
Qed.

Lemma pk_union_perm l l' : Permutation l l' -> forall p p', Permutation p p' -> Permutation (pk_union p l) (pk_union p' l').
Proof.
  unfold pk_union.
  induction 1 as [|x l l' Hp IH|x y l|l l' l'' _ IH1 _ IH2]; intros p p' H; cbn.
  - exact H.
  - apply IH, pk_add_perm, H.
  - assert (Hl : forall q q', Permutation q q' -> Permutation (fold_left pk_add l q) (fold_left pk_add l q')).
    { induction l as [|z l IHl]; intros q q' Hq; cbn; [exact Hq|]. apply IHl, pk_add_perm, Hq. }
    apply Hl. etransitivity; [apply pk_add_swap|]. apply pk_add_perm, pk_add_perm, H.
  - etransitivity; [apply IH1, H|]. apply IH2. reflexivity.
Qed.

Lemma pk_update_union_default p kf : default [] (pk_update PkUnion p kf) = pk_union (default [] p) kf.
Proof.
  unfold pk_update. destruct (pk_union (default [] p) kf) eqn:E; [|reflexivity].
  apply pk_union_nil_inv in E. exact E.
Qed.

Lemma pk_update_union_app p k1 k2 :
  pk_update PkUnion p (k1 ++ k2) = pk_update PkUnion (pk_update PkUnion p k1) k2.
Proof.
  unfold pk_update at 1 2. rewrite pk_update_union_default, <- pk_union_app.
  destruct (pk_union (default [] p) (k1 ++ k2)) eqn:E; [|reflexivity].
  rewrite pk_union_app in E. apply pk_union_nil_inv in E.
  unfold pk_update. rewrite E. reflexivity.
Qed.

Lemma pk_update_oeq mode p p' kf : oeq p p' -> oeq (pk_update mode p kf) (pk_update mode p' kf).
Proof.
  intros H. destruct mode.
  - cbn. destruct kf; [exact H|unfold oeq; reflexivity].
  - unfold oeq. rewrite !pk_update_union_default. apply pk_union_perm; [reflexivity|exact H].
  - cbn. destruct kf; [exact H|unfold oeq; reflexivity].
Qed.

(* ---- fields ---- *)
Definition names (fs : list fielddecl) : list name := map fd_name fs.

Lemma insert_fields_app fs1 fs2 m : insert_fields (fs1 ++ fs2) m = insert_fields fs2 (insert_fields fs1 m).
Proof. unfold insert_fields. apply fold_left_app. Qed.

Lemma insert_fields_notin fs : forall m nm, ~ In nm (names fs) -> insert_fields fs m !! nm = m !! nm.
Proof.
  induction fs as [|fd fs IH]; intros m nm H; cbn; [reflexivity|].
  cbn in H. unfold insert_fields in IH. rewrite IH by tauto. apply lookup_insert_ne. tauto.
Qed.

(* what a share does to a field depends on that field only *)
Lemma insert_fields_local fs : forall m m' nm, m !! nm = m' !! nm -> insert_fields fs m !! nm = insert_fields fs m' !! nm.
Proof.
  induction fs as [|fd fs IH]; intros m m' nm H; cbn; [exact H|].
  unfold insert_fields in IH. apply IH.
  destruct (decide (fd_name fd = nm)) as [->|Hne].
  - rewrite !lookup_insert, H. reflexivity.
  - rewrite !lookup_insert_ne by exact Hne. exact H.
Qed.

Lemma key_fields_ext fs m m' : (forall nm, In nm (names fs) -> m !! nm = m' !! nm) -> key_fields fs m = key_fields fs m'.
Proof.
  unfold key_fields. induction fs as [|fd fs IH]; intros H; cbn; [reflexivity|].
  rewrite (H (fd_name fd)) by (left; reflexivity). f_equal. apply IH. intros nm Hn. apply H. right. exact Hn.
Qed.

Lemma key_fields_app fs1 fs2 m : key_fields (fs1 ++ fs2) m = key_fields fs1 m ++ key_fields fs2 m.
Proof. unfold key_fields. apply flat_map_app. Qed.

Definition disjoint_names (l1 l2 : list name) : Prop := forall x, In x l1 -> In x l2 -> False.

Lemma disjoint_names_sym l1 l2 : disjoint_names l1 l2 -> disjoint_names l2 l1.
Proof. intros H x H1 H2. exact (H x H2 H1). Qed.

Lemma insert_fields_comm fs1 fs2 m : disjoint_names (names fs1) (names fs2) ->
  insert_fields fs2 (insert_fields fs1 m) = insert_fields fs1 (insert_fields fs2 m).
Proof.
  intros Hd. apply map_eq. intros nm.
  destruct (in_dec Pos.eq_dec nm (names fs1)) as [H1|H1]; destruct (in_dec Pos.eq_dec nm (names fs2)) as [H2|H2].
  - destruct (Hd nm H1 H2).
  - rewrite (insert_fields_notin fs2) by exact H2. symmetry. apply insert_fields_local, insert_fields_notin, H2.
  - rewrite (insert_fields_notin fs1 (insert_fields fs2 m)) by exact H1. apply insert_fields_local, insert_fields_notin, H1.
  - rewrite !insert_fields_notin by assumption. reflexivity.
Qed.

(* the own key fields of a share do not depend on fields the table holds under other names *)
Lemma key_fields_own fs m m' : (forall nm, In nm (names fs) -> m !! nm = m' !! nm) ->
  key_fields fs (insert_fields fs m) = key_fields fs (insert_fields fs m').
Proof. intros H. apply key_fields_ext. intros nm Hn. apply insert_fields_local, H, Hn. Qed.

(* ---- attributes ---- *)
Definition hkeys (a : list entry) : list name :=
  flat_map (fun e => match e with EN k _ => [k] | EA k _ => [k] | ET _ => [patterns_key] end) a.
Definition akeys (l : list anno) : list name := map fst l.

Lemma pats_in_hkeys a : forall t pats,
  flat_map (fun e => match e with ET t => [t] | _ => [] end) a = t :: pats -> In patterns_key (hkeys a).
Proof.
  induction a as [|e a IH]; intros t pats E; cbn in E; [discriminate|].
  cbn. apply in_or_app. destruct e as [k' v|t'|k' l]; cbn in E |- *; [right|left; left; reflexivity|right]; eapply IH; exact E.
Qed.

Lemma make_attrs_none a k : ~ In k (hkeys a) -> make_attrs a !! k = None.
Proof.
  unfold make_attrs. intros H.
  assert (Hnv : forall (es : list entry) (m : attrs), ~ In k (hkeys es) -> m !! k = None ->
            fold_left (fun (m : attrs) e => match e with EN k v => <[k := VS v]> m | EA k l => <[k := VA l]> m | ET _ => m end) es m !! k = None).
  { induction es as [|e es IH]; intros m Hk Hm; cbn; [exact Hm|].
    cbn in Hk. rewrite in_app_iff in Hk. apply IH; [tauto|].
    destruct e as [k' v|t|k' l]; cbn in Hk; [|exact Hm|]; rewrite lookup_insert_ne by tauto; exact Hm. }
  destruct (flat_map _ a) as [|t pats] eqn:E.
  - apply Hnv; [exact H|apply lookup_empty].
  - rewrite lookup_insert_ne; [apply Hnv; [exact H|apply lookup_empty]|].
    intros <-. apply H. eapply pats_in_hkeys, E.
Qed.

Lemma anno_step_comm x y a : fst x <> fst y -> anno_step x (anno_step y a) = anno_step y (anno_step x a).
Proof. intros H. unfold anno_step. apply partial_alter_commute. exact H. Qed.

Lemma annos_step_app l1 l2 a : annos_step (l1 ++ l2) a = annos_step l2 (annos_step l1 a).
Proof. unfold annos_step. apply fold_left_app. Qed.

Lemma anno_annos_comm x l : ~ In (fst x) (akeys l) -> forall a, anno_step x (annos_step l a) = annos_step l (anno_step x a).
Proof.
  induction l as [|y l IH]; intros H a; cbn; [reflexivity|].
  cbn in H. unfold annos_step in IH. rewrite IH by tauto. f_equal. apply anno_step_comm. intros E. apply H. left. congruence.
Qed.

Lemma annos_step_comm l1 l2 : disjoint_names (akeys l1) (akeys l2) ->
  forall a, annos_step l1 (annos_step l2 a) = annos_step l2 (annos_step l1 a).
Proof.
  induction l1 as [|x l1 IH]; intros Hd a; cbn; [reflexivity|].
  unfold annos_step in IH. rewrite <- IH by (intros z H1 H2; apply (Hd z); [right; exact H1|exact H2]).
  f_equal. apply anno_annos_comm. intros H. apply (Hd (fst x)); [left; reflexivity|exact H].
Qed.

Lemma annos_step_perm l l' : Permutation l l' -> NoDup (akeys l) -> forall a, annos_step l a = annos_step l' a.
Proof.
  induction 1 as [|x l l' Hp IH|x y l|l l' l'' Hp1 IH1 Hp2 IH2]; intros Hnd a.
  - reflexivity.
  - cbn. apply IH. cbn in Hnd. apply NoDup_cons in Hnd. tauto.
  - cbn. f_equal. apply anno_step_comm. cbn in Hnd. apply NoDup_cons in Hnd. destruct Hnd as [Hn _].
    intros E. apply Hn. rewrite E. left.
  - rewrite IH1 by exact Hnd. apply IH2. unfold akeys. rewrite <- (Permutation_map fst Hp1). exact Hnd.
Qed.

(* a header's attributes and an annotation of another name *)
Lemma hattrs_anno_comm a x at0 : ~ In (fst x) (hkeys a) -> hattrs_step a (anno_step x at0) = anno_step x (hattrs_step a at0).
Proof.
  intros H. unfold hattrs_step. destruct a as [|e a]; [reflexivity|].
  pose proof (make_attrs_none _ _ H) as Hn. set (src := make_attrs (e :: a)) in *.
  unfold merge_attrs, anno_step. apply map_eq. intros j. rewrite lookup_merge.
  destruct (decide (fst x = j)) as [<-|Hne].
  - assert (Hid : forall o, diag_None merge_attr1 None o = o) by (intros [o|]; reflexivity).
    rewrite !lookup_partial_alter, lookup_merge, Hn, !Hid. reflexivity.
  - rewrite !lookup_partial_alter_ne by exact Hne. rewrite lookup_merge. reflexivity.
Qed.

Lemma tattrs_anno_comm a x at0 : ~ In (fst x) (hkeys a) -> tattrs_step a (anno_step x at0) = anno_step x (tattrs_step a at0).
Proof.
  intros H. unfold tattrs_step. destruct a as [|e a]; [reflexivity|].
  pose proof (make_attrs_none _ _ H) as Hn. set (src := make_attrs (e :: a)) in *.
  assert (Hu : src ∪ anno_step x at0 = anno_step x (src ∪ at0)).
  { unfold anno_step. apply map_eq. intros j. rewrite lookup_union.
    destruct (decide (fst x = j)) as [<-|Hne].
    - rewrite !lookup_partial_alter, lookup_union, Hn. rewrite !(left_id_L None _). reflexivity.
    - rewrite !lookup_partial_alter_ne by exact Hne. rewrite lookup_union. reflexivity. }
  unfold merge_tattrs. destruct (decide (fst x = patterns_key)) as [E|Hne].
  - rewrite <- E, Hn. exact Hu.
  - replace (anno_step x at0 !! patterns_key) with (at0 !! patterns_key)
      by (unfold anno_step; rewrite lookup_partial_alter_ne by exact Hne; reflexivity).
    destruct (src !! patterns_key) as [[s|l]|]; try exact Hu.
    destruct (at0 !! patterns_key) as [[s'|l']|]; try exact Hu.
    rewrite Hu. unfold anno_step, insert, map_insert. apply partial_alter_commute. congruence.
Qed.

Lemma tattrs_annos_comm a l : disjoint_names (akeys l) (hkeys a) ->
  forall at0, tattrs_step a (annos_step l at0) = annos_step l (tattrs_step a at0).
Proof.
  induction l as [|x l IH]; intros Hd at0; cbn; [reflexivity|].
  unfold annos_step in IH. rewrite IH by (intros z H1 H2; apply (Hd z); [right; exact H1|exact H2]).
  f_equal. apply tattrs_anno_comm. intros H. apply (Hd (fst x)); [left; reflexivity|exact H].
Qed.

(* ---- two shares of one type ---- *)
Lemma type_g_fusion table a an1 an2 fs1 fs2 : disjoint_names (names fs1) (names fs2) ->
  forall t p, type_g PkUnion table a (an1 ++ an2) (fs1 ++ fs2) t p
            = seq_g (type_g PkUnion table a an1 fs1) (type_g PkUnion table [] an2 fs2) t p.
Proof.
  intros Hd t p. unfold seq_g, type_g.
  destruct (default (TRec table ∅ ∅) t) as [rel a0 fs0|a0 items|a0 ty|a0 alts|a0 sg];
    cbn [fst snd default from_option id tattrs tattrs_step]; rewrite annos_step_app; try reflexivity.
  rewrite insert_fields_app. f_equal.
  destruct rel; [|reflexivity].
  rewrite key_fields_app, pk_update_union_app. f_equal. f_equal.
  apply key_fields_ext. intros nm Hn. apply insert_fields_notin. intros H2. exact (Hd nm Hn H2).
Qed.

(* the attribute names a share writes; two shares may change places when at most one carries header attributes,
   their annotations have different names and no annotation of one is named like a header attribute of the other *)
Definition share_compat (a1 : list entry) (an1 : list anno) (fs1 : list fielddecl)
                        (a2 : list entry) (an2 : list anno) (fs2 : list fielddecl) : Prop :=
  (a1 = [] \/ a2 = []) /\ disjoint_names (akeys an1) (akeys an2) /\
  disjoint_names (akeys an1) (hkeys a2) /\ disjoint_names (akeys an2) (hkeys a1) /\
  disjoint_names (names fs1) (names fs2).

Lemma share_attrs_comm a1 an1 a2 an2 : (a1 = [] \/ a2 = []) -> disjoint_names (akeys an1) (akeys an2) ->
  disjoint_names (akeys an1) (hkeys a2) -> disjoint_names (akeys an2) (hkeys a1) ->
  forall a0, annos_step an2 (tattrs_step a2 (annos_step an1 (tattrs_step a1 a0)))
           = annos_step an1 (tattrs_step a1 (annos_step an2 (tattrs_step a2 a0))).
Proof.
  intros Ha Hd H12 H21 a0.
  rewrite (tattrs_annos_comm a2 an1 H12), (tattrs_annos_comm a1 an2 H21).
  rewrite (annos_step_comm an2 an1 (disjoint_names_sym _ _ Hd)). f_equal. f_equal.
  destruct Ha as [-> | ->]; reflexivity.
Qed.

Lemma type_g_comm table a1 an1 fs1 a2 an2 fs2 : share_compat a1 an1 fs1 a2 an2 fs2 ->
  forall t p,
    fst (seq_g (type_g PkUnion table a1 an1 fs1) (type_g PkUnion table a2 an2 fs2) t p)
      = fst (seq_g (type_g PkUnion table a2 an2 fs2) (type_g PkUnion table a1 an1 fs1) t p)
    /\ oeq (snd (seq_g (type_g PkUnion table a1 an1 fs1) (type_g PkUnion table a2 an2 fs2) t p))
           (snd (seq_g (type_g PkUnion table a2 an2 fs2) (type_g PkUnion table a1 an1 fs1) t p)).
Proof.
  intros (Ha & Hd & H12 & H21 & Hf) t p. unfold seq_g, type_g.
  pose proof (share_attrs_comm a1 an1 a2 an2 Ha Hd H12 H21) as Hat.
  destruct (default (TRec table ∅ ∅) t) as [rel a0 fs0|a0 items|a0 ty|a0 alts|a0 sg];
    cbn [fst snd default from_option id tattrs]; rewrite Hat; try (split; reflexivity).
  split.
  - rewrite (insert_fields_comm fs1 fs2) by exact Hf. reflexivity.
  - destruct rel; [|reflexivity].
    unfold oeq. rewrite !pk_update_union_default, <- !pk_union_app.
    apply pk_union_perm; [|reflexivity].
    rewrite (key_fields_own fs2 (insert_fields fs1 fs0) fs0), (key_fields_own fs1 (insert_fields fs2 fs0) fs0).
    + apply Permutation_app_comm.
    + intros nm Hn. apply insert_fields_notin. intros H. exact (Hf nm Hn H).
    + intros nm Hn. apply insert_fields_notin. intros H. exact (Hf nm H Hn).
Qed.
(* ------------------------------------------------------------------------------------------------ *)
(* 5. independence of declarations, commutation, well-formed contents                                *)
Definition x_cellid (x : xatom) : cellid :=
  match x with
  | XHead _ _ _ | XAnno _ _ => CHead
  | XType _ _ n _ _ _ | XRepl _ n _ => CType n
  | XEp _ n _ _ _ _ | XEvent _ n _ _ _ => CEp (None, [n])
  | XMeth _ (k, _, _) => CEp k
  | XSub _ key _ _ _ _ => CEp (None, [key])
  | XSubCall _ evt _ _ => CEp (None, [evt])
  | XMixin _ _ => CType mixin_key
  | XDots _ => CEp (None, [dots_name])
  end.
Definition x_cell (x : xatom) : appname * cellid := (x_app x, x_cellid x).

Lemma op_cell_x mode x : op_cell (x_op mode x) = x_cellid x.
Proof. destruct x as [| | | | | |? [[? ?] ?]| | | |]; reflexivity. Qed.

(* two declarations on the SAME cell that may still be reordered:
   - shares of one type (share_compat), the same kind
   - headers of which one is a bare re-opening; an annotation of the application and a header that does not set
     that name; two annotations of the application with different names
   - two mixins of one application (the order of Mixin2 follows the blocks: equal up to that order)
   - an event declared without parameters and statements (`<-> E: ...`) and a subscription to it *)
Definition frag_compat (x y : xatom) : Prop :=
  match x, y with
  | XType an t n a annos fs, XType an' t' n' a' annos' fs' =>
      an = an' /\ n = n' /\ t = t' /\ share_compat a annos fs a' annos' fs'
  | XHead an l a, XHead an' l' a' => an = an' /\ ((l = None /\ a = []) \/ (l' = None /\ a' = []))
  | XHead an l a, XAnno an' x => an = an' /\ ~ In (fst x) (hkeys a)
  | XAnno an' x, XHead an l a => an = an' /\ ~ In (fst x) (hkeys a)
  | XAnno an x, XAnno an' y => an = an' /\ fst x <> fst y
  | XMixin an _, XMixin an' _ => an = an'
  | XEvent an n _ params body, XSubCall pub evt _ _ => an = pub /\ n = evt /\ params = [] /\ body = []
  | XSubCall pub evt _ _, XEvent an n _ params body => an = pub /\ n = evt /\ params = [] /\ body = []
  | _, _ => False
  end.
Definition indep (x y : xatom) : Prop := x_cell x <> x_cell y \/ frag_compat x y.

Lemma share_compat_sym a1 an1 fs1 a2 an2 fs2 : share_compat a1 an1 fs1 a2 an2 fs2 -> share_compat a2 an2 fs2 a1 an1 fs1.
Proof.
  intros (Ha & Hd & H12 & H21 & Hf). repeat split; try assumption; [tauto|apply disjoint_names_sym, Hd|apply disjoint_names_sym, Hf].
Qed.

Lemma indep_sym x y : indep x y -> indep y x.
Proof.
  intros [H|H]; [left; congruence|right].
  destruct x, y; cbn in *; try contradiction.
  - destruct H as [-> H]. split; [reflexivity|tauto].
  - exact H.
  - exact H.
  - destruct H as [-> H]. split; [reflexivity|congruence].
  - destruct H as (-> & -> & -> & H). split; [reflexivity|split; [reflexivity|split; [reflexivity|apply share_compat_sym, H]]].
  - exact H.
  - exact H.
  - symmetry. exact H.
Qed.

Lemma good_x mode x : good_op (x_op mode x).
Proof.
  destruct x as [| | an table n a annos fs | an n t | | |? [[? ?] ?]| | | an x|]; cbn; try exact I.
  - intros t p p' Hp. unfold type_g.
    destruct (default (TRec table ∅ ∅) t) as [rel a0 fs0|a0 its|a0 ty|a0 alts|a0 sg]; cbn [fst snd];
      (split; [reflexivity|]); try exact Hp.
    destruct rel; [apply pk_update_oeq, Hp|exact Hp].
  - intros t0 p p' Hp. unfold repl_g. destruct t; cbn [fst snd]; split; try reflexivity. exact Hp.
  - intros t0 p p' Hp. unfold mixin_g; cbn [fst snd]. split; [reflexivity|].
    unfold oeq in *. cbn [default from_option id]. apply Permutation_app; [exact Hp|reflexivity].
Qed.

Lemma xstep_proper mode s s' x : Req s s' -> Req (xstep mode s x) (xstep mode s' x).
Proof. apply apply_proper, good_x. Qed.

(* a bare re-opening header changes nothing but creates the application entry *)
Lemma touch_comm_op an o s :
  apply_op an o (apply_op an (OHead (head_f None [])) s) = apply_op an (OHead (head_f None [])) (apply_op an o s).
Proof.
  destruct s as [m p]. destruct o as [h|n g|k e]; unfold apply_op; cbn [fst snd head_f hattrs_step];
    rewrite !cur_app_insert; cbn [a_long a_attrs a_types a_eps]; rewrite !insert_insert; reflexivity.
Qed.

Lemma touch_comm mode an s x :
  xstep mode (xstep mode s (XHead an None [])) x = xstep mode (xstep mode s x) (XHead an None []).
Proof.
  unfold xstep; cbn [x_app x_op].
  destruct (decide (an = x_app x)) as [->|Hne].
  - apply touch_comm_op.
  - apply apply_comm_ne. congruence.
Qed.

Lemma xstep_comm s x y : indep x y ->
  Req (xstep PkUnion (xstep PkUnion s x) y) (xstep PkUnion (xstep PkUnion s y) x).
Proof.
  intros [Hc|Hf].
  - unfold xstep. rewrite apply_comm_ne; [reflexivity|]. rewrite !op_cell_x. unfold x_cell in Hc. congruence.
  - destruct x as [an l a|an x|an t n a annos fs| | |an n ea params body| | |pub evt caller key|an x|],
             y as [an' l' a'|an' y|an' t' n' a' annos' fs'| | |an' n' ea' params' body'| | |pub' evt' caller' key'|an' y|];
      cbn in Hf; try contradiction.
    + (* header / bare header *)
      destruct Hf as [<- [[-> ->]|[-> ->]]].
      * rewrite touch_comm. reflexivity.
      * rewrite <- touch_comm. reflexivity.
    + (* header / annotation *)
      destruct Hf as [<- Hk]. unfold xstep; cbn [x_app x_op]. rewrite !apply_seq_head.
      erewrite apply_ext_head; [reflexivity|]. intros l0 a0. unfold head_f; cbn [fst snd]. f_equal.
      symmetry. apply hattrs_anno_comm, Hk.
    + destruct Hf as [<- Hk]. unfold xstep; cbn [x_app x_op]. rewrite !apply_seq_head.
      erewrite apply_ext_head; [reflexivity|]. intros l0 a0. unfold head_f; cbn [fst snd]. f_equal.
      apply hattrs_anno_comm, Hk.
    + (* two annotations *)
      destruct Hf as [<- Hk]. unfold xstep; cbn [x_app x_op]. rewrite !apply_seq_head.
      erewrite apply_ext_head; [reflexivity|]. intros l0 a0. cbn [fst snd]. f_equal.
      apply anno_step_comm. congruence.
    + (* two shares of a type *)
      destruct Hf as (<- & <- & <- & Hs).
      unfold xstep; cbn [x_app x_op]. rewrite !apply_seq_type.
      apply apply_ext_type. apply type_g_comm; assumption.
    + (* event declared empty / subscription *)
      destruct Hf as (-> & -> & -> & ->).
      unfold xstep; cbn [x_app x_op]. rewrite !apply_seq_ep.
      erewrite apply_ext_ep; [reflexivity|]. intros e0. unfold event_f, subcall_f.
      destruct e0 as [e|]; cbn [default from_option id e_pubsub e_rest e_source e_attrs e_params e_query e_url e_stmts new_ep];
        rewrite ?app_nil_r; reflexivity.
    + destruct Hf as (-> & -> & -> & ->).
      unfold xstep; cbn [x_app x_op]. rewrite !apply_seq_ep.
      erewrite apply_ext_ep; [reflexivity|]. intros e0. unfold event_f, subcall_f.
      destruct e0 as [e|]; cbn [default from_option id e_pubsub e_rest e_source e_attrs e_params e_query e_url e_stmts new_ep];
        rewrite ?app_nil_r; reflexivity.
    + (* two mixins *)
      subst an'. unfold xstep; cbn [x_app x_op]. rewrite !apply_seq_type.
      apply apply_ext_type. intros t0 p0. unfold seq_g, mixin_g; cbn [fst snd default from_option id].
      split; [reflexivity|]. unfold oeq; cbn [default from_option id]. rewrite <- !app_assoc.
      apply Permutation_app; [reflexivity|apply perm_swap].
Qed.

Lemma touch_absorbed mode s x :
  xstep mode (xstep mode s x) (XHead (x_app x) None []) = xstep mode s x.
Proof.
  destruct s as [m p]. unfold xstep at 1. unfold apply_op at 1. cbn [x_app x_op head_f hattrs_step fst snd].
  rewrite app_eta.
  assert (H : fst (xstep mode (m, p) x) !! x_app x = Some (cur_app (fst (xstep mode (m, p) x)) (x_app x))).
  { unfold xstep, apply_op. destruct (x_op mode x); cbn [fst]; rewrite cur_app_insert, lookup_insert; reflexivity. }
  rewrite insert_id by exact H. destruct (xstep mode (m, p) x); reflexivity.
Qed.

Lemma touch_fold mode an l : forall s,
  fold_left (xstep mode) l (xstep mode s (XHead an None [])) = xstep mode (fold_left (xstep mode) l s) (XHead an None []).
Proof. induction l as [|x l IH]; intros s; cbn [fold_left]; [reflexivity|]. rewrite touch_comm. apply IH. Qed.

Lemma touch_redundant mode an l s : (exists x, In x l /\ x_app x = an) ->
  fold_left (xstep mode) (XHead an None [] :: l) s = fold_left (xstep mode) l s.
Proof.
  intros [x [Hin <-]]. apply in_split in Hin. destruct Hin as [l1 [l2 ->]].
  cbn [fold_left]. rewrite !fold_left_app. cbn [fold_left].
  rewrite touch_fold, touch_comm, touch_absorbed. reflexivity.
Qed.

(* ---- well-formed contents and the layouts of one specification ---- *)
Definition wf_x (x : xatom) : Prop :=
  match x with
  | XType _ _ _ a annos fs => NoDup (names fs) /\ NoDup (akeys annos) /\ disjoint_names (akeys annos) (hkeys a)
  | _ => True
  end.
Definition wf (l : list xatom) : Prop := pairwise indep l /\ Forall wf_x l.

Inductive refines : list xatom -> list xatom -> Prop :=
| rf_perm l l' : Permutation l l' -> refines l l'
| rf_split an t n a an1 an2 fs1 fs2 l :
    refines (XType an t n a (an1 ++ an2) (fs1 ++ fs2) :: l) (XType an t n a an1 fs1 :: XType an t n [] an2 fs2 :: l)
| rf_fields an t n a annos annos' fs fs' l : Permutation fs fs' -> Permutation annos annos' ->
    refines (XType an t n a annos fs :: l) (XType an t n a annos' fs' :: l)
| rf_reopen an l : (exists x, In x l /\ x_app x = an) -> refines l (XHead an None [] :: l)
| rf_trans l1 l2 l3 : refines l1 l2 -> refines l2 l3 -> refines l1 l3.

Lemma NoDup_app_disjoint (l1 l2 : list name) : NoDup (l1 ++ l2) -> disjoint_names l1 l2.
Proof.
  intros H x H1 H2. apply NoDup_app in H. destruct H as (_ & Hd & _).
  apply (Hd x); apply elem_of_list_In; assumption.
Qed.

Lemma names_app fs1 fs2 : names (fs1 ++ fs2) = names fs1 ++ names fs2.
Proof. apply map_app. Qed.
Lemma akeys_app l1 l2 : akeys (l1 ++ l2) = akeys l1 ++ akeys l2.
Proof. apply map_app. Qed.

Lemma names_perm fs fs' : Permutation fs fs' -> Permutation (names fs) (names fs').
Proof. apply Permutation_map. Qed.
Lemma akeys_perm l l' : Permutation l l' -> Permutation (akeys l) (akeys l').
Proof. apply Permutation_map. Qed.

Lemma insert_fields_perm fs fs' : Permutation fs fs' -> NoDup (names fs) ->
  forall m, insert_fields fs m = insert_fields fs' m.
Proof.
  unfold insert_fields.
  induction 1 as [|x l l' Hp IH|x y l|l l' l'' Hp1 IH1 Hp2 IH2]; intros Hnd m.
  - reflexivity.
  - cbn. apply IH. cbn in Hnd. apply NoDup_cons in Hnd. tauto.
  - cbn. cbn in Hnd. apply NoDup_cons in Hnd. destruct Hnd as [Hn _].
    assert (Hxy : fd_name y <> fd_name x) by (intros E; apply Hn; rewrite E; left).
    rewrite !lookup_insert_ne by congruence. f_equal. apply insert_commute. congruence.
  - rewrite IH1 by exact Hnd. apply IH2. rewrite <- (names_perm _ _ Hp1). exact Hnd.
Qed.

Lemma type_g_perm table a annos annos' fs fs' : Permutation fs fs' -> Permutation annos annos' ->
  NoDup (names fs) -> NoDup (akeys annos) ->
  forall t p, fst (type_g PkUnion table a annos fs t p) = fst (type_g PkUnion table a annos' fs' t p)
           /\ oeq (snd (type_g PkUnion table a annos fs t p)) (snd (type_g PkUnion table a annos' fs' t p)).
Proof.
  intros Hp Hpa Hnd Hna t p. unfold type_g.
  rewrite (annos_step_perm annos annos' Hpa Hna).
  destruct (default (TRec table ∅ ∅) t) as [rel a0 fs0|a0 items|a0 ty|a0 alts|a0 sg]; cbn [fst snd]; try (split; reflexivity).
  rewrite (insert_fields_perm fs fs' Hp Hnd). split; [reflexivity|].
  destruct rel; [|reflexivity].
  unfold oeq. rewrite !pk_update_union_default. apply pk_union_perm; [|reflexivity].
  unfold key_fields. apply Permutation_flat_map, Hp.
Qed.

Lemma disjoint_sub (l1 l1' l2 l2' : list name) :
  (forall x, In x l1' -> In x l1) -> (forall x, In x l2' -> In x l2) -> disjoint_names l1 l2 -> disjoint_names l1' l2'.
Proof. intros H1 H2 Hd x Hx1 Hx2. exact (Hd x (H1 x Hx1) (H2 x Hx2)). Qed.

(* a declaration that may change places with a share may change places with every part of it *)
Lemma indep_share_sub an t n a annos fs a' annos' fs' y :
  (a' = a \/ a' = []) -> (forall x, In x (akeys annos') -> In x (akeys annos)) ->
  (forall x, In x (names fs') -> In x (names fs)) ->
  indep (XType an t n a annos fs) y -> indep (XType an t n a' annos' fs') y.
Proof.
  intros Ha Hk Hf [Hc|Hc]; [left; exact Hc|right].
  destruct y; cbn in Hc |- *; try contradiction.
  destruct Hc as (-> & -> & -> & (Haa & Hd & H12 & H21 & Hff)). repeat split.
  - destruct Ha as [-> | ->]; tauto.
  - eapply disjoint_sub; [exact Hk| |exact Hd]. auto.
  - eapply disjoint_sub; [exact Hk| |exact H12]. auto.
  - destruct Ha as [-> | ->]; [exact H21|intros x _ []].
  - eapply disjoint_sub; [exact Hf| |exact Hff]. auto.
Qed.

Lemma refines_wf l l' : refines l l' -> wf l -> wf l'.
Proof.
  induction 1 as [l l' Hp|an t n a an1 an2 fs1 fs2 l|an t n a annos annos' fs fs' l Hp Hpa|an l Hx|l1 l2 l3 _ IH1 _ IH2]; intros [Hpw Hwf].
  - split; [eapply pairwise_perm; [exact indep_sym|exact Hp|exact Hpw]|eapply Permutation_Forall; eassumption].
  - inversion Hpw as [|? ? Hf Hl]; subst. inversion Hwf as [|? ? Hx Hwl]; subst. destruct Hx as (Hnd & Hna & Hah).
    rewrite names_app in Hnd. rewrite akeys_app in Hna, Hah.
    split.
    + constructor.
      * constructor.
        -- right. cbn. repeat split; [tauto|apply NoDup_app_disjoint, Hna|intros x _ []| |apply NoDup_app_disjoint, Hnd].
           eapply disjoint_sub; [| |exact Hah]; [intros x Hx; apply in_or_app; right; exact Hx|auto].
        -- eapply Forall_impl; [exact Hf|]. intros y. apply indep_share_sub; [tauto| |].
           ++ intros x Hx. rewrite akeys_app. apply in_or_app. left; exact Hx.
           ++ intros x Hx. rewrite names_app. apply in_or_app. left; exact Hx.
      * constructor; [|exact Hl].
        eapply Forall_impl; [exact Hf|]. intros y. apply indep_share_sub; [tauto| |].
        -- intros x Hx. rewrite akeys_app. apply in_or_app. right; exact Hx.
        -- intros x Hx. rewrite names_app. apply in_or_app. right; exact Hx.
    + apply NoDup_app in Hnd. destruct Hnd as (Hn1 & _ & Hn2). apply NoDup_app in Hna. destruct Hna as (Ha1 & _ & Ha2).
      constructor; [|constructor; [|exact Hwl]]; cbn.
      * repeat split; [exact Hn1|exact Ha1|]. eapply disjoint_sub; [| |exact Hah]; [intros x Hx; apply in_or_app; left; exact Hx|auto].
      * repeat split; [exact Hn2|exact Ha2|intros x _ []].
  - inversion Hpw as [|? ? Hf Hl]; subst. inversion Hwf as [|? ? Hx Hwl]; subst. destruct Hx as (Hnd & Hna & Hah).
    split.
    + constructor; [|exact Hl]. eapply Forall_impl; [exact Hf|]. intros y. apply indep_share_sub; [tauto| |].
      * intros x Hx. eapply Permutation_in; [symmetry; apply akeys_perm, Hpa|exact Hx].
      * intros x Hx. eapply Permutation_in; [symmetry; apply names_perm, Hp|exact Hx].
    + constructor; [|exact Hwl]. cbn. split; [|split].
      * rewrite <- (names_perm _ _ Hp). exact Hnd.
      * rewrite <- (akeys_perm _ _ Hpa). exact Hna.
      * intros x Hx. apply Hah. eapply Permutation_in; [symmetry; apply akeys_perm, Hpa|exact Hx].
  - split; [|constructor; [exact I|exact Hwf]].
    constructor; [|exact Hpw]. apply Forall_forall. intros y _.
    destruct (decide (x_cell (XHead an None []) = x_cell y)) as [He|Hne]; [right|left; exact Hne].
    destruct y as [| | | | | |? [[? ?] ?]| | | |]; unfold x_cell in He; cbn in He; try discriminate; inversion He; subst; cbn.
    + tauto.
    + split; [reflexivity|]. intros [].
  - apply IH2, IH1. split; assumption.
Qed.

Theorem refines_sound l l' : refines l l' -> wf l ->
  forall s s', Req s s' -> Req (fold_left (xstep PkUnion) l s) (fold_left (xstep PkUnion) l' s').
Proof.
  induction 1 as [l l' Hp|an t n a an1 an2 fs1 fs2 l|an t n a annos annos' fs fs' l Hp Hpa|an l Hx|l1 l2 l3 H1 IH1 H2 IH2]; intros Hw s s' Hs.
  - destruct Hw as [Hpw _].
    eapply (fold_perm Req (xstep PkUnion) indep); eauto using indep_sym, xstep_comm.
    intros; apply xstep_proper; assumption.
  - destruct Hw as [_ Hwf]. inversion Hwf as [|? ? Hx _]; subst. destruct Hx as (Hnd & _ & _). rewrite names_app in Hnd.
    cbn [fold_left]. apply (fold_proper Req (xstep PkUnion)); [intros; apply xstep_proper; assumption|].
    unfold xstep at 2 3; cbn [x_app x_op]. rewrite apply_seq_type.
    etransitivity; [apply xstep_proper, Hs|]. unfold xstep; cbn [x_app x_op].
    apply apply_ext_type. intros t0 p0.
    rewrite type_g_fusion by (apply NoDup_app_disjoint, Hnd). split; reflexivity.
  - destruct Hw as [_ Hwf]. inversion Hwf as [|? ? Hx _]; subst. destruct Hx as (Hnd & Hna & _).
    cbn [fold_left]. apply (fold_proper Req (xstep PkUnion)); [intros; apply xstep_proper; assumption|].
    etransitivity; [apply xstep_proper, Hs|]. unfold xstep; cbn [x_app x_op].
    apply apply_ext_type. apply type_g_perm; assumption.
  - rewrite touch_redundant by exact Hx.
    apply (fold_proper Req (xstep PkUnion)); [intros; apply xstep_proper; assumption|exact Hs].
  - etransitivity; [apply IH1; [exact Hw|reflexivity]|].
    apply IH2; [eapply refines_wf; eassumption|exact Hs].
Qed.

(* ------------------------------------------------------------------------------------------------ *)
(* 6. files of the import closure: the flatten order is a duplicate-free list of existing files      *)
Definition all_reached (files : list filedesc) (root : name) : bool :=
  forallb (fun f => in_names (fst f) (flatten_order files root)) files.
Definition all_blocks (files : list filedesc) : list block := flat_map (fun f => snd (snd f)) files.
Definition blocks_of (files : list filedesc) (f : name) : list block :=
  match file_lookup files f with Some (_, bs) => bs | None => [] end.

Definition flat_ok (files : list filedesc) (acc : list name) : Prop :=
  NoDup acc /\ forall x, x ∈ acc -> is_Some (file_lookup files x).

Lemma flatten_ok files fuel : forall f acc, flat_ok files acc -> flat_ok files (flatten fuel files f acc).
Proof.
  induction fuel as [|k IH]; intros f acc Hok; cbn; [exact Hok|].
  destruct (in_names f acc) eqn:Ein; [exact Hok|].
  destruct (file_lookup files f) as [[imps bs]|] eqn:El; [|exact Hok].
  assert (Hok' : flat_ok files (acc ++ [f])).
  { destruct Hok as [Hnd Hl]. split.
    - apply NoDup_app. split; [exact Hnd|]. split; [|apply NoDup_singleton].
      intros x Hx Hf. apply elem_of_list_singleton in Hf. subst x.
      apply elem_of_list_In, in_names_In in Hx. congruence.
    - intros x Hx. apply elem_of_app in Hx. destruct Hx as [Hx|Hx]; [apply Hl, Hx|].
      apply elem_of_list_singleton in Hx. subst x. rewrite El. eexists; reflexivity. }
  clear Hok Ein El. revert Hok'. generalize (acc ++ [f]). clear acc.
  induction imps as [|i imps IHi]; intros acc Hok; cbn; [exact Hok|].
  apply IHi, IH, Hok.
Qed.

Lemma file_lookup_in files f v : file_lookup files f = Some v -> In (f, v) files.
Proof.
  unfold file_lookup. destruct (find (fun p => Pos.eqb (fst p) f) files) as [[f' v']|] eqn:E; [|discriminate].
  intros [= <-]. apply find_some in E. destruct E as [Hin He]. cbn in He. apply Pos.eqb_eq in He. subst. exact Hin.
Qed.

Lemma blocks_of_names files : NoDup (map fst files) ->
  flat_map (blocks_of files) (map fst files) = all_blocks files.
Proof.
  induction files as [|[f0 [i0 b0]] fs IH]; intros Hnd; [reflexivity|].
  cbn [map fst] in Hnd. apply NoDup_cons in Hnd. destruct Hnd as [Hn Hnd].
  cbn [map flat_map fst snd all_blocks]. unfold blocks_of at 1, file_lookup. cbn [find fst]. rewrite Pos.eqb_refl. cbn [snd].
  f_equal. fold (all_blocks fs). rewrite <- (IH Hnd). clear IH.
  assert (H : forall l, (forall x, In x l -> x <> f0) -> flat_map (blocks_of ((f0, (i0, b0)) :: fs)) l = flat_map (blocks_of fs) l).
  { induction l as [|x l IHl]; intros Hx; [reflexivity|]. cbn [flat_map]. rewrite IHl by (intros y Hy; apply Hx; right; exact Hy).
    f_equal. unfold blocks_of, file_lookup. cbn [find fst].
    destruct (Pos.eqb f0 x) eqn:E; [|reflexivity]. apply Pos.eqb_eq in E. subst. exfalso. apply (Hx x); [left|]; reflexivity. }
  apply H. intros x Hx ->. apply Hn, elem_of_list_In, Hx.
Qed.

Lemma flatten_perm files root : NoDup (map fst files) -> all_reached files root = true ->
  Permutation (blocks_in_order files (flatten_order files root)) (all_blocks files).
Proof.
  intros Hnd Hall. rewrite <- (blocks_of_names files Hnd).
  change (blocks_in_order files (flatten_order files root)) with (flat_map (blocks_of files) (flatten_order files root)).
  apply Permutation_flat_map.
  destruct (flatten_ok files (Datatypes.S (length files)) root []) as [Hn Hl].
  { split; [apply NoDup_nil_2|]. intros x Hx. apply elem_of_nil in Hx. destruct Hx. }
  fold (flatten_order files root) in Hn, Hl.
  apply NoDup_Permutation; [exact Hn|exact Hnd|]. intros x. split; intros Hx.
  - destruct (Hl x Hx) as [v Hv]. apply file_lookup_in in Hv. apply elem_of_list_In.
    change x with (fst (x, v)). apply in_map, Hv.
  - apply elem_of_list_In in Hx. apply in_map_iff in Hx. destruct Hx as [fd [<- Hin]].
    unfold all_reached in Hall. rewrite forallb_forall in Hall. apply elem_of_list_In, in_names_In, Hall, Hin.
Qed.

(* ------------------------------------------------------------------------------------------------ *)
(* 7. the property                                                                                   *)
Definition bcontent (bs : list block) : list xatom := content (flat_map atoms_of_block bs).

Lemma denote_blocks_content mode bs : denote_blocks mode bs = fold_left (xstep mode) (bcontent bs) (∅, ∅).
Proof. unfold denote_blocks. apply denote_atoms_content. Qed.

Lemma bcontent_perm bs bs' : Permutation bs bs' -> Permutation (bcontent bs) (bcontent bs').
Proof. intros H. unfold bcontent, content. apply Permutation_flat_map, Permutation_flat_map, H. Qed.

(* HEADLINE.  `joined` is any block list with well-formed content (in particular: one block per app, every
   member once, every attribute name of a cell set once).  `files` is any set of files whose blocks, taken together,
   declare the same things: obtained from the joined content by permuting declarations, splitting the fields and
   annotations of a type over several shares, permuting the fields / annotations inside a type and adding bare
   re-opening headers - in any import graph that reaches every file (any order of import statements, any assignment
   of blocks to files).  Then the compiled models agree; primary-key lists and mixin lists agree up to their order. *)
Theorem merge_partition_invariant files root joined :
  NoDup (map fst files) -> all_reached files root = true ->
  wf (bcontent joined) -> refines (bcontent joined) (bcontent (all_blocks files)) ->
  Req (denote_files PkUnion files root) (denote_blocks PkUnion joined).
Proof.
  intros Hnd Hall Hwf Href. unfold denote_files. rewrite !denote_blocks_content. symmetry.
  apply refines_sound; [|exact Hwf|reflexivity].
  eapply rf_trans; [exact Href|]. apply rf_perm, bcontent_perm. symmetry. apply flatten_perm; assumption.
Qed.

(* two layouts of one specification agree with each other *)
Corollary merge_layouts_agree files root files' root' joined :
  NoDup (map fst files) -> all_reached files root = true ->
  NoDup (map fst files') -> all_reached files' root' = true ->
  wf (bcontent joined) ->
  refines (bcontent joined) (bcontent (all_blocks files)) -> refines (bcontent joined) (bcontent (all_blocks files')) ->
  Req (denote_files PkUnion files root) (denote_files PkUnion files' root').
Proof.
  intros. etransitivity; [eapply merge_partition_invariant; eassumption|].
  symmetry. eapply merge_partition_invariant; eassumption.
Qed.

Definition key_of (s : state) (k : appname * name) : list name := default [] (snd s !! k).

Theorem merge_partition_invariant_perm files root joined :
  NoDup (map fst files) -> all_reached files root = true ->
  wf (bcontent joined) -> refines (bcontent joined) (bcontent (all_blocks files)) ->
  fst (denote_files PkUnion files root) = fst (denote_blocks PkUnion joined) /\
  forall k, Permutation (key_of (denote_files PkUnion files root) k) (key_of (denote_blocks PkUnion joined) k).
Proof.
  intros Hnd Hall Hwf Href.
  destruct (merge_partition_invariant files root joined Hnd Hall Hwf Href) as [H1 H2].
  split; [exact H1|]. intros k. apply H2.
Qed.

(* ---- whatever ExitTable does with the key: everything except the primary keys is invariant ---- *)
Lemma fst_xstep_mode mode mode' s s' x : fst s = fst s' -> fst (xstep mode s x) = fst (xstep mode' s' x).
Proof.
  destruct s as [m p], s' as [m' p']. cbn [fst]. intros <-.
  destruct x as [| | an table n a annos fs | an n t | | |? [[? ?] ?]| | | |]; try reflexivity.
  - unfold xstep, apply_op; cbn [x_app x_op fst snd]. unfold type_g.
    destruct (default (TRec table ∅ ∅) (a_types (cur_app m an) !! n)); reflexivity.
  - unfold xstep, apply_op; cbn [x_app x_op fst snd]. unfold repl_g. destruct t; reflexivity.
Qed.

Lemma fst_fold_mode mode mode' l : forall s s', fst s = fst s' ->
  fst (fold_left (xstep mode) l s) = fst (fold_left (xstep mode') l s').
Proof. induction l as [|x l IH]; intros s s' H; cbn [fold_left]; [exact H|]. apply IH, fst_xstep_mode, H. Qed.

Theorem merge_fields_partial mode files root joined :
  NoDup (map fst files) -> all_reached files root = true ->
  wf (bcontent joined) -> refines (bcontent joined) (bcontent (all_blocks files)) ->
  fst (denote_files mode files root) = fst (denote_blocks mode joined).
Proof.
  intros Hnd Hall Hwf Href.
  destruct (merge_partition_invariant files root joined Hnd Hall Hwf Href) as [H _].
  unfold denote_files in *. rewrite !denote_blocks_content in *.
  rewrite (fst_fold_mode mode PkUnion _ (∅, ∅) (∅, ∅) eq_refl), H.
  apply fst_fold_mode. reflexivity.
Qed.

(* ---- and with the key recomputed per block (the code as found) the full statement is false ---- *)
Local Open Scope positive_scope.
Definition wit_app : appname := [15%positive].
Definition wit_fa := FD 7 10 false [ET pk_tag].
Definition wit_fb := FD 8 10 false [ET pk_tag].
Definition wit_fc := FD 9 11 false [].
Definition wit_joined : list block := [B wit_app None [] [MT true 16 [] [] [wit_fa; wit_fb; wit_fc]]].
Definition wit_files : list filedesc :=
  [(20%positive, ([21%positive], [B wit_app None [] [MT true 16 [] [] [wit_fa]]]));
   (21%positive, ([], [B wit_app None [] [MT true 16 [] [] [wit_fb; wit_fc]]]))].
Local Close Scope positive_scope.

Ltac nodup_names :=
  repeat (apply NoDup_cons; split; [let H := fresh in intros H; repeat (apply elem_of_cons in H; destruct H as [H|H]; [discriminate|]); apply elem_of_nil in H; exact H|]);
  apply NoDup_nil_2.

Lemma wit_hyps :
  NoDup (map fst wit_files) /\ all_reached wit_files 20%positive = true /\
  wf (bcontent wit_joined) /\ refines (bcontent wit_joined) (bcontent (all_blocks wit_files)).
Proof.
  split; [|split; [|split]].
  - cbn. nodup_names.
  - reflexivity.
  - split.
    + constructor; [|constructor; [constructor|constructor]]. constructor; [|constructor]. left. discriminate.
    + constructor; [exact I|]. constructor; [|constructor]. cbn. split; [nodup_names|split; [nodup_names|intros x []]].
  - cbn. (* [H; T(a,b,c)]  ~>  [H; T(a); H; T(b,c)] *)
    eapply rf_trans; [apply rf_perm, perm_swap|].
    eapply rf_trans; [apply (rf_split wit_app true 16%positive [] [] [] [wit_fa] [wit_fb; wit_fc])|].
    eapply rf_trans; [apply (rf_reopen wit_app); eexists; split; [left; reflexivity|reflexivity]|].
    apply rf_perm.
    do 2 apply perm_skip. apply perm_swap.
Qed.

Theorem merge_fields_pk_refuted :
  exists files root joined,
    NoDup (map fst files) /\ all_reached files root = true /\
    wf (bcontent joined) /\ refines (bcontent joined) (bcontent (all_blocks files)) /\
    snd (denote_files PkReplace files root) !! (wit_app, 16%positive) = Some [8%positive] /\
    snd (denote_blocks PkReplace joined) !! (wit_app, 16%positive) = Some [7%positive; 8%positive] /\
    ~ Req (denote_files PkReplace files root) (denote_blocks PkReplace joined).
Proof.
  exists wit_files, 20%positive, wit_joined.
  destruct wit_hyps as (H1 & H2 & H3 & H4). repeat (split; [assumption|]).
  assert (Ha : snd (denote_files PkReplace wit_files 20%positive) !! (wit_app, 16%positive) = Some [8%positive]) by (vm_compute; reflexivity).
  assert (Hb : snd (denote_blocks PkReplace wit_joined) !! (wit_app, 16%positive) = Some [7%positive; 8%positive]) by (vm_compute; reflexivity).
  split; [exact Ha|]. split; [exact Hb|].
  intros [_ H]. specialize (H (wit_app, 16%positive)). unfold oeq in H. vm_compute in H.
  apply Permutation_length in H. discriminate.
Qed.

(* non-vacuity of the headline theorem's hypotheses, and the repaired code on the same witness *)
Example wit_union_agrees :
  snd (denote_files PkUnion wit_files 20%positive) !! (wit_app, 16%positive) = Some [7%positive; 8%positive]
  /\ Req (denote_files PkUnion wit_files 20%positive) (denote_blocks PkUnion wit_joined).
Proof.
  split; [vm_compute; reflexivity|].
  destruct wit_hyps as (H1 & H2 & H3 & H4). apply merge_partition_invariant; assumption.
Qed.

(* ---- a second witness with the member kinds of round 3: an application annotation, a type with an annotation
   split in two shares, an alias, two mixins, a subscription to an event the publisher declares with `...` ---- *)
Local Open Scope positive_scope.
Definition w2_app : appname := [30].
Definition w2_pub : appname := [31].
Definition w2_f1 := FD 40 10 false [].
Definition w2_f2 := FD 41 10 true [EN 50 51].
Definition w2_anno : anno := (56, VA [57; 58]).
(* `/70 [~71]:` with `@72 = 73`, one method *)
Definition w2_rest : rnode := RN [70] [] [ET 71] [(72, VS 73)] [MDh 74 [] [] [] [] [SA 60]] [].
Definition w2_joined : list block :=
  [B w2_app (Some 32) [ET 33]
     [MA (52, VS 53); MT false 34 [EN 54 55] [w2_anno] [w2_f1; w2_f2]; MAl 35 [] [] 10; MX 36; MX 37;
      MS 38 w2_pub 39 [] [] [SA 60]; MR w2_rest; MVw 75 [(72, VS 73)] 76];
   B w2_pub None [] [MV 39 [ET 33] [] []]].
Definition w2_files : list filedesc :=
  [(20, ([22; 21], [B w2_app None [] [MT false 34 [] [w2_anno] [w2_f2]; MVw 75 [(72, VS 73)] 76; MX 37];
                    B w2_pub None [] [MV 39 [ET 33] [] []]]));
   (21, ([], [B w2_app (Some 32) [ET 33] [MX 36; MT false 34 [EN 54 55] [] [w2_f1]; MA (52, VS 53)]]));
   (22, ([21], [B w2_app None [] [MS 38 w2_pub 39 [] [] [SA 60]; MR w2_rest; MAl 35 [] [] 10]]))].
Local Close Scope positive_scope.

Ltac find_split a r k :=
  lazymatch r with
  | a :: ?t => k (@nil xatom) t
  | ?h :: ?t => find_split a t ltac:(fun l1 l2 => k (h :: l1) l2)
  end.
Ltac perm_solve :=
  lazymatch goal with
  | |- Permutation [] [] => apply perm_nil
  | |- Permutation (?a :: ?l) ?r =>
      find_split a r ltac:(fun l1 l2 => apply (Permutation_cons_app l1 l2 a); cbn [Datatypes.app]; perm_solve)
  end.
Ltac indep_one :=
  first [ left; discriminate
        | right; cbn; first [ tauto | reflexivity
                            | repeat split; try reflexivity; try (let H := fresh in intros [H|[]]; discriminate H) ] ].
Ltac forall_indep := repeat (lazymatch goal with |- Forall _ (_ :: _) => constructor; [indep_one|] end); constructor.
Ltac pairwise_all := repeat (lazymatch goal with |- pairwise _ (_ :: _) => constructor; [forall_indep|] end); constructor.

Lemma w2_hyps :
  NoDup (map fst w2_files) /\ all_reached w2_files 20%positive = true /\
  wf (bcontent w2_joined) /\ refines (bcontent w2_joined) (bcontent (all_blocks w2_files)).
Proof.
  split; [|split; [|split]].
  - cbn. nodup_names.
  - reflexivity.
  - split.
    + cbn. pairwise_all.
    + cbn. repeat (lazymatch goal with |- Forall _ (_ :: _) => constructor; [first [exact I|cbn]|] end); [|constructor].
      split; [nodup_names|split; [nodup_names|]]. intros x [<-|[]] [H|[]]; discriminate.
  - cbn.
    eapply rf_trans; [apply rf_perm; apply (Permutation_sym (Permutation_middle [_; _] _ _))|]. cbn [Datatypes.app].
    eapply rf_trans; [apply (rf_split w2_app false 34%positive [EN 54%positive 55%positive] [] [w2_anno] [w2_f1] [w2_f2])|].
    eapply rf_trans; [apply (rf_reopen w2_app); eexists; split; [left; reflexivity|reflexivity]|].
    eapply rf_trans; [apply (rf_reopen w2_app); eexists; split; [left; reflexivity|reflexivity]|].
    apply rf_perm. perm_solve.
Qed.

Example w2_agrees :
  Req (denote_files PkUnion w2_files 20%positive) (denote_blocks PkUnion w2_joined)
  /\ snd (denote_blocks PkUnion w2_joined) !! (w2_app, mixin_key) = Some [36%positive; 37%positive]
  /\ snd (denote_files PkUnion w2_files 20%positive) !! (w2_app, mixin_key) = Some [37%positive; 36%positive].
Proof.
  split; [|split; vm_compute; reflexivity].
  destruct w2_hyps as (H1 & H2 & H3 & H4). apply merge_partition_invariant; assumption.
Qed.

(* ---- the side conditions are needed: a name set twice (an annotation, a type declared again, a field declared
   again, an array attribute in a header and in an annotation) and two subscribers of one event make the result
   depend on the order of the blocks ---- *)
Local Open Scope positive_scope.
Definition r_app : appname := [30].
Definition r_anno1 := [B r_app None [] [MA (52, VS 53)]].
Definition r_anno2 := [B r_app None [] [MA (52, VS 54)]].
Definition r_alias1 := [B r_app None [] [MAl 35 [] [] 10]].
Definition r_alias2 := [B r_app None [] [MAl 35 [] [] 11]].
Definition r_field1 := [B r_app None [] [MT false 34 [] [] [FD 40 10 false []]]].
Definition r_field2 := [B r_app None [] [MT false 34 [] [] [FD 40 11 false []]]].
Definition r_arr1 := [B r_app None [EA 52 [57]] [MW]].
Definition r_arr2 := [B r_app None [] [MA (52, VA [58])]].
Definition r_sub1 := [B [61] None [] [MS 38 [31] 39 [] [] []]].
Definition r_sub2 := [B [62] None [] [MS 38 [31] 39 [] [] []]].
Local Close Scope positive_scope.

Definition app_attr (s : state) (an : appname) (k : name) : option attrv := a_attrs (cur_app (fst s) an) !! k.
Definition type_at (s : state) (an : appname) (n : name) : option typeent := a_types (cur_app (fst s) an) !! n.
Definition field_ty (s : state) (an : appname) (n f : name) : option name :=
  match type_at s an n with Some (TRec _ _ fs) => f_ty <$> fs !! f | _ => None end.
Definition ep_stmts (s : state) (an : appname) (k : epkey) : option (list stmt) := e_stmts <$> a_eps (cur_app (fst s) an) !! k.

Theorem merge_redeclared_refuted :
  let d := denote_blocks PkUnion in
  (app_attr (d (r_anno1 ++ r_anno2)) r_app 52%positive = Some (VS 53%positive) /\
   app_attr (d (r_anno2 ++ r_anno1)) r_app 52%positive = Some (VS 54%positive)) /\
  (type_at (d (r_alias1 ++ r_alias2)) r_app 35%positive = Some (TAlias ∅ 11%positive) /\
   type_at (d (r_alias2 ++ r_alias1)) r_app 35%positive = Some (TAlias ∅ 10%positive)) /\
  (field_ty (d (r_field1 ++ r_field2)) r_app 34%positive 40%positive = Some 11%positive /\
   field_ty (d (r_field2 ++ r_field1)) r_app 34%positive 40%positive = Some 10%positive) /\
  (app_attr (d (r_arr1 ++ r_arr2)) r_app 52%positive = Some (VA [57%positive]) /\
   app_attr (d (r_arr2 ++ r_arr1)) r_app 52%positive = Some (VA [58%positive; 57%positive])) /\
  (ep_stmts (d (r_sub1 ++ r_sub2)) [31%positive] (None, [39%positive])
     = Some [SC [61%positive] 38%positive; SC [62%positive] 38%positive] /\
   ep_stmts (d (r_sub2 ++ r_sub1)) [31%positive] (None, [39%positive])
     = Some [SC [62%positive] 38%positive; SC [61%positive] 38%positive]).
Proof. cbv zeta. repeat split; vm_compute; reflexivity. Qed.

(* in particular the compiled modules differ *)
Corollary merge_redeclared_modules_differ :
  fst (denote_blocks PkUnion (r_anno1 ++ r_anno2)) <> fst (denote_blocks PkUnion (r_anno2 ++ r_anno1)) /\
  fst (denote_blocks PkUnion (r_alias1 ++ r_alias2)) <> fst (denote_blocks PkUnion (r_alias2 ++ r_alias1)) /\
  fst (denote_blocks PkUnion (r_field1 ++ r_field2)) <> fst (denote_blocks PkUnion (r_field2 ++ r_field1)) /\
  fst (denote_blocks PkUnion (r_arr1 ++ r_arr2)) <> fst (denote_blocks PkUnion (r_arr2 ++ r_arr1)) /\
  fst (denote_blocks PkUnion (r_sub1 ++ r_sub2)) <> fst (denote_blocks PkUnion (r_sub2 ++ r_sub1)).
Proof.
  destruct merge_redeclared_refuted as ((A1 & A2) & (B1 & B2) & (C1 & C2) & (D1 & D2) & (E1 & E2)).
  repeat split; intros H.
  - unfold app_attr in A1, A2. rewrite H in A1. rewrite A1 in A2. discriminate.
  - unfold type_at in B1, B2. rewrite H in B1. rewrite B1 in B2. discriminate.
  - unfold field_ty, type_at in C1, C2. rewrite H in C1. rewrite C1 in C2. discriminate.
  - unfold app_attr in D1, D2. rewrite H in D1. rewrite D1 in D2. discriminate.
  - unfold ep_stmts in E1, E2. rewrite H in E1. rewrite E1 in E2. discriminate.
Qed.

(* ------------------------------------------------------------------------------------------------ *)
(* 8. re-opening an application never drops what earlier blocks declared                             *)
Definition has_type (s : state) (an : appname) (n : name) : Prop := is_Some (a_types (cur_app (fst s) an) !! n).
Definition has_ep (s : state) (an : appname) (k : epkey) : Prop := is_Some (a_eps (cur_app (fst s) an) !! k).
Definition has_app (s : state) (an : appname) : Prop := is_Some (fst s !! an).

Definition keeps_op (o : cellop) : Prop :=
  match o with
  | OHead _ => True
  | OType _ g => forall t p, is_Some t -> is_Some (fst (g t p))
  | OEp _ e => forall e0, is_Some e0 -> is_Some (e e0)
  end.

Lemma keeps_x mode x : keeps_op (x_op mode x).
Proof.
  destruct x as [| | an table n a annos fs | an n t | | |? [[? ?] ?]| | | |]; cbn; try exact I; try (intros; eexists; reflexivity).
  - intros t p _. unfold type_g. destruct (default (TRec table ∅ ∅) t); eexists; reflexivity.
  - intros t0 p Ht. unfold repl_g. destruct t; [eexists; reflexivity|exact Ht].
  - intros t0 p Ht. exact Ht.
Qed.

Lemma xstep_keeps mode s x an :
  (has_app s an -> has_app (xstep mode s x) an) /\
  (forall n, has_type s an n -> has_type (xstep mode s x) an n) /\
  (forall k, has_ep s an k -> has_ep (xstep mode s x) an k).
Proof.
  destruct s as [m p]. unfold has_app, has_type, has_ep, xstep.
  pose proof (keeps_x mode x) as Hk. set (o := x_op mode x) in *. set (an' := x_app x).
  destruct (decide (an' = an)) as [->|Hne].
  - split; [|split].
    + intros _. unfold apply_op. destruct o; cbn [fst]; rewrite lookup_insert; eexists; reflexivity.
    + intros n Hn. unfold apply_op. destruct o as [h|n' g|k e]; cbn [fst]; rewrite cur_app_insert; cbn [a_types]; try exact Hn.
      destruct (decide (n' = n)) as [->|Hn'].
      * rewrite lookup_partial_alter. apply Hk, Hn.
      * rewrite lookup_partial_alter_ne by exact Hn'. exact Hn.
    + intros k Hkk. unfold apply_op. destruct o as [h|n' g|k' e]; cbn [fst]; rewrite cur_app_insert; cbn [a_eps]; try exact Hkk.
      destruct (decide (k' = k)) as [->|Hk'].
      * rewrite lookup_partial_alter. apply Hk, Hkk.
      * rewrite lookup_partial_alter_ne by exact Hk'. exact Hkk.
  - assert (Hm : fst (apply_op an' o (m, p)) !! an = m !! an).
    { unfold apply_op. destruct o; cbn [fst]; apply lookup_insert_ne, Hne. }
    unfold cur_app. cbn [fst] in *. rewrite Hm. tauto.
Qed.

Lemma fold_keeps mode l an : forall s,
  (has_app s an -> has_app (fold_left (xstep mode) l s) an) /\
  (forall n, has_type s an n -> has_type (fold_left (xstep mode) l s) an n) /\
  (forall k, has_ep s an k -> has_ep (fold_left (xstep mode) l s) an k).
Proof.
  induction l as [|x l IH]; intros s; cbn [fold_left]; [tauto|].
  destruct (xstep_keeps mode s x an) as (H1 & H2 & H3). destruct (IH (xstep mode s x)) as (I1 & I2 & I3).
  split; [auto|]. split; [intros n Hn; apply I2, H2, Hn|intros k Hk; apply I3, H3, Hk].
Qed.

(* whatever the blocks (any number of re-openings, any members, any mode): an application, a type or an endpoint
   that exists after the blocks bs1 still exists after bs1 ++ bs2 *)
Theorem reopen_keeps_maps mode bs1 bs2 an :
  (has_app (denote_blocks mode bs1) an -> has_app (denote_blocks mode (bs1 ++ bs2)) an) /\
  (forall n, has_type (denote_blocks mode bs1) an n -> has_type (denote_blocks mode (bs1 ++ bs2)) an n) /\
  (forall k, has_ep (denote_blocks mode bs1) an k -> has_ep (denote_blocks mode (bs1 ++ bs2)) an k).
Proof.
  rewrite !denote_blocks_content. unfold bcontent, content. rewrite !flat_map_app, fold_left_app.
  apply fold_keeps.
Qed.

(* ------------------------------------------------------------------------------------------------ *)
(* 9. order-preserving splits: lists that follow the declaration order keep the joined form's order  *)
(* `orefines` never exchanges two declarations of the same cell: a type may be cut in two consecutive shares
   (the later share comes later), a bare re-opening header may appear before a declaration of its app, and two
   neighbouring declarations of DIFFERENT cells may change places.  No well-formedness is asked: names set
   twice, types declared again, several subscribers of one event are all allowed. *)
Inductive orefines : list xatom -> list xatom -> Prop :=
| or_refl l : orefines l l
| or_split l1 l2 an t n a an1 an2 fs1 fs2 : disjoint_names (names fs1) (names fs2) ->
    orefines (l1 ++ XType an t n a (an1 ++ an2) (fs1 ++ fs2) :: l2)
             (l1 ++ XType an t n a an1 fs1 :: XType an t n [] an2 fs2 :: l2)
| or_reopen l1 l2 an : (exists x, In x l2 /\ x_app x = an) -> orefines (l1 ++ l2) (l1 ++ XHead an None [] :: l2)
| or_swap l1 l2 x y : x_cell x <> x_cell y -> orefines (l1 ++ x :: y :: l2) (l1 ++ y :: x :: l2)
| or_trans l1 l2 l3 : orefines l1 l2 -> orefines l2 l3 -> orefines l1 l3.

Theorem orefines_sound l l' : orefines l l' ->
  forall s, fold_left (xstep PkUnion) l s = fold_left (xstep PkUnion) l' s.
Proof.
  induction 1 as [l|l1 l2 an t n a an1 an2 fs1 fs2 Hd|l1 l2 an Hx|l1 l2 x y Hc|l1 l2 l3 _ IH1 _ IH2]; intros s.
  - reflexivity.
  - rewrite !fold_left_app. cbn [fold_left]. f_equal.
    unfold xstep; cbn [x_app x_op]. rewrite apply_seq_type.
    generalize (fold_left (fun s x => apply_op (x_app x) (x_op PkUnion x) s) l1 s). intros [m p].
    unfold apply_op; cbn [fst snd]. rewrite (type_g_fusion t a an1 an2 fs1 fs2 Hd). reflexivity.
  - rewrite !fold_left_app. symmetry. apply touch_redundant, Hx.
  - rewrite !fold_left_app. cbn [fold_left]. f_equal. unfold xstep.
    apply apply_comm_ne. rewrite !op_cell_x. unfold x_cell in Hc. congruence.
  - rewrite IH1. apply IH2.
Qed.

(* the blocks of the files, in the order the parser walks them, against the joined form: EXACT equality,
   key lists and mixin lists included *)
Theorem merge_pk_order_preserved files root joined :
  orefines (bcontent joined) (bcontent (blocks_in_order files (flatten_order files root))) ->
  denote_files PkUnion files root = denote_blocks PkUnion joined.
Proof.
  intros H. unfold denote_files. rewrite !denote_blocks_content. symmetry. apply orefines_sound, H.
Qed.

Lemma wit_ordered :
  orefines (bcontent wit_joined) (bcontent (blocks_in_order wit_files (flatten_order wit_files 20%positive))).
Proof.
  vm_compute flatten_order. cbn.
  eapply or_trans; [apply (or_split [XHead wit_app None []] [] wit_app true 16%positive [] [] [] [wit_fa] [wit_fb; wit_fc])|].
  - intros x [<-|[]] [H|[H|[]]]; discriminate.
  - apply (or_reopen [XHead wit_app None []; XType wit_app true 16%positive [] [] [wit_fa]]
             [XType wit_app true 16%positive [] [] [wit_fb; wit_fc]] wit_app).
    eexists; split; [left; reflexivity|reflexivity].
Qed.

(* an order-preserving layout in which a name is set twice: the annotation @52 in two blocks of two files *)
Definition wo_joined : list block := [B r_app None [] [MA (52%positive, VS 53%positive); MA (52%positive, VS 54%positive)]].
Definition wo_files : list filedesc :=
  [(20%positive, ([21%positive], [B r_app None [] [MA (52%positive, VS 53%positive)]]));
   (21%positive, ([], [B r_app None [] [MA (52%positive, VS 54%positive)]]))].
Lemma wo_ordered :
  orefines (bcontent wo_joined) (bcontent (blocks_in_order wo_files (flatten_order wo_files 20%positive))).
Proof.
  vm_compute flatten_order. cbn.
  apply (or_reopen [XHead r_app None []; XAnno r_app (52%positive, VS 53%positive)] [XAnno r_app (52%positive, VS 54%positive)] r_app).
  eexists; split; [left; reflexivity|reflexivity].
Qed.
