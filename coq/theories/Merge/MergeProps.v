(* C04: proofs about Merge/Model.v.

   Plan.  Every step of the listener acts on ONE cell of the shared module - the header of an app (long name +
   attributes), one type of an app together with its primary key, or one endpoint of an app - and creates the
   app entry when it is missing.  Steps on different cells commute exactly; two shares of one type commute up to
   the order of the key list (PkUnion); a re-opening header without attributes is absorbed.  A layout is related
   to the joined form by `refines` (permute, split the fields of a type, add re-opening headers), and `refines`
   preserves the denotation. *)
From Coq Require Import String List ZArith NArith Bool Permutation.
From stdpp Require Import gmap.
Import ListNotations.
Require Import Verif.Merge.Model.

(* ------------------------------------------------------------------------------------------------ *)
(* 1. folding commuting steps over a permutation                                                     *)
Section FoldPerm.
  Context {S A : Type} (R : relation S) `{!Equivalence R} (stp : S -> A -> S) (indep : A -> A -> Prop).
  Hypothesis indep_sym : forall a b, indep a b -> indep b a.
  Hypothesis stp_proper : forall s s' a, R s s' -> R (stp s a) (stp s' a).
  Hypothesis stp_comm : forall s a b, indep a b -> R (stp (stp s a) b) (stp (stp s b) a).

  Inductive pairwise : list A -> Prop :=
  | pw_nil : pairwise []
  | pw_cons a l : Forall (indep a) l -> pairwise l -> pairwise (a :: l).

  Lemma pairwise_perm l l' : Permutation l l' -> pairwise l -> pairwise l'.
  Proof.
    induction 1 as [|x l l' Hp IH|x y l|l l' l'' _ IH1 _ IH2]; intros Hw.
    - exact Hw.
    - inversion Hw as [|? ? Hf Hl]; subst. constructor; [|auto].
      eapply Permutation_Forall; eassumption.
    - inversion Hw as [|? ? Hf Hl]; subst. inversion Hl as [|? ? Hf' Hl']; subst.
      inversion Hf as [|? ? Hyx Hfy]; subst.
      constructor; [constructor; [apply indep_sym; exact Hyx|exact Hf']|].
      constructor; assumption.
    - auto.
  Qed.

  Lemma fold_proper l : forall s s', R s s' -> R (fold_left stp l s) (fold_left stp l s').
  Proof. induction l as [|a l IH]; intros s s' H; cbn; [exact H|]. apply IH, stp_proper, H. Qed.

  Lemma fold_perm l l' : Permutation l l' -> pairwise l ->
    forall s s', R s s' -> R (fold_left stp l s) (fold_left stp l' s').
  Proof.
    induction 1 as [|x l l' Hp IH|x y l|l l' l'' Hp1 IH1 Hp2 IH2]; intros Hw s s' Hs; cbn.
    - exact Hs.
    - inversion Hw; subst. apply IH; [assumption|]. apply stp_proper, Hs.
    - inversion Hw as [|? ? Hf Hl]; subst. inversion Hf as [|? ? Hyx _]; subst.
      apply fold_proper. etransitivity; [apply stp_comm, Hyx|].
      apply stp_proper, stp_proper, Hs.
    - etransitivity; [apply IH1; [exact Hw|reflexivity]|].
      apply IH2; [eapply pairwise_perm; eassumption|exact Hs].
  Qed.
End FoldPerm.

(* ------------------------------------------------------------------------------------------------ *)
(* 2. cells                                                                                          *)
Definition oeq (p p' : option (list name)) : Prop := forall x, In x (default [] p) <-> In x (default [] p').
Definition Req (s s' : state) : Prop := fst s = fst s' /\ forall k, oeq (snd s !! k) (snd s' !! k).

Global Instance oeq_equiv : Equivalence oeq.
Proof.
  split.
  - intros p x; reflexivity.
  - intros p q H x; symmetry; apply H.
  - intros p q r H1 H2 x; etransitivity; [apply H1|apply H2].
Qed.
Global Instance Req_equiv : Equivalence Req.
Proof.
  split.
  - intros s; split; [reflexivity|intros k; reflexivity].
  - intros s s' [H1 H2]; split; [auto|intros k; symmetry; apply H2].
  - intros s1 s2 s3 [H1 H2] [H3 H4]; split; [congruence|intros k; etransitivity; [apply H2|apply H4]].
Qed.

Inductive cellop :=
| OHead (h : option name -> attrs -> option name * attrs)
| OType (n : name) (g : option typeent -> option (list name) -> option typeent * option (list name))
| OEp (k : epkey) (e : option endpoint -> option endpoint).

Definition apply_op (an : appname) (o : cellop) (s : state) : state :=
  let ap := cur_app (fst s) an in
  match o with
  | OHead h =>
      let r := h (a_long ap) (a_attrs ap) in
      (<[an := App (fst r) (snd r) (a_types ap) (a_eps ap)]> (fst s), snd s)
  | OType n g =>
      let r := g (a_types ap !! n) (snd s !! (an, n)) in
      (<[an := App (a_long ap) (a_attrs ap) (partial_alter (fun _ => fst r) n (a_types ap)) (a_eps ap)]> (fst s),
       partial_alter (fun _ => snd r) (an, n) (snd s))
  | OEp k e =>
      (<[an := App (a_long ap) (a_attrs ap) (a_types ap) (partial_alter e k (a_eps ap))]> (fst s), snd s)
  end.

Definition good_op (o : cellop) : Prop :=
  match o with
  | OType _ g => forall t p p', oeq p p' -> fst (g t p) = fst (g t p') /\ oeq (snd (g t p)) (snd (g t p'))
  | _ => True
  end.

Lemma apply_proper an o s s' : good_op o -> Req s s' -> Req (apply_op an o s) (apply_op an o s').
Proof.
  destruct s as [m p], s' as [m' p']. intros Hg [Hm Hp]; cbn in Hm, Hp; subst m'.
  destruct o as [h|n g|k e]; cbn.
  - split; [reflexivity|exact Hp].
  - destruct (Hg (a_types (cur_app m an) !! n) _ _ (Hp (an, n))) as [H1 H2].
    split; cbn; [rewrite H1; reflexivity|].
    intros k. destruct (decide (k = (an, n))) as [->|Hne].
    + rewrite !lookup_partial_alter. exact H2.
    + rewrite !lookup_partial_alter_ne by congruence. apply Hp.
  - split; [reflexivity|exact Hp].
Qed.

Inductive cellid := CHead | CType (n : name) | CEp (k : epkey).
Global Instance cellid_eq_dec : EqDecision cellid.
Proof. solve_decision. Defined.
Definition op_cell (o : cellop) : cellid :=
  match o with OHead _ => CHead | OType n _ => CType n | OEp k _ => CEp k end.

Lemma cur_app_insert m an ap : cur_app (<[an := ap]> m) an = ap.
Proof. unfold cur_app. rewrite lookup_insert. reflexivity. Qed.
Lemma cur_app_insert_ne m an an' ap : an <> an' -> cur_app (<[an := ap]> m) an' = cur_app m an'.
Proof. intros H. unfold cur_app. rewrite lookup_insert_ne by exact H. reflexivity. Qed.

Lemma apply_comm_ne an1 o1 an2 o2 s :
  (an1, op_cell o1) <> (an2, op_cell o2) ->
  apply_op an1 o1 (apply_op an2 o2 s) = apply_op an2 o2 (apply_op an1 o1 s).
Proof.
  destruct s as [m p]. intros Hne.
  destruct (decide (an1 = an2)) as [->|Han].
  - assert (Hc : op_cell o1 <> op_cell o2) by congruence. clear Hne.
    destruct o1 as [h1|n1 g1|k1 e1], o2 as [h2|n2 g2|k2 e2]; cbn in Hc; try congruence;
      unfold apply_op; cbn [fst snd]; rewrite !cur_app_insert; cbn [a_long a_attrs a_types a_eps];
      rewrite !insert_insert.
    + reflexivity.
    + reflexivity.
    + reflexivity.
    + assert (Hn : n1 <> n2) by congruence.
      rewrite !lookup_partial_alter_ne by congruence.
      f_equal; [f_equal; f_equal|]; apply partial_alter_commute; congruence.
    + reflexivity.
    + reflexivity.
    + reflexivity.
    + assert (Hk : k1 <> k2) by congruence.
      f_equal. f_equal. f_equal. apply partial_alter_commute; congruence.
  - destruct o1 as [h1|n1 g1|k1 e1], o2 as [h2|n2 g2|k2 e2];
      unfold apply_op; cbn [fst snd];
      rewrite ?cur_app_insert_ne by congruence;
      rewrite ?lookup_partial_alter_ne by congruence;
      (apply pair_equal_spec; split;
       [apply insert_commute; congruence
       |try reflexivity; try (apply partial_alter_commute; congruence)]).
Qed.

(* ------------------------------------------------------------------------------------------------ *)
(* 3. the listener's steps as cell operations                                                        *)
Inductive xatom :=
| XHead (an : appname) (long : option name) (a : list entry)
| XType (an : appname) (table : bool) (n : name) (a : list entry) (fs : list fielddecl)
| XEnum (an : appname) (n : name) (a : list entry) (items : list (name * Z))
| XEp (an : appname) (n : name) (a : list entry) (body : list stmt)
| XEvent (an : appname) (n : name) (body : list stmt)
| XMeth (an : appname) (x : epkey * list entry * list stmt)
| XDots (an : appname).

Definition x_app (x : xatom) : appname :=
  match x with
  | XHead an _ _ | XType an _ _ _ _ | XEnum an _ _ _ | XEp an _ _ _ | XEvent an _ _ | XMeth an _ | XDots an => an
  end.

Definition insert_fields (fs : list fielddecl) (fs0 : gmap name field) : gmap name field :=
  fold_left (fun m fd => <[fd_name fd := mk_field fd]> m) fs fs0.
Definition tattrs_step (a : list entry) (a0 : attrs) : attrs :=
  match a with [] => a0 | _ => merge_tattrs (make_attrs a) a0 end.

Definition type_g (mode : pkmode) (table : bool) (a : list entry) (fs : list fielddecl)
    (t : option typeent) (p : option (list name)) : option typeent * option (list name) :=
  match default (TRec table ∅ ∅) t with
  | TRec rel a0 fs0 =>
      let fs1 := insert_fields fs fs0 in
      (Some (TRec rel (tattrs_step a a0) fs1), if rel then pk_update mode p (key_fields fs fs1) else p)
  | TEnum a0 items => (Some (TEnum (tattrs_step a a0) items), p)
  end.

Definition x_op (mode : pkmode) (x : xatom) : cellop :=
  match x with
  | XHead _ long a =>
      OHead (fun l at0 => (match long with Some y => Some y | None => l end,
                           match a with [] => at0 | _ => merge_attrs (make_attrs a) at0 end))
  | XType _ table n a fs => OType n (type_g mode table a fs)
  | XEnum _ n a items =>
      OType n (fun t p => match items with
                          | [] => (t, p)
                          | _ => (Some (TEnum (make_attrs a) (fold_left (fun m it => <[fst it := snd it]> m) items ∅)), None)
                          end)
  | XEp _ n a body =>
      OEp (None, [n]) (fun e0 => let e := default (Ep false false ∅ []) e0 in
             Some (Ep (e_pubsub e) (e_rest e)
                      (match a with [] => e_attrs e | _ => merge_attrs (make_attrs a) (e_attrs e) end)
                      (e_stmts e ++ body)))
  | XEvent _ n body =>
      OEp (None, [n]) (fun e0 => let e := default (Ep true false ∅ []) e0 in
             Some (Ep (e_pubsub e) (e_rest e) (e_attrs e) (e_stmts e ++ body)))
  | XMeth _ (k, a, body) =>
      OEp k (fun e0 => let e := default (Ep false true ∅ []) e0 in
             Some (Ep (e_pubsub e) (e_rest e)
                      (merge_attrs (merge_attrs (make_attrs a) {[ patterns_key := VA [rest_tag] ]}) (e_attrs e))
                      (e_stmts e ++ body)))
  | XDots _ => OEp (None, [dots_name]) (fun _ => Some (Ep false false ∅ []))
  end.

Definition xstep (mode : pkmode) (s : state) (x : xatom) : state := apply_op (x_app x) (x_op mode x) s.

Definition micro (x : atom) : list xatom :=
  match x with
  | AHead an long a => [XHead an long a]
  | AMem an (MT table n a fs) => [XType an table n a fs]
  | AMem an (ME n a items) => [XEnum an n a items]
  | AMem an (MP n a body) => [XEp an n a body]
  | AMem an (MV n body) => [XEvent an n body]
  | AMem an (MR r) => XHead an None [] :: map (XMeth an) (rest_eps [] r)
  | AMem an MW => [XDots an]
  end.

Lemma app_eta ap : App (a_long ap) (a_attrs ap) (a_types ap) (a_eps ap) = ap.
Proof. destruct ap; reflexivity. Qed.

Lemma meth_fold mode an l : forall ap m p,
  fold_left (xstep mode) (map (XMeth an) l) (<[an := ap]> m, p)
  = (<[an := fold_left (fun ap x => method_step x ap) l ap]> m, p).
Proof.
  induction l as [|[[k a] body] l IH]; intros ap m p; cbn [map fold_left]; [reflexivity|].
  unfold xstep at 2, apply_op; cbn [x_app x_op fst snd].
  rewrite cur_app_insert, insert_insert. rewrite IH. f_equal. f_equal. f_equal.
  unfold method_step. f_equal.
  unfold insert, map_insert. apply partial_alter_ext. intros x <-.
  destruct (a_eps ap !! k); reflexivity.
Qed.

Lemma step_micro mode s x : step mode s x = fold_left (xstep mode) (micro x) s.
Proof.
  destruct s as [m p]. destruct x as [an long a|an mem]; [reflexivity|].
  destruct mem as [table n a fs|n a items|n a body|n body|r|]; cbn [micro fold_left].
  - (* table *)
    unfold step, member_step, table_step, xstep, apply_op; cbn [x_app x_op fst snd].
    unfold type_g, insert_fields, tattrs_step.
    destruct (a_types (cur_app m an) !! n) as [[rel a0 fs0|a0 items]|] eqn:E;
      cbn [default from_option id fst snd].
    + destruct rel; cbn [fst snd].
      * f_equal. apply partial_alter_ext. intros x <-. reflexivity.
      * rewrite partial_alter_self. reflexivity.
    + cbn [fst snd]. rewrite partial_alter_self. reflexivity.
    + destruct table; cbn [fst snd].
      * f_equal. apply partial_alter_ext. intros x <-. reflexivity.
      * rewrite partial_alter_self. reflexivity.
  - (* enum *)
    unfold step, member_step, enum_step, xstep, apply_op; cbn [x_app x_op fst snd].
    destruct items as [|it items]; cbn [fst snd].
    + rewrite !partial_alter_self, app_eta. reflexivity.
    + reflexivity.
  - (* simple endpoint *)
    unfold step, member_step, ep_step, xstep, apply_op; cbn [x_app x_op fst snd].
    f_equal. f_equal. f_equal.
    unfold insert, map_insert. apply partial_alter_ext. intros x <-.
    destruct (a_eps (cur_app m an) !! (None, [n])); reflexivity.
  - unfold step, member_step, event_step, xstep, apply_op; cbn [x_app x_op fst snd].
    f_equal. f_equal. f_equal.
    unfold insert, map_insert. apply partial_alter_ext. intros x <-.
    destruct (a_eps (cur_app m an) !! (None, [n])); reflexivity.
  - (* REST tree *)
    unfold step, member_step; cbn [fst snd].
    unfold xstep at 2, apply_op; cbn [x_app x_op fst snd]. rewrite app_eta.
    rewrite meth_fold. reflexivity.
  - reflexivity.
Qed.

Definition content (l : list atom) : list xatom := flat_map micro l.

Lemma fold_left_flat_map {S A B} (f : S -> B -> S) (g : A -> list B) (h : S -> A -> S) :
  (forall s a, h s a = fold_left f (g a) s) ->
  forall l s, fold_left h l s = fold_left f (flat_map g l) s.
Proof.
  intros H l. induction l as [|a l IH]; intros s; cbn; [reflexivity|].
  rewrite fold_left_app, <- H. apply IH.
Qed.

Lemma denote_atoms_content mode l : denote_atoms mode l = fold_left (xstep mode) (content l) (∅, ∅).
Proof. unfold denote_atoms, content. apply fold_left_flat_map. intros; apply step_micro. Qed.

(* ------------------------------------------------------------------------------------------------ *)
(* 4. primary-key bookkeeping and the two facts about shares of one type                             *)
Lemma in_names_In x l : in_names x l = true <-> In x l.
Proof.
  unfold in_names. rewrite existsb_exists. split.
  - intros [y [Hy He]]. apply Pos.eqb_eq in He. subst. exact Hy.
  - intros H. exists x. split; [exact H|apply Pos.eqb_refl].
Qed.

Lemma pk_union_prefix new : forall old, exists l, pk_union old new = old ++ l.
Proof.
  induction new as [|x new IH]; intros old; cbn.
  - exists []. rewrite app_nil_r. reflexivity.
  - unfold pk_union in *. cbn. unfold pk_add at 2. destruct (in_names x old).
    + apply IH.
    + destruct (IH (old ++ [x])) as [l Hl]. exists ([x] ++ l). rewrite Hl, <- app_assoc. reflexivity.
Qed.

Lemma pk_union_in new : forall old x, In x (pk_union old new) <-> In x old \/ In x new.
Proof.
  induction new as [|y new IH]; intros old x; cbn.
  - tauto.
  - unfold pk_union in *. cbn. rewrite IH. unfold pk_add. destruct (in_names y old) eqn:E.
    + apply in_names_In in E. split; [tauto|]. intros [H|[->|H]]; auto.
    + rewrite in_app_iff. cbn. tauto.
Qed.

Lemma pk_union_app old k1 k2 : pk_union old (k1 ++ k2) = pk_union (pk_union old k1) k2.
Proof. unfold pk_union. apply fold_left_app. Qed.

Lemma pk_union_nil_inv old new : pk_union old new = [] -> old = [].
Proof. destruct (pk_union_prefix new old) as [l ->]. intros H. apply app_eq_nil in H. tauto. Qed.

Lemma pk_update_union_default p kf : default [] (pk_update PkUnion p kf) = pk_union (default [] p) kf.
Proof.
  unfold pk_update. destruct (pk_union (default [] p) kf) eqn:E; [|reflexivity].
  apply pk_union_nil_inv in E. exact E.
Qed.

Lemma pk_update_union_app p k1 k2 :
  pk_update PkUnion p (k1 ++ k2) = pk_update PkUnion (pk_update PkUnion p k1) k2.
Proof.
  unfold pk_update at 1 2. rewrite pk_update_union_default, <- pk_union_app.
  destruct (pk_union (default [] p) (k1 ++ k2)) eqn:E; [|reflexivity].
  rewrite pk_union_app in E. apply pk_union_nil_inv in E.
  unfold pk_update. rewrite E. reflexivity.
Qed.

Lemma pk_update_oeq mode p p' kf : oeq p p' -> oeq (pk_update mode p kf) (pk_update mode p' kf).
Proof.
  intros H. destruct mode.
  - cbn. destruct kf; [exact H|reflexivity].
  - intros x. rewrite !pk_update_union_default, !pk_union_in. rewrite (H x). reflexivity.
  - cbn. destruct kf; [exact H|reflexivity].
Qed.

Definition names (fs : list fielddecl) : list name := map fd_name fs.

Lemma insert_fields_app fs1 fs2 m : insert_fields (fs1 ++ fs2) m = insert_fields fs2 (insert_fields fs1 m).
Proof. unfold insert_fields. apply fold_left_app. Qed.

Lemma insert_fields_notin fs : forall m nm, ~ In nm (names fs) -> insert_fields fs m !! nm = m !! nm.
Proof.
  induction fs as [|fd fs IH]; intros m nm H; cbn; [reflexivity|].
  cbn in H. rewrite IH by tauto. apply lookup_insert_ne. tauto.
Qed.

Lemma insert_fields_in fs : forall m m' nm, In nm (names fs) -> insert_fields fs m !! nm = insert_fields fs m' !! nm.
Proof.
  induction fs as [|fd fs IH]; intros m m' nm H; cbn; [destruct H|].
  destruct (in_dec Pos.eq_dec nm (names fs)) as [Hin|Hout].
  - apply IH, Hin.
  - rewrite !insert_fields_notin by exact Hout.
    destruct H as [<-|H]; [|contradiction]. rewrite !lookup_insert. reflexivity.
Qed.

Lemma key_fields_ext fs m m' : (forall nm, In nm (names fs) -> m !! nm = m' !! nm) -> key_fields fs m = key_fields fs m'.
Proof.
  unfold key_fields. induction fs as [|fd fs IH]; intros H; cbn; [reflexivity|].
  rewrite (H (fd_name fd)) by (left; reflexivity). f_equal. apply IH. intros nm Hn. apply H. right. exact Hn.
Qed.

Lemma key_fields_app fs1 fs2 m : key_fields (fs1 ++ fs2) m = key_fields fs1 m ++ key_fields fs2 m.
Proof. unfold key_fields. apply flat_map_app. Qed.

Definition disjoint_names (l1 l2 : list name) : Prop := forall x, In x l1 -> In x l2 -> False.

Lemma insert_fields_comm fs1 fs2 m : disjoint_names (names fs1) (names fs2) ->
  insert_fields fs2 (insert_fields fs1 m) = insert_fields fs1 (insert_fields fs2 m).
Proof.
  intros Hd. apply map_eq. intros nm.
  destruct (in_dec Pos.eq_dec nm (names fs1)) as [H1|H1]; destruct (in_dec Pos.eq_dec nm (names fs2)) as [H2|H2].
  - destruct (Hd nm H1 H2).
  - rewrite (insert_fields_notin fs2) by exact H2. apply insert_fields_in, H1.
  - rewrite (insert_fields_notin fs1 (insert_fields fs2 m)) by exact H2 || exact H1. apply insert_fields_in, H2.
  - rewrite !insert_fields_notin by assumption. reflexivity.
Qed.

(* the own key fields of a share do not depend on what the table held before *)
Lemma key_fields_own fs m m' : key_fields fs (insert_fields fs m) = key_fields fs (insert_fields fs m').
Proof. apply key_fields_ext. intros nm H. apply insert_fields_in, H. Qed.

Definition seq_g (g1 g2 : option typeent -> option (list name) -> option typeent * option (list name)) :=
  fun t p => let r1 := g1 t p in g2 (fst r1) (snd r1).

Lemma apply_seq_type an n g1 g2 s :
  apply_op an (OType n g2) (apply_op an (OType n g1) s) = apply_op an (OType n (seq_g g1 g2)) s.
Proof.
  destruct s as [m p]. unfold apply_op; cbn [fst snd].
  rewrite cur_app_insert; cbn [a_long a_attrs a_types a_eps].
  rewrite !lookup_partial_alter, insert_insert.
  unfold seq_g. cbn zeta.
  rewrite <- !partial_alter_compose. reflexivity.
Qed.

Lemma apply_ext_type an n g g' s :
  (forall t p, fst (g t p) = fst (g' t p) /\ oeq (snd (g t p)) (snd (g' t p))) ->
  Req (apply_op an (OType n g) s) (apply_op an (OType n g') s).
Proof.
  intros H. destruct s as [m p]. unfold apply_op; cbn [fst snd].
  destruct (H (a_types (cur_app m an) !! n) (p !! (an, n))) as [H1 H2].
  split; cbn [fst snd]; [rewrite H1; reflexivity|].
  intros k. destruct (decide (k = (an, n))) as [->|Hne].
  - rewrite !lookup_partial_alter. exact H2.
  - rewrite !lookup_partial_alter_ne by congruence. reflexivity.
Qed.

Lemma type_g_fusion table a fs1 fs2 : disjoint_names (names fs1) (names fs2) ->
  forall t p, type_g PkUnion table a (fs1 ++ fs2) t p = seq_g (type_g PkUnion table a fs1) (type_g PkUnion table [] fs2) t p.
Proof.
  intros Hd t p. unfold seq_g, type_g.
  destruct (default (TRec table ∅ ∅) t) as [rel a0 fs0|a0 items]; cbn [fst snd default from_option id tattrs_step].
  - rewrite insert_fields_app. f_equal.
    destruct rel; [|reflexivity].
    rewrite key_fields_app, pk_update_union_app. f_equal. f_equal.
    apply key_fields_ext. intros nm Hn. apply insert_fields_notin. intros H2. exact (Hd nm Hn H2).
  - reflexivity.
Qed.

Lemma type_g_comm table a1 fs1 a2 fs2 : disjoint_names (names fs1) (names fs2) -> a1 = [] \/ a2 = [] ->
  forall t p,
    fst (seq_g (type_g PkUnion table a1 fs1) (type_g PkUnion table a2 fs2) t p)
      = fst (seq_g (type_g PkUnion table a2 fs2) (type_g PkUnion table a1 fs1) t p)
    /\ oeq (snd (seq_g (type_g PkUnion table a1 fs1) (type_g PkUnion table a2 fs2) t p))
           (snd (seq_g (type_g PkUnion table a2 fs2) (type_g PkUnion table a1 fs1) t p)).
Proof.
  intros Hd Ha t p. unfold seq_g, type_g.
  assert (Hat : forall a0, tattrs_step a2 (tattrs_step a1 a0) = tattrs_step a1 (tattrs_step a2 a0)).
  { intros a0. destruct Ha as [-> | ->]; reflexivity. }
  destruct (default (TRec table ∅ ∅) t) as [rel a0 fs0|a0 items]; cbn [fst snd default from_option id].
  - split.
    + rewrite Hat, (insert_fields_comm fs1 fs2) by exact Hd. reflexivity.
    + destruct rel; [|reflexivity].
      intros x. rewrite !pk_update_union_default, !pk_union_in.
      rewrite (key_fields_own fs2 (insert_fields fs1 fs0) fs0), (key_fields_own fs1 (insert_fields fs2 fs0) fs0). tauto.
  - rewrite Hat. split; reflexivity.
Qed.

(* ------------------------------------------------------------------------------------------------ *)
(* 5. independence of declarations, commutation, well-formed contents                                *)
Definition x_cellid (x : xatom) : cellid :=
  match x with
  | XHead _ _ _ => CHead
  | XType _ _ n _ _ | XEnum _ n _ _ => CType n
  | XEp _ n _ _ | XEvent _ n _ => CEp (None, [n])
  | XMeth _ (k, _, _) => CEp k
  | XDots _ => CEp (None, [dots_name])
  end.
Definition x_cell (x : xatom) : appname * cellid := (x_app x, x_cellid x).

Lemma op_cell_x mode x : op_cell (x_op mode x) = x_cellid x.
Proof. destruct x as [| | | | |? [[? ?] ?]|]; reflexivity. Qed.

(* two declarations on the SAME cell that may still be reordered: shares of one type with disjoint field
   names, the same kind and attributes on at most one of them; headers of which one is a bare re-opening *)
Definition frag_compat (x y : xatom) : Prop :=
  match x, y with
  | XType an t n a fs, XType an' t' n' a' fs' =>
      an = an' /\ n = n' /\ t = t' /\ (a = [] \/ a' = []) /\ disjoint_names (names fs) (names fs')
  | XHead an l a, XHead an' l' a' => an = an' /\ ((l = None /\ a = []) \/ (l' = None /\ a' = []))
  | _, _ => False
  end.
Definition indep (x y : xatom) : Prop := x_cell x <> x_cell y \/ frag_compat x y.

Lemma indep_sym x y : indep x y -> indep y x.
Proof.
  intros [H|H]; [left; congruence|right].
  destruct x, y; cbn in *; try contradiction.
  - destruct H as [-> H]. split; [reflexivity|tauto].
  - destruct H as (-> & -> & -> & Ha & Hd). repeat split; [tauto|]. intros x H1 H2. exact (Hd x H2 H1).
Qed.

Lemma good_x mode x : good_op (x_op mode x).
Proof.
  destruct x as [| an table n a fs | an n a items | | |? [[? ?] ?]|]; cbn; try exact I.
  - intros t p p' Hp. unfold type_g.
    destruct (default (TRec table ∅ ∅) t) as [rel a0 fs0|a0 its]; cbn [fst snd].
    + split; [reflexivity|]. destruct rel; [apply pk_update_oeq, Hp|exact Hp].
    + split; [reflexivity|exact Hp].
  - intros t p p' Hp. destruct items; cbn [fst snd]; split; try reflexivity. exact Hp.
Qed.

Lemma xstep_proper mode s s' x : Req s s' -> Req (xstep mode s x) (xstep mode s' x).
Proof. apply apply_proper, good_x. Qed.

Lemma head_touch_comm mode an l a s :
  xstep mode (xstep mode s (XHead an l a)) (XHead an None []) = xstep mode (xstep mode s (XHead an None [])) (XHead an l a).
Proof.
  destruct s as [m p]. unfold xstep, apply_op; cbn [x_app x_op fst snd].
  rewrite !cur_app_insert; cbn [a_long a_attrs a_types a_eps]. rewrite !insert_insert. reflexivity.
Qed.

Lemma xstep_comm s x y : indep x y ->
  Req (xstep PkUnion (xstep PkUnion s x) y) (xstep PkUnion (xstep PkUnion s y) x).
Proof.
  intros [Hc|Hf].
  - unfold xstep. rewrite apply_comm_ne; [reflexivity|]. rewrite !op_cell_x. unfold x_cell in Hc. congruence.
  - destruct x as [an l a|an t n a fs| | | | |], y as [an' l' a'|an' t' n' a' fs'| | | | |]; cbn in Hf; try contradiction.
    + destruct Hf as [<- [[-> ->]|[-> ->]]].
      * rewrite head_touch_comm. reflexivity.
      * rewrite head_touch_comm. reflexivity.
    + destruct Hf as (<- & <- & <- & Ha & Hd).
      unfold xstep; cbn [x_app x_op]. rewrite !apply_seq_type.
      apply apply_ext_type. apply type_g_comm; assumption.
Qed.

(* a bare re-opening header commutes with every declaration, and is absorbed once its app exists *)
Lemma touch_comm mode an s x :
  xstep mode (xstep mode s (XHead an None [])) x = xstep mode (xstep mode s x) (XHead an None []).
Proof.
  destruct (decide (x_cell (XHead an None []) = x_cell x)) as [He|Hne].
  - destruct x as [| | | | |? [[? ?] ?]|]; unfold x_cell in He; cbn in He; try discriminate.
    inversion He; subst. symmetry. apply head_touch_comm.
  - unfold xstep. apply apply_comm_ne. rewrite !op_cell_x. exact (fun H => Hne (eq_sym H)).
Qed.

Lemma touch_absorbed mode s x :
  xstep mode (xstep mode s x) (XHead (x_app x) None []) = xstep mode s x.
Proof.
  destruct s as [m p]. unfold xstep at 1. unfold apply_op at 1. cbn [x_app x_op fst snd].
  rewrite app_eta.
  assert (H : fst (xstep mode (m, p) x) !! x_app x = Some (cur_app (fst (xstep mode (m, p) x)) (x_app x))).
  { unfold xstep, apply_op. destruct (x_op mode x); cbn [fst]; rewrite cur_app_insert, lookup_insert; reflexivity. }
  rewrite insert_id by exact H. destruct (xstep mode (m, p) x); reflexivity.
Qed.

Lemma touch_fold mode an l : forall s,
  fold_left (xstep mode) l (xstep mode s (XHead an None [])) = xstep mode (fold_left (xstep mode) l s) (XHead an None []).
Proof. induction l as [|x l IH]; intros s; cbn [fold_left]; [reflexivity|]. rewrite touch_comm. apply IH. Qed.

Lemma touch_redundant mode an l s : (exists x, In x l /\ x_app x = an) ->
  fold_left (xstep mode) (XHead an None [] :: l) s = fold_left (xstep mode) l s.
Proof.
  intros [x [Hin <-]]. apply in_split in Hin. destruct Hin as [l1 [l2 ->]].
  cbn [fold_left]. rewrite !fold_left_app. cbn [fold_left].
  rewrite touch_fold, touch_comm, touch_absorbed. reflexivity.
Qed.

(* ---- well-formed contents and the layouts of one specification ---- *)
Definition wf_x (x : xatom) : Prop :=
  match x with XType _ _ _ _ fs => NoDup (names fs) | _ => True end.
Definition wf (l : list xatom) : Prop := pairwise indep l /\ Forall wf_x l.

Inductive refines : list xatom -> list xatom -> Prop :=
| rf_perm l l' : Permutation l l' -> refines l l'
| rf_split an t n a fs1 fs2 l :
    refines (XType an t n a (fs1 ++ fs2) :: l) (XType an t n a fs1 :: XType an t n [] fs2 :: l)
| rf_fields an t n a fs fs' l : Permutation fs fs' ->
    refines (XType an t n a fs :: l) (XType an t n a fs' :: l)
| rf_reopen an l : (exists x, In x l /\ x_app x = an) -> refines l (XHead an None [] :: l)
| rf_trans l1 l2 l3 : refines l1 l2 -> refines l2 l3 -> refines l1 l3.

Lemma NoDup_app_disjoint fs1 fs2 : NoDup (names (fs1 ++ fs2)) -> disjoint_names (names fs1) (names fs2).
Proof.
  unfold names. rewrite map_app. intros H x H1 H2.
  apply NoDup_app in H. destruct H as (_ & Hd & _).
  apply (Hd x); apply elem_of_list_In; assumption.
Qed.

Lemma names_perm fs fs' : Permutation fs fs' -> Permutation (names fs) (names fs').
Proof. apply Permutation_map. Qed.

Lemma insert_fields_perm fs fs' : Permutation fs fs' -> NoDup (names fs) ->
  forall m, insert_fields fs m = insert_fields fs' m.
Proof.
  induction 1 as [|x l l' Hp IH|x y l|l l' l'' Hp1 IH1 Hp2 IH2]; intros Hnd m.
  - reflexivity.
  - cbn. apply IH. cbn in Hnd. apply NoDup_cons in Hnd. tauto.
  - cbn. f_equal. apply insert_commute. cbn in Hnd.
    apply NoDup_cons in Hnd. destruct Hnd as [Hn _]. intros E. apply Hn. rewrite E. left.
  - rewrite IH1 by exact Hnd. apply IH2. rewrite <- (names_perm _ _ Hp1). exact Hnd.
Qed.

Lemma type_g_perm table a fs fs' : Permutation fs fs' -> NoDup (names fs) ->
  forall t p, fst (type_g PkUnion table a fs t p) = fst (type_g PkUnion table a fs' t p)
           /\ oeq (snd (type_g PkUnion table a fs t p)) (snd (type_g PkUnion table a fs' t p)).
Proof.
  intros Hp Hnd t p. unfold type_g.
  destruct (default (TRec table ∅ ∅) t) as [rel a0 fs0|a0 items]; cbn [fst snd]; [|split; reflexivity].
  rewrite (insert_fields_perm fs fs' Hp Hnd). split; [reflexivity|].
  destruct rel; [|reflexivity].
  intros x. rewrite !pk_update_union_default, !pk_union_in.
  assert (Hk : Permutation (key_fields fs (insert_fields fs' fs0)) (key_fields fs' (insert_fields fs' fs0))).
  { unfold key_fields. apply Permutation_flat_map, Hp. }
  split; (intros [H|H]; [left; exact H|right]); [eapply Permutation_in; [exact Hk|exact H]|].
  eapply Permutation_in; [symmetry; exact Hk|exact H].
Qed.

Lemma refines_wf l l' : refines l l' -> wf l -> wf l'.
Proof.
  induction 1 as [l l' Hp|an t n a fs1 fs2 l|an t n a fs fs' l Hp|an l Hx|l1 l2 l3 _ IH1 _ IH2]; intros [Hpw Hwf].
  - split; [eapply pairwise_perm; [exact indep_sym|exact Hp|exact Hpw]|eapply Permutation_Forall; eassumption].
  - inversion Hpw as [|? ? Hf Hl]; subst. inversion Hwf as [|? ? Hnd Hwl]; subst. cbn in Hnd.
    pose proof (NoDup_app_disjoint _ _ Hnd) as Hd.
    assert (Hsub : forall (fs' : list fielddecl) (a' : list entry),
              (a' = a \/ a' = []) -> (forall x, In x (names fs') -> In x (names (fs1 ++ fs2))) ->
              Forall (indep (XType an t n a' fs')) l).
    { intros fs' a' Ha' Hs. eapply Forall_impl; [exact Hf|]. intros y [Hc|Hc]; [left; exact Hc|right].
      destruct y; cbn in Hc |- *; try contradiction.
      destruct Hc as (-> & -> & -> & Haa & Hdd). repeat split.
      - destruct Ha' as [-> | ->]; tauto.
      - intros x H1 H2. exact (Hdd x (Hs x H1) H2). }
    split.
    + constructor.
      * constructor.
        -- right. cbn. repeat split; [tauto|exact Hd].
        -- apply Hsub; [tauto|]. intros x Hx. unfold names. rewrite map_app. apply in_or_app. left; exact Hx.
      * constructor; [|exact Hl].
        apply Hsub; [tauto|]. intros x Hx. unfold names. rewrite map_app. apply in_or_app. right; exact Hx.
    + unfold names in Hnd. rewrite map_app in Hnd. apply NoDup_app in Hnd. destruct Hnd as (Hn1 & _ & Hn2).
      constructor; [exact Hn1|]. constructor; [exact Hn2|exact Hwl].
  - inversion Hpw as [|? ? Hf Hl]; subst. inversion Hwf as [|? ? Hnd Hwl]; subst. cbn in Hnd.
    split.
    + constructor; [|exact Hl]. eapply Forall_impl; [exact Hf|]. intros y [Hc|Hc]; [left; exact Hc|right].
      destruct y; cbn in Hc |- *; try contradiction.
      destruct Hc as (-> & -> & -> & Haa & Hdd). repeat split; [exact Haa|].
      intros x H1 H2. apply (Hdd x); [|exact H2].
      eapply Permutation_in; [symmetry; apply names_perm, Hp|exact H1].
    + constructor; [|exact Hwl]. cbn. rewrite <- (names_perm _ _ Hp). exact Hnd.
  - split; [|constructor; [exact I|exact Hwf]].
    constructor; [|exact Hpw]. apply Forall_forall. intros y _.
    destruct (decide (x_cell (XHead an None []) = x_cell y)) as [He|Hne]; [right|left; exact Hne].
    destruct y as [| | | | |? [[? ?] ?]|]; unfold x_cell in He; cbn in He; try discriminate. inversion He; subst. cbn. tauto.
  - apply IH2, IH1. split; assumption.
Qed.

Theorem refines_sound l l' : refines l l' -> wf l ->
  forall s s', Req s s' -> Req (fold_left (xstep PkUnion) l s) (fold_left (xstep PkUnion) l' s').
Proof.
  induction 1 as [l l' Hp|an t n a fs1 fs2 l|an t n a fs fs' l Hp|an l Hx|l1 l2 l3 H1 IH1 H2 IH2]; intros Hw s s' Hs.
  - destruct Hw as [Hpw _].
    eapply (fold_perm Req (xstep PkUnion) indep); eauto using indep_sym, xstep_comm.
    intros; apply xstep_proper; assumption.
  - destruct Hw as [_ Hwf]. inversion Hwf as [|? ? Hnd _]; subst. cbn in Hnd.
    cbn [fold_left]. apply (fold_proper Req (xstep PkUnion)); [intros; apply xstep_proper; assumption|].
    unfold xstep at 2 3; cbn [x_app x_op]. rewrite apply_seq_type.
    etransitivity; [apply xstep_proper, Hs|]. unfold xstep; cbn [x_app x_op].
    apply apply_ext_type. intros t0 p0.
    rewrite type_g_fusion by (apply NoDup_app_disjoint, Hnd). split; reflexivity.
  - destruct Hw as [_ Hwf]. inversion Hwf as [|? ? Hnd _]; subst. cbn in Hnd.
    cbn [fold_left]. apply (fold_proper Req (xstep PkUnion)); [intros; apply xstep_proper; assumption|].
    etransitivity; [apply xstep_proper, Hs|]. unfold xstep; cbn [x_app x_op].
    apply apply_ext_type. apply type_g_perm; assumption.
  - rewrite touch_redundant by exact Hx.
    apply (fold_proper Req (xstep PkUnion)); [intros; apply xstep_proper; assumption|exact Hs].
  - etransitivity; [apply IH1; [exact Hw|reflexivity]|].
    apply IH2; [eapply refines_wf; eassumption|exact Hs].
Qed.

(* ------------------------------------------------------------------------------------------------ *)
(* 6. files of the import closure: the flatten order is a duplicate-free list of existing files      *)
Definition all_reached (files : list filedesc) (root : name) : bool :=
  forallb (fun f => in_names (fst f) (flatten_order files root)) files.
Definition all_blocks (files : list filedesc) : list block := flat_map (fun f => snd (snd f)) files.
Definition blocks_of (files : list filedesc) (f : name) : list block :=
  match file_lookup files f with Some (_, bs) => bs | None => [] end.

Definition flat_ok (files : list filedesc) (acc : list name) : Prop :=
  NoDup acc /\ forall x, x ∈ acc -> is_Some (file_lookup files x).

Lemma flatten_ok files fuel : forall f acc, flat_ok files acc -> flat_ok files (flatten fuel files f acc).
Proof.
  induction fuel as [|k IH]; intros f acc Hok; cbn; [exact Hok|].
  destruct (in_names f acc) eqn:Ein; [exact Hok|].
  destruct (file_lookup files f) as [[imps bs]|] eqn:El; [|exact Hok].
  assert (Hok' : flat_ok files (acc ++ [f])).
  { destruct Hok as [Hnd Hl]. split.
    - apply NoDup_app. split; [exact Hnd|]. split; [|apply NoDup_singleton].
      intros x Hx Hf. apply elem_of_list_singleton in Hf. subst x.
      apply elem_of_list_In, in_names_In in Hx. congruence.
    - intros x Hx. apply elem_of_app in Hx. destruct Hx as [Hx|Hx]; [apply Hl, Hx|].
      apply elem_of_list_singleton in Hx. subst x. rewrite El. eexists; reflexivity. }
  clear Hok Ein El. revert Hok'. generalize (acc ++ [f]). clear acc.
  induction imps as [|i imps IHi]; intros acc Hok; cbn; [exact Hok|].
  apply IHi, IH, Hok.
Qed.

Lemma file_lookup_in files f v : file_lookup files f = Some v -> In (f, v) files.
Proof.
  unfold file_lookup. destruct (find (fun p => Pos.eqb (fst p) f) files) as [[f' v']|] eqn:E; [|discriminate].
  intros [= <-]. apply find_some in E. destruct E as [Hin He]. cbn in He. apply Pos.eqb_eq in He. subst. exact Hin.
Qed.

Lemma blocks_of_names files : NoDup (map fst files) ->
  flat_map (blocks_of files) (map fst files) = all_blocks files.
Proof.
  induction files as [|[f0 [i0 b0]] fs IH]; intros Hnd; [reflexivity|].
  cbn [map fst] in Hnd. apply NoDup_cons in Hnd. destruct Hnd as [Hn Hnd].
  cbn [map flat_map fst snd all_blocks]. unfold blocks_of at 1, file_lookup. cbn [find fst]. rewrite Pos.eqb_refl. cbn [snd].
  f_equal. fold (all_blocks fs). rewrite <- (IH Hnd). clear IH.
  assert (H : forall l, (forall x, In x l -> x <> f0) -> flat_map (blocks_of ((f0, (i0, b0)) :: fs)) l = flat_map (blocks_of fs) l).
  { induction l as [|x l IHl]; intros Hx; [reflexivity|]. cbn [flat_map]. rewrite IHl by (intros y Hy; apply Hx; right; exact Hy).
    f_equal. unfold blocks_of, file_lookup. cbn [find fst].
    destruct (Pos.eqb f0 x) eqn:E; [|reflexivity]. apply Pos.eqb_eq in E. subst. exfalso. apply (Hx x); [left|]; reflexivity. }
  apply H. intros x Hx ->. apply Hn, elem_of_list_In, Hx.
Qed.

Lemma flatten_perm files root : NoDup (map fst files) -> all_reached files root = true ->
  Permutation (blocks_in_order files (flatten_order files root)) (all_blocks files).
Proof.
  intros Hnd Hall. rewrite <- (blocks_of_names files Hnd).
  change (blocks_in_order files (flatten_order files root)) with (flat_map (blocks_of files) (flatten_order files root)).
  apply Permutation_flat_map.
  destruct (flatten_ok files (Datatypes.S (length files)) root []) as [Hn Hl].
  { split; [apply NoDup_nil_2|]. intros x Hx. apply elem_of_nil in Hx. destruct Hx. }
  fold (flatten_order files root) in Hn, Hl.
  apply NoDup_Permutation; [exact Hn|exact Hnd|]. intros x. split; intros Hx.
  - destruct (Hl x Hx) as [v Hv]. apply file_lookup_in in Hv. apply elem_of_list_In.
    change x with (fst (x, v)). apply in_map, Hv.
  - apply elem_of_list_In in Hx. apply in_map_iff in Hx. destruct Hx as [fd [<- Hin]].
    unfold all_reached in Hall. rewrite forallb_forall in Hall. apply elem_of_list_In, in_names_In, Hall, Hin.
Qed.

(* ------------------------------------------------------------------------------------------------ *)
(* 7. the property                                                                                   *)
Definition bcontent (bs : list block) : list xatom := content (flat_map atoms_of_block bs).

Lemma denote_blocks_content mode bs : denote_blocks mode bs = fold_left (xstep mode) (bcontent bs) (∅, ∅).
Proof. unfold denote_blocks. apply denote_atoms_content. Qed.

Lemma bcontent_perm bs bs' : Permutation bs bs' -> Permutation (bcontent bs) (bcontent bs').
Proof. intros H. unfold bcontent, content. apply Permutation_flat_map, Permutation_flat_map, H. Qed.

(* HEADLINE.  `joined` is any block list with well-formed content (in particular: one block per app, every
   member once).  `files` is any set of files whose blocks, taken together, declare the same things: obtained
   from the joined content by permuting declarations, splitting the fields of a type over several shares,
   permuting the fields inside a type and adding bare re-opening headers - in any import graph that reaches every
   file (any order of import statements, any assignment of blocks to files).  Then the compiled models agree;
   primary-key lists agree as sets. *)
Theorem merge_partition_invariant files root joined :
  NoDup (map fst files) -> all_reached files root = true ->
  wf (bcontent joined) -> refines (bcontent joined) (bcontent (all_blocks files)) ->
  Req (denote_files PkUnion files root) (denote_blocks PkUnion joined).
Proof.
  intros Hnd Hall Hwf Href. unfold denote_files. rewrite !denote_blocks_content. symmetry.
  apply refines_sound; [|exact Hwf|reflexivity].
  eapply rf_trans; [exact Href|]. apply rf_perm, bcontent_perm. symmetry. apply flatten_perm; assumption.
Qed.

(* two layouts of one specification agree with each other *)
Corollary merge_layouts_agree files root files' root' joined :
  NoDup (map fst files) -> all_reached files root = true ->
  NoDup (map fst files') -> all_reached files' root' = true ->
  wf (bcontent joined) ->
  refines (bcontent joined) (bcontent (all_blocks files)) -> refines (bcontent joined) (bcontent (all_blocks files')) ->
  Req (denote_files PkUnion files root) (denote_files PkUnion files' root').
Proof.
  intros. etransitivity; [eapply merge_partition_invariant; eassumption|].
  symmetry. eapply merge_partition_invariant; eassumption.
Qed.

(* ---- whatever ExitTable does with the key: everything except the primary keys is invariant ---- *)
Lemma fst_xstep_mode mode mode' s s' x : fst s = fst s' -> fst (xstep mode s x) = fst (xstep mode' s' x).
Proof.
  destruct s as [m p], s' as [m' p']. cbn [fst]. intros <-.
  destruct x as [| an table n a fs | an n a items | | |? [[? ?] ?]|]; try reflexivity.
  - unfold xstep, apply_op; cbn [x_app x_op fst snd]. unfold type_g.
    destruct (default (TRec table ∅ ∅) (a_types (cur_app m an) !! n)); reflexivity.
  - unfold xstep, apply_op; cbn [x_app x_op fst snd]. destruct items; reflexivity.
Qed.

Lemma fst_fold_mode mode mode' l : forall s s', fst s = fst s' ->
  fst (fold_left (xstep mode) l s) = fst (fold_left (xstep mode') l s').
Proof. induction l as [|x l IH]; intros s s' H; cbn [fold_left]; [exact H|]. apply IH, fst_xstep_mode, H. Qed.

Theorem merge_fields_partial mode files root joined :
  NoDup (map fst files) -> all_reached files root = true ->
  wf (bcontent joined) -> refines (bcontent joined) (bcontent (all_blocks files)) ->
  fst (denote_files mode files root) = fst (denote_blocks mode joined).
Proof.
  intros Hnd Hall Hwf Href.
  destruct (merge_partition_invariant files root joined Hnd Hall Hwf Href) as [H _].
  unfold denote_files in *. rewrite !denote_blocks_content in *.
  rewrite (fst_fold_mode mode PkUnion _ (∅, ∅) (∅, ∅) eq_refl), H.
  apply fst_fold_mode. reflexivity.
Qed.

(* ---- and with the key recomputed per block (the code as found) the full statement is false ---- *)
Local Open Scope positive_scope.
Definition wit_app : appname := [5%positive].
Definition wit_fa := FD 7 10 false [ET pk_tag].
Definition wit_fb := FD 8 10 false [ET pk_tag].
Definition wit_fc := FD 9 11 false [].
Definition wit_joined : list block := [B wit_app None [] [MT true 6 [] [wit_fa; wit_fb; wit_fc]]].
Definition wit_files : list filedesc :=
  [(20%positive, ([21%positive], [B wit_app None [] [MT true 6 [] [wit_fa]]]));
   (21%positive, ([], [B wit_app None [] [MT true 6 [] [wit_fb; wit_fc]]]))].

Local Close Scope positive_scope.

Lemma wit_hyps :
  NoDup (map fst wit_files) /\ all_reached wit_files 20%positive = true /\
  wf (bcontent wit_joined) /\ refines (bcontent wit_joined) (bcontent (all_blocks wit_files)).
Proof.
  split; [|split; [|split]].
  - cbn. apply NoDup_cons. split; [|apply NoDup_singleton]. intros H. apply elem_of_list_singleton in H. discriminate.
  - reflexivity.
  - split.
    + constructor; [|constructor; [constructor|constructor]]. constructor; [|constructor]. left. discriminate.
    + constructor; [exact I|]. constructor; [|constructor]. cbn.
      apply NoDup_cons. split; [intros H; apply elem_of_cons in H; destruct H as [H|H]; [discriminate|apply elem_of_list_singleton in H; discriminate]|].
      apply NoDup_cons. split; [intros H; apply elem_of_list_singleton in H; discriminate|apply NoDup_singleton].
  - cbn. (* [H; T(a,b,c)]  ~>  [H; T(a); H; T(b,c)] *)
    eapply rf_trans; [apply rf_perm, perm_swap|].
    eapply rf_trans; [apply (rf_split wit_app true 6%positive [] [wit_fa] [wit_fb; wit_fc])|].
    eapply rf_trans; [apply (rf_reopen wit_app); eexists; split; [left; reflexivity|reflexivity]|].
    apply rf_perm.
    do 2 apply perm_skip. apply perm_swap.
Qed.

Theorem merge_fields_pk_refuted :
  exists files root joined,
    NoDup (map fst files) /\ all_reached files root = true /\
    wf (bcontent joined) /\ refines (bcontent joined) (bcontent (all_blocks files)) /\
    snd (denote_files PkReplace files root) !! (wit_app, 6%positive) = Some [8%positive] /\
    snd (denote_blocks PkReplace joined) !! (wit_app, 6%positive) = Some [7%positive; 8%positive] /\
    ~ Req (denote_files PkReplace files root) (denote_blocks PkReplace joined).
Proof.
  exists wit_files, 20%positive, wit_joined.
  destruct wit_hyps as (H1 & H2 & H3 & H4). repeat (split; [assumption|]).
  assert (Ha : snd (denote_files PkReplace wit_files 20%positive) !! (wit_app, 6%positive) = Some [8%positive]) by (vm_compute; reflexivity).
  assert (Hb : snd (denote_blocks PkReplace wit_joined) !! (wit_app, 6%positive) = Some [7%positive; 8%positive]) by (vm_compute; reflexivity).
  split; [exact Ha|]. split; [exact Hb|].
  intros [_ H]. destruct (H (wit_app, 6%positive) 7%positive) as [_ H'].
  assert (Hin : In 7%positive (default [] (snd (denote_blocks PkReplace wit_joined) !! (wit_app, 6%positive))))
    by (vm_compute; left; reflexivity).
  apply H' in Hin. vm_compute in Hin. destruct Hin as [Hin|[]]. discriminate.
Qed.

(* non-vacuity of the headline theorem's hypotheses, and the repaired code on the same witness *)
Example wit_union_agrees :
  snd (denote_files PkUnion wit_files 20%positive) !! (wit_app, 6%positive) = Some [7%positive; 8%positive]
  /\ Req (denote_files PkUnion wit_files 20%positive) (denote_blocks PkUnion wit_joined).
Proof.
  split; [vm_compute; reflexivity|].
  destruct wit_hyps as (H1 & H2 & H3 & H4). apply merge_partition_invariant; assumption.
Qed.

(* ------------------------------------------------------------------------------------------------ *)
(* 8. re-opening an application never drops what earlier blocks declared                             *)
Definition has_type (s : state) (an : appname) (n : name) : Prop := is_Some (a_types (cur_app (fst s) an) !! n).
Definition has_ep (s : state) (an : appname) (k : epkey) : Prop := is_Some (a_eps (cur_app (fst s) an) !! k).
Definition has_app (s : state) (an : appname) : Prop := is_Some (fst s !! an).

Definition keeps_op (o : cellop) : Prop :=
  match o with
  | OHead _ => True
  | OType _ g => forall t p, is_Some t -> is_Some (fst (g t p))
  | OEp _ e => forall e0, is_Some e0 -> is_Some (e e0)
  end.

Lemma keeps_x mode x : keeps_op (x_op mode x).
Proof.
  destruct x as [| an table n a fs | an n a items | | |? [[? ?] ?]|]; cbn; try exact I; try (intros; eexists; reflexivity).
  - intros t p _. unfold type_g. destruct (default (TRec table ∅ ∅) t); eexists; reflexivity.
  - intros t p Ht. destruct items; [exact Ht|eexists; reflexivity].
Qed.

Lemma xstep_keeps mode s x an :
  (has_app s an -> has_app (xstep mode s x) an) /\
  (forall n, has_type s an n -> has_type (xstep mode s x) an n) /\
  (forall k, has_ep s an k -> has_ep (xstep mode s x) an k).
Proof.
  destruct s as [m p]. unfold has_app, has_type, has_ep, xstep.
  pose proof (keeps_x mode x) as Hk. set (o := x_op mode x) in *. set (an' := x_app x).
  destruct (decide (an' = an)) as [->|Hne].
  - split; [|split].
    + intros _. unfold apply_op. destruct o; cbn [fst]; rewrite lookup_insert; eexists; reflexivity.
    + intros n Hn. unfold apply_op. destruct o as [h|n' g|k e]; cbn [fst]; rewrite cur_app_insert; cbn [a_types]; try exact Hn.
      destruct (decide (n' = n)) as [->|Hn'].
      * rewrite lookup_partial_alter. apply Hk, Hn.
      * rewrite lookup_partial_alter_ne by exact Hn'. exact Hn.
    + intros k Hkk. unfold apply_op. destruct o as [h|n' g|k' e]; cbn [fst]; rewrite cur_app_insert; cbn [a_eps]; try exact Hkk.
      destruct (decide (k' = k)) as [->|Hk'].
      * rewrite lookup_partial_alter. apply Hk, Hkk.
      * rewrite lookup_partial_alter_ne by exact Hk'. exact Hkk.
  - assert (Hm : fst (apply_op an' o (m, p)) !! an = m !! an).
    { unfold apply_op. destruct o; cbn [fst]; apply lookup_insert_ne, Hne. }
    unfold cur_app. cbn [fst] in *. rewrite Hm. tauto.
Qed.

Lemma fold_keeps mode l an : forall s,
  (has_app s an -> has_app (fold_left (xstep mode) l s) an) /\
  (forall n, has_type s an n -> has_type (fold_left (xstep mode) l s) an n) /\
  (forall k, has_ep s an k -> has_ep (fold_left (xstep mode) l s) an k).
Proof.
  induction l as [|x l IH]; intros s; cbn [fold_left]; [tauto|].
  destruct (xstep_keeps mode s x an) as (H1 & H2 & H3). destruct (IH (xstep mode s x)) as (I1 & I2 & I3).
  split; [auto|]. split; [intros n Hn; apply I2, H2, Hn|intros k Hk; apply I3, H3, Hk].
Qed.

(* whatever the blocks (any number of re-openings, any members, any mode): an application, a type or an endpoint
   that exists after the blocks bs1 still exists after bs1 ++ bs2 *)
Theorem reopen_keeps_maps mode bs1 bs2 an :
  (has_app (denote_blocks mode bs1) an -> has_app (denote_blocks mode (bs1 ++ bs2)) an) /\
  (forall n, has_type (denote_blocks mode bs1) an n -> has_type (denote_blocks mode (bs1 ++ bs2)) an n) /\
  (forall k, has_ep (denote_blocks mode bs1) an k -> has_ep (denote_blocks mode (bs1 ++ bs2)) an k).
Proof.
  rewrite !denote_blocks_content. unfold bcontent, content. rewrite !flat_map_app, fold_left_app.
  apply fold_keeps.
Qed.

(* ------------------------------------------------------------------------------------------------ *)
(* 9. key lists are duplicate-free under PkUnion, so "equal as sets" is "equal up to order"          *)
Definition pk_inv (s : state) : Prop := forall k l, snd s !! k = Some l -> NoDup l.

Lemma pk_union_nodup new : forall old, NoDup old -> NoDup (pk_union old new).
Proof.
  induction new as [|x new IH]; intros old H; [exact H|].
  unfold pk_union in *. cbn. apply IH. unfold pk_add. destruct (in_names x old) eqn:E; [exact H|].
  apply NoDup_app. split; [exact H|]. split; [|apply NoDup_singleton].
  intros y Hy Hx. apply elem_of_list_singleton in Hx. subst y.
  apply elem_of_list_In, in_names_In in Hy. congruence.
Qed.

Lemma xstep_pk_inv s x : pk_inv s -> pk_inv (xstep PkUnion s x).
Proof.
  destruct s as [m p]. intros Hinv.
  assert (Hd : forall k, NoDup (default [] (p !! k))).
  { intros k. destruct (p !! k) eqn:E; [exact (Hinv k _ E)|apply NoDup_nil_2]. }
  unfold xstep, apply_op.
  destruct x as [| an table n a fs | an n a items | | |? [[? ?] ?]|]; cbn [x_app x_op fst snd]; try exact Hinv.
  - intros k l; cbn [snd]. destruct (decide (k = (an, n))) as [->|Hne].
    + rewrite lookup_partial_alter. unfold type_g.
      destruct (default (TRec table ∅ ∅) (a_types (cur_app m an) !! n)) as [rel a0 fs0|a0 its]; cbn [snd]; [|apply Hinv].
      destruct rel; [|apply Hinv].
      unfold pk_update. destruct (pk_union (default [] (p !! (an, n))) _) eqn:E; [apply Hinv|].
      intros [= <-]. rewrite <- E. apply pk_union_nodup, Hd.
    + rewrite lookup_partial_alter_ne by congruence. apply Hinv.
  - intros k l; cbn [snd]. destruct (decide (k = (an, n))) as [->|Hne].
    + rewrite lookup_partial_alter. destruct items; cbn [snd]; [apply Hinv|discriminate].
    + rewrite lookup_partial_alter_ne by congruence. apply Hinv.
Qed.

Lemma fold_pk_inv l : forall s, pk_inv s -> pk_inv (fold_left (xstep PkUnion) l s).
Proof. induction l as [|x l IH]; intros s H; cbn [fold_left]; [exact H|]. apply IH, xstep_pk_inv, H. Qed.

Lemma denote_blocks_pk_inv bs : pk_inv (denote_blocks PkUnion bs).
Proof. rewrite denote_blocks_content. apply fold_pk_inv. intros k l H. cbn [snd] in H. rewrite lookup_empty in H. discriminate. Qed.

Definition key_of (s : state) (k : appname * name) : list name := default [] (snd s !! k).

Theorem merge_partition_invariant_perm files root joined :
  NoDup (map fst files) -> all_reached files root = true ->
  wf (bcontent joined) -> refines (bcontent joined) (bcontent (all_blocks files)) ->
  fst (denote_files PkUnion files root) = fst (denote_blocks PkUnion joined) /\
  forall k, Permutation (key_of (denote_files PkUnion files root) k) (key_of (denote_blocks PkUnion joined) k).
Proof.
  intros Hnd Hall Hwf Href.
  destruct (merge_partition_invariant files root joined Hnd Hall Hwf Href) as [H1 H2].
  split; [exact H1|]. intros k. unfold key_of.
  assert (Hn : forall s, pk_inv s -> NoDup (default [] (snd s !! k))).
  { intros s Hs. destruct (snd s !! k) eqn:E; [exact (Hs k _ E)|apply NoDup_nil_2]. }
  apply NoDup_Permutation.
  - apply Hn. unfold denote_files. apply denote_blocks_pk_inv.
  - apply Hn, denote_blocks_pk_inv.
  - intros x. rewrite !elem_of_list_In. apply H2.
Qed.

(* ------------------------------------------------------------------------------------------------ *)
(* 10. order-preserving splits: the key ORDER is the joined form's ("as if declared in one block")   *)
(* `orefines` never exchanges two declarations of the same cell: a type may be cut in two consecutive shares
   (the later share comes later), a bare re-opening header may appear before a declaration of its app, and two
   neighbouring declarations of DIFFERENT cells may change places. *)
Inductive orefines : list xatom -> list xatom -> Prop :=
| or_refl l : orefines l l
| or_split l1 l2 an t n a fs1 fs2 : disjoint_names (names fs1) (names fs2) ->
    orefines (l1 ++ XType an t n a (fs1 ++ fs2) :: l2) (l1 ++ XType an t n a fs1 :: XType an t n [] fs2 :: l2)
| or_reopen l1 l2 an : (exists x, In x l2 /\ x_app x = an) -> orefines (l1 ++ l2) (l1 ++ XHead an None [] :: l2)
| or_swap l1 l2 x y : x_cell x <> x_cell y -> orefines (l1 ++ x :: y :: l2) (l1 ++ y :: x :: l2)
| or_trans l1 l2 l3 : orefines l1 l2 -> orefines l2 l3 -> orefines l1 l3.

Theorem orefines_sound l l' : orefines l l' ->
  forall s, fold_left (xstep PkUnion) l s = fold_left (xstep PkUnion) l' s.
Proof.
  induction 1 as [l|l1 l2 an t n a fs1 fs2 Hd|l1 l2 an Hx|l1 l2 x y Hc|l1 l2 l3 _ IH1 _ IH2]; intros s.
  - reflexivity.
  - rewrite !fold_left_app. cbn [fold_left]. f_equal.
    unfold xstep; cbn [x_app x_op]. rewrite apply_seq_type.
    generalize (fold_left (fun s x => apply_op (x_app x) (x_op PkUnion x) s) l1 s). intros [m p].
    unfold apply_op; cbn [fst snd]. rewrite (type_g_fusion t a fs1 fs2 Hd). reflexivity.
  - rewrite !fold_left_app. symmetry. apply touch_redundant, Hx.
  - rewrite !fold_left_app. cbn [fold_left]. f_equal. unfold xstep.
    apply apply_comm_ne. rewrite !op_cell_x. unfold x_cell in Hc. congruence.
  - rewrite IH1. apply IH2.
Qed.

(* the blocks of the files, in the order the parser walks them, against the joined form: EXACT equality,
   key lists included *)
Theorem merge_pk_order_preserved files root joined :
  orefines (bcontent joined) (bcontent (blocks_in_order files (flatten_order files root))) ->
  denote_files PkUnion files root = denote_blocks PkUnion joined.
Proof.
  intros H. unfold denote_files. rewrite !denote_blocks_content. symmetry. apply orefines_sound, H.
Qed.

Lemma wit_ordered :
  orefines (bcontent wit_joined) (bcontent (blocks_in_order wit_files (flatten_order wit_files 20%positive))).
Proof.
  vm_compute flatten_order. cbn.
  eapply or_trans; [apply (or_split [XHead wit_app None []] [] wit_app true 6%positive [] [wit_fa] [wit_fb; wit_fc])|].
  - intros x [<-|[]] [H|[H|[]]]; discriminate.
  - apply (or_reopen [XHead wit_app None []; XType wit_app true 6%positive [] [wit_fa]]
             [XType wit_app true 6%positive [] [wit_fb; wit_fc]] wit_app).
    eexists; split; [left; reflexivity|reflexivity].
Qed.
