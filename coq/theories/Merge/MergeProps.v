(* C04: proofs about Merge/Model.v.

   Plan.  Every step of the listener acts on ONE cell of the shared module - the header of an app (long name +
   attributes), one type of an app together with its primary key, or one endpoint of an app - and creates the
   app entry when it is missing.  Steps on different cells commute exactly; two shares of one type commute up to
   the order of the key list (PkUnion); a re-opening header without attributes is absorbed.  A layout is related
   to the joined form by `refines` (permute, split the fields of a type, add re-opening headers), and `refines`
   preserves the denotation. *)
From Coq Require Import String List ZArith NArith Bool Permutation.
From stdpp Require Import gmap.
Import ListNotations.
Require Import Verif.Merge.Model.

(* ------------------------------------------------------------------------------------------------ *)
(* 1. folding commuting steps over a permutation                                                     *)
Section FoldPerm.
  Context {S A : Type} (R : relation S) `{!Equivalence R} (stp : S -> A -> S) (indep : A -> A -> Prop).
  Hypothesis indep_sym : forall a b, indep a b -> indep b a.
  Hypothesis stp_proper : forall s s' a, R s s' -> R (stp s a) (stp s' a).
  Hypothesis stp_comm : forall s a b, indep a b -> R (stp (stp s a) b) (stp (stp s b) a).

  Inductive pairwise : list A -> Prop :=
  | pw_nil : pairwise []
  | pw_cons a l : Forall (indep a) l -> pairwise l -> pairwise (a :: l).

  Lemma pairwise_perm l l' : Permutation l l' -> pairwise l -> pairwise l'.
  Proof.
    induction 1 as [|x l l' Hp IH|x y l|l l' l'' _ IH1 _ IH2]; intros Hw.
    - exact Hw.
    - inversion Hw as [|? ? Hf Hl]; subst. constructor; [|auto].
      eapply Permutation_Forall; eassumption.
    - inversion Hw as [|? ? Hf Hl]; subst. inversion Hl as [|? ? Hf' Hl']; subst.
      inversion Hf as [|? ? Hyx Hfy]; subst.
      constructor; [constructor; [apply indep_sym; exact Hyx|exact Hf']|].
      constructor; assumption.
    - auto.
  Qed.

  Lemma fold_proper l : forall s s', R s s' -> R (fold_left stp l s) (fold_left stp l s').
  Proof. induction l as [|a l IH]; intros s s' H; cbn; [exact H|]. apply IH, stp_proper, H. Qed.

  Lemma fold_perm l l' : Permutation l l' -> pairwise l ->
    forall s s', R s s' -> R (fold_left stp l s) (fold_left stp l' s').
  Proof.
    induction 1 as [|x l l' Hp IH|x y l|l l' l'' Hp1 IH1 Hp2 IH2]; intros Hw s s' Hs; cbn.
    - exact Hs.
    - inversion Hw; subst. apply IH; [assumption|]. apply stp_proper, Hs.
    - inversion Hw as [|? ? Hf Hl]; subst. inversion Hf as [|? ? Hyx _]; subst.
      apply fold_proper. etransitivity; [apply stp_comm, Hyx|].
      apply stp_proper, stp_proper, Hs.
    - etransitivity; [apply IH1; [exact Hw|reflexivity]|].
      apply IH2; [eapply pairwise_perm; eassumption|exact Hs].
  Qed.
End FoldPerm.

(* ------------------------------------------------------------------------------------------------ *)
(* 2. cells                                                                                          *)
Definition oeq (p p' : option (list name)) : Prop := forall x, In x (default [] p) <-> In x (default [] p').
Definition Req (s s' : state) : Prop := fst s = fst s' /\ forall k, oeq (snd s !! k) (snd s' !! k).

Global Instance oeq_equiv : Equivalence oeq.
Proof.
  split.
  - intros p x; reflexivity.
  - intros p q H x; symmetry; apply H.
  - intros p q r H1 H2 x; etransitivity; [apply H1|apply H2].
Qed.
Global Instance Req_equiv : Equivalence Req.
Proof.
  split.
  - intros s; split; [reflexivity|intros k; reflexivity].
  - intros s s' [H1 H2]; split; [auto|intros k; symmetry; apply H2].
  - intros s1 s2 s3 [H1 H2] [H3 H4]; split; [congruence|intros k; etransitivity; [apply H2|apply H4]].
Qed.

Inductive cellop :=
| OHead (h : option name -> attrs -> option name * attrs)
| OType (n : name) (g : option typeent -> option (list name) -> option typeent * option (list name))
| OEp (k : epkey) (e : option endpoint -> option endpoint).

Definition apply_op (an : appname) (o : cellop) (s : state) : state :=
  let ap := cur_app (fst s) an in
  match o with
  | OHead h =>
      let r := h (a_long ap) (a_attrs ap) in
      (<[an := App (fst r) (snd r) (a_types ap) (a_eps ap)]> (fst s), snd s)
  | OType n g =>
      let r := g (a_types ap !! n) (snd s !! (an, n)) in
      (<[an := App (a_long ap) (a_attrs ap) (partial_alter (fun _ => fst r) n (a_types ap)) (a_eps ap)]> (fst s),
       partial_alter (fun _ => snd r) (an, n) (snd s))
  | OEp k e =>
      (<[an := App (a_long ap) (a_attrs ap) (a_types ap) (partial_alter e k (a_eps ap))]> (fst s), snd s)
  end.

Definition good_op (o : cellop) : Prop :=
  match o with
  | OType _ g => forall t p p', oeq p p' -> fst (g t p) = fst (g t p') /\ oeq (snd (g t p)) (snd (g t p'))
  | _ => True
  end.

Lemma apply_proper an o s s' : good_op o -> Req s s' -> Req (apply_op an o s) (apply_op an o s').
Proof.
  destruct s as [m p], s' as [m' p']. intros Hg [Hm Hp]; cbn in Hm, Hp; subst m'.
  destruct o as [h|n g|k e]; cbn.
  - split; [reflexivity|exact Hp].
  - destruct (Hg (a_types (cur_app m an) !! n) _ _ (Hp (an, n))) as [H1 H2].
    split; cbn; [rewrite H1; reflexivity|].
    intros k. destruct (decide (k = (an, n))) as [->|Hne].
    + rewrite !lookup_partial_alter. exact H2.
    + rewrite !lookup_partial_alter_ne by congruence. apply Hp.
  - split; [reflexivity|exact Hp].
Qed.

Inductive cellid := CHead | CType (n : name) | CEp (k : epkey).
Definition op_cell (o : cellop) : cellid :=
  match o with OHead _ => CHead | OType n _ => CType n | OEp k _ => CEp k end.

Lemma cur_app_insert m an ap : cur_app (<[an := ap]> m) an = ap.
Proof. unfold cur_app. rewrite lookup_insert. reflexivity. Qed.
Lemma cur_app_insert_ne m an an' ap : an <> an' -> cur_app (<[an := ap]> m) an' = cur_app m an'.
Proof. intros H. unfold cur_app. rewrite lookup_insert_ne by exact H. reflexivity. Qed.

Lemma apply_comm_ne an1 o1 an2 o2 s :
  (an1, op_cell o1) <> (an2, op_cell o2) ->
  apply_op an1 o1 (apply_op an2 o2 s) = apply_op an2 o2 (apply_op an1 o1 s).
Proof.
  destruct s as [m p]. intros Hne.
  destruct (decide (an1 = an2)) as [->|Han].
  - assert (Hc : op_cell o1 <> op_cell o2) by congruence. clear Hne.
    destruct o1 as [h1|n1 g1|k1 e1], o2 as [h2|n2 g2|k2 e2]; cbn in Hc; try congruence;
      unfold apply_op; cbn [fst snd]; rewrite !cur_app_insert; cbn [a_long a_attrs a_types a_eps];
      rewrite !insert_insert.
    + reflexivity.
    + reflexivity.
    + reflexivity.
    + assert (Hn : n1 <> n2) by congruence.
      rewrite !lookup_partial_alter_ne by congruence.
      f_equal; [f_equal; f_equal|]; apply partial_alter_commute; congruence.
    + reflexivity.
    + reflexivity.
    + reflexivity.
    + assert (Hk : k1 <> k2) by congruence.
      f_equal. f_equal. f_equal. apply partial_alter_commute; congruence.
  - destruct o1 as [h1|n1 g1|k1 e1], o2 as [h2|n2 g2|k2 e2];
      unfold apply_op; cbn [fst snd];
      rewrite ?cur_app_insert_ne by congruence;
      rewrite ?lookup_partial_alter_ne by congruence;
      (apply pair_equal_spec; split;
       [apply insert_commute; congruence
       |try reflexivity; try (apply partial_alter_commute; congruence)]).
Qed.
