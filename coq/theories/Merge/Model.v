(* C04 MODEL (definitions only, executable): the listener's per-block merge step of
   pkg/parse/listener_impl.go as a fold over the blocks of the import closure in flatten order
   (pkg/parse/parse.go flattenSpecs + parseSpecs: ONE listener / ONE module for all files).

   Transliterated Go functions (what each definition below follows):
     EnterName_with_attribs   head_step      lookup-or-create of the app by name, LongName, attribute merge
     mergeAttrs               merge_attrs    per key: absent -> set; both arrays -> append; else later wins
     makeAttributeArray       make_attrs     name="v" / name=["a","b"] pairs (later wins), ~modifiers under "patterns"
     EnterAnnotation/EnterAnnotation_value/addAttrWithPrecedence
                              anno_f, anno_step   `@k = v` on the attributes of the innermost scope (application,
                                             type, endpoint): the FIRST non-empty value of a name stays, an empty
                                             string / empty array is overwritten, "patterns" arrays are appended
     mergeAttrsWithPrecendence merge_prec    the same rule key by key (a field declared again, EnterField_type)
     EnterTable/EnterTable_def/EnterTable_stmts/EnterField/EnterField_type/ExitTable
                              table_step     re-open reuses the existing attr_defs map (typemap aliasing), an
                                             existing type keeps its kind, type attributes merged (patterns
                                             append, others overwrite), annotations, a field declared again is
                                             MERGED (type: later wins, `?` sticks, attributes by precedence),
                                             primary key from THIS block's fields (+ the earlier key: pk_mode)
     EnterEnum                enum_step      replaces the type, only if it has items
     EnterAlias/ExitAlias     alias_step     always replaces the type
     EnterUnion/ExitUnion     union_step     always replaces the type
     EnterView/ExitView       view_ent       (abstract views) always replaces the view
     EnterSimple_endpoint/ExitParams
                              ep_step        lookup-or-create, mergeAttrs, parameters and statements appended
     EnterEvent               event_step     lookup-or-create (is_pubsub), parameters and statements appended
     EnterRest_endpoint/ExitHttp_path/EnterHttp_path_var_with_type/EnterMethod_def/EnterQuery_var/ExitMethod_def
                              rest_eps, method_step   prefix stack -> endpoint name METHOD + joined path, ["rest"]
                                             pattern merged, url parameters of the whole prefix REPLACE, query
                                             parameters and statements are appended
     EnterMixin/ExitMixin     MX             Mixin2 = append(Mixin2, target)
     EnterSubscribe           sub_step + subcall_step   the subscriber's endpoint `Pub -> Evt` is REPLACED; the
                                             publisher (created if missing) gets the event endpoint if missing
                                             and one more call statement
     pushScope/addToCurrentScope/popScope    statements of nested scopes (if / else / loops / groups / one of)
                                             stay inside their statement: a body is a token list SOpen .. SClose
     flattenSpecs             flatten        each file once, a file before its imports, imports in textual order

   Conventions: every string (names, texts, tags, path segments, type spellings, parameter spellings) is an
   interned `positive` owned by the harness; ids 1-6 are fixed ("patterns", "rest", "pk", "...", the empty
   string value, the key of the mixin lists).  Go maps are std++ gmaps; a nil map and an empty map are
   identified (proto.Equal does the same).  The two lists that grow in declaration order across blocks and whose
   ORDER therefore follows the block order - `rel.PrimaryKey.AttrName` of a table and `app.Mixin2` - are kept
   NEXT TO the module in one map (keyed by app and type name, resp. by app and mixin_key; absent = nil) - an
   isomorphic presentation of the same state that lets the theorems say "equal, except that these lists may be
   permuted".

   The way ExitTable combines the key fields of this block with the key the table already has is read from
   the source by the translator (Gen/MergeRules.v: pk_mode):  PkReplace = recompute from this block only
   (the code as found), PkUnion = keep the earlier key fields and add the new ones (the repaired code).

   Not modelled (the harness never writes them where the model is compared): `@patterns = ..` on attributes
   without a "patterns" entry (the code dereferences a nil interface there), annotations inside nested scopes
   (peekAttrs panics), annotations of unions (copied to the members), attributes and annotations of a REST path
   (only those of a method), chains of mixins and the copying of mixed-in types (postProcess). *)
From Coq Require Import String List ZArith NArith Bool.
From stdpp Require Import gmap.
Import ListNotations.

Definition name := positive.
Definition appname := list name.

Definition patterns_key : name := 1%positive.
Definition rest_tag : name := 2%positive.
Definition pk_tag : name := 3%positive.
Definition dots_name : name := 4%positive.
Definition empty_str : name := 5%positive.        (* the attribute value "" *)
Definition mixin_key : name := 6%positive.        (* (app, mixin_key) : the app's Mixin2 list *)
Definition abstract_tag : name := 7%positive.     (* the pattern "abstract" *)

(* ---------- attribute values ---------- *)
Inductive attrv := VS (s:name) | VA (l:list name).
Notation attrs := (gmap name attrv).
Definition anno := (name * attrv)%type.                         (* @k = "v"  /  @k = ["a", "b"] *)

(* ---------- what the text declares, block by block ---------- *)
Inductive entry := EN (k v:name) | ET (t:name) | EA (k:name) (l:list name).   (* [k="v", ~t, k=["a","b"]] *)
Record fielddecl := FD { fd_name : name; fd_ty : name; fd_opt : bool; fd_attrs : list entry }.
(* a body is the sequence of listener events: SOpen kind label .. SClose brackets the statements of a nested scope *)
Inductive stmt := SA (t:name) | SC (app:appname) (ep:name) | SR (t:name) | SOpen (kind label:name) | SClose.
(* md_inh: the attribute maps of the enclosing REST paths, outermost first (s.rest_attrs when the method is entered);
   the text has no such thing - rest_eps fills it in, the harness writes methods with MDh *)
Record methoddecl := MD { md_verb : name; md_attrs : list entry; md_annos : list anno; md_params : list name;
                          md_query : list name; md_body : list stmt; md_inh : list (gmap name attrv) }.
Definition MDh verb a annos params query body : methoddecl := MD verb a annos params query body [].
(* path segments as they appear in the endpoint name ("p1", "{id}"), the typed variables among them *)
(* pa / pannos: `/path [attrs]:` and the `@k = v` lines of the path (written before its methods) *)
Inductive rnode := RN (segs:list name) (vars:list name) (pa:list entry) (pannos:list anno) (methods:list methoddecl) (subs:list rnode).
Inductive member :=
| MT (table:bool) (n:name) (a:list entry) (annos:list anno) (fs:list fielddecl)  (* !type / !table: one block's share *)
| ME (n:name) (a:list entry) (annos:list anno) (items:list (name * Z))           (* !enum *)
| MAl (n:name) (a:list entry) (annos:list anno) (ty:name)                        (* !alias *)
| MU (n:name) (a:list entry) (alts:list name)                                    (* !union *)
| MP (n:name) (a:list entry) (annos:list anno) (params:list name) (body:list stmt)   (* simple endpoint *)
| MV (n:name) (a:list entry) (params:list name) (body:list stmt)                 (* <-> event *)
| MR (r:rnode)                                                                   (* REST tree *)
| MX (target:name)                                                               (* -|> App *)
| MVw (n:name) (annos:list anno) (sg:name)                                       (* !view n(..) -> .. [~abstract] *)
| MS (key:name) (pub:appname) (evt:name) (a:list entry) (annos:list anno) (body:list stmt)  (* Pub -> Evt: *)
| MA (x:anno)                                                                    (* @k = v in the application body *)
| MW.                                                                            (* `...` as the only content of a block *)
Record block := B { b_app : appname; b_long : option name; b_attrs : list entry; b_members : list member }.

Inductive pkmode := PkReplace | PkUnion | PkUnknown.

(* ---------- the compiled model (projection compared with *sysl.Module) ---------- *)
Record field := Fld { f_ty : name; f_opt : bool; f_attrs : attrs }.
Inductive typeent :=
| TRec (rel:bool) (a:attrs) (fs:gmap name field)
| TEnum (a:attrs) (items:gmap name Z)
| TAlias (a:attrs) (ty:name)
| TUnion (a:attrs) (alts:list name)
(* app.Views[name]: an abstract view; kept in the same map as the types under names interned with another prefix
   ("v:Name"), so a view and a type never meet under one key - sg is the spelling of parameters and return type *)
| TView (a:attrs) (sg:name).
Definition epkey := (option name * list name)%type.        (* (None,[n]) = named; (Some verb, path) = REST *)
Record endpoint := Ep { e_pubsub : bool; e_rest : bool; e_source : option appname; e_attrs : attrs;
                        e_params : list name; e_query : list name; e_url : list name; e_stmts : list stmt }.
Record app := App { a_long : option name; a_attrs : attrs; a_types : gmap name typeent; a_eps : gmap epkey endpoint }.
Notation module := (gmap appname app).
Notation pkmap := (gmap (appname * name) (list name)).
Definition state := (module * pkmap)%type.

Global Instance attrv_eq_dec : EqDecision attrv. Proof. solve_decision. Defined.
Global Instance stmt_eq_dec : EqDecision stmt. Proof. solve_decision. Defined.
Global Instance field_eq_dec : EqDecision field. Proof. solve_decision. Defined.
Global Instance typeent_eq_dec : EqDecision typeent. Proof. solve_decision. Defined.
Global Instance endpoint_eq_dec : EqDecision endpoint. Proof. solve_decision. Defined.
Global Instance app_eq_dec : EqDecision app. Proof. solve_decision. Defined.

Definition empty_app : app := App None ∅ ∅ ∅.
Definition new_ep (pubsub rest:bool) : endpoint := Ep pubsub rest None ∅ [] [] [] [].

(* ---------- attributes ---------- *)
(* makeAttributeArray *)
Definition make_attrs (es:list entry) : attrs :=
  let nv := fold_left (fun (m:attrs) e => match e with EN k v => <[k := VS v]> m | EA k l => <[k := VA l]> m | ET _ => m end) es ∅ in
  let pats := flat_map (fun e => match e with ET t => [t] | _ => [] end) es in
  match pats with [] => nv | _ => <[patterns_key := VA pats]> nv end.

(* mergeAttrs(src, dst): the loop body touches key k only, so the loop is a key-wise merge *)
Definition merge_attr1 (s d:option attrv) : option attrv :=
  match s, d with
  | None, d => d
  | Some v, None => Some v
  | Some (VA x), Some (VA y) => Some (VA (y ++ x))
  | Some v, Some _ => Some v
  end.
Definition merge_attrs (src dst:attrs) : attrs := merge merge_attr1 src dst.

(* EnterTable_def: `if type1.Attrs == nil { = attrs } else for k,v: patterns append, others overwrite` *)
Definition merge_tattrs (src dst:attrs) : attrs :=
  let base := src ∪ dst in
  match src !! patterns_key, dst !! patterns_key with
  | Some (VA x), Some (VA y) => <[patterns_key := VA (y ++ x)]> base
  | _, _ => base
  end.

(* addAttrWithPrecedence(attrs, k, v) as a function of the entry under k *)
Definition nonempty (v:attrv) : bool :=
  match v with VS s => negb (Pos.eqb s empty_str) | VA [] => false | VA (_ :: _) => true end.
Definition anno_f (k:name) (v:attrv) (o:option attrv) : option attrv :=
  match o with
  | None => Some v
  | Some old =>
      if Pos.eqb k patterns_key then
        match old, v with VA x, VA y => Some (VA (x ++ y)) | _, _ => Some v end
      else if nonempty old then Some old else Some v
  end.
Definition anno_step (x:anno) (a:attrs) : attrs := partial_alter (anno_f (fst x) (snd x)) (fst x) a.
Definition annos_step (l:list anno) (a:attrs) : attrs := fold_left (fun a x => anno_step x a) l a.

(* mergeAttrsWithPrecendence(cur, new) = addAttrWithPrecedence for every key of new *)
Definition prec1 (c n:option attrv) : option attrv :=
  match n, c with
  | None, _ => c
  | Some v, None => Some v
  | Some v, Some old => if nonempty old then Some old else Some v
  end.
Definition merge_prec (cur new:attrs) : attrs :=
  let base := merge prec1 cur new in
  match cur !! patterns_key, new !! patterns_key with
  | Some (VA x), Some (VA y) => <[patterns_key := VA (x ++ y)]> base
  | _, _ => base
  end.

(* ---------- types ---------- *)
(* EnterField + EnterField_type: a new field, or the field the table already has, declared again *)
Definition field_step (old:option field) (fd:fielddecl) : field :=
  match old with
  | None => Fld (fd_ty fd) (fd_opt fd) (make_attrs (fd_attrs fd))
  | Some f => Fld (fd_ty fd) (f_opt f || fd_opt fd)
                  (match fd_attrs fd with [] => f_attrs f | _ => merge_prec (f_attrs f) (make_attrs (fd_attrs fd)) end)
  end.
Definition insert_fields (fs:list fielddecl) (fs0:gmap name field) : gmap name field :=
  fold_left (fun m fd => <[fd_name fd := field_step (m !! fd_name fd) fd]> m) fs fs0.

(* ExitTable: for name in s.fieldname: for each "pk" among the patterns of attr_defs[name] *)
Definition key_fields (fs:list fielddecl) (stored:gmap name field) : list name :=
  flat_map (fun fd =>
    match stored !! fd_name fd with
    | Some f => match f_attrs f !! patterns_key with
                | Some (VA l) => flat_map (fun t => if Pos.eqb t pk_tag then [fd_name fd] else []) l
                | _ => []
                end
    | None => []
    end) fs.

Definition in_names (x:name) (l:list name) : bool := existsb (Pos.eqb x) l.
Definition pk_add (acc:list name) (x:name) : list name := if in_names x acc then acc else acc ++ [x].
Definition pk_union (old new:list name) : list name := fold_left pk_add new old.

Definition pk_update (mode:pkmode) (old:option (list name)) (new:list name) : option (list name) :=
  match mode with
  | PkUnion => match pk_union (default [] old) new with [] => old | l => Some l end
  | _ => match new with [] => old | l => Some l end
  end.

Definition tattrs (t:typeent) : attrs :=
  match t with TRec _ a _ => a | TEnum a _ => a | TAlias a _ => a | TUnion a _ => a | TView a _ => a end.
Definition tattrs_step (a:list entry) (a0:attrs) : attrs :=
  match a with [] => a0 | _ => merge_tattrs (make_attrs a) a0 end.

(* what a `!type` / `!table` block does to the entry under its name and to the table's key *)
Definition type_g (mode:pkmode) (table:bool) (a:list entry) (annos:list anno) (fs:list fielddecl)
    (t:option typeent) (p:option (list name)) : option typeent * option (list name) :=
  (* EnterTable: typemap aliases the existing attr_defs; created only if absent *)
  let cur := default (TRec table ∅ ∅) t in
  let a1 := annos_step annos (tattrs_step a (tattrs cur)) in
  match cur with
  | TRec rel _ fs0 =>
      let fs1 := insert_fields fs fs0 in
      (Some (TRec rel a1 fs1), if rel then pk_update mode p (key_fields fs fs1) else p)
  (* the fields go into a map nobody keeps; only the attributes reach the existing enum / alias / union *)
  | TEnum _ items => (Some (TEnum a1 items), p)
  | TAlias _ ty => (Some (TAlias a1 ty), p)
  | TUnion _ alts => (Some (TUnion a1 alts), p)
  | TView _ sg => (Some (TView a1 sg), p)      (* never met: view names are interned apart from type names *)
  end.

Definition set_types (ap:app) (ts:gmap name typeent) : app := App (a_long ap) (a_attrs ap) ts (a_eps ap).
Definition set_eps (ap:app) (es:gmap epkey endpoint) : app := App (a_long ap) (a_attrs ap) (a_types ap) es.

Definition table_step (mode:pkmode) (an:appname) (table:bool) (n:name) (a:list entry) (annos:list anno)
    (fs:list fielddecl) (ap:app) (pk:pkmap) : app * pkmap :=
  let r := type_g mode table a annos fs (a_types ap !! n) (pk !! (an, n)) in
  (set_types ap (partial_alter (fun _ => fst r) n (a_types ap)), partial_alter (fun _ => snd r) (an, n) pk).

(* EnterEnum (only with items), EnterAlias, EnterUnion: the entry is a NEW type - whatever was there, with its key, is gone *)
Definition repl_step (an:appname) (n:name) (t:option typeent) (ap:app) (pk:pkmap) : app * pkmap :=
  match t with
  | None => (ap, pk)
  | Some t' => (set_types ap (<[n := t']> (a_types ap)), delete (an, n) pk)
  end.
Definition enum_ent (a:list entry) (annos:list anno) (items:list (name * Z)) : option typeent :=
  match items with
  | [] => None
  | _ => Some (TEnum (annos_step annos (make_attrs a)) (fold_left (fun m it => <[fst it := snd it]> m) items ∅))
  end.
Definition alias_ent (a:list entry) (annos:list anno) (ty:name) : option typeent :=
  Some (TAlias (annos_step annos (make_attrs a)) ty).
Definition union_ent (a:list entry) (alts:list name) : option typeent := Some (TUnion (make_attrs a) alts).
(* EnterView: Views[name] = a NEW view (whatever was there is gone), its annotations, then ExitView merges
   {patterns: ["abstract"]} into the attributes *)
Definition view_ent (annos:list anno) (sg:name) : option typeent :=
  Some (TView (merge_attrs {[ patterns_key := VA [abstract_tag] ]} (annos_step annos ∅)) sg).

(* ---------- endpoints ---------- *)
Definition hattrs_step (a:list entry) (a0:attrs) : attrs :=
  match a with [] => a0 | _ => merge_attrs (make_attrs a) a0 end.

Definition ep_f (a:list entry) (annos:list anno) (params:list name) (body:list stmt) (e0:option endpoint) : option endpoint :=
  let e := default (new_ep false false) e0 in
  Some (Ep (e_pubsub e) (e_rest e) (e_source e) (annos_step annos (hattrs_step a (e_attrs e)))
           (e_params e ++ params) (e_query e) (e_url e) (e_stmts e ++ body)).
Definition ep_step (n:name) (a:list entry) (annos:list anno) (params:list name) (body:list stmt) (ap:app) : app :=
  set_eps ap (partial_alter (ep_f a annos params body) (None, [n]) (a_eps ap)).

(* EnterEvent: `ep.Attrs = makeAttributeArray(..)` - attributes on the event line REPLACE what the endpoint has *)
Definition event_f (a:list entry) (params:list name) (body:list stmt) (e0:option endpoint) : option endpoint :=
  let e := default (new_ep true false) e0 in
  Some (Ep (e_pubsub e) (e_rest e) (e_source e) (match a with [] => e_attrs e | _ => make_attrs a end)
           (e_params e ++ params) (e_query e) (e_url e) (e_stmts e ++ body)).
Definition event_step (n:name) (a:list entry) (params:list name) (body:list stmt) (ap:app) : app :=
  set_eps ap (partial_alter (event_f a params body) (None, [n]) (a_eps ap)).

(* the REST tree flattened to (endpoint key, url parameters of the whole path, method) in walk order; the renderer
   writes the methods of a node before its sub-paths (the grammar would allow them mixed) *)
Fixpoint rest_eps (prefix uvars:list name) (inh:list attrs) (r:rnode) : list (epkey * list name * methoddecl) :=
  match r with
  | RN segs vars pa pannos methods subs =>
      let p := prefix ++ segs in
      let u := uvars ++ vars in
      (* EnterRest_endpoint pushes makeAttributeArray(..) on s.rest_attrs; the path's annotations go to that map
         (peekAttrs, RestEndpointPath) - the renderer writes them before the methods, which read the stack *)
      let inh' := inh ++ [annos_step pannos (make_attrs pa)] in
      map (fun m => ((Some (md_verb m), p), u,
                     MD (md_verb m) (md_attrs m) (md_annos m) (md_params m) (md_query m) (md_body m) inh')) methods
      ++ flat_map (rest_eps p u inh') subs
  end.

Definition method_f (u:list name) (m:methoddecl) (e0:option endpoint) : option endpoint :=
  (* {patterns: ["rest"]}, then `for _, parentAttrs := range s.rest_attrs { mergeAttrs(parentAttrs, attrs) }`, then
     the method's own attributes *)
  let inherited := fold_left (fun acc p => merge_attrs p acc) (md_inh m) {[ patterns_key := VA [rest_tag] ]} in
  let attrs_new := merge_attrs (make_attrs (md_attrs m)) inherited in
  let e := default (new_ep false true) e0 in
  Some (Ep (e_pubsub e) (e_rest e) (e_source e) (annos_step (md_annos m) (merge_attrs attrs_new (e_attrs e)))
           (e_params e ++ md_params m) (e_query e ++ md_query m)
           (match u with [] => e_url e | _ => u end) (e_stmts e ++ md_body m)).
Definition method_step (x:epkey * list name * methoddecl) (ap:app) : app :=
  match x with (k, u, m) => set_eps ap (partial_alter (method_f u m) k (a_eps ap)) end.

(* EnterSubscribe, first half: Endpoints[`Pub -> Evt`] = a NEW endpoint *)
Definition sub_f (pub:appname) (a:list entry) (annos:list anno) (body:list stmt) (_:option endpoint) : option endpoint :=
  Some (Ep false false (Some pub) (annos_step annos (make_attrs a)) [] [] [] body).
(* second half, on the publisher: the event endpoint if missing, one more call statement *)
Definition subcall_f (caller:appname) (key:name) (e0:option endpoint) : option endpoint :=
  let e := default (new_ep true false) e0 in
  Some (Ep (e_pubsub e) (e_rest e) (e_source e) (e_attrs e) (e_params e) (e_query e) (e_url e) (e_stmts e ++ [SC caller key])).

(* ---------- one block ---------- *)
Definition head_f (long:option name) (a:list entry) (l:option name) (at0:attrs) : option name * attrs :=
  (match long with Some x => Some x | None => l end, hattrs_step a at0).
Definition head_step (long:option name) (a:list entry) (ap:app) : app :=
  let r := head_f long a (a_long ap) (a_attrs ap) in App (fst r) (snd r) (a_types ap) (a_eps ap).

Definition member_step (mode:pkmode) (an:appname) (m:member) (ap:app) (pk:pkmap) : app * pkmap :=
  match m with
  | MT table n a annos fs => table_step mode an table n a annos fs ap pk
  | ME n a annos items => repl_step an n (enum_ent a annos items) ap pk
  | MAl n a annos ty => repl_step an n (alias_ent a annos ty) ap pk
  | MU n a alts => repl_step an n (union_ent a alts) ap pk
  | MVw n annos sg => repl_step an n (view_ent annos sg) ap pk
  | MP n a annos params body => (ep_step n a annos params body ap, pk)
  | MV n a params body => (event_step n a params body ap, pk)
  | MR r => (fold_left (fun ap x => method_step x ap) (rest_eps [] [] [] r) ap, pk)
  | MX x => (ap, partial_alter (fun old => Some (default [] old ++ [x])) (an, mixin_key) pk)
  | MS key pub evt a annos body => (set_eps ap (partial_alter (sub_f pub a annos body) (None, [key]) (a_eps ap)), pk)
  | MA x => (App (a_long ap) (anno_step x (a_attrs ap)) (a_types ap) (a_eps ap), pk)
  | MW => (* EnterSimple_endpoint, WHATEVER branch: unconditionally a fresh endpoint named "..." *)
      (set_eps ap (<[(None, [dots_name]) := new_ep false false]> (a_eps ap)), pk)
  end.

(* s.app is a pointer into module.Apps: every step acts on the entry under the block's app name *)
Definition cur_app (m:module) (an:appname) : app := default empty_app (m !! an).

Inductive atom := AHead (an:appname) (long:option name) (a:list entry) | AMem (an:appname) (m:member).

Definition step (mode:pkmode) (s:state) (x:atom) : state :=
  match x with
  | AHead an long a => (<[an := head_step long a (cur_app (fst s) an)]> (fst s), snd s)
  | AMem an m =>
      let r := member_step mode an m (cur_app (fst s) an) (snd s) in
      let m1 := <[an := fst r]> (fst s) in
      match m with
      | MS key pub evt _ _ _ =>
          (* the publisher's side of a subscription: another application of the same module *)
          let pa := cur_app m1 pub in
          (<[pub := set_eps pa (partial_alter (subcall_f an key) (None, [evt]) (a_eps pa))]> m1, snd r)
      | _ => (m1, snd r)
      end
  end.

Definition atoms_of_block (b:block) : list atom :=
  AHead (b_app b) (b_long b) (b_attrs b) :: map (AMem (b_app b)) (b_members b).

Definition denote_atoms (mode:pkmode) (l:list atom) : state := fold_left (step mode) l (∅, ∅).
Definition denote_blocks (mode:pkmode) (bs:list block) : state := denote_atoms mode (flat_map atoms_of_block bs).

(* ---------- files of the import closure ---------- *)
Definition filedesc := (name * (list name * list block))%type.   (* file, its import statements, its blocks *)

Definition file_lookup (files:list filedesc) (f:name) : option (list name * list block) :=
  match find (fun p => Pos.eqb (fst p) f) files with Some p => Some (snd p) | None => None end.

(* flattenSpecs: `for _, si := range *specs { if same file { return } }`; found -> append, then its imports *)
Fixpoint flatten (fuel:nat) (files:list filedesc) (f:name) (acc:list name) : list name :=
  match fuel with
  | O => acc
  | S k =>
      if in_names f acc then acc else
      match file_lookup files f with
      | None => acc
      | Some (imps, _) => fold_left (fun acc i => flatten k files i acc) imps (acc ++ [f])
      end
  end.

Definition flatten_order (files:list filedesc) (root:name) : list name := flatten (S (length files)) files root [].

Definition blocks_in_order (files:list filedesc) (order:list name) : list block :=
  flat_map (fun f => match file_lookup files f with Some (_, bs) => bs | None => [] end) order.

Definition denote_files (mode:pkmode) (files:list filedesc) (root:name) : state :=
  denote_blocks mode (blocks_in_order files (flatten_order files root)).

(* ---------- compiled modules in the import closure (.pb / .pb.json / .textpb) ----------
   parseSpecs does not walk such a file: `mergo.Merge(listener.module, compiled)` (github.com/imdario/mergo v0.3.15,
   no options) fills what the module built SO FAR (dst) lacks from the compiled one (src):
     map            key by key: absent in dst -> the src entry; present in both -> the two entries merged (pointers to
                    structs are followed, structs field by field)
     slice          dst stays unless it is empty (Mixin2, PrimaryKey.AttrName, Param, Stmt, QueryParam, UrlParam,
                    Attribute_Array.Elt, OneOf.Type)
     string / bool / number / nil pointer   dst stays unless it is the zero value
   The compiled module is what the file's blocks denote on their own (postProcess of that compile is outside the
   model).  Entries of different kinds under one name (a string attribute against an array, a type against a table,
   ...) make mergo fail or panic in some combinations; the model keeps dst there and the harness never generates
   them in a layout with a compiled file. *)
Definition mergo_list {A} (d s:list A) : list A := match d with [] => s | _ => d end.
Definition mergo_opt {A} (d s:option A) : option A := match d with Some x => Some x | None => s end.
Definition mergo_attrv (d s:attrv) : attrv :=
  match d, s with
  | VS x, VS y => if Pos.eqb x empty_str then VS y else VS x
  | VA [], VA l => VA l
  | _, _ => d
  end.
Definition mergo_attrs (d s:attrs) : attrs := union_with (fun x y => Some (mergo_attrv x y)) d s.
Definition mergo_field (d s:field) : field := Fld (f_ty d) (f_opt d || f_opt s) (mergo_attrs (f_attrs d) (f_attrs s)).
Definition mergo_type (d s:typeent) : typeent :=
  match d, s with
  | TRec r a fs, TRec r' a' fs' =>
      if Bool.eqb r r' then TRec r (mergo_attrs a a') (union_with (fun x y => Some (mergo_field x y)) fs fs')
      else TRec r (mergo_attrs a a') fs
  | TEnum a it, TEnum a' it' => TEnum (mergo_attrs a a') (union_with (fun x y => Some (if Z.eqb x 0 then y else x)) it it')
  | TAlias a ty, _ => TAlias (mergo_attrs a (tattrs s)) ty
  | TUnion a al, TUnion a' al' => TUnion (mergo_attrs a a') (mergo_list al al')
  | TRec r a fs, _ => TRec r (mergo_attrs a (tattrs s)) fs
  | TEnum a it, _ => TEnum (mergo_attrs a (tattrs s)) it
  | TUnion a al, _ => TUnion (mergo_attrs a (tattrs s)) al
  | TView a sg, _ => TView (mergo_attrs a (tattrs s)) sg
  end.
Definition mergo_ep (d s:endpoint) : endpoint :=
  Ep (e_pubsub d || e_pubsub s) (e_rest d || e_rest s) (mergo_opt (e_source d) (e_source s))
     (mergo_attrs (e_attrs d) (e_attrs s)) (mergo_list (e_params d) (e_params s)) (mergo_list (e_query d) (e_query s))
     (mergo_list (e_url d) (e_url s)) (mergo_list (e_stmts d) (e_stmts s)).
Definition mergo_app (d s:app) : app :=
  App (mergo_opt (a_long d) (a_long s)) (mergo_attrs (a_attrs d) (a_attrs s))
      (union_with (fun x y => Some (mergo_type x y)) (a_types d) (a_types s))
      (union_with (fun x y => Some (mergo_ep x y)) (a_eps d) (a_eps s)).
Definition mergo_mod (d s:module) : module := union_with (fun x y => Some (mergo_app x y)) d s.
(* PrimaryKey.AttrName / Mixin2: a non-empty list of dst stays *)
Definition mergo_pk (d s:pkmap) : pkmap := union_with (fun x y => Some (mergo_list x y)) d s.
Definition mergo_state (d s:state) : state := (mergo_mod (fst d) (fst s), mergo_pk (snd d) (snd s)).

(* one file of the closure: walked block by block, or merged as a compiled module when its name is in `pbs` *)
Definition file_blocks (files:list filedesc) (f:name) : list block :=
  match file_lookup files f with Some (_, bs) => bs | None => [] end.
Definition file_step (mode:pkmode) (files:list filedesc) (pbs:list name) (s:state) (f:name) : state :=
  if in_names f pbs then mergo_state s (denote_blocks mode (file_blocks files f))
  else fold_left (step mode) (flat_map atoms_of_block (file_blocks files f)) s.
Definition denote_files_pb (mode:pkmode) (files:list filedesc) (pbs:list name) (root:name) : state :=
  fold_left (file_step mode files pbs) (flatten_order files root) (∅, ∅).
