(* C04 MODEL (definitions only, executable): the listener's per-block merge step of
   pkg/parse/listener_impl.go as a fold over the blocks of the import closure in flatten order
   (pkg/parse/parse.go flattenSpecs + parseSpecs: ONE listener / ONE module for all files).

   Transliterated Go functions (what each definition below follows):
     EnterName_with_attribs   head_step      lookup-or-create of the app by name, LongName, attribute merge
     mergeAttrs               merge_attrs    per key: absent -> set; both arrays -> append; else later wins
     makeAttributeArray       make_attrs     name="v" pairs (later wins), ~modifiers collected under "patterns"
     EnterTable/EnterTable_def/EnterField/ExitTable
                              table_step     re-open reuses the existing attr_defs map (typemap aliasing), an
                                             existing type keeps its kind, type attributes merged (patterns
                                             append, others overwrite), primary key from THIS block's fields
     EnterEnum                enum_step      replaces the type, only if it has items
     EnterSimple_endpoint     ep_step        lookup-or-create, mergeAttrs, statements appended
     EnterEvent               event_step     lookup-or-create (is_pubsub), statements appended
     EnterRest_endpoint/ExitHttp_path/EnterMethod_def
                              rest_eps       prefix stack -> endpoint name METHOD + joined path, ["rest"] pattern
     flattenSpecs             flatten        each file once, a file before its imports, imports in textual order

   Conventions: every string (names, texts, tags, path segments, type spellings) is an interned `positive`
   owned by the harness; ids 1-4 are fixed ("patterns", "rest", "pk", "...").  Go maps are std++ gmaps; a nil map
   and an empty map are identified (proto.Equal does the same).  `rel.PrimaryKey` is kept NEXT TO the module
   (pkmap keyed by app and type name; absent = nil key) - an isomorphic presentation of the same state that
   lets the theorems say "equal, except that key lists may be permuted".

   The way ExitTable combines the key fields of this block with the key the table already has is read from
   the source by the translator (Gen/MergeRules.v: pk_mode):  PkReplace = recompute from this block only
   (the code as found), PkUnion = keep the earlier key fields and add the new ones (the repaired code). *)
From Coq Require Import String List ZArith NArith Bool.
From stdpp Require Import gmap.
Import ListNotations.

Definition name := positive.
Definition appname := list name.

Definition patterns_key : name := 1%positive.
Definition rest_tag : name := 2%positive.
Definition pk_tag : name := 3%positive.
Definition dots_name : name := 4%positive.

(* ---------- what the text declares, block by block ---------- *)
Inductive entry := EN (k v:name) | ET (t:name).            (* [k="v", ~t] *)
Record fielddecl := FD { fd_name : name; fd_ty : name; fd_opt : bool; fd_attrs : list entry }.
Inductive stmt := SA (t:name) | SC (app:appname) (ep:name) | SR (t:name).
Inductive rnode := RN (segs:list name) (methods:list (name * list entry * list stmt)) (subs:list rnode).
Inductive member :=
| MT (table:bool) (n:name) (a:list entry) (fs:list fielddecl)   (* !type / !table (one block's share of the fields) *)
| ME (n:name) (a:list entry) (items:list (name * Z))            (* !enum *)
| MP (n:name) (a:list entry) (body:list stmt)                   (* simple endpoint *)
| MV (n:name) (body:list stmt)                                  (* <-> event *)
| MR (r:rnode)                                                  (* REST tree *)
| MW.                                                           (* `...` as the only content of a block *)
Record block := B { b_app : appname; b_long : option name; b_attrs : list entry; b_members : list member }.

Inductive pkmode := PkReplace | PkUnion | PkUnknown.

(* ---------- the compiled model (projection compared with *sysl.Module) ---------- *)
Inductive attrv := VS (s:name) | VA (l:list name).
Notation attrs := (gmap name attrv).
Record field := Fld { f_ty : name; f_opt : bool; f_attrs : attrs }.
Inductive typeent :=
| TRec (rel:bool) (a:attrs) (fs:gmap name field)
| TEnum (a:attrs) (items:gmap name Z).
Definition epkey := (option name * list name)%type.        (* (None,[n]) = named; (Some verb, path) = REST *)
Record endpoint := Ep { e_pubsub : bool; e_rest : bool; e_attrs : attrs; e_stmts : list stmt }.
Record app := App { a_long : option name; a_attrs : attrs; a_types : gmap name typeent; a_eps : gmap epkey endpoint }.
Notation module := (gmap appname app).
Notation pkmap := (gmap (appname * name) (list name)).
Definition state := (module * pkmap)%type.

Global Instance attrv_eq_dec : EqDecision attrv. Proof. solve_decision. Defined.
Global Instance stmt_eq_dec : EqDecision stmt. Proof. solve_decision. Defined.
Global Instance field_eq_dec : EqDecision field. Proof. solve_decision. Defined.
Global Instance typeent_eq_dec : EqDecision typeent. Proof. solve_decision. Defined.
Global Instance endpoint_eq_dec : EqDecision endpoint. Proof. solve_decision. Defined.
Global Instance app_eq_dec : EqDecision app. Proof. solve_decision. Defined.

Definition empty_app : app := App None ∅ ∅ ∅.

(* ---------- attributes ---------- *)
(* makeAttributeArray *)
Definition make_attrs (es:list entry) : attrs :=
  let nv := fold_left (fun (m:attrs) e => match e with EN k v => <[k := VS v]> m | ET _ => m end) es ∅ in
  let pats := flat_map (fun e => match e with ET t => [t] | EN _ _ => [] end) es in
  match pats with [] => nv | _ => <[patterns_key := VA pats]> nv end.

(* mergeAttrs(src, dst): the loop body touches key k only, so the loop is a key-wise merge *)
Definition merge_attr1 (s d:option attrv) : option attrv :=
  match s, d with
  | None, d => d
  | Some v, None => Some v
  | Some (VA x), Some (VA y) => Some (VA (y ++ x))
  | Some v, Some _ => Some v
  end.
Definition merge_attrs (src dst:attrs) : attrs := merge merge_attr1 src dst.

(* EnterTable_def: `if type1.Attrs == nil { = attrs } else for k,v: patterns append, others overwrite` *)
Definition merge_tattrs (src dst:attrs) : attrs :=
  let base := src ∪ dst in
  match src !! patterns_key, dst !! patterns_key with
  | Some (VA x), Some (VA y) => <[patterns_key := VA (y ++ x)]> base
  | _, _ => base
  end.

(* ---------- types ---------- *)
Definition mk_field (fd:fielddecl) : field := Fld (fd_ty fd) (fd_opt fd) (make_attrs (fd_attrs fd)).

(* ExitTable: for name in s.fieldname: for each "pk" among the patterns of attr_defs[name] *)
Definition key_fields (fs:list fielddecl) (stored:gmap name field) : list name :=
  flat_map (fun fd =>
    match stored !! fd_name fd with
    | Some f => match f_attrs f !! patterns_key with
                | Some (VA l) => flat_map (fun t => if Pos.eqb t pk_tag then [fd_name fd] else []) l
                | _ => []
                end
    | None => []
    end) fs.

Definition in_names (x:name) (l:list name) : bool := existsb (Pos.eqb x) l.
Definition pk_add (acc:list name) (x:name) : list name := if in_names x acc then acc else acc ++ [x].
Definition pk_union (old new:list name) : list name := fold_left pk_add new old.

Definition pk_update (mode:pkmode) (old:option (list name)) (new:list name) : option (list name) :=
  match mode with
  | PkUnion => match pk_union (default [] old) new with [] => old | l => Some l end
  | _ => match new with [] => old | l => Some l end
  end.

Definition table_step (mode:pkmode) (an:appname) (table:bool) (n:name) (a:list entry) (fs:list fielddecl)
    (ap:app) (pk:pkmap) : app * pkmap :=
  let types := a_types ap in
  (* EnterTable: typemap aliases the existing attr_defs; created only if absent *)
  let cur := match types !! n with Some t => t | None => TRec table ∅ ∅ end in
  match cur with
  | TRec rel a0 fs0 =>
      let a1 := match a with [] => a0 | _ => merge_tattrs (make_attrs a) a0 end in
      let fs1 := fold_left (fun m fd => <[fd_name fd := mk_field fd]> m) fs fs0 in
      let ap' := App (a_long ap) (a_attrs ap) (<[n := TRec rel a1 fs1]> types) (a_eps ap) in
      if rel then (ap', partial_alter (fun old => pk_update mode old (key_fields fs fs1)) (an, n) pk)
      else (ap', pk)
  | TEnum a0 items =>
      (* the fields go into a map nobody keeps; only the attributes reach the existing enum *)
      let a1 := match a with [] => a0 | _ => merge_tattrs (make_attrs a) a0 end in
      (App (a_long ap) (a_attrs ap) (<[n := TEnum a1 items]> types) (a_eps ap), pk)
  end.

Definition enum_step (an:appname) (n:name) (a:list entry) (items:list (name * Z)) (ap:app) (pk:pkmap) : app * pkmap :=
  match items with
  | [] => (ap, pk)
  | _ => (App (a_long ap) (a_attrs ap)
              (<[n := TEnum (make_attrs a) (fold_left (fun m it => <[fst it := snd it]> m) items ∅)]> (a_types ap)) (a_eps ap),
          delete (an, n) pk)
  end.

(* ---------- endpoints ---------- *)
Definition ep_step (n:name) (a:list entry) (body:list stmt) (ap:app) : app :=
  let k : epkey := (None, [n]) in
  let e := match a_eps ap !! k with Some e => e | None => Ep false false ∅ [] end in
  let at1 := match a with [] => e_attrs e | _ => merge_attrs (make_attrs a) (e_attrs e) end in
  App (a_long ap) (a_attrs ap) (a_types ap) (<[k := Ep (e_pubsub e) (e_rest e) at1 (e_stmts e ++ body)]> (a_eps ap)).

Definition event_step (n:name) (body:list stmt) (ap:app) : app :=
  let k : epkey := (None, [n]) in
  let e := match a_eps ap !! k with Some e => e | None => Ep true false ∅ [] end in
  App (a_long ap) (a_attrs ap) (a_types ap) (<[k := Ep (e_pubsub e) (e_rest e) (e_attrs e) (e_stmts e ++ body)]> (a_eps ap)).

(* the REST tree flattened to (endpoint key, attribute entries, body) in walk order; the renderer writes the
   methods of a node before its sub-paths (the grammar would allow them mixed) *)
Fixpoint rest_eps (prefix:list name) (r:rnode) : list (epkey * list entry * list stmt) :=
  match r with
  | RN segs methods subs =>
      let p := prefix ++ segs in
      map (fun m => match m with (verb, a, body) => ((Some verb, p), a, body) end) methods
      ++ flat_map (rest_eps p) subs
  end.

Definition method_step (x:epkey * list entry * list stmt) (ap:app) : app :=
  match x with (k, a, body) =>
    let attrs_new := merge_attrs (make_attrs a) {[ patterns_key := VA [rest_tag] ]} in
    let e := match a_eps ap !! k with Some e => e | None => Ep false true ∅ [] end in
    App (a_long ap) (a_attrs ap) (a_types ap)
        (<[k := Ep (e_pubsub e) (e_rest e) (merge_attrs attrs_new (e_attrs e)) (e_stmts e ++ body)]> (a_eps ap))
  end.

(* ---------- one block ---------- *)
Definition head_step (long:option name) (a:list entry) (ap:app) : app :=
  let l := match long with Some x => Some x | None => a_long ap end in
  let at1 := match a with [] => a_attrs ap | _ => merge_attrs (make_attrs a) (a_attrs ap) end in
  App l at1 (a_types ap) (a_eps ap).

Definition member_step (mode:pkmode) (an:appname) (m:member) (ap:app) (pk:pkmap) : app * pkmap :=
  match m with
  | MT table n a fs => table_step mode an table n a fs ap pk
  | ME n a items => enum_step an n a items ap pk
  | MP n a body => (ep_step n a body ap, pk)
  | MV n body => (event_step n body ap, pk)
  | MR r => (fold_left (fun ap x => method_step x ap) (rest_eps [] r) ap, pk)
  | MW => (* EnterSimple_endpoint, WHATEVER branch: unconditionally a fresh endpoint named "..." *)
      (App (a_long ap) (a_attrs ap) (a_types ap) (<[(None, [dots_name]) := Ep false false ∅ []]> (a_eps ap)), pk)
  end.

(* s.app is a pointer into module.Apps: every step acts on the entry under the block's app name *)
Definition cur_app (m:module) (an:appname) : app := default empty_app (m !! an).

Inductive atom := AHead (an:appname) (long:option name) (a:list entry) | AMem (an:appname) (m:member).

Definition step (mode:pkmode) (s:state) (x:atom) : state :=
  match x with
  | AHead an long a => (<[an := head_step long a (cur_app (fst s) an)]> (fst s), snd s)
  | AMem an m => let r := member_step mode an m (cur_app (fst s) an) (snd s) in (<[an := fst r]> (fst s), snd r)
  end.

Definition atoms_of_block (b:block) : list atom :=
  AHead (b_app b) (b_long b) (b_attrs b) :: map (AMem (b_app b)) (b_members b).

Definition denote_atoms (mode:pkmode) (l:list atom) : state := fold_left (step mode) l (∅, ∅).
Definition denote_blocks (mode:pkmode) (bs:list block) : state := denote_atoms mode (flat_map atoms_of_block bs).

(* ---------- files of the import closure ---------- *)
Definition filedesc := (name * (list name * list block))%type.   (* file, its import statements, its blocks *)

Definition file_lookup (files:list filedesc) (f:name) : option (list name * list block) :=
  match find (fun p => Pos.eqb (fst p) f) files with Some p => Some (snd p) | None => None end.

(* flattenSpecs: `for _, si := range *specs { if same file { return } }`; found -> append, then its imports *)
Fixpoint flatten (fuel:nat) (files:list filedesc) (f:name) (acc:list name) : list name :=
  match fuel with
  | O => acc
  | S k =>
      if in_names f acc then acc else
      match file_lookup files f with
      | None => acc
      | Some (imps, _) => fold_left (fun acc i => flatten k files i acc) imps (acc ++ [f])
      end
  end.

Definition flatten_order (files:list filedesc) (root:name) : list name := flatten (S (length files)) files root [].

Definition blocks_in_order (files:list filedesc) (order:list name) : list block :=
  flat_map (fun f => match file_lookup files f with Some (_, bs) => bs | None => [] end) order.

Definition denote_files (mode:pkmode) (files:list filedesc) (root:name) : state :=
  denote_blocks mode (blocks_in_order files (flatten_order files root)).
