(* Correspondence glue for C04: one case = (root file, files of the import closure with their import
   statements and blocks as the harness wrote them, what the REAL parser compiled them to).
   The observation is the projection of *sysl.Module the model speaks about, as association lists
   (the harness sorts nothing: maps are rebuilt here and compared extensionally). *)
From Coq Require Import String List ZArith NArith Bool.
From stdpp Require Import gmap.
Import ListNotations.
Require Import Verif.Base.Harness Verif.Merge.Model.

Definition oattrs := list (name * attrv).
Inductive otype :=
| OT (rel:bool) (a:oattrs) (fs:list (name * (name * bool * oattrs))) (pk:list name)
| OE (a:oattrs) (items:list (name * Z)).
Definition oep := (bool * bool * oattrs * list stmt)%type.          (* pubsub, rest, attrs, statements *)
Record oapp := OA { o_name : appname; o_long : option name; o_attrs : oattrs;
                    o_types : list (name * otype); o_eps : list (epkey * oep) }.

Definition c04_case := (name * list filedesc * option (list oapp))%type.

Definition attrs_of (l:oattrs) : attrs := list_to_map l.

Definition type_of (t:otype) : typeent :=
  match t with
  | OT rel a fs _ => TRec rel (attrs_of a)
       (list_to_map (map (fun p => match p with (n, (ty, opt, fa)) => (n, Fld ty opt (attrs_of fa)) end) fs))
  | OE a items => TEnum (attrs_of a) (list_to_map items)
  end.

Definition ep_of (e:oep) : endpoint := match e with (ps, rest, a, st) => Ep ps rest (attrs_of a) st end.

Definition app_of (o:oapp) : app :=
  App (o_long o) (attrs_of (o_attrs o))
      (list_to_map (map (fun p => (fst p, type_of (snd p))) (o_types o)))
      (list_to_map (map (fun p => (fst p, ep_of (snd p))) (o_eps o))).

Definition pk_of (o:oapp) : list (appname * name * list name) :=
  flat_map (fun p => match snd p with OT _ _ _ (x :: l) => [(o_name o, fst p, x :: l)] | _ => [] end) (o_types o).

Definition state_of (obs:list oapp) : state :=
  (list_to_map (map (fun o => (o_name o, app_of o)) obs), list_to_map (flat_map pk_of obs)).

Definition c04_ok (mode:pkmode) (c:c04_case) : bool :=
  match c with
  | (root, files, Some obs) =>
      let s := denote_files mode files root in
      let o := state_of obs in
      bool_decide (fst s = fst o) && bool_decide (snd s = snd o)
  | (_, _, None) => false     (* every generated layout is grammatical: a compile error is a mismatch *)
  end.
