(* Correspondence glue for C04: one case = (root file, files of the import closure with their import
   statements and blocks as the harness wrote them, what the REAL parser compiled them to).
   The observation is the projection of *sysl.Module the model speaks about, as association lists
   (the harness sorts nothing: maps are rebuilt here and compared extensionally). *)
From Coq Require Import String List ZArith NArith Bool.
From stdpp Require Import gmap.
Import ListNotations.
Require Import Verif.Base.Harness Verif.Merge.Model.

Definition oattrs := list (name * attrv).
Inductive otype :=
| OT (rel:bool) (a:oattrs) (fs:list (name * (name * bool * oattrs))) (pk:list name)
| OE (a:oattrs) (items:list (name * Z))
| OAl (a:oattrs) (ty:name)
| OU (a:oattrs) (alts:list name)
| OV (a:oattrs) (sg:name).
(* pubsub, rest, source, attrs, params, query params, url params, statements (nested scopes as SOpen .. SClose) *)
Record oep := OEP { oe_pubsub : bool; oe_rest : bool; oe_source : option appname; oe_attrs : oattrs;
                    oe_params : list name; oe_query : list name; oe_url : list name; oe_stmts : list stmt }.
Record oapp := OA { o_name : appname; o_long : option name; o_attrs : oattrs; o_mixins : list name;
                    o_types : list (name * otype); o_eps : list (epkey * oep) }.

(* root, files, the files among them handed to the parser as compiled modules, what the parser built *)
Definition c04_case := (name * list filedesc * list name * option (list oapp))%type.

Definition attrs_of (l:oattrs) : attrs := list_to_map l.

Definition type_of (t:otype) : typeent :=
  match t with
  | OT rel a fs _ => TRec rel (attrs_of a)
       (list_to_map (map (fun p => match p with (n, (ty, opt, fa)) => (n, Fld ty opt (attrs_of fa)) end) fs))
  | OE a items => TEnum (attrs_of a) (list_to_map items)
  | OAl a ty => TAlias (attrs_of a) ty
  | OU a alts => TUnion (attrs_of a) alts
  | OV a sg => TView (attrs_of a) sg
  end.

Definition ep_of (e:oep) : endpoint :=
  Ep (oe_pubsub e) (oe_rest e) (oe_source e) (attrs_of (oe_attrs e)) (oe_params e) (oe_query e) (oe_url e) (oe_stmts e).

Definition app_of (o:oapp) : app :=
  App (o_long o) (attrs_of (o_attrs o))
      (list_to_map (map (fun p => (fst p, type_of (snd p))) (o_types o)))
      (list_to_map (map (fun p => (fst p, ep_of (snd p))) (o_eps o))).

(* the lists kept next to the module: primary keys and mixins (absent = empty) *)
Definition pk_of (o:oapp) : list (appname * name * list name) :=
  match o_mixins o with [] => [] | l => [(o_name o, mixin_key, l)] end ++
  flat_map (fun p => match snd p with OT _ _ _ (x :: l) => [(o_name o, fst p, x :: l)] | _ => [] end) (o_types o).

Definition state_of (obs:list oapp) : state :=
  (list_to_map (map (fun o => (o_name o, app_of o)) obs), list_to_map (flat_map pk_of obs)).

Definition c04_ok (mode:pkmode) (c:c04_case) : bool :=
  match c with
  | (root, files, pbs, Some obs) =>
      let s := denote_files_pb mode files pbs root in
      let o := state_of obs in
      bool_decide (fst s = fst o) && bool_decide (snd s = snd o)
  | (_, _, _, None) => false     (* every generated layout is grammatical: a compile error is a mismatch *)
  end.
