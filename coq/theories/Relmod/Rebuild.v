(* C17, the "lossless image" clause as a round trip: `rebuild` reads the rows back into a projection of the module and
   rebuild (normalize m) = project m for EVERY module (rows_lossless). `project` is defined on the module alone and
   says exactly what survives: everything except (a) what the code drops by design - endpoints named "...", "..."
   actions, statements and REST parameters of pubsub events, all but the folded constraint of a field, which of
   Ref.Appname / Context.Appname / the current application a reference was resolved from, list-vs-element type,
   tuple-without-fields vs. other kinds of type, the text of a return payload beyond what the payload reader extracts
   (status, type resolved against the statement's application, modifiers as a set, name-value pairs as a dictionary),
   an integer annotation value beyond the 53 bits of a float64 - and (b) what the model abstracts (payloads with a
   backslash or "{"). Annotation values, the source contexts of every element and annotation (the Src relations) and the contents
   of return rows ARE in the projection. Consequently two modules with the same rows have the same projection (rows_determine_projection).
   `rebuild` uses only the rows: their relation, their columns and - the slices being ordered - their order. *)
From Coq Require Import String List NArith ZArith PArith Bool Lia.
Import ListNotations.
Require Import Verif.Base.Harness Verif.Relmod.Model Verif.Relmod.StmtProps Verif.Relmod.Run Verif.Relmod.SortProps.

(* ---------- the projection ---------- *)
(* what survives of (Attrs, SourceContexts): the tags, per annotation in name order its name, value (XVal) and source
   contexts (XSrcs), and the element's source contexts (XSrc first all, XNone when it has none) *)
Record pattrs := { qa_tags : list name; qa_annos : list (name * xinfo * xinfo); qa_src : xinfo }.
Record pparam := { pp_name : name; pp_loc : name; pp_idx : Z; pp_opt : Z; pp_ty : ty; pp_attrs : pattrs }.
Record pfield := { pf_name : name; pf_nums : list Z (* optional :: length min, max, precision, scale *); pf_ty : ty; pf_attrs : pattrs }.
Inductive pdef :=
| PTuple (fs:list pfield) | PRelation (pk:list name) (fs:list pfield) | PAlias (t:ty)
| PEnum (items:list name) (values:list Z) | POther.
Inductive pitem :=
| PRow (p:list N) (code:Z) (t:name) (ret:xinfo) | PTag (p:list N) (t:name) | PAnno (p:list N) (n:name) (v:xinfo)
| PSrcAnno (p:list N) (n:name) (srcs:xinfo) | PSrc (p:list N) (srcs:xinfo).
Inductive pelem :=
| PMixin (n:appname) (a:pattrs)
| PEp (names:list name (* name, long name, docstring, REST method, REST path, event name *)) (flags:list Z)
      (src:appname) (a:pattrs) (ps:list pparam) (stmts:list pitem)
| PEvent (n:name) (ps:list pparam) (a:pattrs)
| PType (n doc:name) (opt:Z) (d:pdef) (a:pattrs)
| PView (n:name) (t:ty) (a:pattrs).
Record papp := { pa_name : appname; pa_long : name; pa_doc : name; pa_attrs : pattrs; pa_elems : list pelem }.

Definition project_anno (an:anno) : name * xinfo * xinfo :=
  (an_name an, XVal (attr_to_value (an_val an)), XSrcs (an_srcs an)).
Definition project_src (l:list srcctx) : xinfo := match l with [] => XNone | s :: _ => XSrc s l end.
Definition cattrs (a:attrs) : pattrs :=
  {| qa_tags := a_tags a; qa_annos := map project_anno (sorted_by an_name (a_annos a)); qa_src := project_src (a_srcs a) |}.
Definition no_attrs : pattrs := {| qa_tags := []; qa_annos := []; qa_src := XNone |}.

Definition project_param (a:appname) (loc:name) (i:N) (p:param) : pparam :=
  {| pp_name := p_name p; pp_loc := param_loc loc p; pp_idx := Z.of_N i;
     pp_opt := match p_type p with Some pt => zb (pt_opt pt) | None => 0%Z end;
     pp_ty := match p_type p with Some pt => parse_field_type a (pt_ty pt) | None => TyPrim n_any end;
     pp_attrs := match p_type p with Some pt => cattrs (pt_attrs pt) | None => no_attrs end |}.
Definition project_params (a:appname) (loc:name) (ps:list param) : list pparam := mapi_from (project_param a loc) ps 0%N.

Definition project_field (a:appname) (f:field) : pfield :=
  {| pf_name := f_name f; pf_nums := zb (f_opt f) :: field_constraint (f_constraints f);
     pf_ty := parse_field_type a (f_ty f); pf_attrs := cattrs (f_attrs f) |}.
Definition tuple_or_other (fs:list pfield) : pdef := match fs with [] => POther | _ => PTuple fs end.
Definition project_def (a:appname) (d:tdef) : pdef :=
  match d with
  | DTuple fs => tuple_or_other (map (project_field a) (sorted_by f_name fs))
  | DRelation pk fs => PRelation pk (map (project_field a) (sorted_by f_name fs))
  | DAlias mt => PAlias (parse_field_type a mt)
  | DEnum items => PEnum (map fst items) (map snd items)
  | DMap _ _ | DOneOf _ | DNoType | DList _ | DUnset => POther
  end.

Definition project_item (g:grammar) (sa:list str) (it:sitem (list N)) : pitem :=
  match it with
  | IRow p c (t, rt) => PRow p c t (match rt with Some x => ret_info g sa x | None => XNone end)
  | ITag p t => PTag p t
  | IAnno p n v => PAnno p n (XVal v)
  | ISrcAnno p n l => PSrcAnno p n (XSrcs l)
  | ISrc p s l => PSrc p (XSrc s l)
  end.

Definition project_ep (g:grammar) (a:appname) (sa:list str) (e:endpoint) : pelem :=
  if e_pubsub e then PEvent (e_name e) (project_params a n_empty (e_params e)) (cattrs (e_attrs e))
  else PEp [e_name e; e_long e; e_doc e;
            match e_rest e with Some (m, _, _, _) => m | None => n_empty end;
            match e_rest e with Some (_, pa, _, _) => pa | None => n_empty end;
            match e_source e with Some (_, ev) => ev | None => n_empty end]
           [zb (match e_rest e with Some _ => true | None => false end); zb (match e_source e with Some _ => true | None => false end)]
           (match e_source e with Some (sa, _) => sa | None => [] end)
           (cattrs (e_attrs e))
           (project_params a n_empty (e_params e) ++
            match e_rest e with
            | Some (_, _, url, query) => project_params a n_path url ++ project_params a n_query query
            | None => []
            end)
           (map (project_item g sa) (ep_items_pure (e_stmts e))).

Definition project_type (a:appname) (t:typedecl) : pelem :=
  PType (t_name t) (t_doc t) (zb (t_opt t)) (project_def a (t_def t)) (cattrs (t_attrs t)).
Definition project_view (a:appname) (v:view) : pelem := PView (v_name v) (view_ty a v) (cattrs (v_attrs v)).
Definition project_mixin (m:appname * attrs) : pelem := PMixin (fst m) (cattrs (snd m)).

Definition visible_ep (e:endpoint) : bool := negb (ep_skipped e).
Definition project_app (g:grammar) (ap:app) : papp :=
  let a := ap_name ap in
  {| pa_name := a; pa_long := ap_long ap; pa_doc := ap_doc ap; pa_attrs := cattrs (ap_attrs ap);
     pa_elems := map project_mixin (ap_mixins ap)
                 ++ map (project_ep g a (ap_sname ap)) (filter visible_ep (sorted_by e_name (ap_eps ap)))
                 ++ map (project_type a) (sorted_by t_name (ap_types ap))
                 ++ map (project_view a) (sorted_by v_name (ap_views ap)) |}.
Definition project (g:grammar) (m:module) : list papp := map (project_app g) m.

(* ---------- reading rows ---------- *)
Definition relin (L:list relname) (r:row) : bool := existsb (relname_eqb (r_rel r)) L.
Definition keep (L:list relname) (rs:list row) : list row := filter (relin L) rs.
Definition nm (k:nat) (r:row) : name := nth k (r_names r) 1%positive.
Definition num (k:nat) (r:row) : Z := nth k (r_nums r) 0%Z.
Definition last_name (r:row) : name := last (r_names r) 1%positive.
(* annotation rows with the Src.Anno row that follows each (when there is one), read from the right *)
Definition anno_step (r:row) (acc:option xinfo * list (name * xinfo * xinfo)) : option xinfo * list (name * xinfo * xinfo) :=
  let '(pend, out) := acc in
  match r_rel r with
  | RSrcAnno _ => (Some (r_x r), out)
  | _ => (None, (last_name r, r_x r, match pend with Some x => x | None => XSrcs [] end) :: out)
  end.
Definition decode_annos (l:list row) : list (name * xinfo * xinfo) := snd (fold_right anno_step (None, []) l).
Definition attrs_of (o:owner) (rs:list row) : pattrs :=
  {| qa_tags := map last_name (keep [RTag o] rs);
     qa_annos := decode_annos (keep [RAnno o; RSrcAnno o] rs);
     qa_src := match keep [RSrc o] rs with r :: _ => r_x r | [] => XNone end |}.

(* header-led segments: (rows before the first header, [(header, rows up to the next header)]) *)
Fixpoint segs (h:row -> bool) (l:list row) : list row * list (row * list row) :=
  match l with
  | [] => ([], [])
  | r :: l' => let '(pre, ss) := segs h l' in if h r then ([], (r, pre) :: ss) else (r :: pre, ss)
  end.
(* trailer-closed segments: [(rows since the previous trailer, trailer)] *)
Fixpoint tsegs (t:row -> bool) (l:list row) : list (list row * row) :=
  match l with
  | [] => []
  | r :: l' => if t r then ([], r) :: tsegs t l'
               else match tsegs t l' with (b, tr) :: ss => (r :: b, tr) :: ss | [] => [] end
  end.

Definition Lmeta (o:owner) : list relname := [RTag o; RAnno o; RSrcAnno o; RSrc o].
Definition Lparam : list relname := RParam :: Lmeta OParam.
Definition Lstmt : list relname := RStmt :: Lmeta OStmt.
Definition Lfield : list relname := RField :: Lmeta OField.
Definition Lelem : list relname := [RMixin; REp; REvent; RType; RView].

Definition decode_param (s:list row * row) : pparam :=
  let '(pre, r) := s in
  {| pp_name := nm 1 r; pp_loc := nm 2 r; pp_idx := num 0 r; pp_opt := num 1 r; pp_ty := r_ty r; pp_attrs := attrs_of OParam pre |}.
Definition decode_params (body:list row) : list pparam := map decode_param (tsegs (relin [RParam]) (keep Lparam body)).

Definition decode_field (s:row * list row) : pfield :=
  let '(r, b) := s in {| pf_name := nm 1 r; pf_nums := r_nums r; pf_ty := r_ty r; pf_attrs := attrs_of OField b |}.
Definition decode_fields (body:list row) : list pfield := map decode_field (snd (segs (relin [RField]) (keep Lfield body))).
Definition decode_def (body:list row) : pdef :=
  match keep [RTable; RAlias; REnum] body with
  | r :: _ => match r_rel r with
              | RTable => PRelation (tl (r_names r)) (decode_fields body)
              | RAlias => PAlias (r_ty r)
              | REnum => PEnum (tl (r_names r)) (r_nums r)
              | _ => POther
              end
  | [] => tuple_or_other (decode_fields body)
  end.

Definition decode_item (r:row) : pitem :=
  match r_rel r with
  | RStmt => PRow (r_path r) (num 0 r) (nm 1 r) (r_x r)
  | RTag _ => PTag (r_path r) (nm 1 r)
  | RSrcAnno _ => PSrcAnno (r_path r) (nm 1 r) (r_x r)
  | RSrc _ => PSrc (r_path r) (r_x r)
  | _ => PAnno (r_path r) (nm 1 r) (r_x r)
  end.

Definition decode_elem (s:row * list row) : pelem :=
  let '(r, b) := s in
  match r_rel r with
  | RMixin => PMixin (r_names r) (attrs_of OMixin b)
  | REp => PEp (r_names r) (r_nums r) (r_app2 r) (attrs_of OEp b) (decode_params b) (map decode_item (keep Lstmt b))
  | REvent => PEvent (nm 0 r) (decode_params b) (attrs_of OEvent b)
  | RType => PType (nm 0 r) (nm 1 r) (num 0 r) (decode_def b) (attrs_of OType b)
  | _ => PView (nm 0 r) (r_ty r) (attrs_of OView b)
  end.

Definition rebuild_app (s:row * list row) : papp :=
  let '(r, b) := s in
  let '(pre, elems) := segs (relin Lelem) b in
  {| pa_name := r_app r; pa_long := nm 0 r; pa_doc := nm 1 r; pa_attrs := attrs_of OApp pre; pa_elems := map decode_elem elems |}.
Definition rebuild (rs:list row) : list papp := map rebuild_app (snd (segs (relin [RApp]) rs)).

(* ---------- relation classes ---------- *)
Lemma owner_eqb_eq a b : owner_eqb a b = true <-> a = b.
Proof. destruct a, b; cbn; split; intros H; try reflexivity; try discriminate. Qed.
Lemma relname_eqb_eq a b : relname_eqb a b = true <-> a = b.
Proof.
  destruct a, b; cbn; try (split; intros H; [try reflexivity; discriminate|try reflexivity; discriminate]).
  - rewrite owner_eqb_eq. split; [intros ->; reflexivity|intros [= ->]; reflexivity].
  - rewrite owner_eqb_eq. split; [intros ->; reflexivity|intros [= ->]; reflexivity].
  - rewrite owner_eqb_eq. split; [intros ->; reflexivity|intros [= ->]; reflexivity].
  - rewrite owner_eqb_eq. split; [intros ->; reflexivity|intros [= ->]; reflexivity].
Qed.

Definition allin (L:list relname) (rs:list row) : bool := forallb (relin L) rs.
Definition sub (L1 L2:list relname) : bool := forallb (fun R => existsb (relname_eqb R) L2) L1.
Definition disj (L1 L2:list relname) : bool := forallb (fun R => negb (existsb (relname_eqb R) L2)) L1.

Lemma relin_sub L1 L2 r : sub L1 L2 = true -> relin L1 r = true -> relin L2 r = true.
Proof.
  unfold sub, relin. intros Hs H. apply existsb_exists in H. destruct H as (R & HR & E). apply relname_eqb_eq in E.
  rewrite forallb_forall in Hs. rewrite E. apply Hs, HR.
Qed.
Lemma relin_disj L1 L2 r : disj L1 L2 = true -> relin L1 r = true -> relin L2 r = false.
Proof.
  unfold disj, relin. intros Hs H. apply existsb_exists in H. destruct H as (R & HR & E). apply relname_eqb_eq in E.
  rewrite forallb_forall in Hs. rewrite E. apply negb_true_iff, Hs, HR.
Qed.

Lemma allin_app L a b : allin L (a ++ b) = allin L a && allin L b.
Proof. apply forallb_app. Qed.
Lemma allin_mono L1 L2 rs : sub L1 L2 = true -> allin L1 rs = true -> allin L2 rs = true.
Proof.
  intros Hs H. unfold allin in *. rewrite forallb_forall in *. intros r Hr. eapply relin_sub; [exact Hs|apply H, Hr].
Qed.
Lemma allin_concat_map {A} L (f:A -> list row) l : (forall x, allin L (f x) = true) -> allin L (concat (map f l)) = true.
Proof. intros H. induction l as [|x l IH]; [reflexivity|]. cbn [map concat]. rewrite allin_app, H, IH. reflexivity. Qed.
Lemma allin_concat_mapi {A} L (f:N -> A -> list row) l : (forall i x, allin L (f i x) = true) ->
  forall i0, allin L (concat (mapi_from f l i0)) = true.
Proof. intros H. induction l as [|x l IH]; intros i0; [reflexivity|]. cbn [mapi_from concat]. rewrite allin_app, H, IH. reflexivity. Qed.
Lemma allin_map_rel {A} L R (f:A -> row) l : (forall x, r_rel (f x) = R) -> existsb (relname_eqb R) L = true -> allin L (map f l) = true.
Proof.
  intros Hf HR. induction l as [|x l IH]; [reflexivity|]. cbn [map allin forallb]. fold (allin L (map f l)).
  rewrite IH. unfold relin. rewrite Hf, HR. reflexivity.
Qed.

Lemma keep_app L a b : keep L (a ++ b) = keep L a ++ keep L b.
Proof. apply filter_app. Qed.
Lemma keep_all L' L rs : allin L' rs = true -> sub L' L = true -> keep L rs = rs.
Proof.
  intros H Hs. induction rs as [|r rs IH]; [reflexivity|]. cbn [allin forallb] in H. apply andb_true_iff in H.
  destruct H as [Hr H]. cbn [keep filter]. rewrite (relin_sub _ _ _ Hs Hr). f_equal. apply IH, H.
Qed.
Lemma keep_none L' L rs : allin L' rs = true -> disj L' L = true -> keep L rs = [].
Proof.
  intros H Hs. induction rs as [|r rs IH]; [reflexivity|]. cbn [allin forallb] in H. apply andb_true_iff in H.
  destruct H as [Hr H]. cbn [keep filter]. rewrite (relin_disj _ _ _ Hs Hr). apply IH, H.
Qed.
Lemma no_header L' H rs : allin L' rs = true -> disj L' H = true -> forallb (fun r => negb (relin H r)) rs = true.
Proof.
  intros Ha Hs. unfold allin in Ha. rewrite forallb_forall in *. intros r Hr.
  rewrite (relin_disj _ _ _ Hs (Ha r Hr)). reflexivity.
Qed.

(* which relations each part of the walk emits *)
Lemma allin_tag_rows o a keys p zs l : allin [RTag o] (map (fun t => mk (RTag o) a (keys ++ [t]) p zs TyNil) l) = true.
Proof. apply (allin_map_rel _ (RTag o)); [reflexivity|]. destruct o; reflexivity. Qed.
Lemma allin_anno_rows o a keys p zs l : allin [RAnno o; RSrcAnno o] (concat (map (anno_rows o a keys p zs) l)) = true.
Proof. apply allin_concat_map. intros an. unfold anno_rows. destruct (an_srcs an); destruct o; reflexivity. Qed.
Lemma allin_src_rows o a keys p zs l : allin [RSrc o] (src_rows o a keys p zs l) = true.
Proof. unfold src_rows. destruct l; destruct o; reflexivity. Qed.
Lemma sub_Lmeta o : sub [RTag o] (Lmeta o) = true /\ sub [RAnno o; RSrcAnno o] (Lmeta o) = true /\ sub [RSrc o] (Lmeta o) = true.
Proof. destruct o; repeat split; reflexivity. Qed.
Lemma allin_meta o a keys p zs at_ : allin (Lmeta o) (meta o a keys p zs at_) = true.
Proof.
  unfold meta. destruct (sub_Lmeta o) as (H1 & H2 & H3). rewrite !allin_app.
  rewrite (allin_mono _ _ _ H1 (allin_tag_rows _ _ _ _ _ _)), (allin_mono _ _ _ H2 (allin_anno_rows _ _ _ _ _ _)),
          (allin_mono _ _ _ H3 (allin_src_rows _ _ _ _ _ _)). reflexivity.
Qed.
Lemma allin_param_rows a ep loc i p : allin Lparam (param_rows a ep loc i p) = true.
Proof.
  unfold param_rows. destruct (p_type p) as [pt|]; [|reflexivity]. rewrite allin_app.
  rewrite (allin_mono (Lmeta OParam) Lparam _ eq_refl (allin_meta OParam _ _ _ _ _)). reflexivity.
Qed.
Lemma allin_params_rows a ep loc ps : allin Lparam (params_rows a ep loc ps) = true.
Proof. unfold params_rows. apply allin_concat_mapi. intros. apply allin_param_rows. Qed.
Lemma allin_item_rows g a sa ep its : allin Lstmt (map (item_row g a sa ep) its) = true.
Proof. induction its as [|[p c [t rt]|p t|p n v|p n l|p s0 l] its IH]; [reflexivity| | | | |]; cbn [map allin forallb]; exact IH. Qed.
Lemma allin_field_rows a tn f : allin Lfield (field_rows a tn f) = true.
Proof.
  unfold field_rows. cbn [allin forallb]. fold (allin Lfield (meta OField a [tn; f_name f] [] [] (f_attrs f))).
  rewrite (allin_mono (Lmeta OField) Lfield _ eq_refl (allin_meta OField _ _ _ _ _)). reflexivity.
Qed.
Lemma allin_fields_rows a tn fs : allin Lfield (concat (map (field_rows a tn) fs)) = true.
Proof. apply allin_concat_map. intros. apply allin_field_rows. Qed.

(* ---------- segments of printed lists ---------- *)
Lemma segs_nohdr h a l : forallb (fun r => negb (h r)) a = true -> segs h (a ++ l) = (a ++ fst (segs h l), snd (segs h l)).
Proof.
  induction a as [|r a IH]; intros H; cbn [List.app]; [destruct (segs h l); reflexivity|].
  cbn [forallb] in H. apply andb_true_iff in H. destruct H as [Hr H]. cbn [segs]. rewrite (IH H).
  apply negb_true_iff in Hr. rewrite Hr. reflexivity.
Qed.

Lemma segs_concat {A} h (g:A -> list row) (f:A -> row * list row) l rest :
  (forall x, g x = fst (f x) :: snd (f x)) ->
  (forall x, h (fst (f x)) = true) ->
  (forall x, forallb (fun r => negb (h r)) (snd (f x)) = true) ->
  fst (segs h rest) = [] ->
  segs h (concat (map g l) ++ rest) = ([], map f l ++ snd (segs h rest)).
Proof.
  intros Hg Hh Hb Hrest. induction l as [|x l IH]; cbn [map concat List.app].
  - destruct (segs h rest) as [pre ss]. cbn in Hrest. subst. reflexivity.
  - rewrite Hg. cbn [List.app]. rewrite <- app_assoc. cbn [segs].
    rewrite (segs_nohdr h (snd (f x)) _ (Hb x)), IH. cbn [fst snd]. rewrite Hh, app_nil_r.
    destruct (f x); reflexivity.
Qed.

Lemma tsegs_one t pre tr rest : forallb (fun r => negb (t r)) pre = true -> t tr = true ->
  tsegs t (pre ++ tr :: rest) = (pre, tr) :: tsegs t rest.
Proof.
  intros Hp Ht. induction pre as [|r pre IH]; cbn [List.app tsegs]; [rewrite Ht; reflexivity|].
  cbn [forallb] in Hp. apply andb_true_iff in Hp. destruct Hp as [Hr Hp]. apply negb_true_iff in Hr.
  rewrite Hr, (IH Hp). reflexivity.
Qed.

Lemma tsegs_concat_mapi {A} t (g:N -> A -> list row) (f:N -> A -> list row * row) l rest :
  (forall i x, g i x = fst (f i x) ++ [snd (f i x)]) ->
  (forall i x, t (snd (f i x)) = true) ->
  (forall i x, forallb (fun r => negb (t r)) (fst (f i x)) = true) ->
  forall i0, tsegs t (concat (mapi_from g l i0) ++ rest) = mapi_from f l i0 ++ tsegs t rest.
Proof.
  intros Hg Ht Hb. induction l as [|x l IH]; intros i0; cbn [mapi_from concat List.app]; [reflexivity|].
  rewrite Hg, <- !app_assoc. cbn [List.app]. rewrite (tsegs_one t _ _ _ (Hb i0 x) (Ht i0 x)), IH.
  destruct (f i0 x); reflexivity.
Qed.

(* ---------- attributes ---------- *)
Lemma last_snoc (keys:list name) t : last (keys ++ [t]) 1%positive = t.
Proof. apply last_last. Qed.

Lemma keep_none_sub La M L rs : allin La rs = true -> disj La M = true -> sub L M = true -> keep L rs = [].
Proof.
  intros Ha Hd Hs. induction rs as [|r rs IH]; [reflexivity|]. cbn [allin forallb] in Ha. apply andb_true_iff in Ha.
  destruct Ha as [Hr Ha]. cbn [keep filter]. destruct (relin L r) eqn:E.
  - pose proof (relin_sub _ _ _ Hs E) as E2. rewrite (relin_disj _ _ _ Hd Hr) in E2. discriminate.
  - apply IH, Ha.
Qed.

Lemma decode_annos_rows o a keys p zs l :
  decode_annos (concat (map (anno_rows o a keys p zs) l)) = map project_anno l.
Proof.
  unfold decode_annos.
  assert (H : fold_right anno_step (None, []) (concat (map (anno_rows o a keys p zs) l)) = (None, map project_anno l)).
  { induction l as [|an l IH]; [reflexivity|]. cbn [map concat]. rewrite fold_right_app, IH.
    unfold anno_rows, project_anno. destruct (an_srcs an) as [|s0 l0]; cbn [fold_right anno_step r_rel mkx r_x];
      unfold last_name; cbn [r_names mkx]; rewrite last_snoc; reflexivity. }
  rewrite H. reflexivity.
Qed.

Lemma attrs_of_meta o a keys p zs at_ : attrs_of o (meta o a keys p zs at_) = cattrs at_.
Proof.
  unfold attrs_of, meta, cattrs. rewrite !keep_app.
  rewrite (keep_all [RTag o] [RTag o] _ (allin_tag_rows _ _ _ _ _ _)) by (destruct o; reflexivity).
  rewrite (keep_none [RAnno o; RSrcAnno o] [RTag o] _ (allin_anno_rows _ _ _ _ _ _)) by (destruct o; reflexivity).
  rewrite (keep_none [RSrc o] [RTag o] _ (allin_src_rows _ _ _ _ _ _)) by (destruct o; reflexivity).
  rewrite (keep_none [RTag o] [RAnno o; RSrcAnno o] _ (allin_tag_rows _ _ _ _ _ _)) by (destruct o; reflexivity).
  rewrite (keep_all [RAnno o; RSrcAnno o] [RAnno o; RSrcAnno o] _ (allin_anno_rows _ _ _ _ _ _)) by (destruct o; reflexivity).
  rewrite (keep_none [RSrc o] [RAnno o; RSrcAnno o] _ (allin_src_rows _ _ _ _ _ _)) by (destruct o; reflexivity).
  rewrite (keep_none [RTag o] [RSrc o] _ (allin_tag_rows _ _ _ _ _ _)) by (destruct o; reflexivity).
  rewrite (keep_none [RAnno o; RSrcAnno o] [RSrc o] _ (allin_anno_rows _ _ _ _ _ _)) by (destruct o; reflexivity).
  rewrite (keep_all [RSrc o] [RSrc o] _ (allin_src_rows _ _ _ _ _ _)) by (destruct o; reflexivity).
  rewrite !app_nil_r. cbn [List.app]. f_equal.
  - rewrite map_map. unfold last_name. cbn [r_names mk]. erewrite map_ext; [apply map_id|intros x; apply last_snoc].
  - apply decode_annos_rows.
  - unfold src_rows, project_src. destruct (a_srcs at_); reflexivity.
Qed.

(* attributes of owner o among rows of other classes *)
Lemma attrs_of_pad o La Lb pre x post :
  allin La pre = true -> disj La (Lmeta o) = true -> allin Lb post = true -> disj Lb (Lmeta o) = true ->
  attrs_of o (pre ++ x ++ post) = attrs_of o x.
Proof.
  intros Ha Hda Hb Hdb. unfold attrs_of. rewrite !keep_app.
  assert (S1 : sub [RTag o] (Lmeta o) = true) by (destruct o; reflexivity).
  assert (S2 : sub [RAnno o; RSrcAnno o] (Lmeta o) = true) by (destruct o; reflexivity).
  assert (S3 : sub [RSrc o] (Lmeta o) = true) by (destruct o; reflexivity).
  rewrite (keep_none_sub _ _ _ _ Ha Hda S1), (keep_none_sub _ _ _ _ Ha Hda S2), (keep_none_sub _ _ _ _ Ha Hda S3).
  rewrite (keep_none_sub _ _ _ _ Hb Hdb S1), (keep_none_sub _ _ _ _ Hb Hdb S2), (keep_none_sub _ _ _ _ Hb Hdb S3).
  rewrite !app_nil_r. reflexivity.
Qed.

(* keep on the parts of a body *)
Lemma keep_meta_other L o a keys p zs at_ : disj (Lmeta o) L = true -> keep L (meta o a keys p zs at_) = [].
Proof. intros H. eapply keep_none; [apply allin_meta|exact H]. Qed.
Lemma keep_meta_self L o a keys p zs at_ : sub (Lmeta o) L = true -> keep L (meta o a keys p zs at_) = meta o a keys p zs at_.
Proof. intros H. eapply keep_all; [apply allin_meta|exact H]. Qed.
Lemma keep_params_other L a ep loc ps : disj Lparam L = true -> keep L (params_rows a ep loc ps) = [].
Proof. intros H. eapply keep_none; [apply allin_params_rows|exact H]. Qed.
Lemma keep_params_self L a ep loc ps : sub Lparam L = true -> keep L (params_rows a ep loc ps) = params_rows a ep loc ps.
Proof. intros H. eapply keep_all; [apply allin_params_rows|exact H]. Qed.
Lemma keep_items_other L g a sa ep its : disj Lstmt L = true -> keep L (map (item_row g a sa ep) its) = [].
Proof. intros H. eapply keep_none; [apply allin_item_rows|exact H]. Qed.
Lemma keep_items_self L g a sa ep its : sub Lstmt L = true -> keep L (map (item_row g a sa ep) its) = map (item_row g a sa ep) its.
Proof. intros H. eapply keep_all; [apply allin_item_rows|exact H]. Qed.
Lemma keep_fields_other L a tn fs : disj Lfield L = true -> keep L (concat (map (field_rows a tn) fs)) = [].
Proof. intros H. eapply keep_none; [apply allin_fields_rows|exact H]. Qed.
Lemma keep_fields_self L a tn fs : sub Lfield L = true -> keep L (concat (map (field_rows a tn) fs)) = concat (map (field_rows a tn) fs).
Proof. intros H. eapply keep_all; [apply allin_fields_rows|exact H]. Qed.

Lemma map_mapi_from {A B C} (h:B -> C) (f:N -> A -> B) l : forall i0, map h (mapi_from f l i0) = mapi_from (fun i x => h (f i x)) l i0.
Proof. induction l as [|x l IH]; intros i0; [reflexivity|]. cbn [mapi_from map]. rewrite IH. reflexivity. Qed.
Lemma mapi_from_ext {A B} (f g:N -> A -> B) l : (forall i x, f i x = g i x) -> forall i0, mapi_from f l i0 = mapi_from g l i0.
Proof. intros H. induction l as [|x l IH]; intros i0; [reflexivity|]. cbn [mapi_from]. rewrite H, IH. reflexivity. Qed.

(* ---------- parameters ---------- *)
Definition param_split (a:appname) (ep loc:name) (i:N) (p:param) : list row * row :=
  let l := param_loc loc p in
  match p_type p with
  | None => ([], mk RParam a [ep; p_name p; l] [] [Z.of_N i; 0%Z] (TyPrim n_any))
  | Some pt => (meta OParam a [ep; p_name p; l] [] [Z.of_N i] (pt_attrs pt),
                mk RParam a [ep; p_name p; l] [] [Z.of_N i; zb (pt_opt pt)] (parse_field_type a (pt_ty pt)))
  end.

Lemma decode_param_split a ep loc i p : decode_param (param_split a ep loc i p) = project_param a loc i p.
Proof.
  unfold param_split, project_param, decode_param. destruct (p_type p) as [pt|].
  - rewrite attrs_of_meta. reflexivity.
  - reflexivity.
Qed.

Lemma decode_params_rows a ep loc ps rest :
  map decode_param (tsegs (relin [RParam]) (params_rows a ep loc ps ++ rest)) =
  project_params a loc ps ++ map decode_param (tsegs (relin [RParam]) rest).
Proof.
  unfold params_rows, project_params.
  rewrite (tsegs_concat_mapi (relin [RParam]) (param_rows a ep loc) (param_split a ep loc)).
  - rewrite map_app, map_mapi_from. f_equal. apply mapi_from_ext. intros. apply decode_param_split.
  - intros i p. unfold param_rows, param_split. destruct (p_type p); reflexivity.
  - intros i p. unfold param_split. destruct (p_type p); reflexivity.
  - intros i p. unfold param_split. destruct (p_type p); [|reflexivity]. cbn [fst].
    eapply no_header; [apply allin_meta|reflexivity].
Qed.

Lemma keep_cons L r l : keep L (r :: l) = if relin L r then r :: keep L l else keep L l.
Proof. reflexivity. Qed.
Lemma relin_mk L R a ns p zs t : relin L (mk R a ns p zs t) = existsb (relname_eqb R) L.
Proof. reflexivity. Qed.

(* ---------- fields and type definitions ---------- *)
Definition field_split (a:appname) (tn:name) (f:field) : row * list row :=
  (mk RField a [tn; f_name f] [] (zb (f_opt f) :: field_constraint (f_constraints f)) (parse_field_type a (f_ty f)),
   meta OField a [tn; f_name f] [] [] (f_attrs f)).

Lemma decode_fields_rows a tn fs : map decode_field (snd (segs (relin [RField]) (concat (map (field_rows a tn) fs)))) = map (project_field a) fs.
Proof.
  rewrite <- (app_nil_r (concat _)).
  rewrite (segs_concat (relin [RField]) (field_rows a tn) (field_split a tn)); try reflexivity.
  - cbn [snd segs]. rewrite app_nil_r, map_map. apply map_ext. intros f. unfold field_split, decode_field, project_field.
    rewrite attrs_of_meta. reflexivity.
  - intros f. unfold field_split. cbn [snd]. eapply no_header; [apply allin_meta|reflexivity].
Qed.

Lemma decode_def_rows a t :
  let d := match t_def t with
           | DTuple fs => concat (map (field_rows a (t_name t)) (sorted_by f_name fs))
           | DRelation pk fs => mk RTable a (t_name t :: pk) [] [] TyNil :: concat (map (field_rows a (t_name t)) (sorted_by f_name fs))
           | DAlias mt => [mk RAlias a [t_name t] [] [] (parse_field_type a mt)]
           | DEnum items => [mk REnum a (t_name t :: map fst items) [] (map snd items) TyNil]
           | DMap _ _ | DOneOf _ | DNoType | DList _ | DUnset => []
           end in
  decode_def (d ++ meta OType a [t_name t] [] [] (t_attrs t)) = project_def a (t_def t).
Proof.
  cbv zeta. unfold decode_def, decode_fields, project_def.
  destruct (t_def t) as [fs|pk fs|mt|items|mk_ mv_|ts| |lt|].
  - rewrite !keep_app, (keep_fields_other [RTable; RAlias; REnum]), (keep_meta_other [RTable; RAlias; REnum]) by reflexivity.
    cbn [List.app]. rewrite (keep_fields_self Lfield), (keep_meta_other Lfield) by reflexivity.
    rewrite app_nil_r, decode_fields_rows. reflexivity.
  - cbn [List.app]. rewrite !keep_cons, !relin_mk. change (existsb (relname_eqb RTable) Lfield) with false.
    cbn [existsb relname_eqb orb]. cbn [r_rel mk r_names tl].
    rewrite !keep_app, (keep_fields_self Lfield), (keep_meta_other Lfield) by reflexivity.
    rewrite app_nil_r, decode_fields_rows. reflexivity.
  - cbn [List.app]. rewrite !keep_cons, !relin_mk. cbn [existsb relname_eqb orb]. reflexivity.
  - cbn [List.app]. rewrite !keep_cons, !relin_mk. cbn [existsb relname_eqb orb]. reflexivity.
  - cbn [List.app]. rewrite (keep_meta_other [RTable; RAlias; REnum]), (keep_meta_other Lfield) by reflexivity. reflexivity.
  - cbn [List.app]. rewrite (keep_meta_other [RTable; RAlias; REnum]), (keep_meta_other Lfield) by reflexivity. reflexivity.
  - cbn [List.app]. rewrite (keep_meta_other [RTable; RAlias; REnum]), (keep_meta_other Lfield) by reflexivity. reflexivity.
  - cbn [List.app]. rewrite (keep_meta_other [RTable; RAlias; REnum]), (keep_meta_other Lfield) by reflexivity. reflexivity.
  - cbn [List.app]. rewrite (keep_meta_other [RTable; RAlias; REnum]), (keep_meta_other Lfield) by reflexivity. reflexivity.
Qed.

(* ---------- elements of an application ---------- *)
Definition mixin_split (a:appname) (m:appname * attrs) : row * list row :=
  (mk RMixin a (fst m) [] [] TyNil, meta OMixin a (fst m) [] [] (snd m)).
Definition view_split (a:appname) (v:view) : row * list row :=
  (mk RView a [v_name v] [] [] (view_ty a v), meta OView a [v_name v] [] [] (v_attrs v)).
Definition def_rows (a:appname) (t:typedecl) : list row :=
  match t_def t with
  | DTuple fs => concat (map (field_rows a (t_name t)) (sorted_by f_name fs))
  | DRelation pk fs => mk RTable a (t_name t :: pk) [] [] TyNil :: concat (map (field_rows a (t_name t)) (sorted_by f_name fs))
  | DAlias mt => [mk RAlias a [t_name t] [] [] (parse_field_type a mt)]
  | DEnum items => [mk REnum a (t_name t :: map fst items) [] (map snd items) TyNil]
  | DMap _ _ | DOneOf _ | DNoType | DList _ | DUnset => []
  end.
Definition type_split (a:appname) (t:typedecl) : row * list row :=
  (mk RType a [t_name t; t_doc t] [] [zb (t_opt t)] TyNil, def_rows a t ++ meta OType a [t_name t] [] [] (t_attrs t)).
Definition rest_rows (a:appname) (e:endpoint) : list row :=
  match e_rest e with
  | Some (_, _, url, query) => params_rows a (e_name e) n_path url ++ params_rows a (e_name e) n_query query
  | None => []
  end.
Definition ep_split (g:grammar) (a:appname) (sa:list str) (e:endpoint) : row * list row :=
  if e_pubsub e then
    (mk REvent a [e_name e] [] [] TyNil,
     params_rows a (e_name e) n_empty (e_params e) ++ meta OEvent a [e_name e] [] [] (e_attrs e))
  else
    (mk2 REp a [e_name e; e_long e; e_doc e;
                match e_rest e with Some (m, _, _, _) => m | None => n_empty end;
                match e_rest e with Some (_, pa, _, _) => pa | None => n_empty end;
                match e_source e with Some (_, ev) => ev | None => n_empty end]
         [zb (match e_rest e with Some _ => true | None => false end); zb (match e_source e with Some _ => true | None => false end)]
         (match e_source e with Some (sa, _) => sa | None => [] end),
     meta OEp a [e_name e] [] [] (e_attrs e) ++ params_rows a (e_name e) n_empty (e_params e) ++ rest_rows a e ++
     map (item_row g a sa (e_name e)) (ep_items_pure (e_stmts e))).

Lemma mixin_rows_split a m : mixin_rows a m = fst (mixin_split a m) :: snd (mixin_split a m).
Proof. reflexivity. Qed.
Lemma view_rows_split a v : view_rows a v = fst (view_split a v) :: snd (view_split a v).
Proof. reflexivity. Qed.
Lemma type_rows_split a t : type_rows a t = fst (type_split a t) :: snd (type_split a t).
Proof. reflexivity. Qed.
Lemma ep_rows_split g a sa e :
  ep_rows CopyParent CopyParent g a sa e = if ep_skipped e then [] else fst (ep_split g a sa e) :: snd (ep_split g a sa e).
Proof.
  unfold ep_rows, ep_split, rest_rows. destruct (ep_skipped e); [reflexivity|]. destruct (e_pubsub e); [reflexivity|].
  cbn [fst snd ep_items]. destruct (e_rest e) as [[[[mt pa] u] q]|]; reflexivity.
Qed.

Definition Lepbody : list relname := Lmeta OEp ++ Lmeta OEvent ++ Lparam ++ Lstmt.
Definition Ltypebody : list relname := [RTable; RAlias; REnum] ++ Lfield ++ Lmeta OType.

Lemma allin_rest_rows a e : allin Lparam (rest_rows a e) = true.
Proof. unfold rest_rows. destruct (e_rest e) as [[[[mt pa] u] q]|]; [|reflexivity]. rewrite allin_app, !allin_params_rows. reflexivity. Qed.

Lemma allin_ep_body g a sa e : allin Lepbody (snd (ep_split g a sa e)) = true.
Proof.
  unfold ep_split. destruct (e_pubsub e); cbn [snd]; rewrite !allin_app.
  - rewrite (allin_mono Lparam Lepbody _ eq_refl (allin_params_rows _ _ _ _)).
    rewrite (allin_mono (Lmeta OEvent) Lepbody _ eq_refl (allin_meta _ _ _ _ _ _)). reflexivity.
  - rewrite (allin_mono (Lmeta OEp) Lepbody _ eq_refl (allin_meta _ _ _ _ _ _)).
    rewrite (allin_mono Lparam Lepbody _ eq_refl (allin_params_rows _ _ _ _)).
    rewrite (allin_mono Lparam Lepbody _ eq_refl (allin_rest_rows _ _)).
    rewrite (allin_mono Lstmt Lepbody _ eq_refl (allin_item_rows _ _ _ _ _)). reflexivity.
Qed.

Definition Ldef : list relname := [RTable; RAlias; REnum] ++ Lfield.
Lemma allin_def_rows a t : allin Ldef (def_rows a t) = true.
Proof.
  unfold def_rows. destruct (t_def t) as [fs|pk fs|mt|items|mk_ mv_|ts| |lt|]; try reflexivity.
  - apply (allin_mono Lfield Ldef _ eq_refl (allin_fields_rows _ _ _)).
  - cbn [allin forallb]. fold (allin Ldef (concat (map (field_rows a (t_name t)) (sorted_by f_name fs)))).
    rewrite (allin_mono Lfield Ldef _ eq_refl (allin_fields_rows _ _ _)). reflexivity.
Qed.
Lemma allin_type_body a t : allin Ltypebody (snd (type_split a t)) = true.
Proof.
  unfold type_split. cbn [snd]. rewrite allin_app, (allin_mono Ldef Ltypebody _ eq_refl (allin_def_rows _ _)).
  rewrite (allin_mono (Lmeta OType) Ltypebody _ eq_refl (allin_meta _ _ _ _ _ _)). reflexivity.
Qed.

(* decoding one element *)
Lemma decode_mixin a m : decode_elem (mixin_split a m) = project_mixin m.
Proof. unfold mixin_split, decode_elem, project_mixin. cbn [r_rel mk r_names]. rewrite attrs_of_meta. reflexivity. Qed.
Lemma decode_view a v : decode_elem (view_split a v) = project_view a v.
Proof. unfold view_split, decode_elem, project_view. cbn [r_rel mk r_names r_ty nm nth]. rewrite attrs_of_meta. reflexivity. Qed.

Lemma decode_type a t : decode_elem (type_split a t) = project_type a t.
Proof.
  unfold type_split, decode_elem, project_type. cbn [r_rel mk r_names r_nums nm num nth].
  f_equal.
  - apply (decode_def_rows a t).
  - rewrite <- (attrs_of_meta OType a [t_name t] [] [] (t_attrs t)).
    rewrite <- (app_nil_r (meta OType a [t_name t] [] [] (t_attrs t))) at 1.
    apply (attrs_of_pad OType Ldef [] _ _ [] (allin_def_rows a t)); reflexivity.
Qed.

Lemma map_decode_items g a sa ep its : map decode_item (map (item_row g a sa ep) its) = map (project_item g sa) its.
Proof. rewrite map_map. apply map_ext. intros [p c [t rt]|p t|p n v|p n l|p s0 l]; reflexivity. Qed.

Lemma decode_ep g a sa e : decode_elem (ep_split g a sa e) = project_ep g a sa e.
Proof.
  unfold ep_split, project_ep. destruct (e_pubsub e); unfold decode_elem; cbn [r_rel mk mk2 r_names r_nums r_app2 nm nth].
  - f_equal.
    + unfold decode_params. rewrite keep_app, (keep_params_self Lparam), (keep_meta_other Lparam) by reflexivity.
      rewrite decode_params_rows. cbn [tsegs map]. apply app_nil_r.
    + rewrite <- (attrs_of_meta OEvent a [e_name e] [] [] (e_attrs e)).
      rewrite <- (app_nil_r (meta OEvent a [e_name e] [] [] (e_attrs e))) at 1.
      apply (attrs_of_pad OEvent Lparam [] _ _ [] (allin_params_rows _ _ _ _)); reflexivity.
  - f_equal.
    + rewrite <- (attrs_of_meta OEp a [e_name e] [] [] (e_attrs e)).
      apply (attrs_of_pad OEp [] (Lparam ++ Lstmt) [] _ _ eq_refl eq_refl); [|reflexivity].
      rewrite !allin_app.
      rewrite (allin_mono Lparam (Lparam ++ Lstmt) _ eq_refl (allin_params_rows _ _ _ _)).
      rewrite (allin_mono Lparam (Lparam ++ Lstmt) _ eq_refl (allin_rest_rows _ _)).
      rewrite (allin_mono Lstmt (Lparam ++ Lstmt) _ eq_refl (allin_item_rows _ _ _ _ _)). reflexivity.
    + unfold decode_params. rewrite !keep_app, (keep_meta_other Lparam), (keep_params_self Lparam), (keep_items_other Lparam) by reflexivity.
      rewrite (keep_all Lparam Lparam _ (allin_rest_rows a e) eq_refl). cbn [List.app]. rewrite app_nil_r.
      rewrite decode_params_rows. f_equal. unfold rest_rows.
      destruct (e_rest e) as [[[[mt pa] u] q]|]; [|reflexivity].
      rewrite decode_params_rows. f_equal. rewrite <- (app_nil_r (params_rows _ _ _ q)), decode_params_rows. apply app_nil_r.
    + rewrite !keep_app, (keep_meta_other Lstmt), (keep_params_other Lstmt), (keep_items_self Lstmt) by reflexivity.
      rewrite (keep_none Lparam Lstmt _ (allin_rest_rows a e) eq_refl). cbn [List.app]. apply map_decode_items.
Qed.

(* ---------- one application ---------- *)
Lemma concat_map_filter {A} (g g':A -> list row) (p:A -> bool) l :
  (forall x, g x = if p x then g' x else []) -> concat (map g l) = concat (map g' (filter p l)).
Proof.
  intros H. induction l as [|x l IH]; [reflexivity|]. cbn [map concat filter]. rewrite H, IH.
  destruct (p x); reflexivity.
Qed.

Definition elem_rows (g:grammar) (ap:app) : list row :=
  let a := ap_name ap in
  concat (map (mixin_rows a) (ap_mixins ap)) ++
  concat (map (ep_rows CopyParent CopyParent g a (ap_sname ap)) (sorted_by e_name (ap_eps ap))) ++
  concat (map (type_rows a) (sorted_by t_name (ap_types ap))) ++
  concat (map (view_rows a) (sorted_by v_name (ap_views ap))).

Lemma segs_elem_rows g ap :
  let a := ap_name ap in
  segs (relin Lelem) (elem_rows g ap) =
  ([], map (mixin_split a) (ap_mixins ap) ++ map (ep_split g a (ap_sname ap)) (filter visible_ep (sorted_by e_name (ap_eps ap))) ++
       map (type_split a) (sorted_by t_name (ap_types ap)) ++ map (view_split a) (sorted_by v_name (ap_views ap))).
Proof.
  cbv zeta. unfold elem_rows. set (a := ap_name ap). set (sa := ap_sname ap).
  rewrite (concat_map_filter (ep_rows CopyParent CopyParent g a sa) (fun e => fst (ep_split g a sa e) :: snd (ep_split g a sa e)) visible_ep).
  2:{ intros e. rewrite ep_rows_split. unfold visible_ep. destruct (ep_skipped e); reflexivity. }
  assert (H4 : segs (relin Lelem) (concat (map (view_rows a) (sorted_by v_name (ap_views ap))) ++ []) =
               ([], map (view_split a) (sorted_by v_name (ap_views ap)) ++ [])).
  { apply (segs_concat (relin Lelem) (view_rows a) (view_split a)); try reflexivity.
    intros v. eapply no_header; [apply allin_meta|reflexivity]. }
  rewrite !app_nil_r in H4.
  assert (H3 : segs (relin Lelem) (concat (map (type_rows a) (sorted_by t_name (ap_types ap))) ++
                                   concat (map (view_rows a) (sorted_by v_name (ap_views ap)))) =
               ([], map (type_split a) (sorted_by t_name (ap_types ap)) ++ map (view_split a) (sorted_by v_name (ap_views ap)))).
  { rewrite (segs_concat (relin Lelem) (type_rows a) (type_split a)); try reflexivity.
    - rewrite H4. reflexivity.
    - intros t. eapply no_header; [apply allin_type_body|reflexivity].
    - rewrite H4. reflexivity. }
  assert (H2 : segs (relin Lelem) (concat (map (fun e => fst (ep_split g a sa e) :: snd (ep_split g a sa e)) (filter visible_ep (sorted_by e_name (ap_eps ap)))) ++
                                   concat (map (type_rows a) (sorted_by t_name (ap_types ap))) ++
                                   concat (map (view_rows a) (sorted_by v_name (ap_views ap)))) =
               ([], map (ep_split g a sa) (filter visible_ep (sorted_by e_name (ap_eps ap))) ++
                    map (type_split a) (sorted_by t_name (ap_types ap)) ++ map (view_split a) (sorted_by v_name (ap_views ap)))).
  { rewrite (segs_concat (relin Lelem) (fun e => fst (ep_split g a sa e) :: snd (ep_split g a sa e)) (ep_split g a sa)); try reflexivity.
    - rewrite H3. reflexivity.
    - intros e. unfold ep_split. destruct (e_pubsub e); reflexivity.
    - intros e. eapply no_header; [apply allin_ep_body|reflexivity].
    - rewrite H3. reflexivity. }
  rewrite (segs_concat (relin Lelem) (mixin_rows a) (mixin_split a)); try reflexivity.
  - rewrite H2. reflexivity.
  - intros m. eapply no_header; [apply allin_meta|reflexivity].
  - rewrite H2. reflexivity.
Qed.

Definition app_split (g:grammar) (ap:app) : row * list row :=
  (mk RApp (ap_name ap) [ap_long ap; ap_doc ap] [] [] TyNil, meta OApp (ap_name ap) [] [] [] (ap_attrs ap) ++ elem_rows g ap).
Lemma app_rows_split g ap : app_rows CopyParent CopyParent g ap = fst (app_split g ap) :: snd (app_split g ap).
Proof. reflexivity. Qed.

Lemma rebuild_app_split g ap : rebuild_app (app_split g ap) = project_app g ap.
Proof.
  unfold app_split, rebuild_app.
  rewrite (segs_nohdr (relin Lelem)) by (eapply no_header; [apply allin_meta|reflexivity]).
  pose proof (segs_elem_rows g ap) as H. cbv zeta in H. rewrite H. cbn [fst snd]. rewrite app_nil_r.
  unfold project_app. cbn [r_app mk r_names nm nth]. rewrite attrs_of_meta. f_equal.
  rewrite !map_app, !map_map. f_equal; [|f_equal; [|f_equal]]; apply map_ext; intros x.
  - apply decode_mixin.
  - apply decode_ep.
  - apply decode_type.
  - apply decode_view.
Qed.

(* ---------- the whole module ---------- *)
Definition Lnonapp : list relname :=
  [RMixin; REp; REvent; RParam; RStmt; RType; RTable; RField; REnum; RAlias; RView]
  ++ map RTag all_owners ++ map RAnno all_owners ++ map RSrc all_owners ++ map RSrcAnno all_owners.

Lemma allin_app_body g ap : allin Lnonapp (snd (app_split g ap)) = true.
Proof.
  unfold app_split, elem_rows. cbn [snd]. rewrite !allin_app.
  rewrite (allin_mono (Lmeta OApp) Lnonapp _ eq_refl (allin_meta _ _ _ _ _ _)).
  rewrite !allin_concat_map; [reflexivity| | | |].
  - intros v. rewrite view_rows_split. cbn [allin forallb]. fold (allin Lnonapp (snd (view_split (ap_name ap) v))).
    unfold view_split. cbn [snd fst]. rewrite (allin_mono (Lmeta OView) Lnonapp _ eq_refl (allin_meta _ _ _ _ _ _)). reflexivity.
  - intros t. rewrite type_rows_split. cbn [allin forallb]. fold (allin Lnonapp (snd (type_split (ap_name ap) t))).
    rewrite (allin_mono Ltypebody Lnonapp _ eq_refl (allin_type_body _ _)). reflexivity.
  - intros e. rewrite ep_rows_split. destruct (ep_skipped e); [reflexivity|]. cbn [allin forallb].
    fold (allin Lnonapp (snd (ep_split g (ap_name ap) (ap_sname ap) e))).
    rewrite (allin_mono Lepbody Lnonapp _ eq_refl (allin_ep_body _ _ _ _)).
    unfold ep_split. destruct (e_pubsub e); reflexivity.
  - intros m. rewrite mixin_rows_split. cbn [allin forallb]. fold (allin Lnonapp (snd (mixin_split (ap_name ap) m))).
    unfold mixin_split. cbn [snd fst]. rewrite (allin_mono (Lmeta OMixin) Lnonapp _ eq_refl (allin_meta _ _ _ _ _ _)). reflexivity.
Qed.

Theorem rows_lossless g m rs : normalize CopyParent CopyParent g m = Rows rs -> rebuild rs = project g m.
Proof.
  unfold normalize. destruct (module_fault g m) as [[|]|]; [discriminate|discriminate|]. intros [= <-]. unfold rebuild, project.
  rewrite <- (app_nil_r (concat _)).
  rewrite (segs_concat (relin [RApp]) (app_rows CopyParent CopyParent g) (app_split g)); try reflexivity.
  - cbn [snd segs]. rewrite app_nil_r, map_map. apply map_ext. intros ap. apply rebuild_app_split.
  - intros ap. eapply no_header; [apply allin_app_body|reflexivity].
Qed.

(* two modules with the same rows have the same projection: nothing `project` keeps is lost in the rows *)
Corollary rows_determine_projection g m1 m2 rs :
  normalize CopyParent CopyParent g m1 = Rows rs -> normalize CopyParent CopyParent g m2 = Rows rs -> project g m1 = project g m2.
Proof. intros H1 H2. rewrite <- (rows_lossless _ _ _ H1), <- (rows_lossless _ _ _ H2). reflexivity. Qed.

(* non-vacuity: a concrete module with a typed return payload, annotation values and source contexts; its projection
   keeps field types / optionality / reference targets, annotation values, source positions and the payload's status,
   type target and attributes apart *)
Definition ex_g : grammar :=
  {| g_prim_mode := PrimWord; g_prims := [bytes "int64"; bytes "int"; bytes "string"]; g_mods := ModsSorted; g_dup := DupRefused; g_nil := NilGuarded |}.
Definition ex_sc (line:N) : srcctx := {| sc_file := 70%positive; sc_pos := [line; 1; line; 9]%N |}.
Definition ex_an (v:aval) : anno := {| an_name := 60%positive; an_val := v; an_srcs := [ex_sc 3] |}.
Definition ex_at (v:aval) (line:N) : attrs := {| a_tags := [50%positive]; a_annos := [ex_an v]; a_srcs := [ex_sc line] |}.
Definition ex_fa (n:positive) (t:mtype) (o:bool) : field :=
  {| f_name := n; f_ty := t; f_opt := o; f_constraints := [{| c_len := Some (1, 9)%Z; c_prec := 0%Z; c_scale := 0%Z; c_range := None; c_bits := 0%Z; c_res := None |}];
     f_attrs := ex_at (AVStr 61%positive) 4 |}.
Definition ex_mod (t:mtype) (o:bool) (v:aval) (line:N) (payload:string) : module :=
  [{| ap_name := [8%positive]; ap_sname := [bytes "App"]; ap_long := 9%positive; ap_doc := 9%positive;
      ap_attrs := ex_at v line; ap_mixins := []; ap_views := [];
      ap_eps := [{| e_name := 12%positive; e_long := 9%positive; e_doc := 9%positive; e_pubsub := false; e_source := None;
                    e_rest := None; e_params := []; e_attrs := ex_at v 5;
                    e_stmts := [SLeaf (LRet (bytes payload)) 9%positive (ex_at v 6)] |}];
      ap_types := [{| t_name := 10%positive; t_doc := 9%positive; t_opt := false; t_attrs := ex_at v 7;
                      t_def := DTuple [ex_fa 21 t o; ex_fa 20 (MSeq (MRef None None [30%positive])) false] |}] |}].
Definition ex_p (t:mtype) (o:bool) (v:aval) (line:N) (payload:string) := project ex_g (ex_mod t o v line payload).
Example rows_lossless_nonvacuous :
  let p0 := ex_p (MPrim 40%positive) true (AVInt 7) 2 "ok <: sequence of T [~m, k=""v""]" in
  (exists rs, normalize CopyParent CopyParent ex_g (ex_mod (MPrim 40%positive) true (AVInt 7) 2 "ok <: sequence of T [~m, k=""v""]") = Rows rs /\
              rebuild rs = p0) /\
  p0 <> ex_p (MPrim 41%positive) true (AVInt 7) 2 "ok <: sequence of T [~m, k=""v""]" /\
  p0 <> ex_p (MPrim 40%positive) false (AVInt 7) 2 "ok <: sequence of T [~m, k=""v""]" /\
  p0 <> ex_p (MPrim 40%positive) true (AVInt 8) 2 "ok <: sequence of T [~m, k=""v""]" /\
  p0 <> ex_p (MPrim 40%positive) true (AVArr [AVInt 7]) 2 "ok <: sequence of T [~m, k=""v""]" /\
  p0 <> ex_p (MPrim 40%positive) true (AVInt 7) 3 "ok <: sequence of T [~m, k=""v""]" /\
  p0 <> ex_p (MPrim 40%positive) true (AVInt 7) 2 "error <: sequence of T [~m, k=""v""]" /\
  p0 <> ex_p (MPrim 40%positive) true (AVInt 7) 2 "ok <: sequence of Other.T [~m, k=""v""]" /\
  p0 <> ex_p (MPrim 40%positive) true (AVInt 7) 2 "ok <: set of T [~m, k=""v""]" /\
  p0 <> ex_p (MPrim 40%positive) true (AVInt 7) 2 "ok <: sequence of T [~n, k=""v""]" /\
  p0 <> ex_p (MPrim 40%positive) true (AVInt 7) 2 "ok <: sequence of T [~m, k=""w""]" /\
  ex_p (MRef None None [30%positive]) true (AVInt 7) 2 "ok" <> ex_p (MRef (Some [7%positive]) None [30%positive]) true (AVInt 7) 2 "ok".
Proof.
  cbv zeta. split; [eexists; split; [vm_compute; reflexivity|vm_compute; reflexivity]|].
  repeat split; vm_compute; discriminate.
Qed.
